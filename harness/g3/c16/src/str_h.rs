//! String histories: PolymorphicString over a heap allocator ("heap"), StaticString ("fixed"),
//! RelocatableString over a bump allocator ("reloc").  Fresh memory is poisoned with 0xAA.
use crate::*;
use iceoryx2_bb_container::string::{PolymorphicString, RelocatableString, StaticString, String as IoxString, StringModificationError};
use iceoryx2_bb_elementary::bump_allocator::BumpAllocator;
use iceoryx2_bb_elementary_traits::relocatable_container::RelocatableContainer;

pub struct RelocS { pub s: Box<RelocatableString>, _mem: Vec<u8> }
impl RelocS {
    pub fn new(cap: usize) -> Result<Self, String> {
        let mut mem = vec![0xAAu8; cap + 1 + 64];
        let mut s = Box::new(unsafe { RelocatableString::new_uninit(cap) });
        let alloc = BumpAllocator::new(core::ptr::NonNull::new(mem.as_mut_ptr()).unwrap(), mem.len());
        match unsafe { s.init(&alloc) } {
            Ok(()) => Ok(RelocS { s, _mem: mem }),
            Err(e) => Err(format!("{:?}", e)),
        }
    }
}

#[derive(Clone, Debug, PartialEq)]
pub enum Op {
    Push(u8), PushBytes(Vec<u8>), Insert(usize, u8), InsertBytes(usize, Vec<u8>), Pop, Remove(usize), RemoveRange(usize, usize),
    Retain(Vec<u8>), Find(Vec<u8>), Rfind(Vec<u8>), StripPrefix(Vec<u8>), StripSuffix(Vec<u8>), Truncate(usize), Clear, Bytes, Nul, Len,
}

fn fmt_res(r: Result<(), StringModificationError>) -> &'static str {
    match r { Ok(()) => "ok", Err(StringModificationError::InsertWouldExceedCapacity) => "eCap", Err(StringModificationError::InvalidCharacter) => "eChr" }
}
fn bl(b: &[u8]) -> String { if b.is_empty() { "-".into() } else { b.iter().map(|x| x.to_string()).collect::<Vec<_>>().join(",") } }
fn fmt_optu(o: Option<usize>) -> String { fmt_opt(o.map(|v| v as u64)) }

fn alphabet() -> Vec<Op> {
    vec![Op::Push(97), Op::Push(98), Op::Push(0), Op::Push(200), Op::PushBytes(vec![97, 98]), Op::Insert(0, 98), Op::InsertBytes(1, vec![98, 97]),
         Op::Insert(5, 97), Op::Pop, Op::Remove(0), Op::Remove(1), Op::RemoveRange(0, 2), Op::RemoveRange(1, 0), Op::Retain(vec![97]),
         Op::Find(vec![98]), Op::Find(vec![97, 98]), Op::Find(vec![]), Op::Rfind(vec![97]), Op::Rfind(vec![]), Op::StripPrefix(vec![97]), Op::StripPrefix(vec![]),
         Op::StripSuffix(vec![98]), Op::StripSuffix(vec![]), Op::Truncate(1), Op::Clear]
}
/// terminator histories (container name "strz"): small alphabet around the full / empty edges
fn alphabet_z() -> Vec<Op> {
    vec![Op::Push(97), Op::PushBytes(vec![97, 98]), Op::Pop, Op::RemoveRange(0, 0), Op::Truncate(0), Op::Clear, Op::Nul]
}

fn side_checks<S: IoxString>(s: &S, cap: usize) -> bool {
    s.capacity() == cap && s.is_empty() == (s.len() == 0) && s.is_full() == (s.len() == cap) && s.as_bytes().len() == s.len()
}
fn bytes_line<S: IoxString>(s: &S) -> String {
    match guarded(|| s.as_bytes().iter().map(|b| *b as u64).collect::<Vec<u64>>()) { Some(l) => format!("O bytes = {}", fmt_list(&l)), None => "O bytes = P".into() }
}

pub fn exec<S: IoxString>(s: &mut S, cap: usize, ops: &[Op], out: &mut Out) {
    for op in ops {
        let mut mutating = true;
        let line = match op {
            Op::Push(b) => match guarded(|| s.push(*b)) { Some(r) => format!("O push {} = {}", b, fmt_res(r)), None => format!("O push {} = P", b) },
            Op::PushBytes(l) => match guarded(|| s.push_bytes(l)) { Some(r) => format!("O pushb {} = {}", bl(l), fmt_res(r)), None => format!("O pushb {} = P", bl(l)) },
            Op::Insert(i, b) => match guarded(|| s.insert(*i, *b)) { Some(r) => format!("O insert {} {} = {}", i, b, fmt_res(r)), None => format!("O insert {} {} = P", i, b) },
            Op::InsertBytes(i, l) => match guarded(|| s.insert_bytes(*i, l)) { Some(r) => format!("O insertb {} {} = {}", i, bl(l), fmt_res(r)), None => format!("O insertb {} {} = P", i, bl(l)) },
            Op::Pop => match guarded(|| s.pop()) { Some(r) => format!("O pop = {}", fmt_opt(r.map(|b| b as u64))), None => "O pop = P".into() },
            Op::Remove(i) => match guarded(|| s.remove(*i)) { Some(r) => format!("O remove {} = {}", i, fmt_opt(r.map(|b| b as u64))), None => format!("O remove {} = P", i) },
            Op::RemoveRange(i, n) => match guarded(|| s.remove_range(*i, *n)) { Some(r) => format!("O remover {} {} = {}", i, n, fmt_bool(r)), None => format!("O remover {} {} = P", i, n) },
            Op::Retain(l) => match guarded(|| s.retain(|c| l.contains(&c))) { Some(()) => format!("O retain {} = ok", bl(l)), None => format!("O retain {} = P", bl(l)) },
            Op::Find(l) => { mutating = false; match guarded(|| s.find(l)) { Some(r) => format!("O find {} = {}", bl(l), fmt_optu(r)), None => format!("O find {} = P", bl(l)) } }
            Op::Rfind(l) => { mutating = false; match guarded(|| s.rfind(l)) { Some(r) => format!("O rfind {} = {}", bl(l), fmt_optu(r)), None => format!("O rfind {} = P", bl(l)) } }
            Op::StripPrefix(l) => match guarded(|| s.strip_prefix(l)) { Some(r) => format!("O stripp {} = {}", bl(l), fmt_bool(r)), None => format!("O stripp {} = P", bl(l)) },
            Op::StripSuffix(l) => match guarded(|| s.strip_suffix(l)) { Some(r) => format!("O strips {} = {}", bl(l), fmt_bool(r)), None => format!("O strips {} = P", bl(l)) },
            Op::Truncate(n) => match guarded(|| s.truncate(*n)) { Some(()) => format!("O truncate {} = ok", n), None => format!("O truncate {} = P", n) },
            Op::Clear => match guarded(|| s.clear()) { Some(()) => "O clear = ok".into(), None => "O clear = P".into() },
            Op::Bytes => { mutating = false; bytes_line(s) }
            Op::Nul => { mutating = false; match guarded(|| { let w = s.as_bytes_with_nul(); w[w.len() - 1] as u64 }) { Some(b) => format!("O nul = u{}", b), None => "O nul = P".into() } }
            Op::Len => { mutating = false; format!("O len = u{}", s.len()) }
        };
        let panicked = line.ends_with("= P");
        out.line(&line);
        if panicked { return; }
        if mutating {
            let l = bytes_line(s);
            let p = l.ends_with("= P");
            out.line(&l);
            if p { return; }
        }
        if !side_checks(s, cap) { out.line("O sidecheck = b0"); }
    }
}

macro_rules! with_fixed {
    ($cap:expr, $q:ident, $body:block) => {
        match $cap {
            1 => { let mut $q = StaticString::<1>::new(); $body }
            2 => { let mut $q = StaticString::<2>::new(); $body }
            3 => { let mut $q = StaticString::<3>::new(); $body }
            4 => { let mut $q = StaticString::<4>::new(); $body }
            5 => { let mut $q = StaticString::<5>::new(); $body }
            7 => { let mut $q = StaticString::<7>::new(); $body }
            16 => { let mut $q = StaticString::<16>::new(); $body }
            33 => { let mut $q = StaticString::<33>::new(); $body }
            _ => panic!("unsupported fixed capacity"),
        }
    };
}

pub fn run_case(flavour: &str, cap: usize, ops: &[Op], out: &mut Out) {
    out.line(&format!("C str {} u8 {}", flavour, cap));
    match flavour {
        "heap" => { let mut s = PolymorphicString::<HeapAlloc>::new(&HEAP, cap).expect("polymorphic string"); exec(&mut s, cap, ops, out); }
        "fixed" => { with_fixed!(cap, s, { exec(&mut s, cap, ops, out); }) }
        "reloc" => { let mut h = RelocS::new(cap).expect("reloc string"); exec(&mut *h.s, cap, ops, out); }
        _ => panic!("flavour"),
    }
}

pub fn observe_cap0(out: &mut Out) {
    let r = guarded(|| PolymorphicString::<HeapAlloc>::new(&HEAP, 0).map(|mut s| (s.capacity(), s.push(97), s.find(b""), s.as_bytes_with_nul().to_vec())));
    out.line(&format!("Z str heap PolymorphicString::new(alloc,0) then (capacity, push(97), find(\"\"), as_bytes_with_nul) = {:?}", r));
    let r = guarded(|| { let s = StaticString::<0>::new(); s.capacity() });
    out.line(&format!("Z str fixed StaticString::<0>::new() = {:?}", r.map(|c| c.to_string()).unwrap_or("PANIC".into())));
    let r = guarded(|| RelocS::new(0).map(|mut h| (h.s.capacity(), h.s.push(97), h.s.as_bytes_with_nul().to_vec())));
    out.line(&format!("Z str reloc RelocatableString::new_uninit(0).init(bump over 0xAA memory) then (capacity, push(97), as_bytes_with_nul) = {:?}", r));
}

fn rnd_bytes(rng: &mut Rng, maxn: u64, ascii_bias: bool) -> Vec<u8> {
    let n = rng.below(maxn + 1);
    (0..n).map(|_| if ascii_bias && rng.below(10) < 8 { 97 + rng.below(3) as u8 } else { rng.below(256) as u8 }).collect()
}

pub fn run(a: &Args, out: &mut Out, z: bool) {
    let flavours = ["heap", "fixed", "reloc"];
    if a.mode == "exh" {
        let mut idx = 0u64;
        let alpha = if z { alphabet_z() } else { alphabet() };
        for cap in 0..=4usize {
            for len in 0..=a.maxlen {
                let total = (alpha.len() as u64).pow(len as u32);
                for code in 0..total {
                    idx += 1;
                    if idx % a.nshards != a.shard { continue; }
                    let mut c = code; let mut ops = Vec::with_capacity(len);
                    for _ in 0..len { ops.push(alpha[(c % alpha.len() as u64) as usize].clone()); c /= alpha.len() as u64; }
                    for fl in flavours { if cap == 0 && fl == "fixed" { continue; } run_case(fl, cap, &ops, out); }
                }
            }
        }
        if !z {
            // every byte value 0..=255 through the byte rule, find/rfind, retain and the round trip
            for b in 0..=255u8 {
                idx += 1;
                if idx % a.nshards != a.shard { continue; }
                let ops = vec![Op::Push(97), Op::Push(b), Op::InsertBytes(0, vec![98, b]), Op::Insert(1, b), Op::Find(vec![b]), Op::Rfind(vec![b]),
                               Op::StripSuffix(vec![b]), Op::Push(b), Op::Retain(vec![b]), Op::StripPrefix(vec![b]), Op::Bytes];
                for fl in flavours { run_case(fl, 4, &ops, out); }
            }
        }
    } else {
        let caps = [0usize, 1, 2, 3, 4, 5, 7, 16, 33];
        for n in 0..a.ncases {
            if n % a.nshards != a.shard { continue; }
            let mut rng = Rng(a.seed ^ (n.wrapping_mul(0x2545F4914F6CDD1D)) ^ 0x737472);
            let cap = caps[rng.below(caps.len() as u64) as usize];
            let fl = flavours[rng.below(3) as usize];
            let fl = if cap == 0 && fl == "fixed" { "heap" } else { fl };
            let len = 1 + rng.below(a.maxlen as u64) as usize;
            let mut ops = Vec::with_capacity(len);
            let mut bias = rng.below(3);
            for i in 0..len {
                if i % 19 == 0 { bias = rng.below(3); }
                let r = rng.below(100);
                let k = rng.below(cap as u64 + 2) as usize;
                let k2 = rng.below(4) as usize;
                let byte = if rng.below(10) < 7 { 97 + rng.below(3) as u8 } else { rng.below(256) as u8 };
                let op = match bias {
                    0 => if r < 35 { Op::Push(byte) } else if r < 50 { Op::PushBytes(rnd_bytes(&mut rng, 3, true)) } else if r < 65 { Op::Insert(k, byte) }
                         else if r < 75 { Op::InsertBytes(k, rnd_bytes(&mut rng, 3, true)) } else if r < 80 { Op::Pop } else if r < 85 { Op::Find(rnd_bytes(&mut rng, 2, true)) }
                         else if r < 90 { Op::Rfind(rnd_bytes(&mut rng, 2, true)) } else if r < 95 { Op::Remove(k) } else { Op::Len },
                    1 => if r < 25 { Op::Pop } else if r < 45 { Op::Remove(k) } else if r < 60 { Op::RemoveRange(k, k2) } else if r < 68 { Op::Truncate(k) }
                         else if r < 76 { Op::StripPrefix(rnd_bytes(&mut rng, 2, true)) } else if r < 84 { Op::StripSuffix(rnd_bytes(&mut rng, 2, true)) }
                         else if r < 90 { Op::Retain(rnd_bytes(&mut rng, 2, true)) } else if r < 93 { Op::Clear } else { Op::Push(byte) },
                    _ => if r < 20 { Op::Push(byte) } else if r < 35 { Op::Insert(k, byte) } else if r < 45 { Op::Find(rnd_bytes(&mut rng, 3, true)) }
                         else if r < 55 { Op::Rfind(rnd_bytes(&mut rng, 3, true)) } else if r < 65 { Op::RemoveRange(k, k2) } else if r < 72 { Op::StripPrefix(rnd_bytes(&mut rng, 2, true)) }
                         else if r < 79 { Op::StripSuffix(rnd_bytes(&mut rng, 2, true)) } else if r < 86 { Op::Retain(rnd_bytes(&mut rng, 2, false)) }
                         else if r < 92 { Op::PushBytes(rnd_bytes(&mut rng, 4, false)) } else if r < 96 { Op::Bytes } else { Op::Truncate(k) },
                };
                let op = if z && r % 7 == 0 { Op::Nul } else { op };
                ops.push(op);
            }
            run_case(fl, cap, &ops, out);
        }
    }
}
