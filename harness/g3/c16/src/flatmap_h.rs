//! FlatMap histories: FlatMap ("heap"), FixedSizeFlatMap ("fixed"), RelocatableFlatMap ("reloc").
//! Keys log their drop as 1_000_000 + id, values as id.
use crate::*;
use iceoryx2_bb_container::flatmap::{FixedSizeFlatMap, FlatMap, FlatMapError, RelocatableFlatMap};
use iceoryx2_bb_elementary::bump_allocator::BumpAllocator;
use iceoryx2_bb_elementary::CallbackProgression;
use iceoryx2_bb_elementary_traits::relocatable_container::RelocatableContainer;

pub const KTAG: u64 = 1_000_000;
#[derive(Debug)]
pub struct KEl(pub u64);
impl PartialEq for KEl { fn eq(&self, o: &Self) -> bool { self.0 == o.0 } }
impl Eq for KEl {}
impl Drop for KEl { fn drop(&mut self) { DROPS.with(|d| d.borrow_mut().push(KTAG + self.0)); } }

pub trait F {
    fn insert(&mut self, k: KEl, v: El) -> Result<(), FlatMapError>;
    fn get(&self, k: &KEl) -> Option<El>;
    fn get_ref(&self, k: &KEl) -> Option<&El>;
    fn get_mut_ref_is_some(&mut self, k: &KEl) -> bool;
    fn remove(&mut self, k: &KEl) -> Option<El>;
    fn contains(&self, k: &KEl) -> bool;
    fn keys(&self) -> Vec<u64>;
    fn len(&self) -> usize;
    fn is_empty(&self) -> bool;
    fn is_full(&self) -> bool;
}
macro_rules! impl_f {
    ($t:ty, $($u:tt)*) => {
        fn insert(&mut self, k: KEl, v: El) -> Result<(), FlatMapError> { $($u)* { <$t>::insert(self.inner_mut(), k, v) } }
        fn get(&self, k: &KEl) -> Option<El> { $($u)* { <$t>::get(self.inner(), k) } }
        fn get_ref(&self, k: &KEl) -> Option<&El> { $($u)* { <$t>::get_ref(self.inner(), k) } }
        fn get_mut_ref_is_some(&mut self, k: &KEl) -> bool { $($u)* { <$t>::get_mut_ref(self.inner_mut(), k) }.is_some() }
        fn remove(&mut self, k: &KEl) -> Option<El> { $($u)* { <$t>::remove(self.inner_mut(), k) } }
        fn contains(&self, k: &KEl) -> bool { $($u)* { <$t>::contains(self.inner(), k) } }
        fn keys(&self) -> Vec<u64> { let mut l = Vec::new(); $($u)* { <$t>::list_keys(self.inner(), |k| { l.push(k.0); CallbackProgression::Continue }) }; l }
        fn len(&self) -> usize { <$t>::len(self.inner()) }
        fn is_empty(&self) -> bool { <$t>::is_empty(self.inner()) }
        fn is_full(&self) -> bool { <$t>::is_full(self.inner()) }
    };
}
trait Inner<T> { fn inner(&self) -> &T; fn inner_mut(&mut self) -> &mut T; }
impl Inner<FlatMap<KEl, El>> for FlatMap<KEl, El> { fn inner(&self) -> &Self { self } fn inner_mut(&mut self) -> &mut Self { self } }
impl<const C: usize> Inner<FixedSizeFlatMap<KEl, El, C>> for FixedSizeFlatMap<KEl, El, C> { fn inner(&self) -> &Self { self } fn inner_mut(&mut self) -> &mut Self { self } }
impl F for FlatMap<KEl, El> { impl_f!(FlatMap<KEl, El>, ); }
impl<const C: usize> F for FixedSizeFlatMap<KEl, El, C> { impl_f!(FixedSizeFlatMap<KEl, El, C>, ); }

pub struct RelocF { m: Box<RelocatableFlatMap<KEl, El>>, _mem: Vec<u128> }
impl RelocF {
    pub fn new(cap: usize) -> Result<Self, String> {
        let bytes = RelocatableFlatMap::<KEl, El>::const_memory_size(cap) + 256;
        let mut mem = vec![0u128; bytes / 16 + 2];
        let mut m = Box::new(unsafe { RelocatableFlatMap::<KEl, El>::new_uninit(cap) });
        let alloc = BumpAllocator::new(core::ptr::NonNull::new(mem.as_mut_ptr() as *mut u8).unwrap(), mem.len() * 16);
        match unsafe { m.init(&alloc) } {
            Ok(()) => Ok(RelocF { m, _mem: mem }),
            Err(e) => { std::mem::forget(m); Err(format!("{:?}", e)) }
        }
    }
}
impl Inner<RelocatableFlatMap<KEl, El>> for RelocF { fn inner(&self) -> &RelocatableFlatMap<KEl, El> { &self.m } fn inner_mut(&mut self) -> &mut RelocatableFlatMap<KEl, El> { &mut self.m } }
impl F for RelocF { impl_f!(RelocatableFlatMap<KEl, El>, unsafe); }

#[derive(Clone, Copy, Debug, PartialEq)]
pub enum Op { Insert(u64), Get(u64), GetRef(u64), Remove(u64), Contains(u64), Keys, Len }

fn alphabet() -> Vec<Op> {
    vec![Op::Insert(0), Op::Insert(1), Op::Insert(2), Op::Insert(5), Op::Remove(0), Op::Remove(1), Op::Remove(2), Op::Get(1), Op::GetRef(2), Op::Contains(0)]
}
fn fmt_res(r: Result<(), FlatMapError>) -> &'static str {
    match r { Ok(()) => "ok", Err(FlatMapError::KeyAlreadyExists) => "eDup", Err(FlatMapError::IsFull) => "eFull" }
}
fn keys_line(m: &dyn F) -> String {
    match guarded(|| m.keys()) { Some(l) => format!("O keys = {}", fmt_list(&l)), None => "O keys = P".into() }
}
/// a probe key owned by the harness: its own drop is not the container's business
fn probe<R>(k: u64, f: impl FnOnce(&KEl) -> R) -> R { let key = KEl(k); let r = f(&key); std::mem::forget(key); r }

pub fn exec(m: &mut dyn F, cap: usize, ops: &[Op], out: &mut Out) {
    let mut next = 1u64;
    take_drops();
    for op in ops {
        let mut mutating = true;
        let line = match *op {
            Op::Insert(k) => { let x = next; next += 1;
                match guarded(|| m.insert(KEl(k), El(x))) { Some(r) => format!("O insert {} {} = {}|{}", k, x, fmt_res(r), fmt_list(&take_drops())), None => format!("O insert {} {} = P", k, x) } }
            Op::Get(k) => { mutating = false; match guarded(|| probe(k, |key| m.get(key)).map(forget_val)) { Some(r) => format!("O get {} = {}|{}", k, fmt_opt(r), fmt_list(&take_drops())), None => format!("O get {} = P", k) } }
            Op::GetRef(k) => { mutating = false;
                match guarded(|| probe(k, |key| m.get_ref(key).map(|e| e.0))) {
                    Some(r) => { let gm = guarded(|| probe(k, |key| m.get_mut_ref_is_some(key))); if gm != Some(r.is_some()) { format!("O getref {} = ?get_mut_ref-differs", k) } else { format!("O getref {} = {}|{}", k, fmt_opt(r), fmt_list(&take_drops())) } }
                    None => format!("O getref {} = P", k) } }
            Op::Remove(k) => match guarded(|| probe(k, |key| m.remove(key)).map(forget_val)) { Some(r) => format!("O remove {} = {}|{}", k, fmt_opt(r), fmt_list(&take_drops())), None => format!("O remove {} = P", k) },
            Op::Contains(k) => { mutating = false; match guarded(|| probe(k, |key| m.contains(key))) { Some(r) => format!("O contains {} = {}", k, fmt_bool(r)), None => format!("O contains {} = P", k) } }
            Op::Keys => { mutating = false; keys_line(m) }
            Op::Len => { mutating = false; format!("O len = u{}", m.len()) }
        };
        let panicked = line.ends_with("= P");
        out.line(&line);
        if panicked { return; }
        if mutating {
            let l = keys_line(m);
            let p = l.ends_with("= P");
            out.line(&l);
            if p { return; }
            out.line(&format!("O len = u{}", m.len()));
        }
        if !(m.is_empty() == (m.len() == 0) && m.is_full() == (m.len() == cap)) { out.line("O sidecheck = b0"); }
    }
}

fn emit_drop(r: Option<()>, out: &mut Out) {
    match r { Some(()) => out.line(&format!("O drop = ok|{}", fmt_list(&take_drops()))), None => out.line("O drop = P") }
}

macro_rules! with_fixed {
    ($cap:expr, $q:ident, $body:block) => {
        match $cap {
            1 => { let mut $q = FixedSizeFlatMap::<KEl, El, 1>::new(); $body }
            2 => { let mut $q = FixedSizeFlatMap::<KEl, El, 2>::new(); $body }
            3 => { let mut $q = FixedSizeFlatMap::<KEl, El, 3>::new(); $body }
            4 => { let mut $q = FixedSizeFlatMap::<KEl, El, 4>::new(); $body }
            5 => { let mut $q = FixedSizeFlatMap::<KEl, El, 5>::new(); $body }
            7 => { let mut $q = FixedSizeFlatMap::<KEl, El, 7>::new(); $body }
            16 => { let mut $q = FixedSizeFlatMap::<KEl, El, 16>::new(); $body }
            33 => { let mut $q = FixedSizeFlatMap::<KEl, El, 33>::new(); $body }
            _ => panic!("unsupported fixed capacity"),
        }
    };
}

pub fn run_case(flavour: &str, cap: usize, ops: &[Op], out: &mut Out) {
    out.line(&format!("C flatmap {} el {}", flavour, cap));
    match flavour {
        "heap" => { let mut m = FlatMap::<KEl, El>::new(cap); exec(&mut m, cap, ops, out); take_drops(); let r = guarded(move || drop(m)); emit_drop(r, out); }
        "fixed" => { with_fixed!(cap, m, { exec(&mut m, cap, ops, out); take_drops(); let r = guarded(move || drop(m)); emit_drop(r, out); }) }
        "reloc" => { let mut m = RelocF::new(cap).expect("reloc flatmap"); exec(&mut m, cap, ops, out); take_drops(); let r = guarded(move || drop(m)); emit_drop(r, out); }
        _ => panic!("flavour"),
    }
}

pub fn observe_cap0(out: &mut Out) {
    let r = guarded(|| { let m = FlatMap::<KEl, El>::new(0); (m.len(), m.is_full()) });
    out.line(&format!("Z flatmap heap FlatMap::new(0) then (len, is_full) = {:?}", r));
    let r = guarded(|| { let mut m = FlatMap::<KEl, El>::new(0); m.insert(KEl(1), El(1)) });
    take_drops();
    out.line(&format!("Z flatmap heap FlatMap::new(0).insert(k, v) = {}", match r { Some(x) => format!("{:?}", x), None => "PANIC".into() }));
    let r = guarded(|| { let m = FixedSizeFlatMap::<KEl, El, 0>::new(); m.len() });
    out.line(&format!("Z flatmap fixed FixedSizeFlatMap::<K,V,0>::new() = {}", match r { Some(x) => format!("{:?}", x), None => "PANIC".into() }));
    let r = guarded(|| RelocF::new(0).map(|m| m.len()));
    out.line(&format!("Z flatmap reloc RelocatableFlatMap::new_uninit(0).init(bump) = {:?}", r));
}

pub fn run(a: &Args, out: &mut Out) {
    let flavours = ["heap", "fixed", "reloc"];
    if a.mode == "exh" {
        let mut idx = 0u64;
        let alpha = alphabet();
        for cap in 0..=4usize {
            for len in 0..=a.maxlen {
                let total = (alpha.len() as u64).pow(len as u32);
                for code in 0..total {
                    idx += 1;
                    if idx % a.nshards != a.shard { continue; }
                    let mut c = code; let mut ops = Vec::with_capacity(len);
                    for _ in 0..len { ops.push(alpha[(c % alpha.len() as u64) as usize]); c /= alpha.len() as u64; }
                    for fl in flavours { if cap == 0 && fl != "heap" { continue; } run_case(fl, cap, &ops, out); }
                }
            }
        }
    } else {
        let caps = [0usize, 1, 2, 3, 4, 5, 7, 16, 33];
        for n in 0..a.ncases {
            if n % a.nshards != a.shard { continue; }
            let mut rng = Rng(a.seed ^ (n.wrapping_mul(0x2545F4914F6CDD1D)) ^ 0x666d);
            let cap = caps[rng.below(caps.len() as u64) as usize];
            let fl = if cap == 0 { "heap" } else { flavours[rng.below(3) as usize] };
            let len = 1 + rng.below(a.maxlen as u64) as usize;
            let nkeys = cap as u64 + 3;
            let mut ops = Vec::with_capacity(len);
            let mut bias = rng.below(3);
            for i in 0..len {
                if i % 31 == 0 { bias = rng.below(3); }
                let r = rng.below(100);
                let k = rng.below(nkeys);
                let op = match bias {
                    0 => if r < 55 { Op::Insert(k) } else if r < 70 { Op::Remove(k) } else if r < 80 { Op::Get(k) } else if r < 90 { Op::Contains(k) } else { Op::GetRef(k) },
                    1 => if r < 55 { Op::Remove(k) } else if r < 75 { Op::Insert(k) } else if r < 85 { Op::GetRef(k) } else if r < 95 { Op::Contains(k) } else { Op::Keys },
                    _ => if r < 35 { Op::Insert(k) } else if r < 70 { Op::Remove(k) } else if r < 85 { Op::Get(k) } else if r < 95 { Op::Len } else { Op::Keys },
                };
                ops.push(op);
            }
            run_case(fl, cap, &ops, out);
        }
    }
}
