//! Vector histories: PolymorphicVec over a heap allocator ("heap"), StaticVec ("fixed"),
//! RelocatableVec over a bump allocator ("reloc").  All three share the Vector<T> trait code.
use crate::*;
use iceoryx2_bb_container::vector::{PolymorphicVec, RelocatableVec, StaticVec, Vector, VectorModificationError};
use iceoryx2_bb_elementary::bump_allocator::BumpAllocator;
use iceoryx2_bb_elementary_traits::relocatable_container::RelocatableContainer;

pub struct RelocV<T> { pub v: Box<RelocatableVec<T>>, _mem: Vec<u128> }
impl<T> RelocV<T> {
    pub fn new(cap: usize) -> Result<Self, String> {
        let bytes = RelocatableVec::<T>::const_memory_size(cap) + 64;
        let mut mem = vec![0u128; bytes / 16 + 2];
        let mut v = Box::new(unsafe { RelocatableVec::<T>::new_uninit(cap) });
        let alloc = BumpAllocator::new(core::ptr::NonNull::new(mem.as_mut_ptr() as *mut u8).unwrap(), mem.len() * 16);
        match unsafe { v.init(&alloc) } {
            Ok(()) => Ok(RelocV { v, _mem: mem }),
            Err(e) => { std::mem::forget(v); Err(format!("{:?}", e)) }
        }
    }
}

#[derive(Clone, Copy, Debug, PartialEq)]
pub enum Op { Push, Pop, Insert(usize), Remove(usize), Clear, Truncate(usize), Resize(usize), Extend(usize), Len, Slice }

fn fmt_res(r: Result<(), VectorModificationError>) -> &'static str {
    match r { Ok(()) => "ok", Err(VectorModificationError::InsertWouldExceedCapacity) => "eCap", Err(VectorModificationError::OutOfBounds) => "eOob" }
}

fn alphabet(cap: usize) -> Vec<Op> {
    vec![Op::Push, Op::Pop, Op::Insert(0), Op::Insert(1), Op::Insert(3), Op::Remove(0), Op::Remove(1), Op::Clear,
         Op::Truncate(1), Op::Resize(2), Op::Resize(cap + 1), Op::Extend(2)]
}

fn side_checks<VV: Vector<El>>(v: &VV, cap: usize) -> bool {
    v.capacity() == cap && v.is_empty() == (v.len() == 0) && v.is_full() == (v.len() == cap) && v.as_slice().len() == v.len()
        && v.iter().count() == v.len()
}

fn slice_line<VV: Vector<El>>(v: &VV) -> String {
    match guarded(|| v.as_slice().iter().map(|e| e.0).collect::<Vec<u64>>()) { Some(l) => format!("O slice = {}", fmt_list(&l)), None => "O slice = P".into() }
}

/// returns false when the case died (panic)
pub fn exec<VV: Vector<El>>(v: &mut VV, cap: usize, ops: &[Op], out: &mut Out) -> bool {
    let mut next = 1u64;
    take_drops();
    for op in ops {
        let mut mutating = true;
        let line = match *op {
            Op::Push => { let x = next; next += 1;
                match guarded(|| v.push(El(x))) { Some(r) => format!("O push {} = {}|{}", x, fmt_res(r), fmt_list(&take_drops())), None => format!("O push {} = P", x) } }
            Op::Pop => match guarded(|| v.pop().map(forget_val)) { Some(r) => format!("O pop = {}|{}", fmt_opt(r), fmt_list(&take_drops())), None => "O pop = P".into() },
            Op::Insert(i) => { let x = next; next += 1;
                match guarded(|| v.insert(i, El(x))) { Some(r) => format!("O insert {} {} = {}|{}", i, x, fmt_res(r), fmt_list(&take_drops())), None => format!("O insert {} {} = P", i, x) } }
            Op::Remove(i) => match guarded(|| v.remove(i).map(forget_val)) { Some(r) => format!("O remove {} = {}|{}", i, fmt_opt(r), fmt_list(&take_drops())), None => format!("O remove {} = P", i) },
            Op::Clear => match guarded(|| v.clear()) { Some(()) => format!("O clear = ok|{}", fmt_list(&take_drops())), None => "O clear = P".into() },
            Op::Truncate(n) => match guarded(|| v.truncate(n)) { Some(()) => format!("O truncate {} = ok|{}", n, fmt_list(&take_drops())), None => format!("O truncate {} = P", n) },
            Op::Resize(n) => { let x = next; next += 1;
                match guarded(|| v.resize(n, El(x))) { Some(r) => format!("O resize {} {} = {}|{}", n, x, fmt_res(r), fmt_list(&take_drops())), None => format!("O resize {} {} = P", n, x) } }
            Op::Extend(k) => {
                let src: Vec<El> = (0..k).map(|_| { let x = next; next += 1; El(x) }).collect();
                let ids: Vec<u64> = src.iter().map(|e| e.0).collect();
                let r = guarded(|| v.extend_from_slice(&src));
                let d = take_drops();
                for e in src { std::mem::forget(e); } // the source slice stays with the caller
                let a = if ids.is_empty() { "-".to_string() } else { ids.iter().map(|x| x.to_string()).collect::<Vec<_>>().join(",") };
                match r { Some(r) => format!("O extend {} = {}|{}", a, fmt_res(r), fmt_list(&d)), None => format!("O extend {} = P", a) } }
            Op::Len => { mutating = false; format!("O len = u{}", v.len()) }
            Op::Slice => { mutating = false; slice_line(v) }
        };
        let panicked = line.ends_with("= P");
        out.line(&line);
        if panicked { return false; }
        if mutating {
            // the whole content is observed after every mutating call
            let s = slice_line(v);
            let p = s.ends_with("= P");
            out.line(&s);
            if p { return false; }
        }
        if !side_checks(v, cap) { out.line("O sidecheck = b0"); }
    }
    true
}

fn emit_drop(r: Option<()>, out: &mut Out) {
    match r { Some(()) => out.line(&format!("O drop = ok|{}", fmt_list(&take_drops()))), None => out.line("O drop = P") }
}

macro_rules! with_fixed {
    ($cap:expr, $q:ident, $body:block) => {
        match $cap {
            0 => { let mut $q = StaticVec::<El, 0>::new(); $body }
            1 => { let mut $q = StaticVec::<El, 1>::new(); $body }
            2 => { let mut $q = StaticVec::<El, 2>::new(); $body }
            3 => { let mut $q = StaticVec::<El, 3>::new(); $body }
            4 => { let mut $q = StaticVec::<El, 4>::new(); $body }
            5 => { let mut $q = StaticVec::<El, 5>::new(); $body }
            7 => { let mut $q = StaticVec::<El, 7>::new(); $body }
            16 => { let mut $q = StaticVec::<El, 16>::new(); $body }
            33 => { let mut $q = StaticVec::<El, 33>::new(); $body }
            _ => panic!("unsupported fixed capacity"),
        }
    };
}

pub fn run_case(flavour: &str, cap: usize, ops: &[Op], out: &mut Out) {
    out.line(&format!("C vec {} el {}", flavour, cap));
    match flavour {
        "heap" => { let mut v = PolymorphicVec::<El, HeapAlloc>::new(&HEAP, cap).expect("polymorphic vec"); exec(&mut v, cap, ops, out); take_drops(); let r = guarded(move || drop(v)); emit_drop(r, out); }
        "fixed" => { with_fixed!(cap, v, { exec(&mut v, cap, ops, out); take_drops(); let r = guarded(move || drop(v)); emit_drop(r, out); }) }
        "reloc" => { let mut h = RelocV::<El>::new(cap).expect("reloc vec"); exec(&mut *h.v, cap, ops, out); take_drops(); let r = guarded(move || drop(h)); emit_drop(r, out); }
        _ => panic!("flavour"),
    }
}

/// what construction with capacity 0 does, per flavour (one observation each)
pub fn observe_cap0(out: &mut Out) {
    let r = guarded(|| PolymorphicVec::<El, HeapAlloc>::new(&HEAP, 0).map(|v| v.capacity()));
    out.line(&format!("Z vec heap PolymorphicVec::new(alloc,0) = {:?}", r));
    let r = guarded(|| { let v = StaticVec::<El, 0>::new(); v.capacity() });
    out.line(&format!("Z vec fixed StaticVec::<T,0>::new() = {:?}", r));
    let r = guarded(|| RelocV::<El>::new(0).map(|h| h.v.capacity()));
    out.line(&format!("Z vec reloc RelocatableVec::new_uninit(0).init(bump) = {:?}", r));
}

pub fn run(a: &Args, out: &mut Out) {
    let flavours = ["heap", "fixed", "reloc"];
    if a.mode == "exh" {
        let mut idx = 0u64;
        for cap in 0..=4usize {
            let alpha = alphabet(cap);
            for len in 0..=a.maxlen {
                let total = (alpha.len() as u64).pow(len as u32);
                for code in 0..total {
                    idx += 1;
                    if idx % a.nshards != a.shard { continue; }
                    let mut c = code; let mut ops = Vec::with_capacity(len);
                    for _ in 0..len { ops.push(alpha[(c % alpha.len() as u64) as usize]); c /= alpha.len() as u64; }
                    for fl in flavours { if cap == 0 && fl == "reloc" { continue; } run_case(fl, cap, &ops, out); }
                }
            }
        }
    } else {
        let caps = [0usize, 1, 2, 3, 4, 5, 7, 16, 33];
        for n in 0..a.ncases {
            if n % a.nshards != a.shard { continue; }
            let mut rng = Rng(a.seed ^ (n.wrapping_mul(0x2545F4914F6CDD1D)) ^ 0x7665);
            let cap = caps[rng.below(caps.len() as u64) as usize];
            let fl = flavours[rng.below(3) as usize];
            let fl = if cap == 0 && fl == "reloc" { "heap" } else { fl };
            let len = 1 + rng.below(a.maxlen as u64) as usize;
            let mut ops = Vec::with_capacity(len);
            let mut bias = rng.below(3);
            for i in 0..len {
                if i % 23 == 0 { bias = rng.below(3); }
                let r = rng.below(100);
                let k = rng.below(cap as u64 + 2) as usize;
                let op = match bias {
                    0 => if r < 35 { Op::Push } else if r < 60 { Op::Insert(k) } else if r < 70 { Op::Extend(rng.below(4) as usize) } else if r < 80 { Op::Remove(k) } else if r < 90 { Op::Pop } else if r < 95 { Op::Resize(k) } else { Op::Len },
                    1 => if r < 35 { Op::Pop } else if r < 65 { Op::Remove(k) } else if r < 75 { Op::Truncate(k) } else if r < 85 { Op::Push } else if r < 92 { Op::Insert(k) } else if r < 96 { Op::Clear } else { Op::Slice },
                    _ => if r < 25 { Op::Insert(k) } else if r < 50 { Op::Remove(k) } else if r < 60 { Op::Resize(k) } else if r < 70 { Op::Truncate(k) } else if r < 80 { Op::Extend(rng.below(5) as usize) } else if r < 90 { Op::Push } else { Op::Pop },
                };
                ops.push(op);
            }
            run_case(fl, cap, &ops, out);
        }
    }
}
