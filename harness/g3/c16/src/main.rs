//! G3 correspondence harness for C16: runs operation histories against the real containers
//! (heap-backed, inline fixed-size, relocatable) and prints one observation per operation.
//! usage: c16 <mode> <container> <maxlen> <shard> <nshards> <seed> [ncases]
//!   mode = exh | rnd
extern crate iceoryx2_bb_loggers;

use std::cell::RefCell;
use std::io::Write;
use std::panic::{catch_unwind, AssertUnwindSafe};

mod queue_h;
mod vec_h;
mod str_h;
mod slotmap_h;
mod flatmap_h;
mod option_h;

use core::alloc::Layout;
use core::ptr::NonNull;
use iceoryx2_bb_elementary_traits::allocator::{Allocate, AllocationError, Deallocate};

/// heap allocator for the Polymorphic* containers (zero-sized requests get a dangling pointer)
pub struct HeapAlloc;
pub static HEAP: HeapAlloc = HeapAlloc;
impl Allocate<NonNull<u8>> for HeapAlloc {
    fn allocate(&self, layout: Layout) -> Result<NonNull<u8>, AllocationError> {
        if layout.size() == 0 { return Ok(unsafe { NonNull::new_unchecked(layout.align() as *mut u8) }); }
        let p = unsafe { std::alloc::alloc(layout) };
        if !p.is_null() { unsafe { core::ptr::write_bytes(p, 0xAA, layout.size()) }; } // fresh memory is not zeroed
        NonNull::new(p).ok_or(AllocationError::OutOfMemory)
    }
}
impl Deallocate<NonNull<u8>> for HeapAlloc {
    unsafe fn deallocate(&self, ptr: NonNull<u8>, layout: Layout) {
        if layout.size() != 0 { unsafe { std::alloc::dealloc(ptr.as_ptr(), layout) } }
    }
}

thread_local! {
    pub static DROPS: RefCell<Vec<u64>> = RefCell::new(Vec::new());
}

#[derive(Debug)]
pub struct El(pub u64);
/// a clone carries the same id: the drop log is compared as a list with multiplicities
impl Clone for El { fn clone(&self) -> Self { El(self.0) } }
impl Drop for El {
    fn drop(&mut self) {
        DROPS.with(|d| d.borrow_mut().push(self.0));
    }
}
pub fn take_drops() -> Vec<u64> {
    DROPS.with(|d| std::mem::take(&mut *d.borrow_mut()))
}
/// value handed back to the caller: not a drop by the container
pub fn forget_val(e: El) -> u64 {
    let v = e.0;
    std::mem::forget(e);
    v
}

pub struct Rng(pub u64);
impl Rng {
    pub fn next(&mut self) -> u64 {
        self.0 = self.0.wrapping_add(0x9E3779B97F4A7C15);
        let mut z = self.0;
        z = (z ^ (z >> 30)).wrapping_mul(0xBF58476D1CE4E5B9);
        z = (z ^ (z >> 27)).wrapping_mul(0x94D049BB133111EB);
        z ^ (z >> 31)
    }
    pub fn below(&mut self, n: u64) -> u64 {
        if n == 0 { 0 } else { self.next() % n }
    }
}

pub fn fmt_opt(o: Option<u64>) -> String {
    match o { None => "n".into(), Some(v) => format!("s{}", v) }
}
pub fn fmt_list(l: &[u64]) -> String {
    let mut s = String::from("l");
    for (i, v) in l.iter().enumerate() {
        if i > 0 { s.push(','); }
        s.push_str(&v.to_string());
    }
    s
}
pub fn fmt_bool(b: bool) -> String { if b { "b1".into() } else { "b0".into() } }

/// run f, map a panic to None
pub fn guarded<R>(f: impl FnOnce() -> R) -> Option<R> {
    catch_unwind(AssertUnwindSafe(f)).ok()
}

pub struct Out { pub w: std::io::BufWriter<std::io::Stdout> }
impl Out {
    pub fn line(&mut self, s: &str) { let _ = self.w.write_all(s.as_bytes()); let _ = self.w.write_all(b"\n"); }
}

pub struct Args { pub mode: String, pub maxlen: usize, pub shard: u64, pub nshards: u64, pub seed: u64, pub ncases: u64 }

fn main() {
    if std::env::var("VERIF_PANIC_VERBOSE").is_err() { std::panic::set_hook(Box::new(|_| {})); }
    iceoryx2_log::set_log_level(iceoryx2_log::LogLevel::Fatal);
    let a: Vec<String> = std::env::args().collect();
    if a.len() < 7 { eprintln!("usage: c16 <exh|rnd> <container> <maxlen> <shard> <nshards> <seed> [ncases]"); std::process::exit(2); }
    let args = Args { mode: a[1].clone(), maxlen: a[3].parse().unwrap(), shard: a[4].parse().unwrap(), nshards: a[5].parse().unwrap(),
        seed: a[6].parse().unwrap(), ncases: a.get(7).map(|s| s.parse().unwrap()).unwrap_or(100) };
    let mut out = Out { w: std::io::BufWriter::with_capacity(1 << 20, std::io::stdout()) };
    match a[2].as_str() {
        "queue" => queue_h::run(&args, &mut out),
        "vec" => vec_h::run(&args, &mut out),
        "str" => str_h::run(&args, &mut out, false),
        "strz" => str_h::run(&args, &mut out, true),
        "slotmap" => slotmap_h::run(&args, &mut out),
        "flatmap" => flatmap_h::run(&args, &mut out),
        "option" => option_h::run(&args, &mut out),
        "cap0" => { queue_h::observe_cap0(&mut out); flatmap_h::observe_cap0(&mut out); vec_h::observe_cap0(&mut out); str_h::observe_cap0(&mut out); slotmap_h::observe_cap0(&mut out); }
        c => { eprintln!("unknown container {}", c); std::process::exit(2); }
    }
    let _ = out.w.flush();
}
