use crate::*;
use iceoryx2_bb_container::queue::{FixedSizeQueue, Queue, RelocatableQueue};
use iceoryx2_bb_elementary::bump_allocator::BumpAllocator;
use iceoryx2_bb_elementary_traits::relocatable_container::RelocatableContainer;

pub trait Q<T> {
    fn push(&mut self, v: T) -> bool;
    fn pusho(&mut self, v: T) -> Option<T>;
    fn pop(&mut self) -> Option<T>;
    fn peekv(&self) -> Option<&T>;
    fn clear(&mut self);
    fn len(&self) -> usize;
    fn is_empty(&self) -> bool;
    fn is_full(&self) -> bool;
    fn capacity(&self) -> usize;
}
pub trait QGet { fn getv(&self, i: usize) -> u64; }

impl<T> Q<T> for Queue<T> {
    fn push(&mut self, v: T) -> bool { Queue::push(self, v) }
    fn pusho(&mut self, v: T) -> Option<T> { Queue::push_with_overflow(self, v) }
    fn pop(&mut self) -> Option<T> { Queue::pop(self) }
    fn peekv(&self) -> Option<&T> { Queue::peek(self) }
    fn clear(&mut self) { Queue::clear(self) }
    fn len(&self) -> usize { self.len() }
    fn is_empty(&self) -> bool { self.is_empty() }
    fn is_full(&self) -> bool { self.is_full() }
    fn capacity(&self) -> usize { self.capacity() }
}
impl QGet for Queue<u64> { fn getv(&self, i: usize) -> u64 { self.get(i) } }

impl<T, const C: usize> Q<T> for FixedSizeQueue<T, C> {
    fn push(&mut self, v: T) -> bool { FixedSizeQueue::push(self, v) }
    fn pusho(&mut self, v: T) -> Option<T> { FixedSizeQueue::push_with_overflow(self, v) }
    fn pop(&mut self) -> Option<T> { FixedSizeQueue::pop(self) }
    fn peekv(&self) -> Option<&T> { FixedSizeQueue::peek(self) }
    fn clear(&mut self) { FixedSizeQueue::clear(self) }
    fn len(&self) -> usize { FixedSizeQueue::len(self) }
    fn is_empty(&self) -> bool { FixedSizeQueue::is_empty(self) }
    fn is_full(&self) -> bool { FixedSizeQueue::is_full(self) }
    fn capacity(&self) -> usize { FixedSizeQueue::capacity(self) }
}
impl<const C: usize> QGet for FixedSizeQueue<u64, C> { fn getv(&self, i: usize) -> u64 { self.get(i) } }

/// relocatable queue living in a heap block that also holds its payload
pub struct Reloc<T> { q: Box<RelocatableQueue<T>>, _mem: Vec<u128> }
impl<T> Reloc<T> {
    pub fn new(cap: usize) -> Self {
        let bytes = RelocatableQueue::<T>::const_memory_size(cap) + 64;
        let mut mem = vec![0u128; bytes / 16 + 2];
        let mut q = Box::new(unsafe { RelocatableQueue::<T>::new_uninit(cap) });
        let alloc = BumpAllocator::new(core::ptr::NonNull::new(mem.as_mut_ptr() as *mut u8).unwrap(), mem.len() * 16);
        unsafe { q.init(&alloc).expect("reloc queue init") };
        Reloc { q, _mem: mem }
    }
}
impl<T> Q<T> for Reloc<T> {
    fn push(&mut self, v: T) -> bool { unsafe { self.q.push(v) } }
    fn pusho(&mut self, v: T) -> Option<T> { unsafe { self.q.push_with_overflow(v) } }
    fn pop(&mut self) -> Option<T> { unsafe { self.q.pop() } }
    fn peekv(&self) -> Option<&T> { self.q.peek() }
    fn clear(&mut self) { unsafe { self.q.clear() } }
    fn len(&self) -> usize { self.q.len() }
    fn is_empty(&self) -> bool { self.q.is_empty() }
    fn is_full(&self) -> bool { self.q.is_full() }
    fn capacity(&self) -> usize { self.q.capacity() }
}
impl QGet for Reloc<u64> { fn getv(&self, i: usize) -> u64 { self.q.get(i) } }

#[derive(Clone, Copy, Debug, PartialEq)]
pub enum Op { Push, PushO, Pop, Peek, Get(usize), Clear, Len }

fn alphabet(elkind: &str, cap: usize) -> Vec<Op> {
    let mut v = vec![Op::Push, Op::PushO, Op::Pop, Op::Peek, Op::Len];
    if elkind == "el" { v.push(Op::Clear); } else {
        v.push(Op::Get(0)); v.push(Op::Get(1));
        if cap >= 2 { v.push(Op::Get(cap)); }
    }
    v
}

/// consistency of the cheap accessors with len (the model only carries len)
fn side_checks<T>(q: &dyn Q<T>, cap: usize) -> bool {
    q.capacity() == cap && q.is_empty() == (q.len() == 0) && q.is_full() == (q.len() == cap)
}

fn run_el(q: &mut dyn Q<El>, cap: usize, ops: &[Op], out: &mut Out) {
    let mut next = 1u64;
    take_drops();
    for op in ops {
        let line = match *op {
            Op::Push => { let v = next; next += 1;
                match guarded(|| q.push(El(v))) { Some(b) => { let d = take_drops(); if !b && d != vec![v] { format!("O push {} = ?rejected-not-dropped", v) } else { format!("O push {} = {}", v, fmt_bool(b)) } } None => format!("O push {} = P", v) } }
            Op::PushO => { let v = next; next += 1;
                match guarded(|| q.pusho(El(v)).map(forget_val)) { Some(r) => format!("O pusho {} = {}", v, fmt_opt(r)), None => format!("O pusho {} = P", v) } }
            Op::Pop => match guarded(|| q.pop().map(forget_val)) { Some(r) => format!("O pop = {}", fmt_opt(r)), None => "O pop = P".into() },
            Op::Peek => match guarded(|| q.peekv().map(|e| e.0)) { Some(r) => format!("O peek = {}", fmt_opt(r)), None => "O peek = P".into() },
            Op::Len => match guarded(|| q.len() as u64) { Some(r) => format!("O len = u{}", r), None => "O len = P".into() },
            Op::Clear => match guarded(|| q.clear()) { Some(()) => format!("O clear = {}", fmt_list(&take_drops())), None => "O clear = P".into() },
            Op::Get(_) => unreachable!(),
        };
        let stray = take_drops();
        let panicked = line.ends_with("= P");
        out.line(&line);
        if !stray.is_empty() { out.line(&format!("O stray = {}", fmt_list(&stray))); }
        if !panicked && !side_checks(q, cap) { out.line("O sidecheck = b0"); }
        if panicked { return; }
    }
}

fn run_u64<QQ: Q<u64> + QGet>(q: &mut QQ, cap: usize, ops: &[Op], out: &mut Out) {
    let mut next = 1u64;
    for op in ops {
        let line = match *op {
            Op::Push => { let v = next; next += 1; match guarded(|| q.push(v)) { Some(b) => format!("O push {} = {}", v, fmt_bool(b)), None => format!("O push {} = P", v) } }
            Op::PushO => { let v = next; next += 1; match guarded(|| q.pusho(v)) { Some(r) => format!("O pusho {} = {}", v, fmt_opt(r)), None => format!("O pusho {} = P", v) } }
            Op::Pop => match guarded(|| q.pop()) { Some(r) => format!("O pop = {}", fmt_opt(r)), None => "O pop = P".into() },
            Op::Peek => match guarded(|| q.peekv().copied()) { Some(r) => format!("O peek = {}", fmt_opt(r)), None => "O peek = P".into() },
            Op::Len => format!("O len = u{}", q.len()),
            Op::Get(i) => match guarded(|| q.getv(i)) { Some(r) => format!("O get {} = u{}", i, r), None => format!("O get {} = P", i) },
            Op::Clear => unreachable!(),
        };
        let panicked = line.ends_with("= P");
        out.line(&line);
        if !panicked && !side_checks(q, cap) { out.line("O sidecheck = b0"); }
        if panicked { return; }
    }
}

macro_rules! with_fixed {
    ($cap:expr, $t:ty, $q:ident, $body:block) => {
        match $cap {
            0 => { let mut $q = FixedSizeQueue::<$t, 0>::new(); $body }
            1 => { let mut $q = FixedSizeQueue::<$t, 1>::new(); $body }
            2 => { let mut $q = FixedSizeQueue::<$t, 2>::new(); $body }
            3 => { let mut $q = FixedSizeQueue::<$t, 3>::new(); $body }
            4 => { let mut $q = FixedSizeQueue::<$t, 4>::new(); $body }
            5 => { let mut $q = FixedSizeQueue::<$t, 5>::new(); $body }
            7 => { let mut $q = FixedSizeQueue::<$t, 7>::new(); $body }
            16 => { let mut $q = FixedSizeQueue::<$t, 16>::new(); $body }
            33 => { let mut $q = FixedSizeQueue::<$t, 33>::new(); $body }
            _ => panic!("unsupported fixed capacity"),
        }
    };
}

fn run_case(flavour: &str, elkind: &str, cap: usize, ops: &[Op], out: &mut Out) {
    out.line(&format!("C queue {} {} {}", flavour, elkind, cap));
    if elkind == "el" {
        match flavour {
            "heap" => { let mut q = Queue::<El>::new(cap); run_el(&mut q, cap, ops, out); take_drops(); let r = guarded(move || drop(q)); emit_drop(r, out); }
            "fixed" => { with_fixed!(cap, El, q, { run_el(&mut q, cap, ops, out); take_drops(); let r = guarded(move || drop(q)); emit_drop(r, out); }) }
            "reloc" => { let mut q = Reloc::<El>::new(cap); run_el(&mut q, cap, ops, out); take_drops(); let r = guarded(move || drop(q)); emit_drop(r, out); }
            _ => panic!("flavour"),
        }
    } else {
        match flavour {
            "heap" => { let mut q = Queue::<u64>::new(cap); run_u64(&mut q, cap, ops, out); }
            "fixed" => { with_fixed!(cap, u64, q, { run_u64(&mut q, cap, ops, out); }) }
            "reloc" => { let mut q = Reloc::<u64>::new(cap); run_u64(&mut q, cap, ops, out); }
            _ => panic!("flavour"),
        }
    }
}

fn emit_drop(r: Option<()>, out: &mut Out) {
    match r { Some(()) => out.line(&format!("O drop = {}", fmt_list(&take_drops()))), None => out.line("O drop = P") }
}

/// what construction with capacity 0 does, per flavour
pub fn observe_cap0(out: &mut Out) {
    let r = guarded(|| { let q = Queue::<El>::new(0); (q.capacity(), q.is_full(), q.is_empty()) });
    out.line(&format!("Z queue heap Queue::new(0) then (capacity, is_full, is_empty) = {:?}", r));
    let r = guarded(|| { let q = FixedSizeQueue::<El, 0>::new(); q.capacity() });
    out.line(&format!("Z queue fixed FixedSizeQueue::<T,0>::new() = {}", match r { Some(x) => format!("{:?}", x), None => "PANIC".into() }));
    let r = guarded(|| {
        let mut mem = vec![0u128; 8];
        let mut q = Box::new(unsafe { RelocatableQueue::<El>::new_uninit(0) });
        let alloc = BumpAllocator::new(core::ptr::NonNull::new(mem.as_mut_ptr() as *mut u8).unwrap(), mem.len() * 16);
        let r = unsafe { q.init(&alloc) }.map_err(|e| format!("{:?}", e));
        std::mem::forget(q);
        r
    });
    out.line(&format!("Z queue reloc RelocatableQueue::new_uninit(0).init(bump) = {:?}", r));
}

pub fn run(a: &Args, out: &mut Out) {
    let flavours = ["heap", "fixed", "reloc"];
    let kinds = ["el", "u64"];
    if a.mode == "exh" {
        let mut idx = 0u64;
        for cap in 0..=4usize {
            for kind in kinds {
                let alpha = alphabet(kind, cap);
                for len in 0..=a.maxlen {
                    let total = (alpha.len() as u64).pow(len as u32);
                    for code in 0..total {
                        idx += 1;
                        if idx % a.nshards != a.shard { continue; }
                        let mut c = code; let mut ops = Vec::with_capacity(len);
                        for _ in 0..len { ops.push(alpha[(c % alpha.len() as u64) as usize]); c /= alpha.len() as u64; }
                        for fl in flavours { if cap == 0 && fl != "heap" { continue; } run_case(fl, kind, cap, &ops, out); }
                    }
                }
            }
        }
    } else {
        let caps = [0usize, 1, 2, 3, 4, 5, 7, 16, 33];
        for n in 0..a.ncases {
            if n % a.nshards != a.shard { continue; }
            let mut rng = Rng(a.seed ^ (n.wrapping_mul(0x2545F4914F6CDD1D)));
            let cap = caps[rng.below(caps.len() as u64) as usize];
            let kind = kinds[rng.below(2) as usize];
            let fl = if cap == 0 { "heap" } else { flavours[rng.below(3) as usize] };
            let len = 1 + rng.below(a.maxlen as u64) as usize;
            // phases biased to fill / drain so that wrap-around and full/empty edges are hit often
            let mut ops = Vec::with_capacity(len);
            let mut bias = rng.below(3);
            for i in 0..len {
                if i % 17 == 0 { bias = rng.below(3); }
                let r = rng.below(100);
                let op = match bias {
                    0 => if r < 55 { Op::Push } else if r < 70 { Op::PushO } else if r < 85 { Op::Pop } else { Op::Peek },
                    1 => if r < 60 { Op::Pop } else if r < 75 { Op::Push } else if r < 85 { Op::PushO } else { Op::Len },
                    _ => if r < 50 { Op::PushO } else if r < 70 { Op::Pop } else if r < 85 { Op::Push } else { Op::Peek },
                };
                let op = if r >= 93 { if kind == "el" { if r >= 98 { Op::Clear } else { Op::Len } } else { Op::Get(rng.below(cap as u64 + 2) as usize) } } else { op };
                ops.push(op);
            }
            run_case(fl, kind, cap, &ops, out);
        }
    }
}
