//! SlotMap histories: SlotMap ("heap"), FixedSizeSlotMap ("fixed"), RelocatableSlotMap ("reloc").
use crate::*;
use iceoryx2_bb_container::slotmap::{FixedSizeSlotMap, RelocatableSlotMap, SlotMap, SlotMapKey};
use iceoryx2_bb_elementary::bump_allocator::BumpAllocator;
use iceoryx2_bb_elementary_traits::relocatable_container::RelocatableContainer;

pub trait M<T> {
    fn insert(&mut self, v: T) -> Option<usize>;
    fn insert_at(&mut self, k: usize, v: T) -> bool;
    fn remove(&mut self, k: usize) -> Option<T>;
    fn get(&self, k: usize) -> Option<&T>;
    fn get_mut_is_some(&mut self, k: usize) -> bool;
    fn contains(&self, k: usize) -> bool;
    fn next_free_key(&self) -> Option<usize>;
    fn listing(&self) -> Vec<(usize, &T)>;
    fn len(&self) -> usize;
    fn capacity(&self) -> usize;
    fn is_empty(&self) -> bool;
    fn is_full(&self) -> bool;
}
impl<T> M<T> for SlotMap<T> {
    fn insert(&mut self, v: T) -> Option<usize> { SlotMap::insert(self, v).map(|k| k.value()) }
    fn insert_at(&mut self, k: usize, v: T) -> bool { SlotMap::insert_at(self, SlotMapKey::new(k), v) }
    fn remove(&mut self, k: usize) -> Option<T> { SlotMap::remove(self, SlotMapKey::new(k)) }
    fn get(&self, k: usize) -> Option<&T> { SlotMap::get(self, SlotMapKey::new(k)) }
    fn get_mut_is_some(&mut self, k: usize) -> bool { SlotMap::get_mut(self, SlotMapKey::new(k)).is_some() }
    fn contains(&self, k: usize) -> bool { SlotMap::contains(self, SlotMapKey::new(k)) }
    fn next_free_key(&self) -> Option<usize> { SlotMap::next_free_key(self).map(|k| k.value()) }
    fn listing(&self) -> Vec<(usize, &T)> { self.iter().map(|(k, v)| (k.value(), v)).collect() }
    fn len(&self) -> usize { SlotMap::len(self) }
    fn capacity(&self) -> usize { SlotMap::capacity(self) }
    fn is_empty(&self) -> bool { SlotMap::is_empty(self) }
    fn is_full(&self) -> bool { SlotMap::is_full(self) }
}
impl<T, const C: usize> M<T> for FixedSizeSlotMap<T, C> {
    fn insert(&mut self, v: T) -> Option<usize> { FixedSizeSlotMap::insert(self, v).map(|k| k.value()) }
    fn insert_at(&mut self, k: usize, v: T) -> bool { FixedSizeSlotMap::insert_at(self, SlotMapKey::new(k), v) }
    fn remove(&mut self, k: usize) -> Option<T> { FixedSizeSlotMap::remove(self, SlotMapKey::new(k)) }
    fn get(&self, k: usize) -> Option<&T> { FixedSizeSlotMap::get(self, SlotMapKey::new(k)) }
    fn get_mut_is_some(&mut self, k: usize) -> bool { FixedSizeSlotMap::get_mut(self, SlotMapKey::new(k)).is_some() }
    fn contains(&self, k: usize) -> bool { FixedSizeSlotMap::contains(self, SlotMapKey::new(k)) }
    fn next_free_key(&self) -> Option<usize> { FixedSizeSlotMap::next_free_key(self).map(|k| k.value()) }
    fn listing(&self) -> Vec<(usize, &T)> { self.iter().map(|(k, v)| (k.value(), v)).collect() }
    fn len(&self) -> usize { FixedSizeSlotMap::len(self) }
    fn capacity(&self) -> usize { FixedSizeSlotMap::capacity(self) }
    fn is_empty(&self) -> bool { FixedSizeSlotMap::is_empty(self) }
    fn is_full(&self) -> bool { FixedSizeSlotMap::is_full(self) }
}
pub struct RelocM<T> { m: Box<RelocatableSlotMap<T>>, _mem: Vec<u128> }
impl<T> RelocM<T> {
    pub fn new(cap: usize) -> Result<Self, String> {
        let bytes = RelocatableSlotMap::<T>::const_memory_size(cap) + 256;
        let mut mem = vec![0u128; bytes / 16 + 2];
        let mut m = Box::new(unsafe { RelocatableSlotMap::<T>::new_uninit(cap) });
        let alloc = BumpAllocator::new(core::ptr::NonNull::new(mem.as_mut_ptr() as *mut u8).unwrap(), mem.len() * 16);
        match unsafe { m.init(&alloc) } {
            Ok(()) => Ok(RelocM { m, _mem: mem }),
            Err(e) => { std::mem::forget(m); Err(format!("{:?}", e)) }
        }
    }
}
impl<T> M<T> for RelocM<T> {
    fn insert(&mut self, v: T) -> Option<usize> { unsafe { self.m.insert(v) }.map(|k| k.value()) }
    fn insert_at(&mut self, k: usize, v: T) -> bool { unsafe { self.m.insert_at(SlotMapKey::new(k), v) } }
    fn remove(&mut self, k: usize) -> Option<T> { unsafe { self.m.remove(SlotMapKey::new(k)) } }
    fn get(&self, k: usize) -> Option<&T> { unsafe { self.m.get(SlotMapKey::new(k)) } }
    fn get_mut_is_some(&mut self, k: usize) -> bool { unsafe { self.m.get_mut(SlotMapKey::new(k)) }.is_some() }
    fn contains(&self, k: usize) -> bool { unsafe { self.m.contains(SlotMapKey::new(k)) } }
    fn next_free_key(&self) -> Option<usize> { unsafe { self.m.next_free_key() }.map(|k| k.value()) }
    fn listing(&self) -> Vec<(usize, &T)> { unsafe { self.m.iter() }.map(|(k, v)| (k.value(), v)).collect() }
    fn len(&self) -> usize { self.m.len() }
    fn capacity(&self) -> usize { self.m.capacity() }
    fn is_empty(&self) -> bool { self.m.is_empty() }
    fn is_full(&self) -> bool { self.m.is_full() }
}

#[derive(Clone, Copy, Debug, PartialEq)]
pub enum Op { Insert, InsertAt(usize), Remove(usize), Get(usize), Contains(usize), NextFree, Iter, Len }

fn alphabet(cap: usize) -> Vec<Op> {
    vec![Op::Insert, Op::InsertAt(0), Op::InsertAt(1), Op::InsertAt(cap), Op::Remove(0), Op::Remove(1), Op::Remove(cap),
         Op::Get(0), Op::Get(cap), Op::Contains(1), Op::NextFree]
}

fn iter_line(m: &dyn M<El>) -> String {
    match guarded(|| { let mut l = Vec::new(); for (k, v) in m.listing() { l.push(k as u64); l.push(v.0); } l }) {
        Some(l) => format!("O iter = {}", fmt_list(&l)), None => "O iter = P".into() }
}
fn side_checks(m: &dyn M<El>, cap: usize) -> bool {
    m.capacity() == cap && m.is_empty() == (m.len() == 0) && m.is_full() == (m.len() == cap)
}

pub fn exec(m: &mut dyn M<El>, cap: usize, ops: &[Op], out: &mut Out) {
    let mut next = 1u64;
    take_drops();
    for op in ops {
        let mut mutating = true;
        let line = match *op {
            Op::Insert => { let x = next; next += 1;
                match guarded(|| m.insert(El(x))) { Some(r) => format!("O insert {} = {}|{}", x, fmt_opt(r.map(|k| k as u64)), fmt_list(&take_drops())), None => format!("O insert {} = P", x) } }
            Op::InsertAt(k) => { let x = next; next += 1;
                match guarded(|| m.insert_at(k, El(x))) { Some(r) => format!("O insertat {} {} = {}|{}", k, x, fmt_bool(r), fmt_list(&take_drops())), None => format!("O insertat {} {} = P", k, x) } }
            Op::Remove(k) => match guarded(|| m.remove(k).map(forget_val)) { Some(r) => format!("O remove {} = {}|{}", k, fmt_opt(r), fmt_list(&take_drops())), None => format!("O remove {} = P", k) },
            Op::Get(k) => { mutating = false;
                // get and get_mut must agree
                match guarded(|| m.get(k).map(|e| e.0)) {
                    Some(r) => { let gm = guarded(|| m.get_mut_is_some(k)); if gm != Some(r.is_some()) { format!("O get {} = ?get_mut-differs", k) } else { format!("O get {} = {}", k, fmt_opt(r)) } }
                    None => format!("O get {} = P", k) } }
            Op::Contains(k) => { mutating = false; match guarded(|| m.contains(k)) { Some(r) => format!("O contains {} = {}", k, fmt_bool(r)), None => format!("O contains {} = P", k) } }
            Op::NextFree => { mutating = false; match guarded(|| m.next_free_key()) { Some(r) => format!("O nextfree = {}", fmt_opt(r.map(|k| k as u64))), None => "O nextfree = P".into() } }
            Op::Iter => { mutating = false; iter_line(m) }
            Op::Len => { mutating = false; format!("O len = u{}", m.len()) }
        };
        let panicked = line.ends_with("= P");
        out.line(&line);
        if panicked { return; }
        if mutating {
            let l = iter_line(m);
            let p = l.ends_with("= P");
            out.line(&l);
            if p { return; }
            out.line(&format!("O len = u{}", m.len()));
        }
        if !side_checks(m, cap) { out.line("O sidecheck = b0"); }
    }
}

fn emit_drop(r: Option<()>, out: &mut Out) {
    match r { Some(()) => out.line(&format!("O drop = ok|{}", fmt_list(&take_drops()))), None => out.line("O drop = P") }
}

macro_rules! with_fixed {
    ($cap:expr, $q:ident, $body:block) => {
        match $cap {
            1 => { let mut $q = FixedSizeSlotMap::<El, 1>::new(); $body }
            2 => { let mut $q = FixedSizeSlotMap::<El, 2>::new(); $body }
            3 => { let mut $q = FixedSizeSlotMap::<El, 3>::new(); $body }
            4 => { let mut $q = FixedSizeSlotMap::<El, 4>::new(); $body }
            5 => { let mut $q = FixedSizeSlotMap::<El, 5>::new(); $body }
            7 => { let mut $q = FixedSizeSlotMap::<El, 7>::new(); $body }
            16 => { let mut $q = FixedSizeSlotMap::<El, 16>::new(); $body }
            33 => { let mut $q = FixedSizeSlotMap::<El, 33>::new(); $body }
            _ => panic!("unsupported fixed capacity"),
        }
    };
}

pub fn run_case(flavour: &str, cap: usize, ops: &[Op], out: &mut Out) {
    out.line(&format!("C slotmap {} el {}", flavour, cap));
    match flavour {
        "heap" => { let mut m = SlotMap::<El>::new(cap); exec(&mut m, cap, ops, out); take_drops(); let r = guarded(move || drop(m)); emit_drop(r, out); }
        "fixed" => { with_fixed!(cap, m, { exec(&mut m, cap, ops, out); take_drops(); let r = guarded(move || drop(m)); emit_drop(r, out); }) }
        "reloc" => { let mut m = RelocM::<El>::new(cap).expect("reloc slotmap"); exec(&mut m, cap, ops, out); take_drops(); let r = guarded(move || drop(m)); emit_drop(r, out); }
        _ => panic!("flavour"),
    }
}

pub fn observe_cap0(out: &mut Out) {
    let r = guarded(|| { let m = SlotMap::<El>::new(0); (m.capacity(), m.len(), m.is_full(), m.next_free_key().map(|k| k.value())) });
    out.line(&format!("Z slotmap heap SlotMap::new(0) then (capacity, len, is_full, next_free_key) = {:?}", r));
    let r = guarded(|| { let mut m = SlotMap::<El>::new(0); m.insert(El(1)).map(|k| k.value()) });
    take_drops();
    out.line(&format!("Z slotmap heap SlotMap::new(0).insert(v) = {}", match r { Some(x) => format!("{:?}", x), None => "PANIC".into() }));
    let r = guarded(|| { let m = FixedSizeSlotMap::<El, 0>::new(); m.capacity() });
    out.line(&format!("Z slotmap fixed FixedSizeSlotMap::<T,0>::new() = {}", match r { Some(x) => format!("{:?}", x), None => "PANIC".into() }));
    let r = guarded(|| RelocM::<El>::new(0).map(|m| m.capacity()));
    out.line(&format!("Z slotmap reloc RelocatableSlotMap::new_uninit(0).init(bump) = {:?}", r));
}

pub fn run(a: &Args, out: &mut Out) {
    let flavours = ["heap", "fixed", "reloc"];
    if a.mode == "exh" {
        let mut idx = 0u64;
        for cap in 0..=4usize {
            let alpha = alphabet(cap);
            for len in 0..=a.maxlen {
                let total = (alpha.len() as u64).pow(len as u32);
                for code in 0..total {
                    idx += 1;
                    if idx % a.nshards != a.shard { continue; }
                    let mut c = code; let mut ops = Vec::with_capacity(len);
                    for _ in 0..len { ops.push(alpha[(c % alpha.len() as u64) as usize]); c /= alpha.len() as u64; }
                    for fl in flavours { if cap == 0 && fl != "heap" { continue; } run_case(fl, cap, &ops, out); }
                }
            }
        }
    } else {
        let caps = [0usize, 1, 2, 3, 4, 5, 7, 16, 33];
        for n in 0..a.ncases {
            if n % a.nshards != a.shard { continue; }
            let mut rng = Rng(a.seed ^ (n.wrapping_mul(0x2545F4914F6CDD1D)) ^ 0x736d);
            let cap = caps[rng.below(caps.len() as u64) as usize];
            let fl = if cap == 0 { "heap" } else { flavours[rng.below(3) as usize] };
            let len = 1 + rng.below(a.maxlen as u64) as usize;
            let mut ops = Vec::with_capacity(len);
            let mut bias = rng.below(3);
            let oob_get = rng.below(8) == 0; // only some cases may end early with the out-of-range get panic
            // keys stay in range most of the time: an out-of-range get/contains ends the case with a panic
            for i in 0..len {
                if i % 29 == 0 { bias = rng.below(3); }
                let r = rng.below(1000);
                let k = if cap == 0 { 0 } else { rng.below(cap as u64) as usize };
                let op = if r < 2 && oob_get { Op::Get(cap + rng.below(2) as usize) } else if r < 20 { Op::InsertAt(cap + rng.below(2) as usize) } else if r < 40 { Op::Remove(cap + rng.below(2) as usize) } else {
                    let r = rng.below(100);
                    match bias {
                        0 => if r < 40 { Op::Insert } else if r < 60 { Op::InsertAt(k) } else if r < 75 { Op::Remove(k) } else if r < 85 { Op::Get(k) } else if r < 92 { Op::NextFree } else { Op::Contains(k) },
                        1 => if r < 50 { Op::Remove(k) } else if r < 65 { Op::Insert } else if r < 75 { Op::InsertAt(k) } else if r < 85 { Op::Contains(k) } else if r < 95 { Op::Get(k) } else { Op::Iter },
                        _ => if r < 30 { Op::InsertAt(k) } else if r < 55 { Op::Remove(k) } else if r < 80 { Op::Insert } else if r < 90 { Op::NextFree } else { Op::Len },
                    } };
                let op = if cap == 0 { match op { Op::Get(_) | Op::Contains(_) => Op::Remove(k), o => o } } else { op };
                ops.push(op);
            }
            run_case(fl, cap, &ops, out);
        }
    }
}
