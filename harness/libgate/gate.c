/* libgate.so -- G2 libc-call gate (DESIGN.md 3.2).  LD_PRELOAD shim that intercepts the libc
 * calls through which a process touches the shared file-system state, and either
 *   (mode 1) counts them and SIGKILLs the process at the n-th one (crash-point injection), or
 *   (mode 2) stops before each of them until a controller process says `go` (deterministic
 *            interleaving of 2..n REAL processes at system-call granularity),
 * writing every gated call to a log in both modes.
 *
 * Build:   cc -shared -fPIC -O1 -o /verif/build/libgate.so gate.c -ldl     (harness/libgate/build.sh)
 * Use:     LD_PRELOAD=/verif/build/libgate.so VERIF_GATE_ROOT=/var/tmp/x VERIF_GATE_LOG=/var/tmp/x.log prog
 *
 * ---------------------------------------------------------------------------------------------
 * WHICH CALLS ARE GATED
 *   Only calls whose target lies under one of the directories listed in VERIF_GATE_ROOT
 *   (colon-separated absolute paths; a path is "under" R if it equals R or starts with R + "/";
 *   relative paths are made absolute with the cwd; "//" and "/./" are collapsed; ".." and
 *   symlinks are NOT resolved), or is a POSIX shm object whose name (without the leading '/')
 *   starts with VERIF_GATE_SHM_PREFIX (reported as the path /dev/shm/<name>; plain open() of such
 *   a /dev/shm path is gated as well).  fd-based calls are gated iff the fd refers to such a path:
 *   the shim tracks fd -> path at open/dup/close and, for fds it has not seen being opened
 *   (inherited over exec), resolves /proc/self/fd/<n> once.  Everything else goes straight to libc.
 *   Interposed: open open64 openat openat64 creat creat64 __open_2 __open64_2 close unlink unlinkat
 *   remove rename renameat mkdir mkdirat rmdir chmod fchmod fchmodat truncate truncate64 ftruncate
 *   ftruncate64 fcntl fcntl64 (only F_GETLK F_SETLK F_SETLKW F_OFD_GETLK F_OFD_SETLK F_OFD_SETLKW are
 *   gated; F_DUPFD* are tracked) flock shm_open shm_unlink mmap mmap64 munmap read write pread
 *   pread64 pwrite pwrite64 __read_chk stat fstat lstat fstatat stat64 fstat64 lstat64 fstatat64
 *   __xstat __fxstat __lxstat __fxstatat __xstat64 __fxstat64 __lxstat64 __fxstatat64 access
 *   faccessat opendir readdir readdir64 closedir scandir scandir64; dup dup2 dup3 are tracked, not
 *   gated.  NOT seen: calls glibc makes internally (fopen -> open, shm_open -> open: hence shm_open
 *   itself is interposed), raw syscall(2), statically linked programs, lseek/fsync/fchown.
 *
 * ENVIRONMENT
 *   VERIF_GATE_ROOT=<dir>[:<dir>...]   gated directory trees (see above)
 *   VERIF_GATE_SHM_PREFIX=<prefix>     gated shm names
 *   VERIF_GATE_LOG=<file>              every gated call is appended as one line (format below)
 *   VERIF_GATE_KILL_AT=<n>             mode 1: the process kills itself (SIGKILL) at its n-th gated
 *                                      call (n >= 1) BEFORE performing it
 *   VERIF_GATE_KILL_AFTER=1            ... right AFTER performing it instead
 *   VERIF_GATE_CTL=<unix socket path>  mode 2: stop at every gated call and obey the controller
 *   Gated calls are numbered per process, starting at 1 (`seq`); a forked child starts again at 1
 *   (and inherits KILL_AT); threads of one process share the counter.
 *
 * LOG LINE (VERIF_GATE_LOG; written with a raw write(2) on an O_APPEND fd, so it is not gated,
 * is atomic per line and survives the kill), fields separated by one blank, no blanks inside:
 *     <pid> <seq> <call> <path> <args> <result> <errno>
 *   <call>    name of the libc function as called (open64, fstat, ...; fcntl64 is logged as fcntl,
 *             the *64 / __x* stat and open variants under their base name: open, stat, fstat, ...)
 *   <path>    absolute path of the object (fd-based calls: the path the fd was opened with;
 *             rename: the old path; shm: /dev/shm/<name>)
 *   <args>    comma separated key=value list or "-":
 *               open*: flags=O_WRONLY|O_CREAT|O_EXCL[,mode=0200]   creat/mkdir/chmod/fchmod: mode=0644
 *               rename: to=<newpath>      unlinkat/fchmodat/faccessat/fstatat: flags=0x..
 *               truncate/ftruncate: len=N  access: mode=N
 *               fcntl: cmd=F_SETLK,type=F_WRLCK|F_RDLCK|F_UNLCK,whence=N,start=N,len=N
 *               flock: op=LOCK_EX|LOCK_NB  mmap: len=N,prot=0x..,flags=0x..,off=N  munmap: len=N
 *               read/write: n=N            pread/pwrite: n=N,off=N
 *   <result>  return value in decimal (pointers: 0 for NULL/MAP_FAILED else 1), optionally followed
 *             by ":" and out-values:  F_GETLK: 0:F_UNLCK | 0:F_WRLCK:pid=N | 0:F_RDLCK:pid=N
 *             stat family: 0:mode=0100600,nlink=1,size=16,uid=0     readdir: 1:<name> | 0:END
 *             scandir: <n>     `killed` when the process killed itself BEFORE the call (mode 1, or
 *             controller `kill`),  `injected` never appears: an injected failure is logged as -1.
 *   <errno>   symbolic errno (ENOENT, EEXIST, EACCES, EAGAIN, ...; decimal if not in the table) if
 *             the call failed, else 0
 *
 * CONTROLLER PROTOCOL (VERIF_GATE_CTL = path of a listening AF_UNIX SOCK_STREAM socket; every
 * THREAD that reaches a gated call opens its own connection, so several threads of a process can
 * be stopped at the same time; text lines terminated by '\n'):
 *   shim -> ctl   hello <pid> <tid> <ppid>                              once per connection
 *   shim -> ctl   call <pid> <tid> <seq> <call> <path> <args>           before the call; then blocks
 *   ctl -> shim   go            perform the call
 *                 kill          the process SIGKILLs itself without performing the call
 *                 fail <errno>  do not perform the call; return -1 (NULL / MAP_FAILED) with errno
 *                               (<errno> symbolic or decimal)  -- fault injection
 *                 detach        perform the call and stop asking (this process runs free from now)
 *   shim -> ctl   ret <pid> <tid> <seq> <result> <errno>                after the call (not sent after kill)
 *   End of file on a connection = the thread's process is gone (exit, crash, kill) -- or the thread
 *   ended.  After fork() the child opens a fresh connection (new hello with its own pid).
 *   If the controller cannot be reached the process runs ungated (logged once as call `ctl-unreachable`);
 *   if the controller disappears while a thread waits for its verdict the process _exit(113)s.
 * ---------------------------------------------------------------------------------------------
 */
#define _GNU_SOURCE
#include <dirent.h>
#include <dlfcn.h>
#include <errno.h>
#include <fcntl.h>
#include <limits.h>
#include <signal.h>
#include <stdarg.h>
#include <stdio.h>
#include <stdlib.h>
#include <string.h>
#include <sys/file.h>
#include <sys/mman.h>
#include <sys/socket.h>
#include <sys/stat.h>
#include <sys/syscall.h>
#include <sys/types.h>
#include <sys/un.h>
#include <unistd.h>

#define FDMAX 65536
#define NROOTS 8
#define NMAPS 256
#define NDIRS 64

/* ------------------------------------------------------------------ configuration */
static int g_init_done;
static char *g_roots[NROOTS];
static size_t g_rootlen[NROOTS];
static int g_nroots;
static char *g_shm_prefix;
static int g_log_fd = -1;
static long g_kill_at;
static int g_kill_after;
static char *g_ctl_path;
static int g_ctl_dead;          /* controller unreachable: run free */
static int g_detached;
static long g_seq;
static pid_t g_seq_pid;

static __thread int t_busy;     /* inside the shim: nested libc calls are not gated */
static __thread int t_ctl_fd = -1;
static __thread pid_t t_ctl_pid;

/* fd -> path (NULL = unknown, NOTGATED = known not to be gated) */
static char *g_fd[FDMAX];
static char NOTGATED_[1];
#define NOTGATED (NOTGATED_)
static volatile int g_lock;
static void lock(void) { while (__atomic_exchange_n(&g_lock, 1, __ATOMIC_ACQUIRE)) syscall(SYS_sched_yield); }
static void unlock(void) { __atomic_store_n(&g_lock, 0, __ATOMIC_RELEASE); }

static struct { void *addr; size_t len; char *path; } g_maps[NMAPS];
static struct { DIR *d; char *path; } g_dirs[NDIRS];

/* ------------------------------------------------------------------ raw helpers (never gated) */
static long raw_write(int fd, const void *b, size_t n) { return syscall(SYS_write, fd, b, n); }
static long raw_read(int fd, void *b, size_t n) { return syscall(SYS_read, fd, b, n); }
static int raw_close(int fd) { return (int)syscall(SYS_close, fd); }
static pid_t raw_getpid(void) { return (pid_t)syscall(SYS_getpid); }
static pid_t raw_gettid(void) { return (pid_t)syscall(SYS_gettid); }
static void die_now(void) { syscall(SYS_kill, raw_getpid(), SIGKILL); for (;;) syscall(SYS_pause); }

static int high_fd(int fd) {
    if (fd < 0) return fd;
    int h = (int)syscall(SYS_fcntl, fd, F_DUPFD_CLOEXEC, 700);
    if (h >= 0) { raw_close(fd); return h; }
    return fd;
}

static const struct { int e; const char *n; } g_errnos[] = {
    {EPERM,"EPERM"},{ENOENT,"ENOENT"},{ESRCH,"ESRCH"},{EINTR,"EINTR"},{EIO,"EIO"},{ENXIO,"ENXIO"},{EBADF,"EBADF"},
    {EAGAIN,"EAGAIN"},{ENOMEM,"ENOMEM"},{EACCES,"EACCES"},{EFAULT,"EFAULT"},{EBUSY,"EBUSY"},{EEXIST,"EEXIST"},
    {EXDEV,"EXDEV"},{ENODEV,"ENODEV"},{ENOTDIR,"ENOTDIR"},{EISDIR,"EISDIR"},{EINVAL,"EINVAL"},{ENFILE,"ENFILE"},
    {EMFILE,"EMFILE"},{EFBIG,"EFBIG"},{ENOSPC,"ENOSPC"},{ESPIPE,"ESPIPE"},{EROFS,"EROFS"},{EMLINK,"EMLINK"},
    {EPIPE,"EPIPE"},{EDEADLK,"EDEADLK"},{ENAMETOOLONG,"ENAMETOOLONG"},{ENOLCK,"ENOLCK"},{ENOSYS,"ENOSYS"},
    {ENOTEMPTY,"ENOTEMPTY"},{ELOOP,"ELOOP"},{EOVERFLOW,"EOVERFLOW"},{ENOTSUP,"ENOTSUP"},{ETXTBSY,"ETXTBSY"},
    {0,NULL}};
static const char *errno_name(int e, char *buf) {
    if (e == 0) return "0";
    for (int i = 0; g_errnos[i].n; i++) if (g_errnos[i].e == e) return g_errnos[i].n;
    snprintf(buf, 16, "%d", e);
    return buf;
}
static int errno_parse(const char *s) {
    for (int i = 0; g_errnos[i].n; i++) if (!strcmp(g_errnos[i].n, s)) return g_errnos[i].e;
    int v = atoi(s);
    return v > 0 ? v : EIO;
}

static void gate_init(void) {
    if (g_init_done) return;
    lock();
    if (g_init_done) { unlock(); return; }
    t_busy++;
    const char *r = getenv("VERIF_GATE_ROOT");
    if (r && *r) {
        char *copy = strdup(r), *save = NULL;
        for (char *tok = strtok_r(copy, ":", &save); tok && g_nroots < NROOTS; tok = strtok_r(NULL, ":", &save)) {
            size_t n = strlen(tok);
            while (n > 1 && tok[n - 1] == '/') tok[--n] = 0;
            if (tok[0] != '/') continue;
            g_roots[g_nroots] = strdup(tok);
            g_rootlen[g_nroots] = n;
            g_nroots++;
        }
        free(copy);
    }
    const char *s = getenv("VERIF_GATE_SHM_PREFIX");
    if (s && *s) g_shm_prefix = strdup(s);
    const char *l = getenv("VERIF_GATE_LOG");
    if (l && *l) g_log_fd = high_fd((int)syscall(SYS_openat, AT_FDCWD, l, O_WRONLY | O_CREAT | O_APPEND | O_CLOEXEC, 0666));
    const char *k = getenv("VERIF_GATE_KILL_AT");
    if (k && *k) g_kill_at = atol(k);
    const char *ka = getenv("VERIF_GATE_KILL_AFTER");
    if (ka && *ka && strcmp(ka, "0")) g_kill_after = 1;
    const char *c = getenv("VERIF_GATE_CTL");
    if (c && *c) g_ctl_path = strdup(c);
    g_seq_pid = raw_getpid();
    t_busy--;
    __atomic_store_n(&g_init_done, 1, __ATOMIC_RELEASE);
    unlock();
}

/* ------------------------------------------------------------------ path handling */
static void normalise(char *p) {   /* collapse "//" and "/./", strip trailing "/" and "/." */
    char *w = p, *r = p;
    while (*r) {
        if (r[0] == '/' && r[1] == '/') { r++; continue; }
        if (r[0] == '/' && r[1] == '.' && (r[2] == '/' || r[2] == 0)) { r += 2; continue; }
        *w++ = *r++;
    }
    if (w == p) *w++ = '/';
    *w = 0;
    size_t n = strlen(p);
    while (n > 1 && p[n - 1] == '/') p[--n] = 0;
}

static int under_root(const char *abs) {
    for (int i = 0; i < g_nroots; i++) {
        size_t n = g_rootlen[i];
        if (!strncmp(abs, g_roots[i], n) && (abs[n] == 0 || abs[n] == '/')) return 1;
    }
    if (g_shm_prefix && !strncmp(abs, "/dev/shm/", 9) && !strncmp(abs + 9, g_shm_prefix, strlen(g_shm_prefix))) return 1;
    return 0;
}

static const char *fd_path(int fd);

/* absolute, normalised version of (dirfd, p) in out (PATH_MAX); returns 1 iff gated */
static int resolve(int dirfd, const char *p, char *out) {
    if (!p) return 0;
    if (!g_nroots && !g_shm_prefix) return 0;
    if (p[0] == '/') {
        if (strlen(p) >= PATH_MAX) return 0;
        strcpy(out, p);
    } else {
        char base[PATH_MAX];
        if (dirfd == AT_FDCWD) {
            if (syscall(SYS_getcwd, base, sizeof base) < 0) return 0;
        } else {
            const char *d = fd_path(dirfd);
            if (d && d != NOTGATED) { strncpy(base, d, sizeof base - 1); base[sizeof base - 1] = 0; }
            else {
                char lnk[64];
                snprintf(lnk, sizeof lnk, "/proc/self/fd/%d", dirfd);
                long n = syscall(SYS_readlinkat, AT_FDCWD, lnk, base, sizeof base - 1);
                if (n <= 0) return 0;
                base[n] = 0;
            }
        }
        if (strlen(base) + strlen(p) + 2 >= PATH_MAX) return 0;
        strcpy(out, base); strcat(out, "/"); strcat(out, p);
    }
    normalise(out);
    return under_root(out);
}

static void fd_set_path(int fd, const char *path) {   /* path NULL = forget */
    if (fd < 0 || fd >= FDMAX) return;
    lock();
    if (g_fd[fd] && g_fd[fd] != NOTGATED) free(g_fd[fd]);
    g_fd[fd] = path ? (path == NOTGATED ? NOTGATED : strdup(path)) : NULL;
    unlock();
}

/* path of a gated fd, NOTGATED, or NULL on a bad fd */
static const char *fd_path(int fd) {
    if (fd < 0 || fd >= FDMAX) return NOTGATED;
    char *p = g_fd[fd];
    if (p) return p;
    if (!g_nroots && !g_shm_prefix) return NOTGATED;
    char lnk[64], buf[PATH_MAX];
    snprintf(lnk, sizeof lnk, "/proc/self/fd/%d", fd);
    long n = syscall(SYS_readlinkat, AT_FDCWD, lnk, buf, sizeof buf - 1);
    if (n <= 0) return NOTGATED;          /* not cached: fd is not open */
    buf[n] = 0;
    if (n > 10 && !strcmp(buf + n - 10, " (deleted)")) buf[n - 10] = 0;
    if (buf[0] == '/' && under_root(buf)) fd_set_path(fd, buf); else fd_set_path(fd, NOTGATED);
    return g_fd[fd] ? g_fd[fd] : NOTGATED;
}
static const char *gated_fd(int fd) {
    if (t_busy) return NULL;
    gate_init();
    const char *p = fd_path(fd);
    return (p && p != NOTGATED) ? p : NULL;
}
static void fd_dup(int from, int to) {
    if (to < 0 || to >= FDMAX) return;
    const char *p = (from >= 0 && from < FDMAX) ? g_fd[from] : NULL;
    fd_set_path(to, p);
}

/* ------------------------------------------------------------------ the gate */
typedef struct { long seq; int fail; int fail_errno; const char *call, *path; char args[PATH_MAX + 160]; } gate_t;

static void log_line(long seq, const char *call, const char *path, const char *args, const char *result, int err) {
    if (g_log_fd < 0) return;
    char eb[16], line[2 * PATH_MAX + 512];
    int n = snprintf(line, sizeof line, "%d %ld %s %s %s %s %s\n", (int)raw_getpid(), seq, call, path, args, result, errno_name(err, eb));
    if (n > 0) raw_write(g_log_fd, line, (size_t)(n < (int)sizeof line ? n : (int)sizeof line - 1));
}

static int ctl_connect(void) {
    pid_t me = raw_getpid();
    if (t_ctl_fd >= 0 && t_ctl_pid == me) return t_ctl_fd;
    if (t_ctl_fd >= 0) { raw_close(t_ctl_fd); t_ctl_fd = -1; }     /* inherited over fork */
    if (g_ctl_dead) return -1;
    int fd = (int)syscall(SYS_socket, AF_UNIX, SOCK_STREAM | SOCK_CLOEXEC, 0);
    if (fd < 0) { g_ctl_dead = 1; return -1; }
    struct sockaddr_un a;
    memset(&a, 0, sizeof a);
    a.sun_family = AF_UNIX;
    strncpy(a.sun_path, g_ctl_path, sizeof a.sun_path - 1);
    if (syscall(SYS_connect, fd, &a, sizeof a) < 0) {
        raw_close(fd);
        g_ctl_dead = 1;
        log_line(0, "ctl-unreachable", g_ctl_path, "-", "-1", errno);
        return -1;
    }
    fd = high_fd(fd);
    t_ctl_fd = fd; t_ctl_pid = me;
    char b[96];
    int n = snprintf(b, sizeof b, "hello %d %d %d\n", (int)me, (int)raw_gettid(), (int)syscall(SYS_getppid));
    raw_write(fd, b, (size_t)n);
    return fd;
}

static int ctl_readline(int fd, char *buf, size_t cap) {
    size_t n = 0;
    for (;;) {
        char c;
        long r = raw_read(fd, &c, 1);
        if (r == 0) return -1;
        if (r < 0) { if (errno == EINTR) continue; return -1; }
        if (c == '\n') break;
        if (n + 1 < cap) buf[n++] = c;
    }
    buf[n] = 0;
    return (int)n;
}

/* returns 1 if the call must be skipped (injected failure: errno set by the caller from g->fail_errno) */
static void gate_enter(gate_t *g, const char *call, const char *path) {
    pid_t me = raw_getpid();
    if (me != g_seq_pid) { g_seq_pid = me; g_seq = 0; }           /* forked child starts at 1 */
    g->seq = __atomic_add_fetch(&g_seq, 1, __ATOMIC_SEQ_CST);
    g->fail = 0; g->call = call; g->path = path;
    if (g_kill_at > 0 && g->seq == g_kill_at && !g_kill_after) {
        log_line(g->seq, call, path, g->args, "killed", 0);
        die_now();
    }
    if (g_ctl_path && !g_detached) {
        int fd = ctl_connect();
        if (fd >= 0) {
            char msg[2 * PATH_MAX + 512], rep[64];
            int n = snprintf(msg, sizeof msg, "call %d %d %ld %s %s %s\n", (int)me, (int)raw_gettid(), g->seq, call, path, g->args);
            raw_write(fd, msg, (size_t)n);
            if (ctl_readline(fd, rep, sizeof rep) < 0) {
                log_line(g->seq, call, path, g->args, "ctl-lost", 0);
                syscall(SYS_exit_group, 113);
            }
            if (!strcmp(rep, "kill")) { log_line(g->seq, call, path, g->args, "killed", 0); die_now(); }
            else if (!strncmp(rep, "fail ", 5)) { g->fail = 1; g->fail_errno = errno_parse(rep + 5); }
            else if (!strcmp(rep, "detach")) g_detached = 1;
        }
    }
}

static void gate_leave(gate_t *g, long result, int err, const char *extra) {
    char res[PATH_MAX + 64];
    if (extra) snprintf(res, sizeof res, "%ld:%s", result, extra); else snprintf(res, sizeof res, "%ld", result);
    log_line(g->seq, g->call, g->path, g->args, res, err);
    if (g_ctl_path && t_ctl_fd >= 0 && t_ctl_pid == raw_getpid()) {
        char msg[PATH_MAX + 160], eb[16];
        int n = snprintf(msg, sizeof msg, "ret %d %d %ld %s %s\n", (int)t_ctl_pid, (int)raw_gettid(), g->seq, res, errno_name(err, eb));
        raw_write(t_ctl_fd, msg, (size_t)n);
    }
    if (g_kill_at > 0 && g->seq == g_kill_at && g_kill_after) die_now();
}

#define REAL(name) ({ static __typeof__(&name) fp_; if (!fp_) fp_ = (__typeof__(&name))dlsym(RTLD_NEXT, #name); fp_; })
/* for symbols that have no declaration in the headers of this glibc */
#define REALSYM(type, name) ({ static type fp_; if (!fp_) fp_ = (type)dlsym(RTLD_NEXT, name); fp_; })

#define GATE_BEGIN(callname, pathstr, ...) \
    gate_t g_; t_busy++; snprintf(g_.args, sizeof g_.args, __VA_ARGS__); gate_enter(&g_, callname, pathstr)
#define GATE_END(result, extra) do { int e_ = errno; gate_leave(&g_, (long)(result), ((long)(result) == -1 || g_.fail) ? e_ : 0, extra); t_busy--; errno = e_; } while (0)
#define GATE_END_PTR(ptr, failed, extra) do { int e_ = errno; gate_leave(&g_, (failed) ? 0 : 1, (failed) ? e_ : 0, extra); t_busy--; errno = e_; } while (0)

static int path_gated(int dirfd, const char *p, char *out) {
    if (t_busy) return 0;
    gate_init();
    t_busy++;
    int r = resolve(dirfd, p, out);
    t_busy--;
    return r;
}

/* ------------------------------------------------------------------ open family */
static void flags_str(int flags, char *out, size_t cap) {
    static const struct { int f; const char *n; } tab[] = {
        {O_CREAT,"O_CREAT"},{O_EXCL,"O_EXCL"},{O_TRUNC,"O_TRUNC"},{O_APPEND,"O_APPEND"},{O_NONBLOCK,"O_NONBLOCK"},
        {O_CLOEXEC,"O_CLOEXEC"},{O_NOFOLLOW,"O_NOFOLLOW"},{O_NOCTTY,"O_NOCTTY"},{O_SYNC,"O_SYNC"},
        {O_DIRECTORY,"O_DIRECTORY"},{O_PATH,"O_PATH"},{0,NULL}};
    int acc = flags & O_ACCMODE;
    snprintf(out, cap, "%s", acc == O_RDONLY ? "O_RDONLY" : acc == O_WRONLY ? "O_WRONLY" : "O_RDWR");
    int rest = flags & ~O_ACCMODE & ~O_LARGEFILE;
    for (int i = 0; tab[i].n; i++)
        if ((rest & tab[i].f) == tab[i].f) { strncat(out, "|", cap - strlen(out) - 1); strncat(out, tab[i].n, cap - strlen(out) - 1); rest &= ~tab[i].f; }
    if (rest) { char b[24]; snprintf(b, sizeof b, "|0x%x", rest); strncat(out, b, cap - strlen(out) - 1); }
}

typedef int (*openat_fn)(int, const char *, int, ...);
static int do_open(const char *call, int dirfd, const char *path, int flags, mode_t mode, int is64) {
    char abs[PATH_MAX];
    openat_fn real = is64 ? (openat_fn)REAL(openat64) : (openat_fn)REAL(openat);
    int needs_mode = (flags & O_CREAT) || ((flags & O_TMPFILE) == O_TMPFILE);
    if (!path_gated(dirfd, path, abs)) {
        int fd = needs_mode ? real(dirfd, path, flags, mode) : real(dirfd, path, flags);
        if (fd >= 0 && !t_busy) fd_set_path(fd, NOTGATED);
        return fd;
    }
    char fs[160];
    flags_str(flags, fs, sizeof fs);
    GATE_BEGIN(call, abs, needs_mode ? "flags=%s,mode=0%o" : "flags=%s", fs, (unsigned)mode);
    int fd;
    if (g_.fail) { fd = -1; errno = g_.fail_errno; }
    else fd = needs_mode ? real(dirfd, path, flags, mode) : real(dirfd, path, flags);
    if (fd >= 0) fd_set_path(fd, abs);
    GATE_END(fd, NULL);
    return fd;
}
#define OPEN_MODE(flags) mode_t mode = 0; if (((flags) & O_CREAT) || (((flags) & O_TMPFILE) == O_TMPFILE)) { va_list ap; va_start(ap, flags); mode = va_arg(ap, mode_t); va_end(ap); }
int open(const char *path, int flags, ...) { OPEN_MODE(flags); return do_open("open", AT_FDCWD, path, flags, mode, 0); }
int open64(const char *path, int flags, ...) { OPEN_MODE(flags); return do_open("open", AT_FDCWD, path, flags, mode, 1); }
int openat(int dirfd, const char *path, int flags, ...) { OPEN_MODE(flags); return do_open("openat", dirfd, path, flags, mode, 0); }
int openat64(int dirfd, const char *path, int flags, ...) { OPEN_MODE(flags); return do_open("openat", dirfd, path, flags, mode, 1); }
int __open_2(const char *path, int flags) { return do_open("open", AT_FDCWD, path, flags, 0, 0); }
int __open64_2(const char *path, int flags) { return do_open("open", AT_FDCWD, path, flags, 0, 1); }
int creat(const char *path, mode_t mode) { return do_open("creat", AT_FDCWD, path, O_CREAT | O_WRONLY | O_TRUNC, mode, 0); }
int creat64(const char *path, mode_t mode) { return do_open("creat", AT_FDCWD, path, O_CREAT | O_WRONLY | O_TRUNC, mode, 1); }

int shm_open(const char *name, int flags, mode_t mode) {
    char abs[PATH_MAX];
    int g = 0;
    if (!t_busy && name) {
        gate_init();
        const char *n = name; while (*n == '/') n++;
        if (strlen(n) + 10 < PATH_MAX) { snprintf(abs, sizeof abs, "/dev/shm/%s", n); g = under_root(abs); }
    }
    if (!g) { int fd = REAL(shm_open)(name, flags, mode); if (fd >= 0 && !t_busy) fd_set_path(fd, NOTGATED); return fd; }
    char fs[160];
    flags_str(flags, fs, sizeof fs);
    GATE_BEGIN("shm_open", abs, "flags=%s,mode=0%o", fs, (unsigned)mode);
    int fd;
    if (g_.fail) { fd = -1; errno = g_.fail_errno; } else fd = REAL(shm_open)(name, flags, mode);
    if (fd >= 0) fd_set_path(fd, abs);
    GATE_END(fd, NULL);
    return fd;
}
int shm_unlink(const char *name) {
    char abs[PATH_MAX];
    int g = 0;
    if (!t_busy && name) {
        gate_init();
        const char *n = name; while (*n == '/') n++;
        if (strlen(n) + 10 < PATH_MAX) { snprintf(abs, sizeof abs, "/dev/shm/%s", n); g = under_root(abs); }
    }
    if (!g) return REAL(shm_unlink)(name);
    GATE_BEGIN("shm_unlink", abs, "-");
    int r;
    if (g_.fail) { r = -1; errno = g_.fail_errno; } else r = REAL(shm_unlink)(name);
    GATE_END(r, NULL);
    return r;
}

int close(int fd) {
    if (fd >= 0 && fd == g_log_fd) { errno = EBADF; return -1; }    /* keep the log alive */
    const char *p = gated_fd(fd);
    if (!p) {
        int r = REAL(close)(fd);
        if (!t_busy && fd >= 0 && fd < FDMAX && g_fd[fd]) fd_set_path(fd, NULL);
        return r;
    }
    char path[PATH_MAX];
    strncpy(path, p, sizeof path - 1); path[sizeof path - 1] = 0;
    GATE_BEGIN("close", path, "-");
    int r;
    if (g_.fail) { r = -1; errno = g_.fail_errno; } else { r = REAL(close)(fd); fd_set_path(fd, NULL); }
    GATE_END(r, NULL);
    return r;
}

int dup(int fd) { int r = REAL(dup)(fd); if (r >= 0 && !t_busy) fd_dup(fd, r); return r; }
int dup2(int fd, int nfd) { int r = REAL(dup2)(fd, nfd); if (r >= 0 && r != fd && !t_busy) fd_dup(fd, r); return r; }
int dup3(int fd, int nfd, int fl) { int r = REAL(dup3)(fd, nfd, fl); if (r >= 0 && !t_busy) fd_dup(fd, r); return r; }

/* ------------------------------------------------------------------ path calls */
#define PATH_CALL1(callname, dirfd, path, fmt_args, realcall) \
    char abs[PATH_MAX]; \
    if (!path_gated(dirfd, path, abs)) return realcall; \
    GATE_BEGIN(callname, abs, fmt_args); \
    int r; if (g_.fail) { r = -1; errno = g_.fail_errno; } else r = realcall; \
    GATE_END(r, NULL); return r;

int unlink(const char *path) { PATH_CALL1("unlink", AT_FDCWD, path, "-", REAL(unlink)(path)) }
int remove(const char *path) { PATH_CALL1("remove", AT_FDCWD, path, "-", REAL(remove)(path)) }
int rmdir(const char *path) { PATH_CALL1("rmdir", AT_FDCWD, path, "-", REAL(rmdir)(path)) }
int unlinkat(int dirfd, const char *path, int flags) {
    char abs[PATH_MAX];
    if (!path_gated(dirfd, path, abs)) return REAL(unlinkat)(dirfd, path, flags);
    GATE_BEGIN("unlinkat", abs, "flags=0x%x", flags);
    int r; if (g_.fail) { r = -1; errno = g_.fail_errno; } else r = REAL(unlinkat)(dirfd, path, flags);
    GATE_END(r, NULL); return r;
}
int mkdir(const char *path, mode_t mode) {
    char abs[PATH_MAX];
    if (!path_gated(AT_FDCWD, path, abs)) return REAL(mkdir)(path, mode);
    GATE_BEGIN("mkdir", abs, "mode=0%o", (unsigned)mode);
    int r; if (g_.fail) { r = -1; errno = g_.fail_errno; } else r = REAL(mkdir)(path, mode);
    GATE_END(r, NULL); return r;
}
int mkdirat(int dirfd, const char *path, mode_t mode) {
    char abs[PATH_MAX];
    if (!path_gated(dirfd, path, abs)) return REAL(mkdirat)(dirfd, path, mode);
    GATE_BEGIN("mkdirat", abs, "mode=0%o", (unsigned)mode);
    int r; if (g_.fail) { r = -1; errno = g_.fail_errno; } else r = REAL(mkdirat)(dirfd, path, mode);
    GATE_END(r, NULL); return r;
}
int chmod(const char *path, mode_t mode) {
    char abs[PATH_MAX];
    if (!path_gated(AT_FDCWD, path, abs)) return REAL(chmod)(path, mode);
    GATE_BEGIN("chmod", abs, "mode=0%o", (unsigned)mode);
    int r; if (g_.fail) { r = -1; errno = g_.fail_errno; } else r = REAL(chmod)(path, mode);
    GATE_END(r, NULL); return r;
}
int fchmodat(int dirfd, const char *path, mode_t mode, int flags) {
    char abs[PATH_MAX];
    if (!path_gated(dirfd, path, abs)) return REAL(fchmodat)(dirfd, path, mode, flags);
    GATE_BEGIN("fchmodat", abs, "mode=0%o,flags=0x%x", (unsigned)mode, flags);
    int r; if (g_.fail) { r = -1; errno = g_.fail_errno; } else r = REAL(fchmodat)(dirfd, path, mode, flags);
    GATE_END(r, NULL); return r;
}
int access(const char *path, int mode) {
    char abs[PATH_MAX];
    if (!path_gated(AT_FDCWD, path, abs)) return REAL(access)(path, mode);
    GATE_BEGIN("access", abs, "mode=%d", mode);
    int r; if (g_.fail) { r = -1; errno = g_.fail_errno; } else r = REAL(access)(path, mode);
    GATE_END(r, NULL); return r;
}
int faccessat(int dirfd, const char *path, int mode, int flags) {
    char abs[PATH_MAX];
    if (!path_gated(dirfd, path, abs)) return REAL(faccessat)(dirfd, path, mode, flags);
    GATE_BEGIN("faccessat", abs, "mode=%d,flags=0x%x", mode, flags);
    int r; if (g_.fail) { r = -1; errno = g_.fail_errno; } else r = REAL(faccessat)(dirfd, path, mode, flags);
    GATE_END(r, NULL); return r;
}
int truncate(const char *path, off_t len) {
    char abs[PATH_MAX];
    if (!path_gated(AT_FDCWD, path, abs)) return REAL(truncate)(path, len);
    GATE_BEGIN("truncate", abs, "len=%lld", (long long)len);
    int r; if (g_.fail) { r = -1; errno = g_.fail_errno; } else r = REAL(truncate)(path, len);
    GATE_END(r, NULL); return r;
}
int truncate64(const char *path, off64_t len) { return truncate(path, (off_t)len); }

static int do_rename(const char *call, int odfd, const char *oldp, int ndfd, const char *newp) {
    char a[PATH_MAX], b[PATH_MAX];
    int ga = path_gated(odfd, oldp, a), gb = path_gated(ndfd, newp, b);
    if (!ga && !gb) return REAL(renameat)(odfd, oldp, ndfd, newp);
    if (!ga) { strncpy(a, oldp ? oldp : "?", sizeof a - 1); a[sizeof a - 1] = 0; }
    if (!gb) { strncpy(b, newp ? newp : "?", sizeof b - 1); b[sizeof b - 1] = 0; }
    GATE_BEGIN(call, a, "to=%s", b);
    int r; if (g_.fail) { r = -1; errno = g_.fail_errno; } else r = REAL(renameat)(odfd, oldp, ndfd, newp);
    GATE_END(r, NULL); return r;
}
int rename(const char *oldp, const char *newp) { return do_rename("rename", AT_FDCWD, oldp, AT_FDCWD, newp); }
int renameat(int odfd, const char *oldp, int ndfd, const char *newp) { return do_rename("renameat", odfd, oldp, ndfd, newp); }

/* ------------------------------------------------------------------ fd calls */
#define FD_CALL(callname, fd, realcall, ...) \
    const char *p_ = gated_fd(fd); \
    if (!p_) return realcall; \
    char path_[PATH_MAX]; strncpy(path_, p_, sizeof path_ - 1); path_[sizeof path_ - 1] = 0; \
    GATE_BEGIN(callname, path_, __VA_ARGS__); \
    __typeof__(realcall) r; if (g_.fail) { r = -1; errno = g_.fail_errno; } else r = realcall; \
    GATE_END(r, NULL); return r;

int fchmod(int fd, mode_t mode) { FD_CALL("fchmod", fd, REAL(fchmod)(fd, mode), "mode=0%o", (unsigned)mode) }
int ftruncate(int fd, off_t len) { FD_CALL("ftruncate", fd, REAL(ftruncate)(fd, len), "len=%lld", (long long)len) }
int ftruncate64(int fd, off64_t len) { return ftruncate(fd, (off_t)len); }
ssize_t read(int fd, void *buf, size_t n) { FD_CALL("read", fd, REAL(read)(fd, buf, n), "n=%zu", n) }
ssize_t write(int fd, const void *buf, size_t n) { FD_CALL("write", fd, REAL(write)(fd, buf, n), "n=%zu", n) }
ssize_t pread(int fd, void *buf, size_t n, off_t off) { FD_CALL("pread", fd, REAL(pread)(fd, buf, n, off), "n=%zu,off=%lld", n, (long long)off) }
ssize_t pwrite(int fd, const void *buf, size_t n, off_t off) { FD_CALL("pwrite", fd, REAL(pwrite)(fd, buf, n, off), "n=%zu,off=%lld", n, (long long)off) }
ssize_t pread64(int fd, void *buf, size_t n, off64_t off) { return pread(fd, buf, n, (off_t)off); }
ssize_t pwrite64(int fd, const void *buf, size_t n, off64_t off) { return pwrite(fd, buf, n, (off_t)off); }
ssize_t __read_chk(int fd, void *buf, size_t n, size_t buflen) { (void)buflen; return read(fd, buf, n); }

int flock(int fd, int op) {
    const char *p_ = gated_fd(fd);
    if (!p_) return REAL(flock)(fd, op);
    char path_[PATH_MAX]; strncpy(path_, p_, sizeof path_ - 1); path_[sizeof path_ - 1] = 0;
    int base = op & ~LOCK_NB;
    GATE_BEGIN("flock", path_, "op=%s%s", base == LOCK_SH ? "LOCK_SH" : base == LOCK_EX ? "LOCK_EX" : base == LOCK_UN ? "LOCK_UN" : "?", (op & LOCK_NB) ? "|LOCK_NB" : "");
    int r; if (g_.fail) { r = -1; errno = g_.fail_errno; } else r = REAL(flock)(fd, op);
    GATE_END(r, NULL); return r;
}

static const char *lcmd_name(int cmd) {
    switch (cmd) {
    case F_GETLK: return "F_GETLK"; case F_SETLK: return "F_SETLK"; case F_SETLKW: return "F_SETLKW";
    case F_OFD_GETLK: return "F_OFD_GETLK"; case F_OFD_SETLK: return "F_OFD_SETLK"; case F_OFD_SETLKW: return "F_OFD_SETLKW";
    }
    return NULL;
}
static const char *ltype_name(int t) { return t == F_RDLCK ? "F_RDLCK" : t == F_WRLCK ? "F_WRLCK" : t == F_UNLCK ? "F_UNLCK" : "?"; }

typedef int (*fcntl_fn)(int, int, ...);
static int do_fcntl(int fd, int cmd, void *arg) {
    fcntl_fn real = (fcntl_fn)REAL(fcntl);
    const char *cn = lcmd_name(cmd);
    if (!cn) {
        int r = real(fd, cmd, arg);
        if ((cmd == F_DUPFD || cmd == F_DUPFD_CLOEXEC) && r >= 0 && !t_busy) fd_dup(fd, r);
        return r;
    }
    const char *p_ = gated_fd(fd);
    if (!p_) return real(fd, cmd, arg);
    char path_[PATH_MAX]; strncpy(path_, p_, sizeof path_ - 1); path_[sizeof path_ - 1] = 0;
    struct flock *fl = (struct flock *)arg;
    GATE_BEGIN("fcntl", path_, "cmd=%s,type=%s,whence=%d,start=%lld,len=%lld", cn, fl ? ltype_name(fl->l_type) : "?",
               fl ? (int)fl->l_whence : 0, fl ? (long long)fl->l_start : 0, fl ? (long long)fl->l_len : 0);
    int r; if (g_.fail) { r = -1; errno = g_.fail_errno; } else r = real(fd, cmd, arg);
    char extra[64]; const char *ex = NULL;
    if (r == 0 && fl && (cmd == F_GETLK || cmd == F_OFD_GETLK)) {
        if (fl->l_type == F_UNLCK) snprintf(extra, sizeof extra, "F_UNLCK");
        else snprintf(extra, sizeof extra, "%s:pid=%d", ltype_name(fl->l_type), (int)fl->l_pid);
        ex = extra;
    }
    GATE_END(r, ex); return r;
}
int fcntl(int fd, int cmd, ...) { va_list ap; va_start(ap, cmd); void *arg = va_arg(ap, void *); va_end(ap); return do_fcntl(fd, cmd, arg); }
int fcntl64(int fd, int cmd, ...) { va_list ap; va_start(ap, cmd); void *arg = va_arg(ap, void *); va_end(ap); return do_fcntl(fd, cmd, arg); }

/* ------------------------------------------------------------------ mmap */
void *mmap(void *addr, size_t len, int prot, int flags, int fd, off_t off) {
    const char *p_ = (flags & MAP_ANONYMOUS) ? NULL : gated_fd(fd);
    if (!p_) return REAL(mmap)(addr, len, prot, flags, fd, off);
    char path_[PATH_MAX]; strncpy(path_, p_, sizeof path_ - 1); path_[sizeof path_ - 1] = 0;
    GATE_BEGIN("mmap", path_, "len=%zu,prot=0x%x,flags=0x%x,off=%lld", len, prot, flags, (long long)off);
    void *r; if (g_.fail) { r = MAP_FAILED; errno = g_.fail_errno; } else r = REAL(mmap)(addr, len, prot, flags, fd, off);
    if (r != MAP_FAILED) {
        lock();
        for (int i = 0; i < NMAPS; i++) if (!g_maps[i].path) { g_maps[i].addr = r; g_maps[i].len = len; g_maps[i].path = strdup(path_); break; }
        unlock();
    }
    GATE_END_PTR(r, r == MAP_FAILED, NULL);
    return r;
}
void *mmap64(void *addr, size_t len, int prot, int flags, int fd, off64_t off) { return mmap(addr, len, prot, flags, fd, (off_t)off); }
int munmap(void *addr, size_t len) {
    char path_[PATH_MAX]; int found = 0;
    if (!t_busy && g_init_done) {
        lock();
        for (int i = 0; i < NMAPS; i++) if (g_maps[i].path && g_maps[i].addr == addr) {
            strncpy(path_, g_maps[i].path, sizeof path_ - 1); path_[sizeof path_ - 1] = 0;
            free(g_maps[i].path); g_maps[i].path = NULL; found = 1; break;
        }
        unlock();
    }
    if (!found) return REAL(munmap)(addr, len);
    GATE_BEGIN("munmap", path_, "len=%zu", len);
    int r; if (g_.fail) { r = -1; errno = g_.fail_errno; } else r = REAL(munmap)(addr, len);
    GATE_END(r, NULL); return r;
}

/* ------------------------------------------------------------------ stat family */
static void stat_extra(const struct stat *st, char *out, size_t cap) {
    snprintf(out, cap, "mode=0%o,nlink=%lu,size=%lld,uid=%u", (unsigned)st->st_mode, (unsigned long)st->st_nlink, (long long)st->st_size, (unsigned)st->st_uid);
}
static int do_stat_path(const char *call, int dirfd, const char *path, struct stat *st, int flags) {
    char abs[PATH_MAX];
    if (!path_gated(dirfd, path, abs)) return REAL(fstatat)(dirfd, path, st, flags);
    GATE_BEGIN(call, abs, (dirfd == AT_FDCWD && (flags & ~AT_SYMLINK_NOFOLLOW) == 0) ? "-" : "flags=0x%x", flags);
    int r; if (g_.fail) { r = -1; errno = g_.fail_errno; } else r = REAL(fstatat)(dirfd, path, st, flags);
    char extra[160]; if (r == 0) stat_extra(st, extra, sizeof extra);
    GATE_END(r, r == 0 ? extra : NULL); return r;
}
static int do_fstat(int fd, struct stat *st) {
    const char *p_ = gated_fd(fd);
    if (!p_) return REAL(fstat)(fd, st);
    char path_[PATH_MAX]; strncpy(path_, p_, sizeof path_ - 1); path_[sizeof path_ - 1] = 0;
    GATE_BEGIN("fstat", path_, "-");
    int r; if (g_.fail) { r = -1; errno = g_.fail_errno; } else r = REAL(fstat)(fd, st);
    char extra[160]; if (r == 0) stat_extra(st, extra, sizeof extra);
    GATE_END(r, r == 0 ? extra : NULL); return r;
}
/* on x86_64 / aarch64 glibc struct stat and struct stat64 have the same layout */
int stat(const char *path, struct stat *st) { return do_stat_path("stat", AT_FDCWD, path, st, 0); }
int lstat(const char *path, struct stat *st) { return do_stat_path("lstat", AT_FDCWD, path, st, AT_SYMLINK_NOFOLLOW); }
int fstatat(int dirfd, const char *path, struct stat *st, int flags) { return do_stat_path("fstatat", dirfd, path, st, flags); }
int fstat(int fd, struct stat *st) { return do_fstat(fd, st); }
int stat64(const char *path, struct stat64 *st) { return do_stat_path("stat", AT_FDCWD, path, (struct stat *)st, 0); }
int lstat64(const char *path, struct stat64 *st) { return do_stat_path("lstat", AT_FDCWD, path, (struct stat *)st, AT_SYMLINK_NOFOLLOW); }
int fstatat64(int dirfd, const char *path, struct stat64 *st, int flags) { return do_stat_path("fstatat", dirfd, path, (struct stat *)st, flags); }
int fstat64(int fd, struct stat64 *st) { return do_fstat(fd, (struct stat *)st); }
int __xstat(int ver, const char *path, struct stat *st) { (void)ver; return do_stat_path("stat", AT_FDCWD, path, st, 0); }
int __lxstat(int ver, const char *path, struct stat *st) { (void)ver; return do_stat_path("lstat", AT_FDCWD, path, st, AT_SYMLINK_NOFOLLOW); }
int __fxstat(int ver, int fd, struct stat *st) { (void)ver; return do_fstat(fd, st); }
int __fxstatat(int ver, int dirfd, const char *path, struct stat *st, int flags) { (void)ver; return do_stat_path("fstatat", dirfd, path, st, flags); }
int __xstat64(int ver, const char *path, struct stat64 *st) { (void)ver; return do_stat_path("stat", AT_FDCWD, path, (struct stat *)st, 0); }
int __lxstat64(int ver, const char *path, struct stat64 *st) { (void)ver; return do_stat_path("lstat", AT_FDCWD, path, (struct stat *)st, AT_SYMLINK_NOFOLLOW); }
int __fxstat64(int ver, int fd, struct stat64 *st) { (void)ver; return do_fstat(fd, (struct stat *)st); }
int __fxstatat64(int ver, int dirfd, const char *path, struct stat64 *st, int flags) { (void)ver; return do_stat_path("fstatat", dirfd, path, (struct stat *)st, flags); }

/* ------------------------------------------------------------------ directories */
static void dir_track(DIR *d, const char *path) {
    lock();
    for (int i = 0; i < NDIRS; i++) if (!g_dirs[i].d) { g_dirs[i].d = d; g_dirs[i].path = strdup(path); break; }
    unlock();
}
static int dir_lookup(DIR *d, char *out, int forget) {
    int found = 0;
    if (!g_init_done) return 0;
    lock();
    for (int i = 0; i < NDIRS; i++) if (g_dirs[i].d == d && d) {
        strncpy(out, g_dirs[i].path, PATH_MAX - 1); out[PATH_MAX - 1] = 0; found = 1;
        if (forget) { free(g_dirs[i].path); g_dirs[i].path = NULL; g_dirs[i].d = NULL; }
        break;
    }
    unlock();
    return found;
}
DIR *opendir(const char *path) {
    char abs[PATH_MAX];
    if (!path_gated(AT_FDCWD, path, abs)) return REAL(opendir)(path);
    GATE_BEGIN("opendir", abs, "-");
    DIR *d; if (g_.fail) { d = NULL; errno = g_.fail_errno; } else d = REAL(opendir)(path);
    if (d) { dir_track(d, abs); int fd = dirfd(d); if (fd >= 0) fd_set_path(fd, NOTGATED); }
    GATE_END_PTR(d, d == NULL, NULL);
    return d;
}
int closedir(DIR *d) {
    char path_[PATH_MAX];
    if (t_busy || !dir_lookup(d, path_, 1)) return REAL(closedir)(d);
    int fd = dirfd(d);
    GATE_BEGIN("closedir", path_, "-");
    int r = REAL(closedir)(d);
    if (fd >= 0) fd_set_path(fd, NULL);
    GATE_END(r, NULL); return r;
}
struct dirent *readdir(DIR *d) {
    char path_[PATH_MAX];
    if (t_busy || !dir_lookup(d, path_, 0)) return REAL(readdir)(d);
    GATE_BEGIN("readdir", path_, "-");
    errno = 0;
    struct dirent *e = REAL(readdir)(d);
    int failed = (e == NULL && errno != 0);
    char extra[300]; snprintf(extra, sizeof extra, "%s", e ? e->d_name : "END");
    GATE_END_PTR(e, failed, failed ? NULL : extra);
    if (!failed && !e) errno = 0;
    return e;
}
struct dirent64 *readdir64(DIR *d) { return (struct dirent64 *)readdir(d); }   /* same layout on 64-bit glibc */

typedef int (*scandir_fn)(const char *, struct dirent ***, int (*)(const struct dirent *), int (*)(const struct dirent **, const struct dirent **));
int scandir(const char *path, struct dirent ***list, int (*sel)(const struct dirent *), int (*cmp)(const struct dirent **, const struct dirent **)) {
    char abs[PATH_MAX];
    scandir_fn real = (scandir_fn)REAL(scandir);
    if (!path_gated(AT_FDCWD, path, abs)) return real(path, list, sel, cmp);
    GATE_BEGIN("scandir", abs, "-");
    int r; if (g_.fail) { r = -1; errno = g_.fail_errno; } else r = real(path, list, sel, cmp);
    GATE_END(r, NULL); return r;
}
int scandir64(const char *path, struct dirent64 ***list, int (*sel)(const struct dirent64 *), int (*cmp)(const struct dirent64 **, const struct dirent64 **)) {
    return scandir(path, (struct dirent ***)list, (int (*)(const struct dirent *))sel, (int (*)(const struct dirent **, const struct dirent **))cmp);
}
