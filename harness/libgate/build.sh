#!/bin/bash
# builds the G2 libc-call gate: /verif/build/libgate.so  (see gate.c for the interface)
set -e
here="$(cd "$(dirname "$0")" && pwd)"
out="${1:-/verif/build/libgate.so}"
mkdir -p "$(dirname "$out")"
if [ "$out" -nt "$here/gate.c" ]; then exit 0; fi
tmp="$out.$$.tmp"
timeout 120 cc -shared -fPIC -O1 -Wall -Wno-nonnull-compare -o "$tmp" "$here/gate.c" -ldl
chmod 755 "$tmp"
mv -f "$tmp" "$out"
