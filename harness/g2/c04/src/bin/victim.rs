fn main() {
    let a: Vec<String> = std::env::args().collect();
    if a.len() < 2 { eprintln!("usage: victim <scenario> | --list"); std::process::exit(2) }
    if a[1] == "--list" {
        for s in c04::scenarios::all() {
            let syncs: Vec<String> = s.phases.iter().filter(|(p, _)| p.starts_with("sync:")).map(|(p, _)| p[5..].to_string()).collect();
            println!("{} cleaner={} syncs={}", s.name, s.cleaner as u8, syncs.join(","));
        }
        return;
    }
    c04::victim_main(&a[1]);
}
