fn main() { c04::cleaner_main(); }
