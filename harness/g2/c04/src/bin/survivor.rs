fn main() {
    let a: Vec<String> = std::env::args().collect();
    if a.len() < 2 { eprintln!("usage: survivor <scenario>"); std::process::exit(2) }
    c04::survivor_main(&a[1]);
}
