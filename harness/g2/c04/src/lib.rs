//! G2 harness for C04 (crash at any instant, survivor cleanup).
//!
//! One small command interpreter drives the REAL iceoryx2 API (ipc::Service); the three binaries
//! `victim`, `survivor` and `cleaner` only differ in where their commands come from:
//!   victim <scenario>    runs the scenario's victim script; before every command it prints
//!                        `M <i> <command>` and performs the gated no-op `access(<root>/@M/<i>:<cmd>)`
//!                        so that the gate log carries the API-call windows; `sync <l>` prints `SYNC <l>`
//!                        and waits for one line on stdin; `exit` leaves without dropping anything.
//!   survivor <scenario>  reads phase names from stdin (setup, sync:<l>, after, probe, finish), runs the
//!                        scenario's survivor script for that phase, answers `R <phase> done`.
//!   cleaner              lists the nodes and removes the stale resources of every dead one (a third
//!                        process, killed at every gate index in the second-crash scenarios).
//! Environment: C04_ROOT (private root directory), C04_PREFIX (file/shm prefix), C04_TIMEOUT_MS
//! (global.creation_timeout), C04_AUTOCLEAN=1 keeps the automatic dead-node cleanup switched on.
//!
//! Every command prints one observation line `O <command> = <canonical result>` (no ids, no addresses
//! except in the `ids` line that the check uses to attribute files to the survivor).
extern crate iceoryx2_bb_loggers;

pub mod scenarios;

use core::time::Duration;
use iceoryx2::active_request::ActiveRequest;
use iceoryx2::node::NodeView;
use iceoryx2::pending_response::PendingResponse;
use iceoryx2::port::client::Client;
use iceoryx2::port::listener::Listener;
use iceoryx2::port::notifier::Notifier;
use iceoryx2::port::publisher::Publisher;
use iceoryx2::port::reader::Reader;
use iceoryx2::port::server::Server;
use iceoryx2::port::subscriber::Subscriber;
use iceoryx2::port::writer::Writer;
use iceoryx2::prelude::*;
use iceoryx2::sample::Sample;
use iceoryx2::sample_mut::SampleMut;
use iceoryx2::service::port_factory::{blackboard, event, publish_subscribe, request_response};
use std::io::{BufRead, Write as IoWrite};

pub type S = ipc::Service;
pub type P = [u64; 8];
pub type BV = [u64; 4];

extern "C" {
    fn access(path: *const core::ffi::c_char, mode: core::ffi::c_int) -> core::ffi::c_int;
    fn _exit(code: core::ffi::c_int) -> !;
}

// ---------------------------------------------------------------- payloads with redundancy
pub fn mk(seq: u64) -> P {
    let mut p = [0u64; 8];
    for (i, x) in p.iter_mut().enumerate() {
        *x = seq.wrapping_mul(0x9E37_79B9_7F4A_7C15).rotate_left(i as u32 * 7) ^ (i as u64) ^ seq;
    }
    p[0] = seq;
    p
}
pub fn chk(p: &P) -> Option<u64> {
    if *p == mk(p[0]) { Some(p[0]) } else { None }
}
pub fn mkb(v: u64) -> BV {
    [v, !v, v.wrapping_mul(3), v.wrapping_add(7)]
}
pub fn chkb(p: &BV) -> Option<u64> {
    if *p == mkb(p[0]) { Some(p[0]) } else { None }
}

pub fn say(line: &str) {
    let out = std::io::stdout();
    let mut l = out.lock();
    let _ = writeln!(l, "{}", line);
    let _ = l.flush();
}

fn compact<T: core::fmt::Debug>(e: &T) -> String {
    format!("{:?}", e).chars().filter(|c| !c.is_whitespace()).collect()
}

pub fn env(name: &str, default: &str) -> String {
    std::env::var(name).unwrap_or_else(|_| default.to_string())
}

pub fn make_config() -> Config {
    let root = env("C04_ROOT", "");
    let prefix = env("C04_PREFIX", "");
    if root.is_empty() || prefix.is_empty() {
        eprintln!("C04_ROOT and C04_PREFIX must be set (never use the default /tmp/iceoryx2)");
        std::process::exit(2);
    }
    let mut config = Config::default();
    config.global.prefix = FileName::new(prefix.as_bytes()).expect("prefix");
    config.global.set_root_path(&Path::new(root.as_bytes()).expect("root"));
    let ms: u64 = env("C04_TIMEOUT_MS", "300").parse().unwrap_or(300);
    config.global.creation_timeout = Duration::from_millis(ms);
    if env("C04_AUTOCLEAN", "0") != "1" {
        config.global.node.cleanup_dead_nodes_on_creation = false;
        config.global.node.cleanup_dead_nodes_on_destruction = false;
        config.global.service.cleanup_dead_nodes_on_open = false;
    }
    config
}

// ---------------------------------------------------------------- objects
pub enum Obj {
    Node(Node<S>),
    Ps(publish_subscribe::PortFactory<S, P, ()>),
    Ev(event::PortFactory<S>),
    Rr(request_response::PortFactory<S, P, (), P, ()>),
    Bb(blackboard::PortFactory<S, u64>),
    Pub(Publisher<S, P, ()>),
    Sub(Subscriber<S, P, ()>),
    Not(Notifier<S>),
    Lis(Listener<S>),
    Cli(Client<S, P, (), P, ()>),
    Srv(Server<S, P, (), P, ()>),
    Wri(Writer<S, u64>),
    Rea(Reader<S, u64>),
    Loan(SampleMut<S, P, ()>),
    Borrow(Sample<S, P, ()>),
    Pending(PendingResponse<S, P, (), P, ()>),
    Active(ActiveRequest<S, P, (), P, ()>),
}

pub const MAX_LOANS: usize = 3;
pub const BUF: usize = 3;
pub const BORROW: usize = 2;
pub const HISTORY: usize = 2;
pub const MAX_PORTS: usize = 3;
/// as small as the scenarios allow (survivor node + victim node, later survivor node + probe node): a registry
/// slot that a dead node keeps for ever makes the probe's open fail with ExceedsMaxNumberOfNodes
pub const MAX_NODES: usize = 2;
pub const ACTIVE_REQ: usize = 2;

pub struct Interp {
    pub config: Config,
    pub slots: Vec<(String, Obj)>,
    pub mark: bool,
    pub root: String,
    pub step: usize,
    pub own_nodes: Vec<String>,
    /// the cleaner process has no node of its own: nodes of other live processes are none of its business
    pub ignore_alive: bool,
}

fn svc_name(n: &str) -> ServiceName {
    ServiceName::new(n).expect("service name")
}

macro_rules! res {
    ($e:expr) => {
        match $e {
            Ok(_) => "ok".to_string(),
            Err(e) => format!("err:{}", compact(&e)),
        }
    };
}

impl Interp {
    pub fn new(mark: bool) -> Interp {
        iceoryx2_log::set_log_level(iceoryx2_log::LogLevel::Fatal);
        let config = make_config();
        Interp { config, slots: vec![], mark, root: env("C04_ROOT", ""), step: 0, own_nodes: vec![], ignore_alive: false }
    }

    fn idx(&self, name: &str) -> Option<usize> {
        self.slots.iter().position(|(n, _)| n == name)
    }
    fn get(&self, name: &str) -> Option<&Obj> {
        self.idx(name).map(|i| &self.slots[i].1)
    }
    fn put(&mut self, name: &str, o: Obj) {
        if let Some(i) = self.idx(name) {
            self.slots.remove(i);
        }
        self.slots.push((name.to_string(), o));
    }

    fn marker(&mut self, cmd: &str) {
        self.step += 1;
        if !self.mark {
            return;
        }
        let label: String = cmd.chars().map(|c| if c == ' ' || c == '/' { '_' } else { c }).collect();
        say(&format!("M {} {}", self.step, cmd));
        let p = format!("{}/@M/{}:{}\0", self.root, self.step, label);
        unsafe { access(p.as_ptr() as *const core::ffi::c_char, 0) };
    }

    pub fn run_script(&mut self, script: &[String]) {
        for c in script {
            self.exec(c);
        }
    }

    /// executes one command, prints its observation line
    pub fn exec(&mut self, cmd: &str) {
        let w: Vec<&str> = cmd.split_whitespace().collect();
        if w.is_empty() {
            return;
        }
        self.marker(cmd);
        let r = self.exec_inner(&w);
        say(&format!("O {} = {}", cmd, r));
    }

    fn exec_inner(&mut self, w: &[&str]) -> String {
        match w[0] {
            // node <name>
            "node" => match NodeBuilder::new().config(&self.config).create::<S>() {
                Ok(n) => {
                    let id = format!("{}", n.id().value());
                    say(&format!("I node {}", id));
                    self.own_nodes.push(id);
                    self.put(w[1], Obj::Node(n));
                    "ok".into()
                }
                Err(e) => format!("err:{}", compact(&e)),
            },
            // svc <name> <node> <pat> <create|open> <service name>
            "svc" => {
                let Some(Obj::Node(node)) = self.get(w[2]) else { return "skip:no-object".into() };
                let b = node.service_builder(&svc_name(w[5]));
                let create = w[4] == "create";
                let (o, r) = match w[3] {
                    "ps" => {
                        let b = b
                            .publish_subscribe::<P>()
                            .max_publishers(MAX_PORTS)
                            .max_subscribers(MAX_PORTS)
                            .max_nodes(MAX_NODES)
                            .history_size(HISTORY)
                            .subscriber_max_buffer_size(BUF)
                            .subscriber_max_borrowed_samples(BORROW);
                        if create {
                            match b.create() { Ok(s) => (Some(Obj::Ps(s)), "ok".to_string()), Err(e) => (None, format!("err:{}", compact(&e))) }
                        } else {
                            match b.open() { Ok(s) => (Some(Obj::Ps(s)), "ok".to_string()), Err(e) => (None, format!("err:{}", compact(&e))) }
                        }
                    }
                    "ev" => {
                        let b = b.event().max_notifiers(MAX_PORTS).max_listeners(MAX_PORTS).max_nodes(MAX_NODES);
                        if create {
                            match b.create() { Ok(s) => (Some(Obj::Ev(s)), "ok".to_string()), Err(e) => (None, format!("err:{}", compact(&e))) }
                        } else {
                            match b.open() { Ok(s) => (Some(Obj::Ev(s)), "ok".to_string()), Err(e) => (None, format!("err:{}", compact(&e))) }
                        }
                    }
                    "rr" => {
                        let b = b
                            .request_response::<P, P>()
                            .max_clients(MAX_PORTS)
                            .max_servers(MAX_PORTS)
                            .max_nodes(MAX_NODES)
                            .max_active_requests_per_client(ACTIVE_REQ)
                            .max_response_buffer_size(BUF)
                            .max_borrowed_responses_per_pending_response(BORROW);
                        if create {
                            match b.create() { Ok(s) => (Some(Obj::Rr(s)), "ok".to_string()), Err(e) => (None, format!("err:{}", compact(&e))) }
                        } else {
                            match b.open() { Ok(s) => (Some(Obj::Rr(s)), "ok".to_string()), Err(e) => (None, format!("err:{}", compact(&e))) }
                        }
                    }
                    "bb" => {
                        if create {
                            match b
                                .blackboard_creator::<u64>()
                                .max_readers(MAX_PORTS)
                                .max_nodes(MAX_NODES)
                                .add::<BV>(0, mkb(0))
                                .add::<BV>(1, mkb(1))
                                .create()
                            {
                                Ok(s) => (Some(Obj::Bb(s)), "ok".to_string()),
                                Err(e) => (None, format!("err:{}", compact(&e))),
                            }
                        } else {
                            match b.blackboard_opener::<u64>().open() {
                                Ok(s) => (Some(Obj::Bb(s)), "ok".to_string()),
                                Err(e) => (None, format!("err:{}", compact(&e))),
                            }
                        }
                    }
                    _ => (None, "err:pattern".to_string()),
                };
                if let Some(o) = o {
                    self.put(w[1], o);
                }
                r
            }
            // port <name> <svc> <kind>
            "port" => {
                let Some(sv) = self.get(w[2]) else { return "skip:no-object".into() };
                let (o, r, id): (Option<Obj>, String, String) = match (sv, w[3]) {
                    (Obj::Ps(s), "pub") => match s.publisher_builder().max_loaned_samples(MAX_LOANS).create() {
                        Ok(p) => { let id = format!("{}", p.id().value()); (Some(Obj::Pub(p)), "ok".into(), id) }
                        Err(e) => (None, format!("err:{}", compact(&e)), String::new()),
                    },
                    (Obj::Ps(s), "sub") => match s.subscriber_builder().buffer_size(BUF).create() {
                        Ok(p) => { let id = format!("{}", p.id().value()); (Some(Obj::Sub(p)), "ok".into(), id) }
                        Err(e) => (None, format!("err:{}", compact(&e)), String::new()),
                    },
                    (Obj::Ev(s), "not") => match s.notifier_builder().create() {
                        Ok(p) => { let id = format!("{}", p.id().value()); (Some(Obj::Not(p)), "ok".into(), id) }
                        Err(e) => (None, format!("err:{}", compact(&e)), String::new()),
                    },
                    (Obj::Ev(s), "lis") => match s.listener_builder().create() {
                        Ok(p) => { let id = format!("{}", p.id().value()); (Some(Obj::Lis(p)), "ok".into(), id) }
                        Err(e) => (None, format!("err:{}", compact(&e)), String::new()),
                    },
                    (Obj::Rr(s), "cli") => match s.client_builder().create() {
                        Ok(p) => { let id = format!("{}", p.id().value()); (Some(Obj::Cli(p)), "ok".into(), id) }
                        Err(e) => (None, format!("err:{}", compact(&e)), String::new()),
                    },
                    (Obj::Rr(s), "srv") => match s.server_builder().create() {
                        Ok(p) => { let id = format!("{}", p.id().value()); (Some(Obj::Srv(p)), "ok".into(), id) }
                        Err(e) => (None, format!("err:{}", compact(&e)), String::new()),
                    },
                    (Obj::Bb(s), "wri") => match s.writer_builder().create() {
                        Ok(p) => { let id = format!("{}", p.id().value()); (Some(Obj::Wri(p)), "ok".into(), id) }
                        Err(e) => (None, format!("err:{}", compact(&e)), String::new()),
                    },
                    (Obj::Bb(s), "rea") => match s.reader_builder().create() {
                        Ok(p) => { let id = format!("{}", p.id().value()); (Some(Obj::Rea(p)), "ok".into(), id) }
                        Err(e) => (None, format!("err:{}", compact(&e)), String::new()),
                    },
                    _ => (None, "err:kind".into(), String::new()),
                };
                if let Some(o) = o {
                    say(&format!("I port {}", id));
                    self.put(w[1], o);
                }
                r
            }
            // drop <name>...
            "drop" => {
                for n in &w[1..] {
                    if let Some(i) = self.idx(n) {
                        let (_, o) = self.slots.remove(i);
                        drop(o);
                    }
                }
                "ok".into()
            }
            // dropall : everything, youngest first
            "dropall" => {
                while let Some((_, o)) = self.slots.pop() {
                    drop(o);
                }
                "ok".into()
            }
            // loan <pub> <name>
            "loan" => {
                let Some(Obj::Pub(p)) = self.get(w[1]) else { return "skip:no-object".into() };
                match p.loan_uninit() {
                    Ok(s) => {
                        let s = s.write_payload(mk(999));
                        self.put(w[2], Obj::Loan(s));
                        "ok".into()
                    }
                    Err(e) => format!("err:{}", compact(&e)),
                }
            }
            // send <pub> <seq>
            "send" => {
                let Some(Obj::Pub(p)) = self.get(w[1]) else { return "skip:no-object".into() };
                let seq: u64 = w[2].parse().unwrap();
                match p.loan_uninit() {
                    Ok(s) => match s.write_payload(mk(seq)).send() {
                        Ok(n) => format!("ok:{}", n),
                        Err(e) => format!("err:{}", compact(&e)),
                    },
                    Err(e) => format!("err:loan:{}", compact(&e)),
                }
            }
            // exhaust <pub> : loan until refused
            "exhaust" => {
                let Some(Obj::Pub(p)) = self.get(w[1]) else { return "skip:no-object".into() };
                let mut v = vec![];
                let r;
                loop {
                    match p.loan_uninit() {
                        Ok(s) => v.push(s.write_payload(mk(0))),
                        Err(e) => { r = compact(&e); break }
                    }
                    if v.len() > 64 { r = "unbounded".to_string(); break }
                }
                format!("loans:{}:{}", v.len(), r)
            }
            // fill <pub> <sub>... : worst-case chunk demand: every subscriber buffer full, every subscriber
            // holding its maximum of borrowed samples, then all loans
            "fill" => {
                let Some(Obj::Pub(p)) = self.get(w[1]) else { return "skip:no-object".into() };
                let mut held = vec![];
                let mut sent = 0;
                for i in 0..BUF {
                    match p.loan_uninit() {
                        Ok(s) => match s.write_payload(mk(1000 + i as u64)).send() { Ok(_) => sent += 1, Err(e) => return format!("err:send1:{}:{}", i, compact(&e)) },
                        Err(e) => return format!("err:loan1:{}:{}", i, compact(&e)),
                    }
                }
                for sn in &w[2..] {
                    let Some(Obj::Sub(sub)) = self.get(sn) else { return "skip:no-object".into() };
                    // drain to the newest BORROW samples of this publisher
                    let mut got = vec![];
                    for _ in 0..64 {
                        match sub.has_samples() { Ok(true) => (), Ok(false) => break, Err(e) => return format!("err:has:{}:{}", sn, compact(&e)) }
                        if got.len() == BORROW { got.remove(0); }
                        match sub.receive() {
                            Ok(Some(s)) => { if chk(s.payload()).is_none() { return "CORRUPT".into() } got.push(s); }
                            Ok(None) => break,
                            Err(e) => return format!("err:recv:{}:{}", sn, compact(&e)),
                        }
                    }
                    held.push(got);
                }
                for i in 0..BUF {
                    match p.loan_uninit() {
                        Ok(s) => match s.write_payload(mk(2000 + i as u64)).send() { Ok(_) => sent += 1, Err(e) => return format!("err:send2:{}:{}", i, compact(&e)) },
                        Err(e) => return format!("err:loan2:{}:{}", i, compact(&e)),
                    }
                }
                let mut loans = vec![];
                for i in 0..MAX_LOANS {
                    match p.loan_uninit() {
                        Ok(s) => loans.push(s.write_payload(mk(0))),
                        Err(e) => return format!("err:loan3:{}:{}", i, compact(&e)),
                    }
                }
                let nheld: usize = held.iter().map(|h| h.len()).sum();
                drop(loans);
                drop(held);
                for sn in &w[2..] {
                    let Some(Obj::Sub(sub)) = self.get(sn) else { return "skip:no-object".into() };
                    for _ in 0..64 { match sub.receive() { Ok(Some(_)) => (), _ => break } }
                }
                format!("ok:sent:{}:held:{}:loans:{}", sent, nheld, MAX_LOANS)
            }
            // recv <sub> [hold <name>] : receive everything; optionally keep the last sample borrowed
            "recv" => {
                let Some(Obj::Sub(p)) = self.get(w[1]) else { return "skip:no-object".into() };
                let mut seqs = vec![];
                let mut last = None;
                let mut err = String::new();
                for _ in 0..64 {
                    match p.receive() {
                        Ok(Some(s)) => {
                            match chk(s.payload()) { Some(q) => seqs.push(format!("{}", q)), None => seqs.push("CORRUPT".into()) }
                            last = Some(s);
                        }
                        Ok(None) => break,
                        Err(e) => { err = format!(":err:{}", compact(&e)); break }
                    }
                }
                if w.len() >= 4 && w[2] == "hold" {
                    if let Some(s) = last { self.put(w[3], Obj::Borrow(s)); }
                }
                format!("seqs:[{}]{}", seqs.join(","), err)
            }
            // notify <not> <id>
            "notify" => {
                let Some(Obj::Not(p)) = self.get(w[1]) else { return "skip:no-object".into() };
                match p.notify_with_custom_event_id(EventId::new(w[2].parse().unwrap())) {
                    Ok(n) => format!("ok:{}", n),
                    Err(e) => format!("err:{}", compact(&e)),
                }
            }
            // wait <lis> : non-blocking, all pending ids (sorted)
            "wait" => {
                let Some(Obj::Lis(p)) = self.get(w[1]) else { return "skip:no-object".into() };
                let mut ids = vec![];
                match p.try_wait(|a| ids.push(a.id.as_value())) {
                    Ok(_) => { ids.sort(); ids.dedup(); format!("ids:{:?}", ids).replace(' ', "") }
                    Err(e) => format!("err:{}", compact(&e)),
                }
            }
            // req <cli> <seq> <name> : send a request, keep the pending response
            "req" => {
                let Some(Obj::Cli(p)) = self.get(w[1]) else { return "skip:no-object".into() };
                match p.send_copy(mk(w[2].parse().unwrap())) {
                    Ok(pr) => { self.put(w[3], Obj::Pending(pr)); "ok".into() }
                    Err(e) => format!("err:{}", compact(&e)),
                }
            }
            // srvrecv <srv> <name> : receive one request, keep it active
            "srvrecv" => {
                let Some(Obj::Srv(p)) = self.get(w[1]) else { return "skip:no-object".into() };
                match p.receive() {
                    Ok(Some(a)) => {
                        let r = match chk(a.payload()) { Some(q) => format!("req:{}", q), None => "req:CORRUPT".into() };
                        self.put(w[2], Obj::Active(a));
                        r
                    }
                    Ok(None) => "none".into(),
                    Err(e) => format!("err:{}", compact(&e)),
                }
            }
            // respond <active> <seq>
            "respond" => {
                let Some(Obj::Active(a)) = self.get(w[1]) else { return "skip:no-object".into() };
                res!(a.send_copy(mk(w[2].parse().unwrap())))
            }
            // resp <pending> : receive all responses
            "resp" => {
                let Some(Obj::Pending(p)) = self.get(w[1]) else { return "skip:no-object".into() };
                let mut seqs = vec![];
                let mut err = String::new();
                for _ in 0..64 {
                    match p.receive() {
                        Ok(Some(s)) => match chk(s.payload()) { Some(q) => seqs.push(format!("{}", q)), None => seqs.push("CORRUPT".into()) },
                        Ok(None) => break,
                        Err(e) => { err = format!(":err:{}", compact(&e)); break }
                    }
                }
                seqs.sort();
                format!("seqs:[{}]{}", seqs.join(","), err)
            }
            // write <wri> <key> <val>
            "write" => {
                let Some(Obj::Wri(p)) = self.get(w[1]) else { return "skip:no-object".into() };
                match p.entry::<BV>(&w[2].parse().unwrap()) {
                    Ok(h) => { h.update_with_copy(mkb(w[3].parse().unwrap())); "ok".into() }
                    Err(e) => format!("err:{}", compact(&e)),
                }
            }
            // read <rea> <key>
            "read" => {
                let Some(Obj::Rea(p)) = self.get(w[1]) else { return "skip:no-object".into() };
                match p.entry::<BV>(&w[2].parse().unwrap()) {
                    Ok(h) => match chkb(&h.get()) { Some(v) => format!("val:{}", v), None => "val:CORRUPT".into() },
                    Err(e) => format!("err:{}", compact(&e)),
                }
            }
            // exists <pat> <service name>
            "exists" => {
                let mp = match w[1] {
                    "ps" => MessagingPattern::PublishSubscribe,
                    "ev" => MessagingPattern::Event,
                    "rr" => MessagingPattern::RequestResponse,
                    _ => MessagingPattern::Blackboard,
                };
                match S::does_exist(&svc_name(w[2]), &self.config, mp) {
                    Ok(b) => format!("{}", b),
                    Err(e) => format!("err:{}", compact(&e)),
                }
            }
            // nodes : states of all foreign nodes
            "nodes" => self.nodes_line(),
            // cleanup : poll until no foreign node is left; dead ones are cleaned
            "cleanup" => self.cleanup(),
            // sync <label> : wait for the controller
            "sync" => {
                say(&format!("SYNC {}", w[1]));
                let mut l = String::new();
                let _ = std::io::stdin().lock().read_line(&mut l);
                "ok".into()
            }
            "exit" => {
                say("O exit = now");
                unsafe { _exit(0) }
            }
            _ => "err:unknown-command".into(),
        }
    }

    fn foreign_states(&self) -> Result<Vec<(String, NodeState<S>)>, String> {
        let mut v = vec![];
        let own = self.own_nodes.clone();
        match Node::<S>::list(&self.config, |st| {
            let id = format!("{}", st.node_id().value());
            if !own.contains(&id) {
                v.push((id, st));
            }
            CallbackProgression::Continue
        }) {
            Ok(()) => Ok(v),
            Err(e) => Err(compact(&e)),
        }
    }

    fn state_name(st: &NodeState<S>) -> &'static str {
        match st {
            NodeState::Alive(_) => "Alive",
            NodeState::Dead(_) => "Dead",
            NodeState::Inaccessible(_) => "Inaccessible",
            NodeState::Undefined(_) => "Undefined",
        }
    }

    fn nodes_line(&self) -> String {
        match self.foreign_states() {
            Ok(v) => {
                let mut names: Vec<&str> = v.iter().map(|(_, s)| Self::state_name(s)).collect();
                names.sort();
                format!("states:[{}]", names.join(","))
            }
            Err(e) => format!("err:{}", e),
        }
    }

    /// The survivor's cleanup: until no foreign node is listed (or 1.5 s have passed): list, run
    /// try_remove_stale_resources on every Dead one.  A dead node whose details file is gone is first
    /// cleaned through the public API; when that reports ResourcesAlreadyCleanedUp although the node is still
    /// listed, or fails (the public API then works on Config::global_config() -- /tmp/iceoryx2, default prefix --
    /// instead of the listing's config), the survivor says so (`fallback:y`) and continues through the hidden entry point that takes the details
    /// explicitly, so that the rest of the cleanup is still exercised.
    fn cleanup(&mut self) -> String {
        let t0 = std::time::Instant::now();
        let mut rounds = 0;
        let mut results: Vec<String> = vec![];
        let mut last = String::new();
        let mut seen_dead = 0;
        let mut fallback = false;
        let mut stuck_public: Vec<String> = vec![];
        loop {
            rounds += 1;
            let v = match self.foreign_states() {
                Ok(v) => v,
                Err(e) => { results.push(format!("list-err:{}", e)); vec![] }
            };
            let mut names: Vec<&str> = v.iter().map(|(_, s)| Self::state_name(s)).collect();
            names.sort();
            let line = names.join(",");
            if line != last {
                say(&format!("C round {} states [{}]", rounds, line));
                last = line.clone();
            }
            if v.is_empty() || (self.ignore_alive && v.iter().all(|(_, s)| matches!(s, NodeState::Alive(_)))) {
                break;
            }
            if rounds > 3 && t0.elapsed() > Duration::from_millis(1500) {
                return format!("STUCK:states:[{}]:fallback:{}:results:{:?}", last, if fallback { "y" } else { "n" }, results).replace(' ', "");
            }
            for (id, st) in v {
                if let NodeState::Dead(view) = st {
                    seen_dead += 1;
                    let has_details = view.details().is_some();
                    let nid = *view.id();
                    let r = if !has_details && stuck_public.contains(&id) {
                        fallback = true;
                        let d = iceoryx2::node::NodeDetails::__internal_new(&None, &self.config);
                        match iceoryx2::node::DeadNodeView::<S>::__internal_try_remove_stale_resources(nid, d) {
                            Ok(()) => "ok".to_string(),
                            Err(e) => compact(&e),
                        }
                    } else {
                        match view.try_remove_stale_resources() {
                            Ok(()) => "ok".to_string(),
                            Err(e) => compact(&e),
                        }
                    };
                    if !has_details && r != "ok" && !stuck_public.contains(&id) {
                        stuck_public.push(id.clone());
                    }
                    if !results.contains(&r) {
                        say(&format!("C cleanup node details={} fallback={} -> {}", has_details, fallback, r));
                        results.push(r);
                    }
                }
            }
            std::thread::sleep(Duration::from_millis(5));
        }
        format!("clean:dead_seen:{}:fallback:{}:results:{:?}", if seen_dead > 0 { "y" } else { "n" }, if fallback { "y" } else { "n" }, results).replace(' ', "")
    }
}

/// survivor main loop: one phase name per stdin line
pub fn survivor_main(scn: &str) {
    let sc = match scenarios::get(scn) {
        Some(s) => s,
        None => { eprintln!("unknown scenario {}", scn); std::process::exit(2) }
    };
    let mut it = Interp::new(false);
    let stdin = std::io::stdin();
    loop {
        let mut line = String::new();
        if stdin.lock().read_line(&mut line).unwrap_or(0) == 0 {
            break;
        }
        let phase = line.trim().to_string();
        if phase.is_empty() {
            continue;
        }
        say(&format!("P {}", phase));
        let script = sc.survivor(&phase);
        it.run_script(&script);
        say(&format!("R {} done", phase));
        if phase == "finish" {
            break;
        }
    }
    it.exec("dropall");
}

pub fn victim_main(scn: &str) {
    let sc = match scenarios::get(scn) {
        Some(s) => s,
        None => { eprintln!("unknown scenario {}", scn); std::process::exit(2) }
    };
    let mut it = Interp::new(true);
    it.run_script(&sc.victim);
    it.marker("end");
    say("O end = ok");
}

pub fn cleaner_main() {
    let mut it = Interp::new(true);
    it.ignore_alive = true;
    it.exec("cleanup");
    it.marker("end");
    say("O end = ok");
}
