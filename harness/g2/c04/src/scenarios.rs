//! Scenario table of the C04 harness: for each scenario the victim's script and the survivor's
//! scripts per phase (setup, sync:<label>, after, probe, finish).
//!
//! Conventions: the survivor always owns node n0 and the bystander pub-sub service (`by`, ports bp/bs)
//! nobody else touches; `svc` is the shared service (created by the survivor), `vsvc` the service only
//! the victim uses.  The `probe` phase exercises the system with a NEW node n1 created after cleanup;
//! its observation lines must be identical to those of the reference run in which the victim left
//! in an orderly way (differential oracle).

pub struct Scenario {
    pub name: String,
    pub victim: Vec<String>,
    pub phases: Vec<(String, Vec<String>)>,
    /// the victim ends with `exit` (crash at a quiescent point): used for the second-crash enumeration
    pub cleaner: bool,
}

impl Scenario {
    pub fn survivor(&self, phase: &str) -> Vec<String> {
        for (p, s) in &self.phases {
            if p == phase {
                return s.clone();
            }
        }
        vec![]
    }
}

fn v(x: &[&str]) -> Vec<String> {
    x.iter().map(|s| s.to_string()).collect()
}
fn cat(a: &[Vec<String>]) -> Vec<String> {
    a.iter().flat_map(|x| x.iter().cloned()).collect()
}

const PATS: [&str; 4] = ["ps", "ev", "rr", "bb"];

fn bystander_setup() -> Vec<String> {
    v(&["node n0", "svc by n0 ps create bystander", "port bp by pub", "port bs by sub", "send bp 90", "recv bs"])
}
fn bystander_probe() -> Vec<String> {
    v(&["send bp 91", "recv bs", "exhaust bp", "nodes"])
}

/// the survivor's own ports on the shared service; `writer`: the survivor holds the blackboard writer
fn shared_setup(pat: &str, writer: bool) -> Vec<String> {
    match pat {
        "ps" => v(&["svc s n0 ps create svc", "port sp s pub", "port ss s sub", "send sp 1", "send sp 2", "recv ss"]),
        "ev" => v(&["svc s n0 ev create svc", "port sn s not", "port sl s lis", "notify sn 1", "wait sl"]),
        "rr" => v(&["svc s n0 rr create svc", "port sc s cli", "port sv s srv"]),
        _ => {
            if writer {
                v(&["svc s n0 bb create svc", "port sr s rea", "port sw s wri", "write sw 0 3", "read sr 0"])
            } else {
                v(&["svc s n0 bb create svc", "port sr s rea", "read sr 0"])
            }
        }
    }
}

/// exercise the service `name` from a new node n1 together with the survivor's ports (prefix s*) if any
fn probe(pat: &str, name: &str, create: bool, survivor_ports: bool, survivor_writer: bool) -> Vec<String> {
    let mode = if create { "create" } else { "open" };
    let mut r = vec![format!("exists {} {}", pat, name), "node n1".to_string(), format!("svc t n1 {} {} {}", pat, mode, name)];
    match pat {
        "ps" => {
            r.extend(v(&["port tp t pub", "port ts t sub", "recv ts", "send tp 201", "recv ts"]));
            if survivor_ports {
                r.extend(v(&["recv ss", "send sp 200", "recv ts", "recv ss", "fill sp ss ts", "fill tp ss ts", "exhaust sp"]));
            } else {
                r.extend(v(&["fill tp ts", "exhaust tp"]));
            }
        }
        "ev" => {
            r.extend(v(&["port tn t not", "port tl t lis", "notify tn 4", "wait tl"]));
            if survivor_ports {
                r.extend(v(&["wait sl", "notify sn 3", "wait tl", "wait sl"]));
            }
        }
        "rr" => {
            r.extend(v(&["port tc t cli", "port tv t srv", "req tc 310 p2", "srvrecv tv a4", "respond a4 312"]));
            if survivor_ports {
                r.extend(v(&["srvrecv sv a3", "respond a3 311", "resp p2", "req sc 300 p1", "srvrecv tv a1", "respond a1 301",
                             "srvrecv sv a2", "respond a2 302", "resp p1", "drop a1 a2 a3 a4 p1 p2",
                             "req sc 320 p3", "req sc 321 p4", "srvrecv tv a5", "srvrecv tv a6", "respond a5 322", "respond a6 323", "resp p3", "resp p4",
                             "drop a5 a6 p3 p4", "srvrecv sv a7", "srvrecv sv a8", "drop a7 a8"]));
            } else {
                r.extend(v(&["resp p2", "drop a4 p2"]));
            }
        }
        _ => {
            // values are written before they are read: what the victim managed to write is not part of the oracle
            r.extend(v(&["port tr t rea"]));
            if survivor_ports && survivor_writer {
                r.extend(v(&["write sw 0 500", "write sw 1 501", "read sr 0", "read tr 0", "read tr 1"]));
            } else {
                r.extend(v(&["port tw t wri", "write tw 0 500", "write tw 1 501", "read tr 0", "read tr 1"]));
                if survivor_ports {
                    r.extend(v(&["read sr 0"]));
                }
            }
        }
    }
    r.extend(v(&["drop p1 p2 a1 a2 a3 a4", "drop tp ts tn tl tc tv tr tw", "drop t", "drop n1"]));
    r
}

fn port_kinds(pat: &str) -> [&'static str; 2] {
    match pat {
        "ps" => ["pub", "sub"],
        "ev" => ["not", "lis"],
        "rr" => ["cli", "srv"],
        _ => ["wri", "rea"],
    }
}

fn mk(name: &str, victim: Vec<String>, setup: Vec<String>, syncs: Vec<(&str, Vec<String>)>, after: Vec<String>, probe_: Vec<String>, cleaner: bool) -> Scenario {
    let mut phases = vec![("setup".to_string(), cat(&[bystander_setup(), setup]))];
    for (l, s) in syncs {
        phases.push((format!("sync:{}", l), s));
    }
    phases.push(("after".to_string(), after));
    phases.push(("probe".to_string(), cat(&[bystander_probe(), probe_])));
    phases.push(("finish".to_string(), vec![]));
    Scenario { name: name.to_string(), victim, phases, cleaner }
}

pub fn all() -> Vec<Scenario> {
    let mut r = vec![];
    // ---- node create / drop
    r.push(mk("node", v(&["node n", "drop n"]), vec![], vec![], v(&["cleanup"]), vec![], false));
    for pat in PATS {
        let kinds = port_kinds(pat);
        // ---- service create (victim is the only user) and drop
        r.push(mk(&format!("create_{}", pat),
            vec!["node n".to_string(), format!("svc s n {} create vsvc", pat), "drop s".into(), "drop n".into()],
            vec![], vec![], v(&["cleanup"]), probe(pat, "vsvc", true, false, false), false));
        // ---- service open (the survivor created it) and drop
        r.push(mk(&format!("open_{}", pat),
            vec!["node n".to_string(), format!("svc s n {} open svc", pat), "drop s".into(), "drop n".into()],
            shared_setup(pat, true), vec![], v(&["cleanup"]), probe(pat, "svc", false, true, true), false));
        // ---- port create / drop, one scenario per port kind
        for k in kinds {
            let sw = k != "wri";
            r.push(mk(&format!("port_{}", k),
                vec!["node n".to_string(), format!("svc s n {} open svc", pat), format!("port p s {}", k), "drop p".into(), "drop s".into(), "drop n".into()],
                shared_setup(pat, sw), vec![], v(&["cleanup"]), probe(pat, "svc", false, true, sw), false));
        }
    }
    // ---- steady state, samples in flight / borrowed
    r.push(mk("steady_ps_vpub",
        v(&["node n", "svc s n ps open svc", "port p s pub", "loan p l1", "send p 11", "send p 12", "sync r1", "send p 13", "drop l1", "drop p", "drop s", "drop n"]),
        shared_setup("ps", true), vec![("r1", v(&["recv ss hold b1"]))],
        v(&["recv ss hold b2", "cleanup", "recv ss", "drop b1 b2"]), probe("ps", "svc", false, true, true), false));
    r.push(mk("steady_ps_vsub",
        v(&["node n", "svc s n ps open svc", "port p s sub", "recv p hold b1", "sync s1", "recv p hold b2", "drop b1 b2", "drop p", "drop s", "drop n"]),
        shared_setup("ps", true), vec![("s1", v(&["send sp 3", "send sp 4"]))],
        v(&["send sp 5", "recv ss", "cleanup", "send sp 6", "recv ss"]), probe("ps", "svc", false, true, true), false));
    r.push(mk("steady_ev",
        v(&["node n", "svc s n ev open svc", "port vn s not", "port vl s lis", "notify vn 5", "wait vl", "sync e1", "wait vl", "notify vn 6", "drop vl", "drop vn", "drop s", "drop n"]),
        shared_setup("ev", true), vec![("e1", v(&["notify sn 7", "wait sl"]))],
        v(&["notify sn 8", "wait sl", "cleanup", "notify sn 9", "wait sl"]), probe("ev", "svc", false, true, true), false));
    r.push(mk("steady_rr_vcli",
        v(&["node n", "svc s n rr open svc", "port c s cli", "req c 1 p1", "sync q1", "resp p1", "req c 2 p2", "drop p1 p2", "drop c", "drop s", "drop n"]),
        shared_setup("rr", true), vec![("q1", v(&["srvrecv sv a1", "respond a1 10"]))],
        v(&["srvrecv sv a2", "respond a1 11", "cleanup", "respond a1 12", "drop a1 a2", "srvrecv sv a3", "drop a3"]), probe("rr", "svc", false, true, true), false));
    r.push(mk("steady_rr_vsrv",
        v(&["node n", "svc s n rr open svc", "port sv2 s srv", "sync q1", "srvrecv sv2 a1", "respond a1 70", "sync q2", "respond a1 71", "drop a1", "drop sv2", "drop s", "drop n"]),
        shared_setup("rr", true), vec![("q1", v(&["req sc 7 p1"])), ("q2", v(&["resp p1"]))],
        v(&["resp p1", "srvrecv sv a9", "respond a9 72", "resp p1", "cleanup", "resp p1", "drop p1 a9"]), probe("rr", "svc", false, true, true), false));
    r.push(mk("steady_bb_vwri",
        v(&["node n", "svc s n bb open svc", "port w s wri", "write w 0 5", "sync b1", "write w 0 6", "write w 1 7", "drop w", "drop s", "drop n"]),
        shared_setup("bb", false), vec![("b1", v(&["read sr 0"]))],
        v(&["read sr 0", "read sr 1", "cleanup", "read sr 0", "read sr 1"]), probe("bb", "svc", false, true, false), false));
    r.push(mk("steady_bb_vrea",
        v(&["node n", "svc s n bb open svc", "port rd s rea", "read rd 0", "sync b1", "read rd 0", "drop rd", "drop s", "drop n"]),
        shared_setup("bb", true), vec![("b1", v(&["write sw 0 9"]))],
        v(&["write sw 0 10", "read sr 0", "cleanup", "write sw 1 11", "read sr 1"]), probe("bb", "svc", false, true, true), false));
    // ---- crash at a quiescent point with everything set up (also the base of the cleaner-crash enumeration)
    r.push(mk("full_ps",
        v(&["node n", "svc s n ps open svc", "port p s pub", "port q s sub", "send p 21", "loan p l1", "recv q hold b1", "exit"]),
        shared_setup("ps", true), vec![], v(&["recv ss hold b2", "cleanup", "drop b2", "recv ss"]), probe("ps", "svc", false, true, true), true));
    r.push(mk("full_ev",
        v(&["node n", "svc s n ev open svc", "port vn s not", "port vl s lis", "notify vn 5", "exit"]),
        shared_setup("ev", true), vec![], v(&["wait sl", "cleanup", "wait sl"]), probe("ev", "svc", false, true, true), true));
    r.push(mk("full_rr",
        v(&["node n", "svc s n rr open svc", "port c s cli", "port sv2 s srv", "req c 1 p1", "srvrecv sv2 a1", "respond a1 2", "exit"]),
        shared_setup("rr", true), vec![], v(&["srvrecv sv a2", "respond a2 3", "cleanup", "drop a2"]), probe("rr", "svc", false, true, true), true));
    r.push(mk("full_bb",
        v(&["node n", "svc s n bb open svc", "port w s wri", "port rd s rea", "write w 0 5", "read rd 0", "exit"]),
        shared_setup("bb", false), vec![], v(&["read sr 0", "cleanup", "read sr 0"]), probe("bb", "svc", false, true, false), true));
    for pat in PATS {
        let kinds = port_kinds(pat);
        r.push(mk(&format!("full_create_{}", pat),
            vec!["node n".to_string(), format!("svc s n {} create vsvc", pat), format!("port p s {}", kinds[0]), format!("port q s {}", kinds[1]), "exit".into()],
            vec![], vec![], v(&["cleanup"]), probe(pat, "vsvc", true, false, false), true));
    }
    r
}

pub fn get(name: &str) -> Option<Scenario> {
    all().into_iter().find(|s| s.name == name)
}
