//! G2 harness for C07: drives the REAL ProcessGuard / ProcessMonitor / ProcessCleaner of
//! iceoryx2-bb-posix (process_state.rs) from a tiny command language, one command per line:
//!   create    ProcessGuardBuilder::new().create(path)        -> R create ok | err:<error>
//!   drop      drop the guard                                 -> R drop ok
//!   abandon   guard.abandon()  (staged death, keeps files)   -> R abandon ok
//!   state     ProcessMonitor::new(path).state()              -> R state Alive|Dead|DoesNotExist|Starting|CleaningUp|err:<error>
//!   clean     ProcessCleaner::new(path)                      -> R clean ok | err:<error>
//!   cdrop     drop the cleaner (removes the files)           -> R cdrop ok
//!   cabandon  cleaner.abandon()                              -> R cabandon ok
//!   exit      leave immediately WITHOUT dropping anything (the kernel closes the fds)
//!   path <p>  use another state file from now on                -> R path ok
//! At end of input everything still held is dropped in order (cleaner, then guard).
//! The binaries guard / monitor / cleaner run a fixed first command (create / state / clean)
//! and then (guard, cleaner) read further commands from stdin; `psh` reads everything from stdin.
//! All file-system traffic goes through libc, i.e. through libgate.so when preloaded.
extern crate iceoryx2_bb_loggers;

use iceoryx2_bb_container::semantic_string::SemanticString;
use iceoryx2_bb_elementary_traits::testing::abandonable::Abandonable;
use iceoryx2_bb_posix::process_state::*;
use iceoryx2_bb_system_types::file_path::FilePath;
use std::io::{BufRead, Write};

pub struct Sh {
    path: FilePath,
    guard: Option<ProcessGuard>,
    cleaner: Option<ProcessCleaner>,
}

fn compact<T: core::fmt::Debug>(e: &T) -> String {
    format!("{:?}", e).chars().filter(|c| !c.is_whitespace()).collect()
}

fn say(line: &str) {
    let out = std::io::stdout();
    let mut l = out.lock();
    let _ = writeln!(l, "{}", line);
    let _ = l.flush();
}

impl Sh {
    pub fn new(path: &str) -> Sh {
        iceoryx2_log::set_log_level(iceoryx2_log::LogLevel::Fatal);
        let path = FilePath::new(path.as_bytes()).expect("valid file path");
        Sh { path, guard: None, cleaner: None }
    }

    /// returns false when the process shall exit without orderly drop
    pub fn exec(&mut self, cmd: &str) -> bool {
        match cmd.trim() {
            "" => (),
            "create" => match ProcessGuardBuilder::new().create(&self.path) {
                Ok(g) => { self.guard = Some(g); say("R create ok") }
                Err(e) => say(&format!("R create err:{}", compact(&e))),
            },
            "drop" => { self.guard.take(); say("R drop ok") }
            "abandon" => { if let Some(g) = self.guard.take() { g.abandon(); } say("R abandon ok") }
            "state" => match ProcessMonitor::new(&self.path) {
                Ok(m) => match m.state() {
                    Ok(s) => say(&format!("R state {:?}", s)),
                    Err(e) => say(&format!("R state err:{}", compact(&e))),
                },
                Err(e) => say(&format!("R state err:{}", compact(&e))),
            },
            "clean" => match ProcessCleaner::new(&self.path) {
                Ok(c) => { self.cleaner = Some(c); say("R clean ok") }
                Err(e) => say(&format!("R clean err:{}", compact(&e))),
            },
            "cdrop" => { self.cleaner.take(); say("R cdrop ok") }
            "cabandon" => { if let Some(c) = self.cleaner.take() { c.abandon(); } say("R cabandon ok") }
            "exit" => return false,
            c if c.starts_with("path ") => {
                // switch to another state file (only meaningful while nothing is held): lets one
                // process serve many executions of the tie without being respawned
                self.path = FilePath::new(c[5..].trim().as_bytes()).expect("valid file path");
                say("R path ok")
            }
            other => say(&format!("R {} err:unknown-command", other)),
        }
        true
    }

    pub fn finish(&mut self) {
        if self.cleaner.is_some() { self.cleaner.take(); say("R cdrop ok"); }
        if self.guard.is_some() { self.guard.take(); say("R drop ok"); }
    }
}

/// `first`: commands executed before stdin is read; `interactive`: read stdin afterwards
pub fn run(first: &[&str], interactive: bool) {
    let args: Vec<String> = std::env::args().collect();
    if args.len() < 2 {
        eprintln!("usage: {} <state-file-path> [commands...]", args[0]);
        std::process::exit(2);
    }
    let mut sh = Sh::new(&args[1]);
    for c in first.iter().map(|s| s.to_string()).chain(args[2..].iter().cloned()) {
        if !sh.exec(&c) { unsafe { libc_exit() } }
    }
    if interactive {
        let stdin = std::io::stdin();
        let mut line = String::new();
        loop {
            line.clear();
            match stdin.lock().read_line(&mut line) {
                Ok(0) | Err(_) => break,
                Ok(_) => if !sh.exec(&line) { unsafe { libc_exit() } },
            }
        }
    }
    sh.finish();
}

extern "C" { fn _exit(code: i32) -> !; }
unsafe fn libc_exit() -> ! { _exit(0) }
