fn main() { c07::run(&["clean"], true) }
