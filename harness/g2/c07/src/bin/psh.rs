fn main() { c07::run(&[], true) }
