fn main() { c07::run(&["create"], true) }
