fn main() { c07::run(&["state"], false) }
