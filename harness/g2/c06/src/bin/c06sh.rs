fn main() { c06g2::run(None, true) }
