fn main() { c06g2::run(Some("create"), true) }
