//! G2 harness for C06: performs REAL service operations of iceoryx2 (ipc::Service), ONE per
//! command, so that libgate can log / step every libc call of each operation.
//!
//!   argv: <root> <shm prefix> <creation_timeout_ms> <pattern> <service name> [first command]
//! Commands (one per line on stdin, each answered by exactly one line starting with "R "):
//!   create <req> | open <req> | ooc <req>   -> R <cmd> ok <digest of static_config()> | R <cmd> err <error>
//!   drop <k>                                -> R drop ok | R drop none      (k-th live handle)
//!   exists                                  -> R exists 0|1|2               (Service::does_exist)
//!   quit                                    drop the handles in order, then the node, exit 0
//!   exit                                    _exit(0) without dropping anything
//! The node is created at start-up (answered by `R node ok`), i.e. before the first command.
//! <req> as in harness/g3/c06/src/svc.rs.  cleanup_dead_nodes_on_open is switched OFF (the
//! model of C06 does not contain the dead-node scan; C04/C07 cover it).
extern crate iceoryx2_bb_loggers;

use std::io::{BufRead, Write};

use iceoryx2::prelude::*;
use iceoryx2_bb_container::semantic_string::SemanticString;
use iceoryx2_bb_system_types::file_name::FileName;
use iceoryx2_bb_system_types::path::Path;

#[path = "../../../g3/c06/src/svc.rs"]
pub mod svc;
use svc::*;

fn say(line: &str) {
    let out = std::io::stdout();
    let mut l = out.lock();
    let _ = writeln!(l, "{}", line);
    let _ = l.flush();
}

pub fn run(first: Option<&str>, interactive: bool) {
    iceoryx2_log::set_log_level(iceoryx2_log::LogLevel::Fatal);
    let args: Vec<String> = std::env::args().skip(1).collect();
    if args.len() < 5 {
        eprintln!("usage: <root> <shm prefix> <creation_timeout_ms> <pattern> <service name> [command]");
        std::process::exit(2);
    }
    let mut config = Config::default();
    config.global.prefix = FileName::new(args[1].as_bytes()).unwrap();
    config.global.set_root_path(&Path::new(args[0].as_bytes()).unwrap());
    config.global.creation_timeout = core::time::Duration::from_millis(args[2].parse().expect("timeout ms"));
    config.global.service.cleanup_dead_nodes_on_open = std::env::var("C06_CLEANUP_DEAD_NODES").is_ok();
    let pat = Pat::parse(&args[3]);
    let name = ServiceName::new(&args[4]).expect("service name");
    let node = NodeBuilder::new().config(&config).create::<ipc::Service>().expect("node");
    say("R node ok");
    let mut handles: Vec<Handle> = vec![];
    let mut exec = |cmd: &str, handles: &mut Vec<Handle>| -> bool {
        let t: Vec<&str> = cmd.split_whitespace().collect();
        if t.is_empty() {
            return true;
        }
        let kind = match t[0] {
            "create" => Some(Kind::Create),
            "open" => Some(Kind::Open),
            "ooc" => Some(Kind::Ooc),
            _ => None,
        };
        if let Some(kind) = kind {
            let req = Req::parse(pat, t.get(1).copied().unwrap_or("-"));
            let r = std::panic::catch_unwind(std::panic::AssertUnwindSafe(|| run_op::<ipc::Service>(&node, &name, pat, kind, &req)));
            match r {
                Ok(Ok(h)) => { say(&format!("R {} ok {}", t[0], h.digest)); handles.push(h); }
                Ok(Err(e)) => say(&format!("R {} err {}", t[0], e)),
                Err(_) => say(&format!("R {} panic", t[0])),
            }
            return true;
        }
        match t[0] {
            "drop" => {
                let k: usize = t.get(1).map(|x| x.parse().unwrap()).unwrap_or(0);
                if k < handles.len() { drop(handles.remove(k)); say("R drop ok") } else { say("R drop none") }
            }
            "exists" => say(&format!("R exists {}", exists::<ipc::Service>(&name, &config, pat))),
            "quit" => return false,
            "exit" => unsafe { libc_exit() },
            o => say(&format!("R {} err unknown-command", o)),
        }
        true
    };
    let mut go_on = true;
    if let Some(c) = first {
        let extra = args.get(5).cloned().unwrap_or_default();
        go_on = exec(&format!("{} {}", c, extra), &mut handles);
    } else if let Some(c) = args.get(5) {
        go_on = exec(&c.replace('_', " "), &mut handles);
    }
    if interactive && go_on {
        let stdin = std::io::stdin();
        for line in stdin.lock().lines() {
            let Ok(line) = line else { break };
            if !exec(&line, &mut handles) {
                break;
            }
        }
    }
    while !handles.is_empty() {
        drop(handles.remove(0));
    }
    drop(node);
}

unsafe fn libc_exit() -> ! {
    extern "C" { fn _exit(code: i32) -> !; }
    unsafe { _exit(0) }
}
