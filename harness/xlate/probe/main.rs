//! C18 part A, dynamic cross-check of the translated FFI tables.  Linked against a COPY of
//! /repo/iceoryx2-ffi/c/src made by tools/checks/C18.py on every run (the copy only adds the
//! generated module api/verif_probe.rs, needed because `trait IntoCInt` is private).
//!   c18probe all      : C lines for every C enum variant, R lines for every leaf that the
//!                       translator does not predict to diverge, D lines for those it does
//!   c18probe one <i>  : run leaf i only (used to replay the predicted-divergent leaves, each
//!                       in its own process)
extern crate iceoryx2_bb_loggers;
use iceoryx2_ffi_c_probe as ffi;

fn main() {
    let args: Vec<String> = std::env::args().collect();
    match args.get(1).map(|s| s.as_str()) {
        Some("all") => {
            let mut out = Vec::new();
            ffi::verif_probe_cenums(&mut out);
            for l in &out {
                println!("{}", l);
            }
            for (i, en, leaf, _cen, div, _c) in ffi::VERIF_PROBE_LEAVES.iter() {
                if *div {
                    println!("D {} {} {}", en, leaf, i);
                } else {
                    println!("{}", ffi::verif_probe_leaf(*i));
                }
            }
            println!("END {}", ffi::VERIF_PROBE_LEAVES.len());
        }
        Some("one") => {
            let i: usize = args[2].parse().expect("index");
            println!("{}", ffi::verif_probe_leaf(i));
        }
        _ => {
            eprintln!("usage: c18probe all | one <index>");
            std::process::exit(2);
        }
    }
}
