//! xlate ffi-enums: source -> Coq translator for the FFI error tables (property C18, DESIGN 3.4).
//!
//! Reads /repo's CURRENT sources with `syn` and emits, as plain data,
//!   * every `#[repr(C)] enum iox2_*_e` of iceoryx2-ffi/c/src/api with its discriminants
//!     (constant expressions such as `IOX2_OK as isize + 1` are evaluated) and the string that
//!     `#[derive(CStrRepr)]` generates for each variant,
//!   * every `impl IntoCInt for X`: ALL leaves of the Rust enum X taken from the enum
//!     DEFINITION (payload enums expanded recursively) and, for each leaf, the result of
//!     symbolically running the `match` of `into_c_int` on it.
//! Outputs: a Coq file (tables only, no proofs), a JSON copy of the same tables for the check,
//! and a Rust probe module that is compiled into a copy of the ffi crate to cross-check the
//! tables dynamically (rustc checks the exhaustiveness of the leaf lists on the way).
//!
//! Anything the translator does not understand is an error naming file:line (exit code 3);
//! it never guesses.

use std::collections::{BTreeMap, BTreeSet};
use std::fmt::Write as _;
use std::path::{Path, PathBuf};

use quote::ToTokens;
use syn::spanned::Spanned;

mod probe;

// ------------------------------------------------------------------------------------------
// data
// ------------------------------------------------------------------------------------------
#[derive(Clone, Debug)]
pub struct CVariant {
    pub name: String,
    pub code: i128,
    pub cstr: String, // "" when the enum does not derive CStrRepr
}

#[derive(Clone, Debug)]
pub struct CEnum {
    pub name: String,
    pub file: String,
    pub line: usize,
    pub has_cstr: bool,
    pub variants: Vec<CVariant>,
    pub string_fn: Option<String>,
}

#[derive(Clone, Debug)]
pub enum RFields {
    Unit,
    Tuple(Vec<syn::Type>),
    Named,
}

#[derive(Clone, Debug)]
pub struct RVariant {
    pub name: String,
    pub fields: RFields,
    pub cfg: Option<String>,
}

#[derive(Clone, Debug)]
pub struct REnum {
    pub name: String,
    pub file: PathBuf,
    pub line: usize,
    pub krate: String,        // crate name with underscores
    pub modpath: Vec<String>, // module path inside the crate (from the file path + inline mods)
    pub variants: Vec<RVariant>,
    pub non_exhaustive: bool,
}

/// A value of a Rust enum, as far as the translator distinguishes values.
#[derive(Clone, Debug, PartialEq, Eq)]
pub enum Val {
    V { en: usize, var: String, payload: Vec<Val> },
    Opaque(String),
}

#[derive(Clone, Debug, PartialEq, Eq)]
pub enum Target {
    Code { cenum: String, variant: String },
    Diverges(String),
}

#[derive(Clone, Debug)]
pub struct Leaf {
    pub val: Val,
    pub top: String,
    pub name: String,
    pub target: Target,
    pub arm: String, // the pattern text of the arm that matched (documentation only)
}

#[derive(Clone, Debug)]
pub struct RMap {
    pub renum: usize,
    pub name: String,
    pub impl_file: String, // file name inside api/
    pub impl_line: usize,
    pub is_error: bool,
    pub leaves: Vec<Leaf>,
}

#[derive(Clone, Debug, Default)]
pub struct UseTable {
    pub named: Vec<(String, Vec<String>)>, // local name -> full path segments
    pub globs: Vec<Vec<String>>,
}

pub struct FfiFile {
    pub name: String, // e.g. publisher.rs
    pub path: PathBuf,
    pub ast: syn::File,
    pub uses: UseTable,
}

pub struct ImplInfo {
    pub ty: String,
    pub file_idx: usize,
    pub line: usize,
    pub body: syn::Block,
}

pub struct FromImpl {
    pub from_ty: String,
    pub to_ty: String,
    pub param: String,
    pub body: syn::Block,
}

pub struct World {
    pub repo: PathBuf,
    pub ffi_files: Vec<FfiFile>,
    pub cenums: Vec<CEnum>,
    pub consts: BTreeMap<String, i128>,
    pub impls: Vec<ImplInfo>,
    pub from_impls: Vec<FromImpl>,
    pub renums: Vec<REnum>,
    pub def_uses: BTreeMap<PathBuf, UseTable>,
    pub errors: Vec<String>,
    pub notes: Vec<String>,
}

type R<T> = Result<T, String>;

fn line_of<T: Spanned>(t: &T) -> usize {
    t.span().start().line
}

fn toks<T: ToTokens>(t: &T) -> String {
    let s = t.to_token_stream().to_string();
    s.replace(" :: ", "::").replace(" (", "(").replace("( ", "(").replace(" )", ")").replace(" ,", ",")
}

// ------------------------------------------------------------------------------------------
// use tables
// ------------------------------------------------------------------------------------------
fn flatten_use(tree: &syn::UseTree, prefix: &mut Vec<String>, out: &mut UseTable) {
    match tree {
        syn::UseTree::Path(p) => {
            prefix.push(p.ident.to_string());
            flatten_use(&p.tree, prefix, out);
            prefix.pop();
        }
        syn::UseTree::Name(n) => {
            let id = n.ident.to_string();
            if id == "self" {
                if let Some(last) = prefix.last() {
                    out.named.push((last.clone(), prefix.clone()));
                }
            } else {
                let mut p = prefix.clone();
                p.push(id.clone());
                out.named.push((id, p));
            }
        }
        syn::UseTree::Rename(r) => {
            let mut p = prefix.clone();
            p.push(r.ident.to_string());
            out.named.push((r.rename.to_string(), p));
        }
        syn::UseTree::Glob(_) => out.globs.push(prefix.clone()),
        syn::UseTree::Group(g) => {
            for t in &g.items {
                flatten_use(t, prefix, out);
            }
        }
    }
}

fn use_table(file: &syn::File) -> UseTable {
    let mut t = UseTable::default();
    for it in &file.items {
        if let syn::Item::Use(u) = it {
            flatten_use(&u.tree, &mut Vec::new(), &mut t);
        }
    }
    t
}

// ------------------------------------------------------------------------------------------
// scanning the Rust enum definitions
// ------------------------------------------------------------------------------------------
fn crate_name_of(dir: &Path) -> Option<String> {
    let txt = std::fs::read_to_string(dir.join("Cargo.toml")).ok()?;
    let mut in_pkg = false;
    for l in txt.lines() {
        let l = l.trim();
        if l.starts_with('[') {
            in_pkg = l == "[package]";
        } else if in_pkg && l.starts_with("name") {
            let v = l.split('=').nth(1)?.trim().trim_matches('"');
            return Some(v.replace('-', "_"));
        }
    }
    None
}

fn rs_files(dir: &Path, out: &mut Vec<PathBuf>) {
    let mut ents: Vec<_> = match std::fs::read_dir(dir) {
        Ok(r) => r.filter_map(|e| e.ok()).map(|e| e.path()).collect(),
        Err(_) => return,
    };
    ents.sort();
    for p in ents {
        if p.is_dir() {
            rs_files(&p, out);
        } else if p.extension().map(|e| e == "rs").unwrap_or(false) {
            out.push(p);
        }
    }
}

fn cfg_of(attrs: &[syn::Attribute]) -> Option<String> {
    for a in attrs {
        if a.path().is_ident("cfg") {
            return Some(toks(&a.meta));
        }
    }
    None
}

fn collect_enums(items: &[syn::Item], file: &Path, krate: &str, modpath: &mut Vec<String>, out: &mut Vec<REnum>) {
    for it in items {
        match it {
            syn::Item::Enum(e) => {
                if !matches!(e.vis, syn::Visibility::Public(_)) {
                    continue;
                }
                if !e.generics.params.is_empty() {
                    continue;
                }
                let variants = e
                    .variants
                    .iter()
                    .map(|v| RVariant {
                        name: v.ident.to_string(),
                        fields: match &v.fields {
                            syn::Fields::Unit => RFields::Unit,
                            syn::Fields::Unnamed(u) => RFields::Tuple(u.unnamed.iter().map(|f| f.ty.clone()).collect()),
                            syn::Fields::Named(_) => RFields::Named,
                        },
                        cfg: cfg_of(&v.attrs),
                    })
                    .collect();
                out.push(REnum {
                    name: e.ident.to_string(),
                    file: file.to_path_buf(),
                    line: line_of(&e.ident),
                    krate: krate.to_string(),
                    modpath: modpath.clone(),
                    variants,
                    non_exhaustive: e.attrs.iter().any(|a| a.path().is_ident("non_exhaustive")),
                });
            }
            syn::Item::Mod(m) => {
                if let Some((_, items)) = &m.content {
                    let is_test = m.attrs.iter().any(|a| toks(&a.meta).contains("test"));
                    if is_test {
                        continue;
                    }
                    modpath.push(m.ident.to_string());
                    collect_enums(items, file, krate, modpath, out);
                    modpath.pop();
                }
            }
            _ => {}
        }
    }
}

fn scan_crate(w: &mut World, crate_dir: &Path) {
    let Some(krate) = crate_name_of(crate_dir) else { return };
    let src = crate_dir.join("src");
    let mut files = Vec::new();
    rs_files(&src, &mut files);
    for f in files {
        let rel = f.strip_prefix(&src).unwrap();
        let comps: Vec<String> = rel.components().map(|c| c.as_os_str().to_string_lossy().to_string()).collect();
        if comps.iter().any(|c| c == "tests" || c == "testing") {
            continue;
        }
        let txt = match std::fs::read_to_string(&f) {
            Ok(t) => t,
            Err(_) => continue,
        };
        if !txt.contains("enum ") {
            continue;
        }
        let ast = match syn::parse_file(&txt) {
            Ok(a) => a,
            Err(e) => {
                w.notes.push(format!("definition scan: cannot parse {} ({}); skipped", f.display(), e));
                continue;
            }
        };
        let mut modpath: Vec<String> = comps.iter().map(|c| c.trim_end_matches(".rs").to_string()).collect();
        if let Some(last) = modpath.last() {
            if last == "mod" || last == "lib" || last == "main" {
                modpath.pop();
            }
        }
        let before = w.renums.len();
        collect_enums(&ast.items, &f, &krate, &mut modpath, &mut w.renums);
        if w.renums.len() > before {
            w.def_uses.insert(f.clone(), use_table(&ast));
        }
    }
}

// ------------------------------------------------------------------------------------------
// constant expressions (discriminants)
// ------------------------------------------------------------------------------------------
fn eval_const(e: &syn::Expr, consts: &BTreeMap<String, i128>) -> R<i128> {
    match e {
        syn::Expr::Lit(l) => match &l.lit {
            syn::Lit::Int(i) => i.base10_parse::<i128>().map_err(|e| e.to_string()),
            _ => Err(format!("non-integer literal `{}`", toks(e))),
        },
        syn::Expr::Paren(p) => eval_const(&p.expr, consts),
        syn::Expr::Group(p) => eval_const(&p.expr, consts),
        syn::Expr::Cast(c) => eval_const(&c.expr, consts),
        syn::Expr::Unary(u) => match u.op {
            syn::UnOp::Neg(_) => Ok(-eval_const(&u.expr, consts)?),
            _ => Err(format!("unsupported unary operator in `{}`", toks(e))),
        },
        syn::Expr::Binary(b) => {
            let l = eval_const(&b.left, consts)?;
            let r = eval_const(&b.right, consts)?;
            match b.op {
                syn::BinOp::Add(_) => Ok(l + r),
                syn::BinOp::Sub(_) => Ok(l - r),
                syn::BinOp::Mul(_) => Ok(l * r),
                syn::BinOp::Shl(_) => Ok(l << r),
                syn::BinOp::BitOr(_) => Ok(l | r),
                _ => Err(format!("unsupported binary operator in `{}`", toks(e))),
            }
        }
        syn::Expr::Path(p) => {
            let id = p.path.segments.last().unwrap().ident.to_string();
            consts.get(&id).copied().ok_or_else(|| format!("unknown constant `{}`", toks(e)))
        }
        _ => Err(format!("unsupported constant expression `{}`", toks(e))),
    }
}

/// Same algorithm as `variant_name_to_string` in iceoryx2-ffi/ffi-macros/src/lib.rs
/// (cross-checked dynamically against `iox2_*_string` by the probe).
fn variant_name_to_string(name: &str) -> String {
    let chars = name.chars().collect::<Vec<_>>();
    let mut result = String::with_capacity(name.len());
    for (i, &c) in chars.iter().enumerate() {
        if c == '_' {
            if !result.ends_with(' ') {
                result.push(' ');
            }
            continue;
        }
        let prev = i.checked_sub(1).and_then(|p| chars.get(p)).copied();
        let next = chars.get(i + 1).copied();
        let starts_camel_word = c.is_uppercase()
            && i > 0
            && prev != Some('_')
            && (prev.is_some_and(|p| p.is_lowercase() || p.is_ascii_digit()) || next.is_some_and(|n| n.is_lowercase()));
        if starts_camel_word && !result.ends_with(' ') {
            result.push(' ');
        }
        result.push(c.to_ascii_lowercase());
    }
    result.trim().to_string()
}

// ------------------------------------------------------------------------------------------
// scanning the ffi api
// ------------------------------------------------------------------------------------------
fn derives(attrs: &[syn::Attribute], what: &str) -> bool {
    attrs.iter().any(|a| a.path().is_ident("derive") && toks(&a.meta).split(|c: char| !c.is_alphanumeric() && c != '_').any(|t| t == what))
}

fn is_repr_c(attrs: &[syn::Attribute]) -> bool {
    attrs.iter().any(|a| a.path().is_ident("repr") && toks(&a.meta).contains('C'))
}

fn type_last_ident(t: &syn::Type) -> Option<String> {
    match t {
        syn::Type::Path(p) if p.qself.is_none() => p.path.segments.last().map(|s| s.ident.to_string()),
        syn::Type::Reference(r) => type_last_ident(&r.elem),
        syn::Type::Paren(p) => type_last_ident(&p.elem),
        _ => None,
    }
}

fn scan_ffi(w: &mut World) {
    let api = w.repo.join("iceoryx2-ffi/c/src/api");
    let mut files = Vec::new();
    rs_files(&api, &mut files);
    if files.is_empty() {
        w.errors.push(format!("no source files under {}", api.display()));
    }
    for f in files {
        let name = f.strip_prefix(&api).unwrap().to_string_lossy().to_string();
        let txt = std::fs::read_to_string(&f).unwrap_or_default();
        match syn::parse_file(&txt) {
            Ok(ast) => {
                let uses = use_table(&ast);
                w.ffi_files.push(FfiFile { name, path: f, ast, uses });
            }
            Err(e) => w.errors.push(format!("{}: cannot parse: {}", f.display(), e)),
        }
    }
    // constants first
    for ff in &w.ffi_files {
        for it in &ff.ast.items {
            if let syn::Item::Const(c) = it {
                if let Ok(v) = eval_const(&c.expr, &w.consts) {
                    w.consts.insert(c.ident.to_string(), v);
                }
            }
        }
    }
    if !w.consts.contains_key("IOX2_OK") {
        w.errors.push("constant IOX2_OK not found in iceoryx2-ffi/c/src/api".into());
    }
    let mut string_fns: Vec<(String, String)> = Vec::new(); // (cenum, fn)
    for (fi, ff) in w.ffi_files.iter().enumerate() {
        for it in &ff.ast.items {
            match it {
                syn::Item::Enum(e) => {
                    let ename = e.ident.to_string();
                    if !is_repr_c(&e.attrs) {
                        continue;
                    }
                    let has_cstr = derives(&e.attrs, "CStrRepr");
                    let mut next: i128 = 0;
                    let mut vars = Vec::new();
                    // constant carriers (`VALUE = some::crate::CONST as _`) are not error enums:
                    // skipped when a discriminant cannot be evaluated and no CStrRepr is derived;
                    // a mapping that targets such an enum is then an error (not a scanned C enum)
                    if !has_cstr {
                        if let Some(bad) = e.variants.iter().find_map(|v| v.discriminant.as_ref().and_then(|(_, d)| eval_const(d, &w.consts).err())) {
                            w.notes.push(format!("{}:{}: C enum {} skipped (not CStrRepr; {})", ff.name, line_of(&e.ident), ename, bad));
                            continue;
                        }
                    }
                    for v in &e.variants {
                        if !matches!(v.fields, syn::Fields::Unit) {
                            w.errors.push(format!("{}:{}: C enum {} has a non-unit variant {}", ff.name, line_of(v), ename, v.ident));
                            continue;
                        }
                        if let Some((_, d)) = &v.discriminant {
                            match eval_const(d, &w.consts) {
                                Ok(x) => next = x,
                                Err(m) => w.errors.push(format!("{}:{}: discriminant of {}::{}: {}", ff.name, line_of(d), ename, v.ident, m)),
                            }
                        }
                        let vname = v.ident.to_string();
                        let cstr = if has_cstr {
                            let mut explicit = None;
                            for a in &v.attrs {
                                if a.path().is_ident("CStr") {
                                    if let Ok(nv) = a.meta.require_name_value() {
                                        if let syn::Expr::Lit(syn::ExprLit { lit: syn::Lit::Str(s), .. }) = &nv.value {
                                            explicit = Some(s.value());
                                        }
                                    }
                                }
                            }
                            explicit.unwrap_or_else(|| variant_name_to_string(&vname))
                        } else {
                            String::new()
                        };
                        vars.push(CVariant { name: vname, code: next, cstr });
                        next += 1;
                    }
                    w.cenums.push(CEnum { name: ename, file: ff.name.clone(), line: line_of(&e.ident), has_cstr, variants: vars, string_fn: None });
                }
                syn::Item::Impl(im) => {
                    let Some((_, tr, _)) = &im.trait_ else { continue };
                    let trname = tr.segments.last().unwrap().ident.to_string();
                    let Some(self_ty) = type_last_ident(&im.self_ty) else { continue };
                    if trname == "IntoCInt" {
                        let mut found = false;
                        for ii in &im.items {
                            if let syn::ImplItem::Fn(f) = ii {
                                if f.sig.ident == "into_c_int" {
                                    w.impls.push(ImplInfo { ty: self_ty.clone(), file_idx: fi, line: line_of(&im.self_ty), body: f.block.clone() });
                                    found = true;
                                }
                            }
                        }
                        if !found {
                            w.errors.push(format!("{}:{}: impl IntoCInt for {} without fn into_c_int", ff.name, line_of(im), self_ty));
                        }
                    } else if trname == "From" {
                        // impl From<X> for iox2_y_e
                        let syn::PathArguments::AngleBracketed(ab) = &tr.segments.last().unwrap().arguments else { continue };
                        let Some(syn::GenericArgument::Type(ft)) = ab.args.first() else { continue };
                        let Some(from_ty) = type_last_ident(ft) else { continue };
                        for ii in &im.items {
                            if let syn::ImplItem::Fn(f) = ii {
                                if f.sig.ident == "from" {
                                    let param = f.sig.inputs.iter().find_map(|a| match a {
                                        syn::FnArg::Typed(pt) => match &*pt.pat {
                                            syn::Pat::Ident(pi) => Some(pi.ident.to_string()),
                                            _ => None,
                                        },
                                        _ => None,
                                    });
                                    if let Some(param) = param {
                                        w.from_impls.push(FromImpl { from_ty: from_ty.clone(), to_ty: self_ty.clone(), param, body: f.block.clone() });
                                    }
                                }
                            }
                        }
                    }
                }
                syn::Item::Fn(f) => {
                    // extern "C" fn iox2_*_string(error: iox2_*_e) -> *const c_char
                    if f.sig.abi.is_none() || f.sig.inputs.len() != 1 {
                        continue;
                    }
                    let fname = f.sig.ident.to_string();
                    if !fname.ends_with("_string") {
                        continue;
                    }
                    if let Some(syn::FnArg::Typed(pt)) = f.sig.inputs.first() {
                        if let Some(t) = type_last_ident(&pt.ty) {
                            if toks(&f.block).contains("as_const_cstr") {
                                string_fns.push((t, fname));
                            }
                        }
                    }
                }
                _ => {}
            }
        }
    }
    for (t, f) in string_fns {
        match w.cenums.iter_mut().find(|c| c.name == t) {
            Some(c) => {
                if let Some(prev) = &c.string_fn {
                    w.notes.push(format!("C enum {} has two string functions: {} and {}", t, prev, f));
                } else {
                    c.string_fn = Some(f);
                }
            }
            None => w.notes.push(format!("string function {} takes {} which is not a scanned C enum", f, t)),
        }
    }
}

// ------------------------------------------------------------------------------------------
// name resolution of Rust enums
// ------------------------------------------------------------------------------------------
fn pick(w: &World, cands: &[usize], krate_hint: Option<&str>, mods: &[String]) -> Option<usize> {
    if cands.len() == 1 {
        return Some(cands[0]);
    }
    let mut c: Vec<usize> = cands.to_vec();
    if let Some(k) = krate_hint {
        let kk: Vec<usize> = c.iter().copied().filter(|&i| w.renums[i].krate == k).collect();
        if kk.len() == 1 {
            return Some(kk[0]);
        }
        if !kk.is_empty() {
            c = kk;
        }
    }
    if !mods.is_empty() {
        let mm: Vec<usize> = c.iter().copied().filter(|&i| w.renums[i].modpath.ends_with(mods) || mods.ends_with(&w.renums[i].modpath)).collect();
        if mm.len() == 1 {
            return Some(mm[0]);
        }
    }
    None
}

/// Resolve the enum called `name` as seen from a file with use table `uses` living in crate `krate`.
fn resolve_enum(w: &World, name: &str, uses: &UseTable, krate: &str, same_file: Option<&Path>) -> R<usize> {
    let by_name = |n: &str| -> Vec<usize> { w.renums.iter().enumerate().filter(|(_, e)| e.name == n).map(|(i, _)| i).collect() };
    if let Some((_, path)) = uses.named.iter().find(|(l, _)| l == name) {
        let real = path.last().unwrap();
        let cands = by_name(real);
        if cands.is_empty() {
            return Err(format!("no enum definition named {} (imported as {})", real, path.join("::")));
        }
        let first = path[0].as_str();
        let k = if first == "crate" || first == "super" || first == "self" { krate } else { first };
        let mods: Vec<String> = path[1..path.len() - 1].iter().filter(|s| *s != "super" && *s != "self").cloned().collect();
        if let Some(i) = pick(w, &cands, Some(k), &mods) {
            return Ok(i);
        }
        return Err(format!("ambiguous enum {} (imported as {}): {} definitions", real, path.join("::"), cands.len()));
    }
    let cands = by_name(name);
    if cands.is_empty() {
        return Err(format!("no enum definition named {}", name));
    }
    if let Some(f) = same_file {
        let sf: Vec<usize> = cands.iter().copied().filter(|&i| w.renums[i].file == f).collect();
        if sf.len() == 1 {
            return Ok(sf[0]);
        }
    }
    if cands.len() == 1 {
        return Ok(cands[0]);
    }
    // glob imports: a unique candidate whose crate is named by one of the globs
    let gk: Vec<usize> = cands
        .iter()
        .copied()
        .filter(|&i| uses.globs.iter().any(|g| !g.is_empty() && (g[0] == w.renums[i].krate || ((g[0] == "crate" || g[0] == "super") && w.renums[i].krate == krate))))
        .collect();
    if gk.len() == 1 {
        return Ok(gk[0]);
    }
    if let Some(i) = pick(w, &cands, Some(krate), &[]) {
        return Ok(i);
    }
    Err(format!("ambiguous enum {}: {} definitions and no import selects one", name, cands.len()))
}

// ------------------------------------------------------------------------------------------
// leaf expansion
// ------------------------------------------------------------------------------------------
const MAX_DEPTH: usize = 6;

fn expand(w: &World, en: usize, depth: usize, stack: &mut Vec<usize>) -> R<Vec<Val>> {
    let e = &w.renums[en];
    let mut out = Vec::new();
    for v in &e.variants {
        if let Some(c) = &v.cfg {
            return Err(format!("{}:{}: variant {}::{} is conditional ({}); not supported", e.file.display(), e.line, e.name, v.name, c));
        }
        match &v.fields {
            RFields::Unit => out.push(Val::V { en, var: v.name.clone(), payload: vec![] }),
            RFields::Named => out.push(Val::V { en, var: v.name.clone(), payload: vec![Val::Opaque("{..}".into())] }),
            RFields::Tuple(tys) => {
                let mut combos: Vec<Vec<Val>> = vec![vec![]];
                for t in tys {
                    let alts: Vec<Val> = match t {
                        syn::Type::Path(p) if p.qself.is_none() && p.path.segments.last().map(|s| s.arguments.is_empty()).unwrap_or(false) => {
                            let tn = p.path.segments.last().unwrap().ident.to_string();
                            let uses = w.def_uses.get(&e.file).cloned().unwrap_or_default();
                            match resolve_enum(w, &tn, &uses, &e.krate, Some(&e.file)) {
                                Ok(inner) if depth < MAX_DEPTH && !stack.contains(&inner) => {
                                    stack.push(inner);
                                    let r = expand(w, inner, depth + 1, stack)?;
                                    stack.pop();
                                    r
                                }
                                Ok(_) => vec![Val::Opaque(tn)],
                                Err(m) if m.starts_with("no enum definition") => vec![Val::Opaque(toks(t).replace(' ', ""))],
                                Err(m) => return Err(format!("{}:{}: payload of {}::{}: {}", e.file.display(), e.line, e.name, v.name, m)),
                            }
                        }
                        _ => vec![Val::Opaque(toks(t).replace(' ', ""))],
                    };
                    let mut next = Vec::new();
                    for c in &combos {
                        for a in &alts {
                            let mut c2 = c.clone();
                            c2.push(a.clone());
                            next.push(c2);
                        }
                    }
                    combos = next;
                }
                for c in combos {
                    out.push(Val::V { en, var: v.name.clone(), payload: c });
                }
            }
        }
    }
    Ok(out)
}

pub fn val_name(v: &Val) -> String {
    match v {
        Val::Opaque(t) => format!("<{}>", t),
        Val::V { var, payload, .. } => {
            if payload.is_empty() {
                var.clone()
            } else {
                format!("{}({})", var, payload.iter().map(val_name).collect::<Vec<_>>().join(","))
            }
        }
    }
}

// ------------------------------------------------------------------------------------------
// symbolic evaluation of into_c_int on one value
// ------------------------------------------------------------------------------------------
struct Env {
    vars: Vec<(String, Val)>,
}

impl Env {
    fn get(&self, n: &str) -> Option<&Val> {
        self.vars.iter().rev().find(|(k, _)| k == n).map(|(_, v)| v)
    }
}

fn is_binding_ident(s: &str) -> bool {
    s.chars().next().map(|c| c.is_lowercase() || c == '_').unwrap_or(false)
}

fn path_matches_variant(w: &World, path: &syn::Path, en: usize, var: &str, ctx: &str) -> R<bool> {
    let segs: Vec<String> = path.segments.iter().map(|s| s.ident.to_string()).collect();
    let last = segs.last().unwrap();
    if segs.len() >= 2 {
        let q = &segs[segs.len() - 2];
        if q != "Self" && *q != w.renums[en].name {
            return Err(format!("{}: pattern `{}` names enum {} but the value is a {}", ctx, toks(path), q, w.renums[en].name));
        }
    }
    if !w.renums[en].variants.iter().any(|v| &v.name == last) {
        return Err(format!("{}: pattern `{}`: {} has no variant {}", ctx, toks(path), w.renums[en].name, last));
    }
    Ok(last == var)
}

fn pmatch(w: &World, pat: &syn::Pat, val: &Val, env: &mut Env, ctx: &str) -> R<bool> {
    match pat {
        syn::Pat::Wild(_) => Ok(true),
        syn::Pat::Paren(p) => pmatch(w, &p.pat, val, env, ctx),
        syn::Pat::Reference(r) => pmatch(w, &r.pat, val, env, ctx),
        syn::Pat::Or(o) => {
            for c in &o.cases {
                if pmatch(w, c, val, env, ctx)? {
                    return Ok(true);
                }
            }
            Ok(false)
        }
        syn::Pat::Ident(pi) => {
            let id = pi.ident.to_string();
            if let Some((_, sub)) = &pi.subpat {
                let ok = pmatch(w, sub, val, env, ctx)?;
                if ok {
                    env.vars.push((id, val.clone()));
                }
                return Ok(ok);
            }
            if is_binding_ident(&id) {
                env.vars.push((id, val.clone()));
                Ok(true)
            } else {
                match val {
                    Val::V { en, var, .. } => {
                        let p: syn::Path = pi.ident.clone().into();
                        path_matches_variant(w, &p, *en, var, ctx)
                    }
                    Val::Opaque(_) => Err(format!("{}: constant pattern `{}` on an opaque payload", ctx, id)),
                }
            }
        }
        syn::Pat::Path(pp) => match val {
            Val::V { en, var, .. } => path_matches_variant(w, &pp.path, *en, var, ctx),
            Val::Opaque(t) => Err(format!("{}: pattern `{}` on an opaque payload of type {}", ctx, toks(pat), t)),
        },
        syn::Pat::TupleStruct(ts) => match val {
            Val::V { en, var, payload } => {
                if !path_matches_variant(w, &ts.path, *en, var, ctx)? {
                    return Ok(false);
                }
                let mut i = 0;
                for el in &ts.elems {
                    if matches!(el, syn::Pat::Rest(_)) {
                        return Ok(true);
                    }
                    if i >= payload.len() {
                        return Err(format!("{}: pattern `{}` has more fields than the variant", ctx, toks(pat)));
                    }
                    if !pmatch(w, el, &payload[i], env, ctx)? {
                        return Ok(false);
                    }
                    i += 1;
                }
                if i != payload.len() {
                    return Err(format!("{}: pattern `{}` has fewer fields than the variant", ctx, toks(pat)));
                }
                Ok(true)
            }
            Val::Opaque(t) => Err(format!("{}: pattern `{}` on an opaque payload of type {}", ctx, toks(pat), t)),
        },
        syn::Pat::Struct(ps) => match val {
            Val::V { en, var, .. } => {
                if !path_matches_variant(w, &ps.path, *en, var, ctx)? {
                    return Ok(false);
                }
                if ps.fields.is_empty() {
                    Ok(true)
                } else {
                    Err(format!("{}: struct pattern with field sub-patterns `{}` not supported", ctx, toks(pat)))
                }
            }
            Val::Opaque(t) => Err(format!("{}: pattern `{}` on an opaque payload of type {}", ctx, toks(pat), t)),
        },
        syn::Pat::Tuple(t) => match val {
            Val::Opaque(_) => {
                for el in &t.elems {
                    match el {
                        syn::Pat::Wild(_) | syn::Pat::Rest(_) => {}
                        syn::Pat::Ident(pi) if pi.subpat.is_none() && is_binding_ident(&pi.ident.to_string()) => {}
                        _ => return Err(format!("{}: tuple pattern `{}` inspects an opaque payload", ctx, toks(pat))),
                    }
                }
                Ok(true)
            }
            _ => Err(format!("{}: tuple pattern `{}` on an enum value", ctx, toks(pat))),
        },
        _ => Err(format!("{}: unsupported pattern `{}`", ctx, toks(pat))),
    }
}

struct Eval<'a> {
    w: &'a World,
    stack: Vec<Val>, // values on which into_c_int is currently being evaluated
}

impl<'a> Eval<'a> {
    fn cenum_target(&self, path: &syn::Path, ctx: &str) -> R<Target> {
        let segs: Vec<String> = path.segments.iter().map(|s| s.ident.to_string()).collect();
        if segs.len() < 2 {
            return Err(format!("{}: expected `iox2_*_e::VARIANT`, found `{}`", ctx, toks(path)));
        }
        let ce = &segs[segs.len() - 2];
        let va = &segs[segs.len() - 1];
        match self.w.cenums.iter().find(|c| &c.name == ce) {
            None => Err(format!("{}: `{}` does not name a scanned C enum", ctx, toks(path))),
            Some(c) => {
                if c.variants.iter().any(|v| &v.name == va) {
                    Ok(Target::Code { cenum: ce.clone(), variant: va.clone() })
                } else {
                    Err(format!("{}: C enum {} has no variant {}", ctx, ce, va))
                }
            }
        }
    }

    fn block(&mut self, b: &syn::Block, env: &mut Env, ctx: &str) -> R<(Target, String)> {
        if b.stmts.len() != 1 {
            return Err(format!("{}: block with {} statements (expected a single expression)", ctx, b.stmts.len()));
        }
        match &b.stmts[0] {
            syn::Stmt::Expr(e, None) => self.expr(e, env, ctx),
            s => Err(format!("{}: unsupported statement `{}`", ctx, toks(s))),
        }
    }

    fn into_c_int(&mut self, val: &Val, ctx: &str) -> R<(Target, String)> {
        let Val::V { en, .. } = val else { return Err(format!("{}: into_c_int on an opaque value", ctx)) };
        let ename = &self.w.renums[*en].name;
        if self.stack.iter().any(|v| v == val) {
            return Ok((Target::Diverges(format!("{}::into_c_int calls itself on the same value (unbounded recursion)", ename)), String::new()));
        }
        if self.stack.len() > 16 {
            return Err(format!("{}: evaluation depth exceeded", ctx));
        }
        let cands: Vec<&ImplInfo> = self.w.impls.iter().filter(|i| &i.ty == ename).collect();
        if cands.is_empty() {
            return Err(format!("{}: no `impl IntoCInt for {}`", ctx, ename));
        }
        if cands.len() > 1 {
            return Err(format!("{}: {} impls of IntoCInt for a type named {}", ctx, cands.len(), ename));
        }
        let im = cands[0];
        let ctx2 = format!("{}:{} impl IntoCInt for {}", self.w.ffi_files[im.file_idx].name, im.line, ename);
        self.stack.push(val.clone());
        let mut env = Env { vars: vec![("self".to_string(), val.clone())] };
        let r = self.block(&im.body, &mut env, &ctx2);
        self.stack.pop();
        r
    }

    fn expr(&mut self, e: &syn::Expr, env: &mut Env, ctx: &str) -> R<(Target, String)> {
        match e {
            syn::Expr::Paren(p) => self.expr(&p.expr, env, ctx),
            syn::Expr::Group(p) => self.expr(&p.expr, env, ctx),
            syn::Expr::Cast(c) => self.expr(&c.expr, env, ctx),
            syn::Expr::Block(b) if b.label.is_none() => self.block(&b.block, env, ctx),
            syn::Expr::Path(p) if p.qself.is_none() && p.path.segments.len() >= 2 => Ok((self.cenum_target(&p.path, ctx)?, String::new())),
            syn::Expr::Match(m) => {
                let scrut = match &*m.expr {
                    syn::Expr::Path(p) if p.path.segments.len() == 1 => p.path.segments[0].ident.to_string(),
                    other => return Err(format!("{}: match on `{}` (expected a plain variable)", ctx, toks(other))),
                };
                let val = env.get(&scrut).cloned().ok_or_else(|| format!("{}: unknown variable `{}`", ctx, scrut))?;
                for arm in &m.arms {
                    if arm.guard.is_some() {
                        return Err(format!("{}: match guard on arm `{}` not supported", ctx, toks(&arm.pat)));
                    }
                    let mark = env.vars.len();
                    if pmatch(self.w, &arm.pat, &val, env, ctx)? {
                        let (t, inner) = self.expr(&arm.body, env, ctx)?;
                        env.vars.truncate(mark);
                        let pat = toks(&arm.pat);
                        return Ok((t, if inner.is_empty() { pat } else { format!("{} -> {}", pat, inner) }));
                    }
                    env.vars.truncate(mark);
                }
                Err(format!("{}: no arm matches {} (rustc would reject this)", ctx, val_name(&val)))
            }
            syn::Expr::MethodCall(mc) if mc.method == "into_c_int" && mc.args.is_empty() => {
                let recv = match &*mc.receiver {
                    syn::Expr::Path(p) if p.path.segments.len() == 1 => p.path.segments[0].ident.to_string(),
                    other => return Err(format!("{}: into_c_int on `{}` (expected a plain variable)", ctx, toks(other))),
                };
                let val = env.get(&recv).cloned().ok_or_else(|| format!("{}: unknown variable `{}`", ctx, recv))?;
                self.into_c_int(&val, ctx)
            }
            syn::Expr::Call(c) => {
                // Into::<iox2_x_e>::into(v)   or   iox2_x_e::from(v)
                let f = toks(&c.func).replace(' ', "");
                if c.args.len() != 1 {
                    return Err(format!("{}: unsupported call `{}`", ctx, toks(e)));
                }
                let arg = match &c.args[0] {
                    syn::Expr::Path(p) if p.path.segments.len() == 1 => p.path.segments[0].ident.to_string(),
                    other => return Err(format!("{}: call argument `{}` (expected a plain variable)", ctx, toks(other))),
                };
                let val = env.get(&arg).cloned().ok_or_else(|| format!("{}: unknown variable `{}`", ctx, arg))?;
                let to_ty = if let Some(rest) = f.strip_prefix("Into::<") {
                    rest.strip_suffix(">::into").map(|s| s.to_string())
                } else {
                    f.strip_suffix("::from").map(|s| s.rsplit("::").next().unwrap().to_string())
                };
                let Some(to_ty) = to_ty else { return Err(format!("{}: unsupported call `{}`", ctx, toks(e))) };
                let Val::V { en, .. } = &val else { return Err(format!("{}: conversion of an opaque value", ctx)) };
                let from_ty = self.w.renums[*en].name.clone();
                let cands: Vec<&FromImpl> = self.w.from_impls.iter().filter(|fi| fi.from_ty == from_ty && fi.to_ty == to_ty).collect();
                if cands.len() != 1 {
                    return Err(format!("{}: {} impls `From<{}> for {}`", ctx, cands.len(), from_ty, to_ty));
                }
                let fi = cands[0];
                let mut env2 = Env { vars: vec![(fi.param.clone(), val.clone())] };
                let ctx2 = format!("{} via impl From<{}> for {}", ctx, from_ty, to_ty);
                self.block(&fi.body, &mut env2, &ctx2)
            }
            syn::Expr::Macro(m) => {
                let name = m.mac.path.segments.last().unwrap().ident.to_string();
                if ["panic", "fatal_panic", "unreachable", "unimplemented", "todo"].contains(&name.as_str()) {
                    Ok((Target::Diverges(format!("{}!", name)), String::new()))
                } else {
                    Err(format!("{}: unsupported macro `{}!`", ctx, name))
                }
            }
            other => Err(format!("{}: unsupported expression `{}`", ctx, toks(other))),
        }
    }
}

// ------------------------------------------------------------------------------------------
// output
// ------------------------------------------------------------------------------------------
fn coq_str(s: &str) -> String {
    format!("\"{}\"", s.replace('"', "\"\""))
}

fn json_str(s: &str) -> String {
    let mut o = String::from("\"");
    for c in s.chars() {
        match c {
            '"' => o.push_str("\\\""),
            '\\' => o.push_str("\\\\"),
            '\n' => o.push_str("\\n"),
            c if (c as u32) < 0x20 => write!(o, "\\u{:04x}", c as u32).unwrap(),
            c => o.push(c),
        }
    }
    o.push('"');
    o
}

fn coq_z(i: i128) -> String {
    if i < 0 {
        format!("({})%Z", i)
    } else {
        format!("{}%Z", i)
    }
}

fn emit_coq(w: &World, maps: &[RMap]) -> String {
    let mut o = String::new();
    o.push_str("(* GENERATED by /verif/harness/xlate (ffi-enums) from /repo/iceoryx2-ffi/c/src/api and the\n");
    o.push_str("   enum definitions it refers to.  DO NOT EDIT: ./check C18 regenerates this file on every\n");
    o.push_str("   run; the committed copy is the last accepted table.  Data only. *)\n");
    o.push_str("From Coq Require Import List String ZArith.\nFrom V Require Import model.Ffi.\nImport ListNotations.\nOpen Scope string_scope.\n\n");
    writeln!(o, "Definition ffi_ok : Z := {}.\n", coq_z(*w.consts.get("IOX2_OK").unwrap_or(&0))).unwrap();
    o.push_str("Definition ffi_cenums : list cenum := [\n");
    for (i, c) in w.cenums.iter().enumerate() {
        writeln!(o, "  (* {}:{} *)", c.file, c.line).unwrap();
        writeln!(o, "  mk_cenum {} {} {} [", coq_str(&c.name), if c.has_cstr { "true" } else { "false" }, match &c.string_fn {
            Some(f) => format!("(Some {})", coq_str(f)),
            None => "None".to_string(),
        })
        .unwrap();
        for (j, v) in c.variants.iter().enumerate() {
            writeln!(o, "    mk_cvariant {} {} {}{}", coq_str(&v.name), coq_z(v.code), coq_str(&v.cstr), if j + 1 < c.variants.len() { ";" } else { "" }).unwrap();
        }
        writeln!(o, "  ]{}", if i + 1 < w.cenums.len() { ";" } else { "" }).unwrap();
    }
    o.push_str("].\n\n");
    o.push_str("Definition ffi_rmaps : list rmap := [\n");
    for (i, m) in maps.iter().enumerate() {
        let e = &w.renums[m.renum];
        writeln!(o, "  (* impl IntoCInt for {}  -- api/{}:{} ; enum defined at {}:{} *)", m.name, m.impl_file, m.impl_line, e.file.strip_prefix(&w.repo).unwrap_or(&e.file).display(), e.line).unwrap();
        writeln!(o, "  mk_rmap {} {} [", coq_str(&m.name), if m.is_error { "true" } else { "false" }).unwrap();
        for (j, l) in m.leaves.iter().enumerate() {
            let t = match &l.target {
                Target::Code { cenum, variant } => format!("(TCode {} {})", coq_str(cenum), coq_str(variant)),
                Target::Diverges(why) => format!("(TDiverges {})", coq_str(why)),
            };
            writeln!(o, "    mk_leaf {} {} {}{}", coq_str(&l.top), coq_str(&l.name), t, if j + 1 < m.leaves.len() { ";" } else { "" }).unwrap();
        }
        writeln!(o, "  ]{}", if i + 1 < maps.len() { ";" } else { "" }).unwrap();
    }
    o.push_str("].\n");
    o
}

fn emit_json(w: &World, maps: &[RMap]) -> String {
    let mut o = String::new();
    o.push_str("{\n");
    writeln!(o, " \"ok\": {},", w.consts.get("IOX2_OK").unwrap_or(&0)).unwrap();
    o.push_str(" \"cenums\": [\n");
    for (i, c) in w.cenums.iter().enumerate() {
        write!(o, "  {{\"name\": {}, \"file\": {}, \"line\": {}, \"has_cstr\": {}, \"string_fn\": {}, \"variants\": [", json_str(&c.name), json_str(&c.file), c.line, c.has_cstr, match &c.string_fn {
            Some(f) => json_str(f),
            None => "null".into(),
        })
        .unwrap();
        for (j, v) in c.variants.iter().enumerate() {
            write!(o, "{}{{\"name\": {}, \"code\": {}, \"cstr\": {}}}", if j > 0 { ", " } else { "" }, json_str(&v.name), v.code, json_str(&v.cstr)).unwrap();
        }
        writeln!(o, "]}}{}", if i + 1 < w.cenums.len() { "," } else { "" }).unwrap();
    }
    o.push_str(" ],\n \"rmaps\": [\n");
    for (i, m) in maps.iter().enumerate() {
        let e = &w.renums[m.renum];
        write!(
            o,
            "  {{\"name\": {}, \"impl_file\": {}, \"impl_line\": {}, \"def_file\": {}, \"def_line\": {}, \"is_error\": {}, \"leaves\": [",
            json_str(&m.name),
            json_str(&m.impl_file),
            m.impl_line,
            json_str(&e.file.strip_prefix(&w.repo).unwrap_or(&e.file).to_string_lossy()),
            e.line,
            m.is_error
        )
        .unwrap();
        for (j, l) in m.leaves.iter().enumerate() {
            let t = match &l.target {
                Target::Code { cenum, variant } => format!("\"cenum\": {}, \"cvariant\": {}, \"diverges\": null", json_str(cenum), json_str(variant)),
                Target::Diverges(why) => format!("\"cenum\": null, \"cvariant\": null, \"diverges\": {}", json_str(why)),
            };
            write!(o, "{}\n    {{\"top\": {}, \"name\": {}, {}, \"arm\": {}}}", if j > 0 { "," } else { "" }, json_str(&l.top), json_str(&l.name), t, json_str(&l.arm)).unwrap();
        }
        writeln!(o, "]}}{}", if i + 1 < maps.len() { "," } else { "" }).unwrap();
    }
    o.push_str(" ],\n \"notes\": [");
    for (i, n) in w.notes.iter().enumerate() {
        write!(o, "{}{}", if i > 0 { ", " } else { "" }, json_str(n)).unwrap();
    }
    o.push_str("]\n}\n");
    o
}

fn write_if_changed(p: &Path, content: &str) {
    if let Ok(cur) = std::fs::read_to_string(p) {
        if cur == content {
            return;
        }
    }
    if let Some(d) = p.parent() {
        let _ = std::fs::create_dir_all(d);
    }
    std::fs::write(p, content).unwrap_or_else(|e| panic!("cannot write {}: {}", p.display(), e));
}

fn main() {
    let args: Vec<String> = std::env::args().collect();
    let mut repo = PathBuf::from("/repo");
    let mut coq_out: Option<PathBuf> = None;
    let mut json_out: Option<PathBuf> = None;
    let mut probe_out: Option<PathBuf> = None;
    let mut i = 1;
    if args.get(1).map(|s| s.as_str()) != Some("ffi-enums") {
        eprintln!("usage: xlate ffi-enums [--repo DIR] [--coq FILE] [--json FILE] [--probe FILE]");
        std::process::exit(2);
    }
    i += 1;
    while i < args.len() {
        let v = args.get(i + 1).cloned().unwrap_or_default();
        match args[i].as_str() {
            "--repo" => repo = PathBuf::from(v),
            "--coq" => coq_out = Some(PathBuf::from(v)),
            "--json" => json_out = Some(PathBuf::from(v)),
            "--probe" => probe_out = Some(PathBuf::from(v)),
            a => {
                eprintln!("unknown argument {}", a);
                std::process::exit(2);
            }
        }
        i += 2;
    }
    let mut w = World {
        repo: repo.clone(),
        ffi_files: vec![],
        cenums: vec![],
        consts: BTreeMap::new(),
        impls: vec![],
        from_impls: vec![],
        renums: vec![],
        def_uses: BTreeMap::new(),
        errors: vec![],
        notes: vec![],
    };
    // enum definitions: iceoryx2, iceoryx2-cal, iceoryx2-bb/*, iceoryx2-pal/*
    let mut crate_dirs = vec![repo.join("iceoryx2"), repo.join("iceoryx2-cal")];
    for group in ["iceoryx2-bb", "iceoryx2-pal"] {
        if let Ok(rd) = std::fs::read_dir(repo.join(group)) {
            let mut ds: Vec<PathBuf> = rd.filter_map(|e| e.ok()).map(|e| e.path()).filter(|p| p.join("Cargo.toml").exists()).collect();
            ds.sort();
            crate_dirs.extend(ds);
        }
    }
    for d in crate_dirs {
        scan_crate(&mut w, &d);
    }
    scan_ffi(&mut w);

    // one map per impl
    let mut maps: Vec<RMap> = Vec::new();
    let mut order: Vec<usize> = (0..w.impls.len()).collect();
    order.sort_by_key(|&k| (w.ffi_files[w.impls[k].file_idx].name.clone(), w.impls[k].line));
    let mut errors = std::mem::take(&mut w.errors);
    let mut seen_types = BTreeSet::new();
    for k in order {
        let im = &w.impls[k];
        let ff = &w.ffi_files[im.file_idx];
        let ctx = format!("{}:{} impl IntoCInt for {}", ff.name, im.line, im.ty);
        if !seen_types.insert(im.ty.clone()) {
            errors.push(format!("{}: second impl for a type with this name", ctx));
            continue;
        }
        let en = match resolve_enum(&w, &im.ty, &ff.uses, "iceoryx2_ffi_c", None) {
            Ok(e) => e,
            Err(m) => {
                errors.push(format!("{}: {}", ctx, m));
                continue;
            }
        };
        if w.renums[en].non_exhaustive {
            w.notes.push(format!("{}: enum is #[non_exhaustive]", ctx));
        }
        let vals = match expand(&w, en, 0, &mut vec![en]) {
            Ok(v) => v,
            Err(m) => {
                errors.push(format!("{}: {}", ctx, m));
                continue;
            }
        };
        let mut leaves = Vec::new();
        let mut ev = Eval { w: &w, stack: vec![] };
        let mut failed = false;
        for v in vals {
            match ev.into_c_int(&v, &ctx) {
                Ok((t, arm)) => {
                    let top = match &v {
                        Val::V { var, .. } => var.clone(),
                        _ => unreachable!(),
                    };
                    leaves.push(Leaf { name: val_name(&v), top, val: v, target: t, arm });
                }
                Err(m) => {
                    errors.push(m);
                    failed = true;
                    break;
                }
            }
        }
        if failed {
            continue;
        }
        let is_error = im.ty.ends_with("Error") || im.ty.ends_with("Failure");
        maps.push(RMap { renum: en, name: im.ty.clone(), impl_file: ff.name.clone(), impl_line: im.line, is_error, leaves });
    }
    w.errors = errors;
    if !w.errors.is_empty() {
        for e in &w.errors {
            println!("XLATE-ERROR {}", e);
        }
        std::process::exit(3);
    }
    if let Some(p) = &coq_out {
        write_if_changed(p, &emit_coq(&w, &maps));
    }
    if let Some(p) = &json_out {
        write_if_changed(p, &emit_json(&w, &maps));
    }
    if let Some(p) = &probe_out {
        match probe::emit_probe(&w, &maps) {
            Ok(s) => write_if_changed(p, &s),
            Err(m) => {
                println!("XLATE-ERROR probe: {}", m);
                std::process::exit(3);
            }
        }
    }
    let nleaves: usize = maps.iter().map(|m| m.leaves.len()).sum();
    let ncv: usize = w.cenums.iter().map(|c| c.variants.len()).sum();
    println!("XLATE-OK cenums={} cvariants={} rmaps={} leaves={} definitions_scanned={}", w.cenums.len(), ncv, maps.len(), nleaves, w.renums.len());
    for n in &w.notes {
        println!("XLATE-NOTE {}", n);
    }
}
