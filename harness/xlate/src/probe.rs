//! Generates `verif_probe.rs`: a module that is compiled INTO A COPY of the ffi crate (as a child
//! of `api`, because `trait IntoCInt` is private to that module) and cross-checks the translated
//! tables against the real code:
//!   * one exhaustive `match` per Rust enum over the translator's leaf list, without wildcard and
//!     under `#[deny(unreachable_patterns)]`: rustc itself rejects a missing or duplicate leaf;
//!   * every leaf is constructed, `.into_c_int()` is called, and the exported `iox2_*_string`
//!     function of the target C enum is called on the result;
//!   * every C enum variant is cast to c_int and printed with its string.
use crate::*;

fn type_path(w: &World, en: usize, parent: Option<usize>) -> String {
    let e = &w.renums[en];
    if let Some(p) = parent {
        let pe = &w.renums[p];
        if let Some(u) = w.def_uses.get(&pe.file) {
            if let Some((_, path)) = u.named.iter().find(|(l, _)| *l == e.name) {
                let first = path[0].as_str();
                if first == "crate" {
                    return format!("::{}::{}", pe.krate, path[1..].join("::"));
                }
                // an extern crate path; anything else (`super::`, `self::`, a child module of
                // the defining file) falls through to the definition path
                if w.renums.iter().any(|r| r.krate == first) {
                    return format!("::{}", path.join("::"));
                }
            }
        }
    }
    let mut s = format!("::{}", e.krate);
    for m in &e.modpath {
        s.push_str("::");
        s.push_str(m);
    }
    s.push_str("::");
    s.push_str(&e.name);
    s
}

/// how to construct a value of an opaque payload type (hand-maintained, small)
fn opaque_ctor(t: &str) -> Option<&'static str> {
    match t {
        "AttributeKey" => Some("{ use ::iceoryx2_bb_container::semantic_string::SemanticString as _; ::iceoryx2::service::attribute::AttributeKey::new(b\"k\").unwrap() }"),
        "(AttributeKey,AttributeValue)" => Some("{ use ::iceoryx2_bb_container::semantic_string::SemanticString as _; (::iceoryx2::service::attribute::AttributeKey::new(b\"k\").unwrap(), ::iceoryx2::service::attribute::AttributeValue::new(b\"v\").unwrap()) }"),
        _ => None,
    }
}

fn val_expr(w: &World, v: &Val, top_name: Option<&str>, parent: Option<usize>) -> Result<String, String> {
    match v {
        Val::Opaque(t) => opaque_ctor(t).map(|s| s.to_string()).ok_or_else(|| format!("no constructor known for payload type {}", t)),
        Val::V { en, var, payload } => {
            let ty = match top_name {
                Some(n) => n.to_string(),
                None => type_path(w, *en, parent),
            };
            let named = w.renums[*en].variants.iter().any(|x| &x.name == var && matches!(x.fields, RFields::Named));
            if named {
                return Err(format!("variant {}::{} has named fields", w.renums[*en].name, var));
            }
            if payload.is_empty() {
                Ok(format!("{}::{}", ty, var))
            } else {
                let mut args = Vec::new();
                for p in payload {
                    args.push(val_expr(w, p, None, Some(*en))?);
                }
                Ok(format!("{}::{}({})", ty, var, args.join(", ")))
            }
        }
    }
}

fn val_pat(w: &World, v: &Val, top_name: Option<&str>, parent: Option<usize>) -> String {
    match v {
        Val::Opaque(_) => "_".to_string(),
        Val::V { en, var, payload } => {
            let ty = match top_name {
                Some(n) => n.to_string(),
                None => type_path(w, *en, parent),
            };
            let named = w.renums[*en].variants.iter().any(|x| &x.name == var && matches!(x.fields, RFields::Named));
            if named {
                format!("{}::{} {{ .. }}", ty, var)
            } else if payload.is_empty() {
                format!("{}::{}", ty, var)
            } else {
                format!("{}::{}({})", ty, var, payload.iter().map(|p| val_pat(w, p, None, Some(*en))).collect::<Vec<_>>().join(", "))
            }
        }
    }
}

fn rewrite_use(u: &syn::ItemUse) -> String {
    // strip visibility; `super::x` (relative to api::<file>) becomes `super::super::x`
    // (relative to api::verif_probe::<mod>)
    let t = toks(&u.tree).replace(' ', "");
    let t = if let Some(rest) = t.strip_prefix("super::") { format!("super::super::{}", rest) } else { t };
    let t = if let Some(rest) = t.strip_prefix("self::") { format!("super::super::{}", rest) } else { t };
    format!("use {};", t.replace("::{", "::{ ").replace(",", ", "))
}

fn cenum_path(c: &CEnum) -> String {
    // through the defining module (not every module is re-exported by api/mod.rs)
    let stem = c.file.trim_end_matches(".rs");
    if stem == "mod" {
        format!("super::{}", c.name)
    } else {
        format!("super::{}::{}", stem.replace('/', "::"), c.name)
    }
}

fn fn_path(c: &CEnum, f: &str) -> String {
    let stem = c.file.trim_end_matches(".rs");
    if stem == "mod" {
        format!("super::{}", f)
    } else {
        format!("super::{}::{}", stem.replace('/', "::"), f)
    }
}

pub fn emit_probe(w: &World, maps: &[RMap]) -> Result<String, String> {
    let mut o = String::new();
    o.push_str("// GENERATED by /verif/harness/xlate -- dynamic cross-check of the FFI tables (C18).\n");
    o.push_str("#![allow(unused_imports, dead_code, non_snake_case, non_camel_case_types, clippy::all)]\n");
    o.push_str("use core::ffi::{c_char, c_int};\nuse alloc::string::String;\nuse alloc::vec::Vec;\nuse alloc::format;\n\n");
    o.push_str("fn s(p: *const c_char) -> String {\n    if p.is_null() { return String::from(\"<null>\"); }\n    unsafe { core::ffi::CStr::from_ptr(p) }.to_string_lossy().into_owned()\n}\n\n");
    // C enums
    o.push_str("pub fn verif_probe_cenums(out: &mut Vec<String>) {\n");
    for c in &w.cenums {
        for v in &c.variants {
            let val = format!("{}::{}", cenum_path(c), v.name);
            match &c.string_fn {
                Some(f) => {
                    writeln!(o, "    out.push(format!(\"C {} {} {{}} {{}}\", {} as c_int, s(unsafe {{ {}({}) }})));", c.name, v.name, val, fn_path(c, f), val).unwrap();
                }
                None if c.has_cstr => {
                    // CStrRepr derived but no exported iox2_*_string function: read the string through the trait
                    writeln!(o, "    out.push(format!(\"C {} {} {{}} {{}}\", {} as c_int, s(::iceoryx2_bb_elementary_traits::AsCStr::as_const_cstr(&{}).as_ptr() as *const c_char)));", c.name, v.name, val, val).unwrap();
                }
                None => {
                    writeln!(o, "    out.push(format!(\"C {} {} {{}} -\", {} as c_int));", c.name, v.name, val).unwrap();
                }
            }
        }
    }
    o.push_str("}\n\n");
    // code -> string through the exported function of a C enum
    o.push_str("fn cname(cenum: &str, code: c_int) -> String {\n    match cenum {\n");
    for c in &w.cenums {
        if let Some(f) = &c.string_fn {
            writeln!(o, "        \"{}\" => {{", c.name).unwrap();
            writeln!(o, "            for v in [{}] {{", c.variants.iter().map(|v| format!("{}::{}", cenum_path(c), v.name)).collect::<Vec<_>>().join(", ")).unwrap();
            writeln!(o, "                if v as c_int == code {{ return s(unsafe {{ {}(v) }}); }}", fn_path(c, f)).unwrap();
            o.push_str("            }\n            String::from(\"<no-variant>\")\n        }\n");
        }
    }
    o.push_str("        _ => String::from(\"-\"),\n    }\n}\n\n");

    let mut global: usize = 0;
    let mut dispatch = String::new();
    let mut meta = String::new(); // (index, enum, leaf, predicted divergent, constructible)
    for (mi, m) in maps.iter().enumerate() {
        let ff = w.ffi_files.iter().find(|f| f.name == m.impl_file).ok_or("impl file vanished")?;
        writeln!(o, "// impl IntoCInt for {}  (api/{}:{})", m.name, m.impl_file, m.impl_line).unwrap();
        writeln!(o, "mod m{} {{", mi).unwrap();
        if ff.name == "mod.rs" {
            // the api module itself: a glob import sees everything api sees (including its private imports)
            o.push_str("    use super::super::*;\n");
        } else {
            for it in &ff.ast.items {
                if let syn::Item::Use(u) = it {
                    writeln!(o, "    {}", rewrite_use(u)).unwrap();
                }
            }
        }
        // mod.rs declares IntoCInt itself and its siblings import it from `super`
        o.push_str("    use core::ffi::c_int as verif_c_int;\n");
        writeln!(o, "    #[deny(unreachable_patterns)]\n    pub fn leaf_name(v: &{}) -> &'static str {{\n        match v {{", m.name).unwrap();
        for l in &m.leaves {
            writeln!(o, "            {} => \"{}\",", val_pat(w, &l.val, Some(&m.name), None), l.name).unwrap();
        }
        o.push_str("        }\n    }\n");
        o.push_str("    pub fn run(i: usize) -> Option<(&'static str, verif_c_int)> {\n        match i {\n");
        for (li, l) in m.leaves.iter().enumerate() {
            let predicted_div = matches!(l.target, Target::Diverges(_));
            let cen = match &l.target {
                Target::Code { cenum, .. } => cenum.clone(),
                _ => "-".to_string(),
            };
            match val_expr(w, &l.val, Some(&m.name), None) {
                Ok(e) => {
                    writeln!(o, "            {} => {{ let v = {}; let n = leaf_name(&v); Some((n, super::super::IntoCInt::into_c_int(v))) }}", li, e).unwrap();
                    writeln!(meta, "    ({}, \"{}\", \"{}\", \"{}\", {}, true),", global, m.name, l.name, cen, predicted_div).unwrap();
                }
                Err(why) => {
                    writeln!(o, "            // {}: not constructible: {}", li, why).unwrap();
                    writeln!(meta, "    ({}, \"{}\", \"{}\", \"{}\", {}, false),", global, m.name, l.name, cen, predicted_div).unwrap();
                }
            }
            writeln!(dispatch, "        {} => m{}::run({}),", global, mi, li).unwrap();
            global += 1;
        }
        o.push_str("            _ => None,\n        }\n    }\n}\n\n");
    }
    writeln!(o, "/// (index, rust enum, leaf, target C enum predicted by the translator, predicted divergent, constructible)").unwrap();
    writeln!(o, "pub const VERIF_PROBE_LEAVES: [(usize, &str, &str, &str, bool, bool); {}] = [\n{}];\n", global, meta).unwrap();
    o.push_str("fn run_leaf(i: usize) -> Option<(&'static str, c_int)> {\n    match i {\n");
    o.push_str(&dispatch);
    o.push_str("        _ => None,\n    }\n}\n\n");
    o.push_str(
        "/// executes into_c_int on leaf `i` of the real code; `R <enum> <leaf> <code> <string>`\n\
pub fn verif_probe_leaf(i: usize) -> String {\n\
    let (_, en, leaf, cen, _, constructible) = VERIF_PROBE_LEAVES[i];\n\
    if !constructible { return format!(\"U {} {}\", en, leaf); }\n\
    match run_leaf(i) {\n\
        Some((n, code)) => format!(\"R {} {} {} {}\", en, n, code, cname(cen, code)),\n\
        None => format!(\"U {} {}\", en, leaf),\n\
    }\n\
}\n",
    );
    Ok(o)
}
