use core::sync::atomic::{AtomicU32, Ordering};
use iceoryx2_bb_lock_free::spsc::safely_overflowing_index_queue::*;

static FLAG: AtomicU32 = AtomicU32::new(0);

// consumer pops position 0, then (relaxed flag: no happens-before) the producer wraps around
#[test]
fn overflow_queue_slot_reuse_is_ordered_after_the_consumers_read() {
    let queue = FixedSizeSafelyOverflowingIndexQueue::<1>::new();
    let q: &'static FixedSizeSafelyOverflowingIndexQueue<1> = unsafe { core::mem::transmute(&queue) };
    let mut p = q.acquire_producer().unwrap();
    assert_eq!(p.push(7), None);
    let c = std::thread::spawn(move || {
        let mut c = q.acquire_consumer().unwrap();
        assert_eq!(c.pop(), Some(7));
        FLAG.store(1, Ordering::Relaxed);
    });
    while FLAG.load(Ordering::Relaxed) == 0 { std::hint::spin_loop(); }
    assert_eq!(p.push(8), None);
    assert_eq!(p.push(9), Some(8)); // position 2 -> slot 0, read by the consumer at position 0
    c.join().unwrap();
}
