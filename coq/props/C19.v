(* C19 -- names are validated and domains are isolated.  Statements only; every proof is
   `exact <lemma>` from proofs/NamesProofs.v, followed by Print Assumptions (checked by
   ./check).  The model (model/Names.v, first half) transcribes the Rust code; the spec
   (second half: rules_of, spec_new, spec_apply, spec_path_for, spec_extract_...) states the
   documented rules as plain predicates over byte lists.  Bytes are arbitrary N, strings are
   arbitrary lists: nothing below is bounded or enumerated.

   Clauses that are FALSE of the faithful model are kept visible as `..._full : Prop`, with a
   `..._refuted` witness (each replayed on the real code by harness/g3/c19) and the strongest
   `..._partial` that holds. *)
From V Require Import model.Base model.Names proofs.NamesProofs proofs.NamesConnProofs.

(* ---------------------------------------------------------------------------------- *)
(* (1) constructors: accepted iff the rules hold; the value is the input; never a panic.
   t ranges over FileName, Path, FilePath, Base64Url, UserName, GroupName and
   RestrictedFileName<c> for every c >= 1 (wf_ty is the static_assert of the real type). *)
Theorem c19_accept_iff : forall (t : ty) (b : str), wf_ty t ->
  (sem_new (sty_of t) b = Val (inl b) <-> rules_of t b = true) /\
  (forall s, sem_new (sty_of t) b = Val (inl s) -> s = b) /\
  sem_new (sty_of t) b <> Panic.
Proof. exact accept_iff. Qed.
Check c19_accept_iff : forall (t : ty) (b : str), wf_ty t ->
  (sem_new (sty_of t) b = Val (inl b) <-> rules_of t b = true) /\
  (forall s, sem_new (sty_of t) b = Val (inl s) -> s = b) /\
  sem_new (sty_of t) b <> Panic.
Print Assumptions c19_accept_iff.
Example c19_accept_iff_nonvacuous : wf_ty TFileName /\ wf_ty (TRestricted 1) /\
  sem_new (sty_of TFileName) [97; 46; 98]%N = Val (inl [97; 46; 98]%N) /\ rules_of TFileName [46; 46]%N = false.
Proof. unfold wf_ty. repeat split; try (apply Nat.leb_le); vm_compute; reflexivity. Qed.
Print Assumptions c19_accept_iff_nonvacuous.

(* the reported error kind: `constructor = spec constructor' is false (F15: a NUL / non-ASCII
   byte is reported as ExceedsMaximumLength) and holds outside exactly that class *)
Definition c19_accept_error_kind_full : Prop := new_matches_spec_full.
Theorem c19_accept_error_kind_refuted : ~ c19_accept_error_kind_full.
Proof. exact new_matches_spec_refuted. Qed.
Print Assumptions c19_accept_error_kind_refuted.
Theorem c19_accept_error_kind_partial : forall (t : ty) (b : str), wf_ty t ->
  err_kind_class (cap_of t) [] (OpPushBytes b) = false -> sem_new (sty_of t) b = spec_new t b.
Proof. exact new_matches_spec. Qed.
Print Assumptions c19_accept_error_kind_partial.

(* ServiceName::new / NodeName::new on every &str (= every UTF-8 byte string) *)
Theorem c19_service_name_accept : forall b, utf8_valid b = true ->
  exists r, service_name_new b = Some r /\ r <> Panic /\
            (r = Val (inl b) <-> service_name_rules b = true) /\ (forall s, r = Val (inl s) -> s = b).
Proof. exact service_name_accept. Qed.
Print Assumptions c19_service_name_accept.
Theorem c19_node_name_accept : forall b, utf8_valid b = true ->
  exists r, node_name_new b = Some r /\ r <> Panic /\
            (r = Val (inl b) <-> node_name_rules b = true) /\ (forall s, r = Val (inl s) -> s = b).
Proof. exact node_name_accept. Qed.
Print Assumptions c19_node_name_accept.
Example c19_str_names_nonvacuous :
  utf8_valid [105; 111; 120; 50; 58; 47; 47; 120]%N = true /\ service_name_rules [105; 111; 120; 50; 58; 47; 47; 120]%N = false /\
  service_name_rules [47; 46; 46]%N = true /\ node_name_rules []%N = true /\ utf8_valid [237; 160; 128]%N = false.
Proof. repeat split; vm_compute; reflexivity. Qed.
Print Assumptions c19_str_names_nonvacuous.

(* ---------------------------------------------------------------------------------- *)
(* (2) mutators (push, push_bytes, insert, insert_bytes, pop, remove, remove_range, retain,
   strip_prefix, strip_suffix, truncate), every argument, every valid value of every type:
   whenever the call returns, the value is still valid, and on an error it is unchanged *)
Theorem c19_mutators_preserve : forall (t : ty) (s : str) (o : sop) (s' : str) (r : sobs),
  rules_of t s = true -> sem_apply (sty_of t) s o = Val (s', r) ->
  match r with ObErr _ => s' = s | _ => rules_of t s' = true end.
Proof. exact mutators_preserve. Qed.
Check c19_mutators_preserve : forall (t : ty) (s : str) (o : sop) (s' : str) (r : sobs),
  rules_of t s = true -> sem_apply (sty_of t) s o = Val (s', r) ->
  match r with ObErr _ => s' = s | _ => rules_of t s' = true end.
Print Assumptions c19_mutators_preserve.
(* ... and it panics exactly for an insert index beyond the end (documented) and on the two
   defect classes full_zero_class / log_buffer_class *)
Theorem c19_mutators_panic_iff : forall (t : ty) (s : str) (o : sop), rules_of t s = true ->
  (sem_apply (sty_of t) s o = Panic <->
   (match inserted_bytes s o with Some (i, _) => length s < i | None => False end) \/
   full_zero_class (cap_of t) s o = true \/ log_buffer_class (rules_of t) s o = true).
Proof. exact mutators_panic_iff. Qed.
Print Assumptions c19_mutators_panic_iff.
(* `every mutator does exactly what the spec says' is false (three classes), true outside *)
Definition c19_mutators_match_spec_full : Prop := mutators_match_spec_full.
Theorem c19_mutators_match_spec_refuted : ~ c19_mutators_match_spec_full.
Proof. exact mutators_match_spec_refuted. Qed.
Print Assumptions c19_mutators_match_spec_refuted.
Theorem c19_mutators_match_spec_partial : forall (t : ty) (s : str) (o : sop),
  rules_of t s = true -> known_class (cap_of t) (rules_of t) s o = false ->
  sem_apply (sty_of t) s o = spec_apply t s o.
Proof. exact mutators_refine. Qed.
Check c19_mutators_match_spec_partial : forall (t : ty) (s : str) (o : sop),
  rules_of t s = true -> known_class (cap_of t) (rules_of t) s o = false ->
  sem_apply (sty_of t) s o = spec_apply t s o.
Print Assumptions c19_mutators_match_spec_partial.
Example c19_mutators_nonvacuous :
  rules_of TFilePath [97; 47; 98]%N = true /\
  known_class (cap_of TFilePath) (rules_of TFilePath) [97; 47; 98]%N (OpPop) = false /\
  sem_apply (sty_of TFilePath) [97; 47; 98]%N OpPop = Val ([97; 47; 98]%N, ObErr InvalidContent) /\
  sem_apply (sty_of TFilePath) [97; 47; 98]%N (OpPush 99%N) = Val ([97; 47; 98; 99]%N, ObUnit).
Proof. repeat split; vm_compute; reflexivity. Qed.
Print Assumptions c19_mutators_nonvacuous.
Example c19_mutators_witnesses :
  (sem_apply FileNameT [97]%N (OpPush 128%N) = Val ([97]%N, ObErr ExceedsMaximumLength)) /\
  (sem_apply (RestrictedFileNameT 2) [97; 98]%N (OpRemoveRange 0 0) = Panic) /\
  (sem_apply FileNameT str_a124 (OpStripPrefix str_a124) = Panic).
Proof. repeat split; vm_compute; reflexivity. Qed.
Print Assumptions c19_mutators_witnesses.

(* ---------------------------------------------------------------------------------- *)
(* (3) an accepted FileName is a safe single path component *)
Theorem c19_filename_safe : forall s, filename_rules s = true ->
  ~ In SEP s /\ ~ In 0%N s /\ s <> [] /\ s <> [DOT] /\ s <> [DOT; DOT].
Proof. exact filename_safe. Qed.
Check c19_filename_safe : forall s, filename_rules s = true ->
  ~ In SEP s /\ ~ In 0%N s /\ s <> [] /\ s <> [DOT] /\ s <> [DOT; DOT].
Print Assumptions c19_filename_safe.

(* ---------------------------------------------------------------------------------- *)
(* (4) containment: path_for = root (+ one separator unless root is empty or ends with one)
   + exactly one component prefix++name++suffix, which is itself a valid file name (so by (3)
   separator-free, NUL-free, not "." / ".."); the result is a valid FilePath whose entries
   are the entries of the root plus that component, and whose directory is the root.
   path_for panics exactly when the result would exceed 255 bytes (documented fatal). *)
Theorem c19_path_for_spec : forall c n, valid_cfg c -> filename_rules n = true ->
  nc_path_for c n = spec_path_for c n.
Proof. exact nc_path_for_eq. Qed.
Print Assumptions c19_path_for_spec.
Theorem c19_contained : forall c n p, valid_cfg c -> filename_rules n = true -> nc_path_for c n = Val p ->
  let comp := prefix c ++ n ++ suffix c in
  p = with_sep (path_hint c) ++ comp /\
  filename_rules comp = true /\
  fp_file_name p = comp /\
  filepath_rules p = true /\
  path_entries p = path_entries (path_hint c) ++ [comp] /\
  same_directory (path_hint c) (fp_path p) = true.
Proof. exact path_for_contained. Qed.
Check c19_contained : forall c n p, valid_cfg c -> filename_rules n = true -> nc_path_for c n = Val p ->
  let comp := prefix c ++ n ++ suffix c in
  p = with_sep (path_hint c) ++ comp /\ filename_rules comp = true /\ fp_file_name p = comp /\
  filepath_rules p = true /\ path_entries p = path_entries (path_hint c) ++ [comp] /\
  same_directory (path_hint c) (fp_path p) = true.
Print Assumptions c19_contained.
Example c19_contained_nonvacuous :
  valid_cfg cfg_a /\ filename_rules [120]%N = true /\
  nc_path_for cfg_a [120]%N = Val [47; 116; 47; 97; 120; 46; 115]%N.
Proof. split; [exact cfg_a_valid|]. split; vm_compute; reflexivity. Qed.
Print Assumptions c19_contained_nonvacuous.

(* (5) round trip of names through path_for / extract_name_from_{file,path} *)
Theorem c19_name_roundtrip : forall c n p, valid_cfg c -> filename_rules n = true -> nc_path_for c n = Val p ->
  nc_extract_name_from_file c (fp_file_name p) = Val (Some n) /\
  nc_extract_name_from_path c p = Val (Some n).
Proof. exact name_roundtrip. Qed.
Check c19_name_roundtrip : forall c n p, valid_cfg c -> filename_rules n = true -> nc_path_for c n = Val p ->
  nc_extract_name_from_file c (fp_file_name p) = Val (Some n) /\ nc_extract_name_from_path c p = Val (Some n).
Print Assumptions c19_name_roundtrip.

(* ---------------------------------------------------------------------------------- *)
(* (6) isolation.  The full clause is FALSE (candidate defect F4): prefix "a" extracts the
   files of prefix "ab" in the same directory (witness: cfg_a reads name "bx" out of
   cfg_ab's file /t/abx.s).  It holds when neither prefix is a prefix of the other, or when
   the directories differ (Path equality = equality of the normalised paths). *)
Definition c19_isolation_full : Prop := isolation_full.
Theorem c19_isolation_refuted : ~ c19_isolation_full.
Proof. exact isolation_refuted. Qed.
Print Assumptions c19_isolation_refuted.
Theorem c19_isolation_partial : forall c1 c2 n p, valid_cfg c1 -> valid_cfg c2 -> filename_rules n = true ->
  ((starts_with (prefix c1) (prefix c2) = false /\ starts_with (prefix c2) (prefix c1) = false) \/
   same_directory (path_hint c1) (path_hint c2) = false) ->
  nc_path_for c2 n = Val p ->
  nc_extract_name_from_path c1 p = Val None.
Proof. exact isolation_partial. Qed.
Check c19_isolation_partial : forall c1 c2 n p, valid_cfg c1 -> valid_cfg c2 -> filename_rules n = true ->
  ((starts_with (prefix c1) (prefix c2) = false /\ starts_with (prefix c2) (prefix c1) = false) \/
   same_directory (path_hint c1) (path_hint c2) = false) ->
  nc_path_for c2 n = Val p -> nc_extract_name_from_path c1 p = Val None.
Print Assumptions c19_isolation_partial.
Example c19_isolation_nonvacuous :
  valid_cfg cfg_a /\ valid_cfg cfg_b /\
  starts_with (prefix cfg_a) (prefix cfg_b) = false /\ starts_with (prefix cfg_b) (prefix cfg_a) = false /\
  nc_path_for cfg_b [120]%N = Val [47; 116; 47; 98; 120; 46; 115]%N /\
  nc_extract_name_from_path cfg_a [47; 116; 47; 97; 98; 120; 46; 115]%N = Val (Some [98; 120]%N).
Proof. split; [exact cfg_a_valid|]. split; [exact cfg_b_valid|]. repeat split; vm_compute; reflexivity. Qed.
Print Assumptions c19_isolation_nonvacuous.

(* (7) listing a directory that contains a foreign file: `extract never panics on a valid
   file name' is FALSE (a file named prefix, prefix+suffix, prefix+".", ... is a fatal
   panic); outside exactly that class extract = the spec (Some for our files, None else) *)
Definition c19_extract_total_full : Prop := extract_total_full.
Theorem c19_extract_total_refuted : ~ c19_extract_total_full.
Proof. exact extract_total_refuted. Qed.
Print Assumptions c19_extract_total_refuted.
Theorem c19_extract_total_partial : forall c f, valid_cfg c -> filename_rules f = true ->
  (nc_extract_name_from_file c f = Panic <-> stray_class c f = true) /\
  (stray_class c f = false -> nc_extract_name_from_file c f = spec_extract_name_from_file c f).
Proof. exact extract_total_partial. Qed.
Print Assumptions c19_extract_total_partial.

(* (8) connection names (naming_scheme.rs: connection_name = decimal(sender) _ decimal(receiver);
   the three pub(crate) functions are tied through a source slice made by the harness' build.rs):
   both ids are read back, for every pair of u128 values *)
Theorem c19_connection_roundtrip : forall s r, (s < U128_MAX1)%N -> (r < U128_MAX1)%N ->
  extract_sender_port_id (connection_name s r) = Some s /\
  extract_receiver_port_id (connection_name s r) = Some r.
Proof. exact connection_roundtrip. Qed.
Check c19_connection_roundtrip : forall s r, (s < U128_MAX1)%N -> (r < U128_MAX1)%N ->
  extract_sender_port_id (connection_name s r) = Some s /\ extract_receiver_port_id (connection_name s r) = Some r.
Print Assumptions c19_connection_roundtrip.
Example c19_connection_roundtrip_nonvacuous :
  (340282366920938463463374607431768211455 < U128_MAX1)%N /\
  connection_name 340282366920938463463374607431768211455 7 =
    [51; 52; 48; 50; 56; 50; 51; 54; 54; 57; 50; 48; 57; 51; 56; 52; 54; 51; 52; 54; 51; 51; 55; 52; 54; 48; 55; 52; 51; 49; 55; 54; 56; 50; 49; 49; 52; 53; 53; 95; 55]%N.
Proof. split; vm_compute; reflexivity. Qed.
Print Assumptions c19_connection_roundtrip_nonvacuous.
