(* C19 -- names are validated and domains are isolated.  Statements only; every proof is
   `exact <lemma>` from proofs/NamesProofs.v, followed by Print Assumptions (checked by
   ./check).  The model (model/Names.v, first half) transcribes the Rust code; the spec
   (second half: rules_of, spec_new, spec_apply, spec_path_for, spec_extract_...) states the
   documented rules as plain predicates over byte lists.  Bytes are arbitrary N, strings are
   arbitrary lists: nothing below is bounded or enumerated.

   Clauses that are FALSE of the faithful model (F4 isolation, unchecked conversions) are kept visible as `..._full : Prop`, with a
   `..._refuted` witness (each replayed on the real code by harness/g3/c19) and the strongest
   `..._partial` that holds. *)
From V Require Import model.Base model.Names proofs.NamesProofs proofs.NamesConnProofs.

(* ---------------------------------------------------------------------------------- *)
(* (1) constructors: accepted iff the rules hold; the value is the input; never a panic.
   t ranges over FileName, Path, FilePath, Base64Url, UserName, GroupName and
   RestrictedFileName<c> for every capacity c. *)
Theorem c19_accept_iff : forall (t : ty) (b : str),
  (sem_new (sty_of t) b = Val (inl b) <-> rules_of t b = true) /\
  (forall s, sem_new (sty_of t) b = Val (inl s) -> s = b) /\
  sem_new (sty_of t) b <> Panic.
Proof. exact accept_iff. Qed.
Check c19_accept_iff : forall (t : ty) (b : str),
  (sem_new (sty_of t) b = Val (inl b) <-> rules_of t b = true) /\
  (forall s, sem_new (sty_of t) b = Val (inl s) -> s = b) /\
  sem_new (sty_of t) b <> Panic.
Print Assumptions c19_accept_iff.

(* the constructor IS the spec constructor, reported error kind included: too long =>
   ExceedsMaximumLength, every other rejection => InvalidContent (F15 repaired by 47ad8e2) *)
Theorem c19_accept_error_kind_full : forall (t : ty) (b : str), sem_new (sty_of t) b = spec_new t b.
Proof. exact new_matches_spec. Qed.
Check c19_accept_error_kind_full : forall (t : ty) (b : str), sem_new (sty_of t) b = spec_new t b.
Print Assumptions c19_accept_error_kind_full.

(* ServiceName::new / NodeName::new on every &str (= every UTF-8 byte string) *)
Theorem c19_service_name_accept : forall b, utf8_valid b = true ->
  exists r, service_name_new b = Some r /\ r <> Panic /\
            (r = Val (inl b) <-> service_name_rules b = true) /\ (forall s, r = Val (inl s) -> s = b).
Proof. exact service_name_accept. Qed.
Print Assumptions c19_service_name_accept.
Theorem c19_node_name_accept : forall b, utf8_valid b = true ->
  exists r, node_name_new b = Some r /\ r <> Panic /\
            (r = Val (inl b) <-> node_name_rules b = true) /\ (forall s, r = Val (inl s) -> s = b).
Proof. exact node_name_accept. Qed.
Print Assumptions c19_node_name_accept.
Example c19_str_names_nonvacuous :
  utf8_valid [105; 111; 120; 50; 58; 47; 47; 120]%N = true /\ service_name_rules [105; 111; 120; 50; 58; 47; 47; 120]%N = false /\
  service_name_rules [47; 46; 46]%N = true /\ node_name_rules []%N = true /\ utf8_valid [237; 160; 128]%N = false.
Proof. repeat split; vm_compute; reflexivity. Qed.
Print Assumptions c19_str_names_nonvacuous.

(* ---------------------------------------------------------------------------------- *)
(* (2) mutators (push, push_bytes, insert, insert_bytes, pop, remove, remove_range, retain,
   strip_prefix, strip_suffix, truncate), every argument, every valid value of every type:
   the code does exactly what the list-level spec says (compute the candidate, commit it iff
   it obeys the rules, otherwise report an error and change nothing) *)
Theorem c19_mutators_match_spec_full : forall (t : ty) (s : str) (o : sop),
  rules_of t s = true -> sem_apply (sty_of t) s o = spec_apply t s o.
Proof. exact mutators_refine. Qed.
Check c19_mutators_match_spec_full : forall (t : ty) (s : str) (o : sop),
  rules_of t s = true -> sem_apply (sty_of t) s o = spec_apply t s o.
Print Assumptions c19_mutators_match_spec_full.
(* whenever the call returns, the value is still valid, and on an error it is unchanged *)
Theorem c19_mutators_preserve : forall (t : ty) (s : str) (o : sop) (s' : str) (r : sobs),
  rules_of t s = true -> sem_apply (sty_of t) s o = Val (s', r) ->
  match r with ObErr _ => s' = s | _ => rules_of t s' = true end.
Proof. exact mutators_preserve. Qed.
Check c19_mutators_preserve : forall (t : ty) (s : str) (o : sop) (s' : str) (r : sobs),
  rules_of t s = true -> sem_apply (sty_of t) s o = Val (s', r) ->
  match r with ObErr _ => s' = s | _ => rules_of t s' = true end.
Print Assumptions c19_mutators_preserve.
(* and a mutator panics exactly for an insert index beyond the end (documented) *)
Theorem c19_mutators_panic_iff : forall (t : ty) (s : str) (o : sop), rules_of t s = true ->
  (sem_apply (sty_of t) s o = Panic <->
   match inserted_bytes s o with Some (i, _) => length s < i | None => False end).
Proof. exact mutators_panic_iff. Qed.
Check c19_mutators_panic_iff : forall (t : ty) (s : str) (o : sop), rules_of t s = true ->
  (sem_apply (sty_of t) s o = Panic <->
   match inserted_bytes s o with Some (i, _) => length s < i | None => False end).
Print Assumptions c19_mutators_panic_iff.
Example c19_mutators_nonvacuous :
  rules_of TFilePath [97; 47; 98]%N = true /\
  sem_apply (sty_of TFilePath) [97; 47; 98]%N OpPop = Val ([97; 47; 98]%N, ObErr InvalidContent) /\
  sem_apply (sty_of TFilePath) [97; 47; 98]%N (OpPush 99%N) = Val ([97; 47; 98; 99]%N, ObUnit) /\
  sem_apply (sty_of TFilePath) [97; 47; 98]%N (OpInsert 4 99%N) = Panic.
Proof. repeat split; vm_compute; reflexivity. Qed.
Print Assumptions c19_mutators_nonvacuous.
(* regression: the witnesses of the six defect classes repaired in /repo (47ad8e2, 8cf1846,
   c6cc798, 19ab506, a263455, e2099f0) evaluated on the model of the code as it is now *)
Example c19_regression_witnesses :
  sem_apply FileNameT [97]%N (OpPush 128%N) = Val ([97]%N, ObErr InvalidContent) /\
  sem_new FileNameT [0]%N = Val (inr InvalidContent) /\
  sem_apply (RestrictedFileNameT 2) [97; 98]%N (OpRemoveRange 0 0) = Val ([97; 98]%N, ObUnit) /\
  sem_apply (RestrictedFileNameT 2) [97; 98]%N (OpStripPrefix []) = Val ([97; 98]%N, ObBool true) /\
  sem_apply (RestrictedFileNameT 2) [97; 98]%N (OpStripSuffix []) = Val ([97; 98]%N, ObBool true) /\
  sem_apply FileNameT str_a124 (OpStripPrefix str_a124) = Val (str_a124, ObErr InvalidContent) /\
  nc_extract_name_from_file cfg_a [97; 46; 115]%N = Val None /\
  nc_extract_name_from_file cfg_a [97]%N = Val None /\
  path_add_path_entry [97]%N (repeat 98%N 254) = Val ([97]%N, inr ExceedsMaximumLength) /\
  fp_from_path_and_file (repeat 97%N 200) (repeat 98%N 54) = Val (inl (repeat 97%N 200 ++ [47]%N ++ repeat 98%N 54)).
Proof. exact regression_witnesses. Qed.
Print Assumptions c19_regression_witnesses.

(* ---------------------------------------------------------------------------------- *)
(* (3) an accepted FileName is a safe single path component *)
Theorem c19_filename_safe : forall s, filename_rules s = true ->
  ~ In SEP s /\ ~ In 0%N s /\ s <> [] /\ s <> [DOT] /\ s <> [DOT; DOT].
Proof. exact filename_safe. Qed.
Check c19_filename_safe : forall s, filename_rules s = true ->
  ~ In SEP s /\ ~ In 0%N s /\ s <> [] /\ s <> [DOT] /\ s <> [DOT; DOT].
Print Assumptions c19_filename_safe.

(* ---------------------------------------------------------------------------------- *)
(* (4) containment: path_for = root (+ one separator unless root is empty or ends with one)
   + exactly one component prefix++name++suffix, which is itself a valid file name (so by (3)
   separator-free, NUL-free, not "." / ".."); the result is a valid FilePath whose entries
   are the entries of the root plus that component, and whose directory is the root.
   path_for panics exactly when the result would exceed 255 bytes (documented fatal). *)
Theorem c19_path_for_spec : forall c n, valid_cfg c -> filename_rules n = true ->
  nc_path_for c n = spec_path_for c n.
Proof. exact nc_path_for_eq. Qed.
Print Assumptions c19_path_for_spec.
Theorem c19_contained : forall c n p, valid_cfg c -> filename_rules n = true -> nc_path_for c n = Val p ->
  let comp := prefix c ++ n ++ suffix c in
  p = with_sep (path_hint c) ++ comp /\
  filename_rules comp = true /\
  fp_file_name p = comp /\
  filepath_rules p = true /\
  path_entries p = path_entries (path_hint c) ++ [comp] /\
  same_directory (path_hint c) (fp_path p) = true.
Proof. exact path_for_contained. Qed.
Check c19_contained : forall c n p, valid_cfg c -> filename_rules n = true -> nc_path_for c n = Val p ->
  let comp := prefix c ++ n ++ suffix c in
  p = with_sep (path_hint c) ++ comp /\ filename_rules comp = true /\ fp_file_name p = comp /\
  filepath_rules p = true /\ path_entries p = path_entries (path_hint c) ++ [comp] /\
  same_directory (path_hint c) (fp_path p) = true.
Print Assumptions c19_contained.
Example c19_contained_nonvacuous :
  valid_cfg cfg_a /\ filename_rules [120]%N = true /\
  nc_path_for cfg_a [120]%N = Val [47; 116; 47; 97; 120; 46; 115]%N.
Proof. split; [exact cfg_a_valid|]. split; vm_compute; reflexivity. Qed.
Print Assumptions c19_contained_nonvacuous.

(* Path::add_path_entry is all or nothing, FilePath::from_path_and_file is the plain
   concatenation whenever it fits and never panics *)
Theorem c19_add_path_entry_atomic : forall s e, path_rules s = true -> path_rules e = true ->
  lift (fun _ : unit => ObUnit) (path_add_path_entry s e) = spec_add_path_entry s e.
Proof. exact add_path_entry_spec. Qed.
Print Assumptions c19_add_path_entry_atomic.
Theorem c19_from_path_and_file_spec : forall p f, fp_from_path_and_file p f = spec_from_path_and_file p f.
Proof. exact from_path_and_file_spec. Qed.
Print Assumptions c19_from_path_and_file_spec.

(* (5) round trip of names through path_for / extract_name_from_{file,path} *)
Theorem c19_name_roundtrip : forall c n p, valid_cfg c -> filename_rules n = true -> nc_path_for c n = Val p ->
  nc_extract_name_from_file c (fp_file_name p) = Val (Some n) /\
  nc_extract_name_from_path c p = Val (Some n).
Proof. exact name_roundtrip. Qed.
Check c19_name_roundtrip : forall c n p, valid_cfg c -> filename_rules n = true -> nc_path_for c n = Val p ->
  nc_extract_name_from_file c (fp_file_name p) = Val (Some n) /\ nc_extract_name_from_path c p = Val (Some n).
Print Assumptions c19_name_roundtrip.

(* ---------------------------------------------------------------------------------- *)
(* (6) isolation.  The full clause is FALSE (candidate defect F4): prefix "a" extracts the
   files of prefix "ab" in the same directory (witness: cfg_a reads name "bx" out of
   cfg_ab's file /t/abx.s).  It holds when neither prefix is a prefix of the other, or when
   the directories differ (Path equality = equality of the normalised paths). *)
Definition c19_isolation_full : Prop := isolation_full.
Theorem c19_isolation_refuted : ~ c19_isolation_full.
Proof. exact isolation_refuted. Qed.
Print Assumptions c19_isolation_refuted.
Theorem c19_isolation_partial : forall c1 c2 n p, valid_cfg c1 -> valid_cfg c2 -> filename_rules n = true ->
  ((starts_with (prefix c1) (prefix c2) = false /\ starts_with (prefix c2) (prefix c1) = false) \/
   same_directory (path_hint c1) (path_hint c2) = false) ->
  nc_path_for c2 n = Val p ->
  nc_extract_name_from_path c1 p = Val None.
Proof. exact isolation_partial. Qed.
Check c19_isolation_partial : forall c1 c2 n p, valid_cfg c1 -> valid_cfg c2 -> filename_rules n = true ->
  ((starts_with (prefix c1) (prefix c2) = false /\ starts_with (prefix c2) (prefix c1) = false) \/
   same_directory (path_hint c1) (path_hint c2) = false) ->
  nc_path_for c2 n = Val p -> nc_extract_name_from_path c1 p = Val None.
Print Assumptions c19_isolation_partial.
Example c19_isolation_nonvacuous :
  valid_cfg cfg_a /\ valid_cfg cfg_b /\
  starts_with (prefix cfg_a) (prefix cfg_b) = false /\ starts_with (prefix cfg_b) (prefix cfg_a) = false /\
  nc_path_for cfg_b [120]%N = Val [47; 116; 47; 98; 120; 46; 115]%N /\
  nc_extract_name_from_path cfg_a [47; 116; 47; 97; 98; 120; 46; 115]%N = Val (Some [98; 120]%N).
Proof. split; [exact cfg_a_valid|]. split; [exact cfg_b_valid|]. repeat split; vm_compute; reflexivity. Qed.
Print Assumptions c19_isolation_nonvacuous.

(* (7) listing a directory that contains foreign files: extract_name_from_file is exactly the
   spec -- Some n for prefix ++ n ++ suffix with n a valid name, None for every other valid
   file name -- and never panics (repaired by 19ab506) *)
Theorem c19_extract_total_full : forall c f, valid_cfg c -> filename_rules f = true ->
  nc_extract_name_from_file c f = spec_extract_name_from_file c f /\
  nc_extract_name_from_file c f <> Panic.
Proof. exact extract_total. Qed.
Check c19_extract_total_full : forall c f, valid_cfg c -> filename_rules f = true ->
  nc_extract_name_from_file c f = spec_extract_name_from_file c f /\ nc_extract_name_from_file c f <> Panic.
Print Assumptions c19_extract_total_full.

(* (8) connection names (naming_scheme.rs: connection_name = decimal(sender) _ decimal(receiver);
   the three pub(crate) functions are tied through a source slice made by the harness' build.rs):
   both ids are read back, for every pair of u128 values *)
Theorem c19_connection_roundtrip : forall s r, (s < U128_MAX1)%N -> (r < U128_MAX1)%N ->
  extract_sender_port_id (connection_name s r) = Some s /\
  extract_receiver_port_id (connection_name s r) = Some r.
Proof. exact connection_roundtrip. Qed.
Check c19_connection_roundtrip : forall s r, (s < U128_MAX1)%N -> (r < U128_MAX1)%N ->
  extract_sender_port_id (connection_name s r) = Some s /\ extract_receiver_port_id (connection_name s r) = Some r.
Print Assumptions c19_connection_roundtrip.
Example c19_connection_roundtrip_nonvacuous :
  (340282366920938463463374607431768211455 < U128_MAX1)%N /\
  connection_name 340282366920938463463374607431768211455 7 =
    [51; 52; 48; 50; 56; 50; 51; 54; 54; 57; 50; 48; 57; 51; 56; 52; 54; 51; 52; 54; 51; 51; 55; 52; 54; 48; 55; 52; 51; 49; 55; 54; 56; 50; 49; 49; 52; 53; 53; 95; 55]%N.
Proof. split; vm_compute; reflexivity. Qed.
Print Assumptions c19_connection_roundtrip_nonvacuous.

(* ---------------------------------------------------------------------------------- *)
(* (9) FileName values that never went through FileName::new: FilePath::file_name() and
   Path::entries() wrap their pieces with new_unchecked.  `they only hand out valid file names'
   is FALSE: file_name of the valid FilePath "x\y" is "x\y" (backslash is forbidden in a
   FileName), entries of the valid Path "/t/.." contains "..".
   What they do guarantee (partial): non-empty, separator-free, path characters, <= 255 bytes,
   and for file_name additionally not "." / "..". *)
Definition c19_unchecked_conversions_full : Prop := unchecked_conversions_full.
Theorem c19_unchecked_conversions_refuted : ~ c19_unchecked_conversions_full.
Proof. exact unchecked_conversions_refuted. Qed.
Print Assumptions c19_unchecked_conversions_refuted.
Theorem c19_unchecked_conversions_partial :
  (forall p, filepath_rules p = true ->
     unchecked_fn (fp_file_name p) /\ component_ok (fp_file_name p) = true /\ length (fp_file_name p) <= 255) /\
  (forall p e, path_rules p = true -> In e (path_entries p) -> unchecked_fn e /\ length e <= 255).
Proof. exact (conj file_name_unchecked entries_unchecked). Qed.
Print Assumptions c19_unchecked_conversions_partial.
(* Consequence for C19.  CONTAINMENT is not affected: it holds for every prefix / name / suffix
   the unchecked conversions can produce, because the three are concatenated into one
   separator-free component of at least 3 bytes: *)
Theorem c19_contained_unchecked : forall c n p, unchecked_cfg c -> unchecked_fn n -> nc_path_for c n = Val p ->
  let comp := prefix c ++ n ++ suffix c in
  p = with_sep (path_hint c) ++ comp /\
  (nosep comp = true /\ component_ok comp = true /\ length comp <= 255) /\
  fp_file_name p = comp /\
  filepath_rules p = true /\
  path_entries p = path_entries (path_hint c) ++ [comp] /\
  same_directory (path_hint c) (fp_path p) = true.
Proof. exact path_for_contained_unchecked. Qed.
Print Assumptions c19_contained_unchecked.
(* ROUND TRIP is affected: a resource created under such a name exists (path_for succeeds,
   inside the root) but extract_name_from_file answers None for its file, so list() never
   shows it.  API-level history (replayed by harness/g3/c19 `iso`):
     let n = FilePath::new(b"d/x\y")?.file_name();            // or Path::new(b"/tmp/..")?.entries()[1]
     FileName::new(n.as_bytes())                              // Err(InvalidContent)
     static_storage::file::Builder::new(&n).config(&cfg).create(b"..")   // Ok: <root>/a_x\y.service
     static_storage::file::Storage::list_cfg(&cfg)            // does not contain n
   and, through NodeDetails::new (executable = Process::executable().file_name()): a process
   whose executable file name contains a backslash creates a node whose details no process
   can read back (Node::list shows it alive without details). *)
Definition c19_unchecked_roundtrip_full : Prop := unchecked_roundtrip_full.
Theorem c19_unchecked_roundtrip_refuted : ~ c19_unchecked_roundtrip_full.
Proof. exact unchecked_roundtrip_refuted. Qed.
Print Assumptions c19_unchecked_roundtrip_refuted.
(* the strongest true statement is c19_name_roundtrip: names accepted by FileName::new round-trip *)
