(* C03 -- lock-free SPSC channels are linearizable FIFOs conserving every element.
   Statements only.  Model: one step = one shared-memory access (atomic or slot cell), any
   number of threads, any schedule (list of thread ids), any capacity >= 1, sequentially
   consistent interleaving. *)
From V Require Import model.Base model.Conc model.Events model.SpscQueue proofs.SpscQueueProofs.
From V Require model.OverflowQueue proofs.OverflowQueueProofs.
From V Require model.SpscQueueRA proofs.SpscQueueRAProofs.
From V Require model.OverflowQueueRA proofs.OverflowQueueRAProofs.
Open Scope N_scope.

(* index_queue.rs / spsc/queue.rs: in every reachable state, pushed = popped ++ content and
   the content fits the capacity: nothing lost, duplicated or invented; consumer order =
   push order. *)
Theorem c03_spsc_conservation : forall c progs g ls,
  0 < c -> reachable step (init c progs) (g, ls) ->
  pushed g = popped g ++ content g /\ (length (content g) <= N.to_nat c)%nat.
Proof. exact spsc_conservation. Qed.
Print Assumptions c03_spsc_conservation.

Theorem c03_spsc_roles_exclusive : forall c progs g ls t t',
  0 < c -> reachable step (init c progs) (g, ls) ->
  (holdsP (ls t) = true -> holdsP (ls t') = true -> t = t') /\
  (holdsC (ls t) = true -> holdsC (ls t') = true -> t = t').
Proof. exact spsc_roles_exclusive. Qed.
Print Assumptions c03_spsc_roles_exclusive.

Theorem c03_spsc_no_slot_conflict : forall c progs g ls t t' v w r,
  0 < c -> reachable step (init c progs) (g, ls) ->
  at_pc (ls t) = PushWrite v w -> at_pc (ls t') = PopRead r -> w mod cap g <> r mod cap g.
Proof. exact spsc_no_slot_conflict. Qed.
Print Assumptions c03_spsc_no_slot_conflict.

Theorem c03_spsc_pop_returns_head : forall c progs g ls t r v,
  0 < c -> reachable step (init c progs) (g, ls) ->
  at_pc (ls t) = PopStore r v -> hd_error (content g) = Some v.
Proof. exact spsc_pop_returns_head. Qed.
Print Assumptions c03_spsc_pop_returns_head.

(* non-vacuity: a concrete schedule reaches a state with a pending slot write racing a
   pending slot read, a non-empty content, and completed pops *)
Definition ex_progs (t : nat) : list qop :=
  match t with
  | O => [OAcqP; OPush 7; OPush 8; OPush 9]
  | S O => [OAcqC; OPop; OPop]
  | _ => []
  end.
Definition ex_sched : list nat := [0;0;0;0;0;0;0;0;0;1;1;1;1;1;1;1;0;0]%nat.
Example c03_spsc_nonvacuous :
  let c := fst (run step ex_sched (init 2 ex_progs)) in
  reachable step (init 2 ex_progs) c /\
  popped (fst c) = [7] /\ content (fst c) = [8] /\
  (exists v w, at_pc (snd c 0%nat) = PushWrite v w) /\ (exists r, at_pc (snd c 1%nat) = PopRead r).
Proof.
  cbv zeta. split; [exists ex_sched; reflexivity|]. vm_compute. repeat split; eauto.
Qed.
Print Assumptions c03_spsc_nonvacuous.

(* ---------------- safely_overflowing_index_queue.rs ---------------- *)
Module OQ.
Import V.model.OverflowQueue V.proofs.OverflowQueueProofs.

(* for every capacity (0 included), any number of threads, every schedule: every pushed value
   is exactly once either removed from the head (by the consumer, or handed back to the
   producer as evicted) or still queued, removal order = push order; at most capacity values
   are queued, capacity + 1 only inside a push between publication and eviction attempt *)
Theorem c03_oq_conservation : forall c progs g ls,
  reachable step (init c progs) (g, ls) ->
  pushed g = map fst (removed g) ++ content g /\
  (length (content g) <= N.to_nat c + (if ovf g then 1 else 0))%nat.
Proof. exact oq_conservation. Qed.

Theorem c03_oq_bounded_when_producer_idle : forall c progs g ls t,
  reachable step (init c progs) (g, ls) ->
  holdsP (ls t) = true -> at_pc (ls t) = Idle -> (length (content g) <= N.to_nat c)%nat.
Proof. exact oq_bounded_when_producer_idle. Qed.

Theorem c03_oq_roles_exclusive : forall c progs g ls t t',
  reachable step (init c progs) (g, ls) ->
  (holdsP (ls t) = true -> holdsP (ls t') = true -> t = t') /\
  (holdsC (ls t) = true -> holdsC (ls t') = true -> t = t').
Proof. exact oq_roles_exclusive. Qed.

Theorem c03_oq_pop_returns_head : forall c progs g ls t r v,
  reachable step (init c progs) (g, ls) ->
  at_pc (ls t) = PopCas r v -> rp g = r -> hd_error (content g) = Some v.
Proof. exact oq_pop_returns_head. Qed.

Theorem c03_oq_evicted_value_stable : forall c progs g ls t r x,
  reachable step (init c progs) (g, ls) ->
  at_pc (ls t) = PushReadOld r x -> nthN (slots g) (r mod m_of g) 0 = x.
Proof. exact oq_evicted_value_stable. Qed.

Theorem c03_oq_write_slot_free : forall c progs g ls t v w r k,
  reachable step (init c progs) (g, ls) ->
  at_pc (ls t) = PushWrite v w r -> rp g <= k -> k < wp g -> w mod m_of g <> k mod m_of g.
Proof. exact oq_write_slot_free. Qed.

(* non-vacuity: capacity 1, the producer overflows while the consumer is inside pop: the
   consumer's CAS loses, the producer evicts 7, the consumer re-checks and gets 8 *)
Definition ex_progs (t : nat) : list oop :=
  match t with
  | O => [OAcqP; OPush 7; OPush 8]
  | S O => [OAcqC; OPop]
  | _ => []
  end.
Definition ex_sched : list nat := [0;0;0;0;0; 1;1;1;1; 0;0;0;0;0;0; 1;1;1;1]%nat.
Example c03_oq_nonvacuous :
  let c := fst (run step ex_sched (init 1 ex_progs)) in
  reachable step (init 1 ex_progs) c /\
  pushed (fst c) = [7; 8] /\ removed (fst c) = [(7, false); (8, true)] /\ content (fst c) = [].
Proof. cbv zeta. split; [exists ex_sched; reflexivity|]. vm_compute. auto. Qed.

(* FULL statement "no two pending accesses to one slot" (what c03_spsc_no_slot_conflict gives
   for the other two queues) is false here: finding oq-speculative-read.  spec_sched is replayed
   on the implementation on every run. *)
Example c03_oq_no_slot_conflict_refuted :
  let c := fst (run step spec_sched (init 1 spec_progs)) in
  reachable step (init 1 spec_progs) c /\
  at_pc (snd c 0%nat) = PushWrite 9 2 1 /\ at_pc (snd c 1%nat) = PopRead 0 /\
  2 mod m_of (fst c) = 0 mod m_of (fst c).
Proof. exact oq_no_slot_conflict_refuted. Qed.
End OQ.
Print Assumptions OQ.c03_oq_no_slot_conflict_refuted.
Print Assumptions OQ.c03_oq_conservation.
Print Assumptions OQ.c03_oq_bounded_when_producer_idle.
Print Assumptions OQ.c03_oq_roles_exclusive.
Print Assumptions OQ.c03_oq_pop_returns_head.
Print Assumptions OQ.c03_oq_evicted_value_stable.
Print Assumptions OQ.c03_oq_write_slot_free.
Print Assumptions OQ.c03_oq_nonvacuous.

(* ---------------- release/acquire view model (index_queue.rs, spsc/queue.rs) ---------------- *)
Module RA.
Import V.model.SpscQueueRA V.proofs.SpscQueueRAProofs.

(* With the memory orderings the code uses (ords_code; pinned against the implementation by
   the trace comparison on every run), under release/acquire semantics in which every load of
   the other side's cursor may return an arbitrarily stale value (oracle) and only an Acquire
   load of a Release store transfers visibility: no data race on any slot cell, and FIFO
   conservation, for every capacity >= 1, every schedule, every oracle, any number of pushes
   and pops. *)
Theorem c03_ra_race_free_and_conserving : forall c orc pushes pops g ls,
  0 < c -> reachable (rstep ords_code) (rinit c orc pushes pops) (g, ls) ->
  race g = false /\ rpushed g = rpopped g ++ rcontent g /\ (length (rcontent g) <= N.to_nat c)%nat.
Proof. exact ra_race_free_and_conserving. Qed.

(* each synchronising ordering is necessary: weakening it admits a racy execution *)
Example c03_ra_needs_release_on_write_cursor :
  race_after weaken_push_store 1 [7] 1 [0;0;0;0;1;1;1]%nat = true /\
  race_after weaken_pop_load 1 [7] 1 [0;0;0;0;1;1;1]%nat = true /\
  race_after ords_code 1 [7] 1 [0;0;0;0;1;1;1]%nat = false.
Proof. exact ra_needs_release_on_write_cursor. Qed.
Example c03_ra_needs_release_on_read_cursor :
  race_after weaken_pop_store 1 [7; 8] 1 [0;0;0;0;1;1;1;1;0;0;0]%nat = true /\
  race_after weaken_push_load 1 [7; 8] 1 [0;0;0;0;1;1;1;1;0;0;0]%nat = true /\
  race_after ords_code 1 [7; 8] 1 [0;0;0;0;1;1;1;1;0;0;0]%nat = false.
Proof. exact ra_needs_release_on_read_cursor. Qed.
Example c03_ra_nonvacuous_stale_read :
  let c := fst (run (rstep ords_code) [0;0;0;0;1;1;1;1;0;0]%nat (rinit 1 [0; 0; 5] [7; 8] 1)) in
  rrp (fst c) = 1 /\ rat (snd c 0%nat) = RIdle /\ rpushed (fst c) = [7] /\ rpopped (fst c) = [7] /\ race (fst c) = false.
Proof. exact ra_nonvacuous_stale_read. Qed.
End RA.
Print Assumptions RA.c03_ra_race_free_and_conserving.
Print Assumptions RA.c03_ra_needs_release_on_write_cursor.
Print Assumptions RA.c03_ra_needs_release_on_read_cursor.
Print Assumptions RA.c03_ra_nonvacuous_stale_read.

(* ---------------- release/acquire view model (safely_overflowing_index_queue.rs) ---------------- *)
Module OQRA.
Import V.model.OverflowQueueRA V.proofs.OverflowQueueRAProofs.

(* With the memory orderings of the current code (oq_ords_sync; pinned against the
   implementation by the trace comparison on every run), under release/acquire semantics in
   which every plain load of either cursor and every FAILED compare-exchange of read_position
   may return an arbitrarily stale value (oracle) and only an acquire read of a value written
   by a release (or of a later value of its release sequence) transfers visibility: no slot
   access whose value is used is racy, every pushed value is exactly once popped, evicted (in
   push order) or still queued, and at most capacity + 1 values are queued; for every capacity
   (0 included), every schedule, every oracle, any number of pushes and pops. *)
Theorem c03_oqra_used_race_free_and_conserving : forall c orc pushes pops g ls,
  reachable (qstep oq_ords_sync) (qinit c orc pushes pops) (g, ls) ->
  race_used g = false /\ qpushed g = map fst (qremoved g) ++ qcontent g /\
  (length (qcontent g) <= N.to_nat c + 1)%nat.
Proof. exact qra_used_race_free_and_conserving. Qed.

Theorem c03_oqra_pop_reads_fresh : forall c orc pushes pops g ls r v fresh,
  reachable (qstep oq_ords_sync) (qinit c orc pushes pops) (g, ls) ->
  qat (ls 1%nat) = QPopCas r v fresh ->
  fresh = true /\ (r = qrp g -> hd_error (qcontent g) = Some v).
Proof. exact qra_pop_reads_fresh. Qed.

(* each of the seven orderings is necessary (weakening it alone admits a racy used access) *)
Example c03_oqra_orderings_necessary :
  used_race_after (with_push_load_rp Relaxed) 1 [] [7;8;9] 1 w1_sched = true /\
  used_race_after (with_pop_cas Relaxed) 1 [] [7;8;9] 1 w1_sched = true /\
  used_race_after (with_pop_load_rp Relaxed) 1 w2_orc [7;8] 1 w2_sched = true /\
  used_race_after (with_push_cas Acquire) 1 w2_orc [7;8] 1 w2_sched = true /\
  used_race_after (with_pop_cas_fail Relaxed) 1 w4_orc [7;8;9] 1 w4_sched = true /\
  used_race_after (with_pop_load_wp Relaxed) 1 [] [7] 1 w5_sched = true /\
  used_race_after (with_push_store_wp Relaxed) 1 [] [7] 1 w5_sched = true /\
  used_race_after oq_ords_sync 1 [] [7;8;9] 1 w1_sched = false /\
  used_race_after oq_ords_sync 1 w2_orc [7;8] 1 w2_sched = false /\
  used_race_after oq_ords_sync 1 w4_orc [7;8;9] 1 w4_sched = false /\
  used_race_after oq_ords_sync 1 [] [7] 1 w5_sched = false.
Proof. exact qra_orderings_necessary. Qed.

(* the table of the pinned upstream commit is refuted (finding oq-ra-read-position, repaired) *)
Example c03_oqra_upstream_table_refuted :
  used_race_after oq_ords_upstream 1 [] [7;8;9] 1 w1_sched = true /\
  used_race_after oq_ords_upstream 1 w2_orc [7;8] 1 w2_sched = true.
Proof. exact qra_upstream_table_refuted. Qed.

(* FULL statement "no racy slot access at all" is false of the faithful model, whatever the
   orderings: the consumer's speculative slot read (value discarded when its compare-exchange
   fails) is unordered with the producer's re-use of that slot (finding oq-speculative-read) *)
Example c03_oqra_no_race_at_all_refuted :
  let g := q_after oq_ords_sync 1 [] [7;8;9] 1 w3_sched in
  let g' := q_after all_seqcst 1 [] [7;8;9] 1 w3_sched in
  race_spec g = true /\ race_used g = false /\ qremoved g = [(7, false); (8, true)] /\
  race_spec g' = true /\ race_used g' = false.
Proof. exact qra_speculative_read_races. Qed.

Example c03_oqra_nonvacuous_stale_read :
  let g := q_after oq_ords_sync 1 [0; 0; 0; 5] [7; 8] 1 [0;0;0;0; 1;1;1;1; 0;0;0;0;0]%nat in
  qrp g = 1 /\ qwp g = 2 /\ qpushed g = [7; 8] /\ qremoved g = [(7, true)] /\ qcontent g = [8] /\ race_used g = false.
Proof. exact qra_nonvacuous_stale_read. Qed.
End OQRA.
Print Assumptions OQRA.c03_oqra_used_race_free_and_conserving.
Print Assumptions OQRA.c03_oqra_pop_reads_fresh.
Print Assumptions OQRA.c03_oqra_orderings_necessary.
Print Assumptions OQRA.c03_oqra_upstream_table_refuted.
Print Assumptions OQRA.c03_oqra_no_race_at_all_refuted.
Print Assumptions OQRA.c03_oqra_nonvacuous_stale_read.
