(* C03 -- lock-free SPSC channels are linearizable FIFOs conserving every element.
   Statements only.  Model: one step = one shared-memory access (atomic or slot cell), any
   number of threads, any schedule (list of thread ids), any capacity >= 1, sequentially
   consistent interleaving. *)
From V Require Import model.Base model.Conc model.Events model.SpscQueue proofs.SpscQueueProofs.
Open Scope N_scope.

(* index_queue.rs / spsc/queue.rs: in every reachable state, pushed = popped ++ content and
   the content fits the capacity: nothing lost, duplicated or invented; consumer order =
   push order. *)
Theorem c03_spsc_conservation : forall c progs g ls,
  0 < c -> reachable step (init c progs) (g, ls) ->
  pushed g = popped g ++ content g /\ (length (content g) <= N.to_nat c)%nat.
Proof. exact spsc_conservation. Qed.
Print Assumptions c03_spsc_conservation.

Theorem c03_spsc_roles_exclusive : forall c progs g ls t t',
  0 < c -> reachable step (init c progs) (g, ls) ->
  (holdsP (ls t) = true -> holdsP (ls t') = true -> t = t') /\
  (holdsC (ls t) = true -> holdsC (ls t') = true -> t = t').
Proof. exact spsc_roles_exclusive. Qed.
Print Assumptions c03_spsc_roles_exclusive.

Theorem c03_spsc_no_slot_conflict : forall c progs g ls t t' v w r,
  0 < c -> reachable step (init c progs) (g, ls) ->
  at_pc (ls t) = PushWrite v w -> at_pc (ls t') = PopRead r -> w mod cap g <> r mod cap g.
Proof. exact spsc_no_slot_conflict. Qed.
Print Assumptions c03_spsc_no_slot_conflict.

Theorem c03_spsc_pop_returns_head : forall c progs g ls t r v,
  0 < c -> reachable step (init c progs) (g, ls) ->
  at_pc (ls t) = PopStore r v -> hd_error (content g) = Some v.
Proof. exact spsc_pop_returns_head. Qed.
Print Assumptions c03_spsc_pop_returns_head.

(* non-vacuity: a concrete schedule reaches a state with a pending slot write racing a
   pending slot read, a non-empty content, and completed pops *)
Definition ex_progs (t : nat) : list qop :=
  match t with
  | O => [OAcqP; OPush 7; OPush 8; OPush 9]
  | S O => [OAcqC; OPop; OPop]
  | _ => []
  end.
Definition ex_sched : list nat := [0;0;0;0;0;0;0;0;0;1;1;1;1;1;1;1;0;0]%nat.
Example c03_spsc_nonvacuous :
  let c := fst (run step ex_sched (init 2 ex_progs)) in
  reachable step (init 2 ex_progs) c /\
  popped (fst c) = [7] /\ content (fst c) = [8] /\
  (exists v w, at_pc (snd c 0%nat) = PushWrite v w) /\ (exists r, at_pc (snd c 1%nat) = PopRead r).
Proof.
  cbv zeta. split; [exists ex_sched; reflexivity|]. vm_compute. repeat split; eauto.
Qed.
Print Assumptions c03_spsc_nonvacuous.
