(* C17 -- orderly shutdown in any order leaves nothing behind.  Statements only; every proof is
   `exact <lemma>` from proofs/OwnProofs.v, followed by Print Assumptions (checked by ./check).

   Model: model/Own.v -- objects with `keeps` (references held by value or through a counted
   handle) and per-object created/removed resources; dropping a handle releases one reference,
   a count reaching 0 runs the finaliser and then releases the fields in declaration order.
   The type-level table of edges is gen/OwnGraph.v, regenerated from /repo's sources on every
   run by harness/xlate-own, plus two OS-level sharing edges (Own.extra_edges). *)
From V Require Import model.Base gen.OwnGraph model.Own proofs.OwnProofs.
From Coq Require Import Permutation.

(* The keeps-graph between the types of the generated table (Counted and Owned rows, plus
   ServiceState -> os::Service and Sender/Receiver -> os::Connection) has no cycle.  This is a
   computation over the finite generated table (98 edges): a rank that strictly decreases
   along every edge is computed and checked, and a strictly decreasing rank excludes cycles. *)
Theorem c17_graph_acyclic : acyclicb keep_edges = true /\ forall t, ~ path keep_edges t t.
Proof. exact (conj keep_edges_acyclic (acyclicb_no_cycle keep_edges keep_edges_acyclic)). Qed.
Check c17_graph_acyclic : acyclicb keep_edges = true /\ forall t, ~ path keep_edges t t.
Print Assumptions c17_graph_acyclic.

(* For EVERY acyclic type graph, every instance that is well formed over it (typed edges, handles
   and references in range, every object referenced by a handle or by another object, each
   finaliser removes exactly the transient resources its object created) and EVERY order in
   which the application drops its handles (any permutation of H):
     - the run neither underflows a count nor exhausts the fuel (no release is lost or doubled,
       the cascade terminates);
     - at the end no object is alive and the finalisation log is a permutation of all objects:
       every finaliser ran exactly once;
     - in the log every keeper precedes what it keeps: no finaliser ran while an object that
       holds a reference to its object was still alive;
     - the resources removed are, as a multiset, the resources created minus the ones tagged
       persistent-per-domain (global management segment, domain directories).
   Proved by induction over the drop sequence with the counting invariant of OwnProofs.Inv;
   acyclicity bounds the cascade depth and forces "no handle left => nothing alive".  No
   enumeration of permutations. *)
Theorem c17_any_order : forall (edges : list (nat * nat)), acyclicb edges = true ->
  forall (g : inst) (H order : list nat), wf_instb edges g H = true -> Permutation order H ->
  exists s, run_all edges g order (init g H) = Done s /\
    (forall x, x < nobjs g -> alive s x = false) /\
    Permutation (rev (flog s)) (seq 0 (nobjs g)) /\
    fin_order_ok g (rev (flog s)) /\
    Permutation (removed g s) (filter transient (created g)).
Proof. exact any_order_thm. Qed.
Check c17_any_order : forall (edges : list (nat * nat)), acyclicb edges = true ->
  forall (g : inst) (H order : list nat), wf_instb edges g H = true -> Permutation order H ->
  exists s, run_all edges g order (init g H) = Done s /\
    (forall x, x < nobjs g -> alive s x = false) /\
    Permutation (rev (flog s)) (seq 0 (nobjs g)) /\
    fin_order_ok g (rev (flog s)) /\
    Permutation (removed g s) (filter transient (created g)).
Print Assumptions c17_any_order.

(* the same for the generated table *)
Theorem c17_any_order_generated : forall (g : inst) (H order : list nat),
  wf_instb keep_edges g H = true -> Permutation order H ->
  exists s, run_all keep_edges g order (init g H) = Done s /\
    (forall x, x < nobjs g -> alive s x = false) /\
    Permutation (rev (flog s)) (seq 0 (nobjs g)) /\
    fin_order_ok g (rev (flog s)) /\
    Permutation (removed g s) (filter transient (created g)).
Proof. exact any_order_generated. Qed.
Print Assumptions c17_any_order_generated.

(* After ANY prefix `pre` of any drop order: every handle not yet dropped still points to a live
   object; every live object still has every object it keeps alive (transitively, by
   iteration); no live object has been finalised; and the finalisations so far respect
   keeper-before-kept.  This is the model-level meaning of "objects that are still alive keep
   working": nothing a survivor depends on through a keeps edge has been torn down.  (The
   harness checks the behavioural side on the real API; a dependency of a survivor that is NOT
   a keeps edge of the table -- the chunk a Sample reads is owned by the publisher's bookkeeping,
   not by a counted handle -- is outside this theorem and is exactly where the F2 symptom lives.) *)
Theorem c17_survivor_keeps_deps : forall (edges : list (nat * nat)), acyclicb edges = true ->
  forall (g : inst) (H pre post : list nat), wf_instb edges g H = true -> Permutation (pre ++ post) H ->
  exists s, run_all edges g pre (init g H) = Done s /\
    (forall h, In h post -> alive s h = true) /\
    (forall p k, p < nobjs g -> alive s p = true -> In k (keeps g p) -> alive s k = true) /\
    (forall x, x < nobjs g -> alive s x = true -> ~ In x (flog s)) /\
    fin_order_ok g (rev (flog s)).
Proof. exact survivors_thm. Qed.
Check c17_survivor_keeps_deps : forall (edges : list (nat * nat)), acyclicb edges = true ->
  forall (g : inst) (H pre post : list nat), wf_instb edges g H = true -> Permutation (pre ++ post) H ->
  exists s, run_all edges g pre (init g H) = Done s /\
    (forall h, In h post -> alive s h = true) /\
    (forall p k, p < nobjs g -> alive s p = true -> In k (keeps g p) -> alive s k = true) /\
    (forall x, x < nobjs g -> alive s x = true -> ~ In x (flog s)) /\
    fin_order_ok g (rev (flog s)).
Print Assumptions c17_survivor_keeps_deps.

(* Non-vacuity: the eight object graphs the harness builds (4 messaging patterns x 1..2 nodes
   sharing the service; 22..41 objects each, 4..8 handles) are well formed over the generated
   table, so the theorems above apply to each of them; and a concrete out-of-creation-order
   run on the two-node pub-sub graph (subscriber first, then node 0, ... the received sample
   last) finalises all 32 objects. *)
Example c17_any_order_nonvacuous :
  forallb (fun p => scenario_ok p false && scenario_ok p true) [PubSub; Event; ReqRes; Blackboard] = true /\
  (let '(g, H) := scenario_rr2 in wf_instb keep_edges g H) = true /\
  (let '(g, H) := scenario PubSub true in
   match run_all keep_edges g (map (fun k => nth k H 0) [5; 0; 2; 4; 1; 6; 3; 7]) (init g H) with
   | Done s => Nat.eqb (List.length (flog s)) 32 && Nat.eqb (nobjs g) 32
   | _ => false
   end) = true.
Proof. repeat split; vm_compute; reflexivity. Qed.
Print Assumptions c17_any_order_nonvacuous.

(* the hypotheses of c17_any_order_generated hold for the harness's graphs (same witness) *)
Example c17_any_order_generated_nonvacuous :
  forallb (fun p => scenario_ok p false && scenario_ok p true) [PubSub; Event; ReqRes; Blackboard] = true.
Proof. exact (proj1 c17_any_order_nonvacuous). Qed.
Print Assumptions c17_any_order_generated_nonvacuous.

(* Non-vacuity of the survivor theorem: in the one-node pub-sub graph, after dropping node,
   service handle, publisher and subscriber, the loan (SampleMut) and the received Sample are
   alive and so are the cores they keep: 19 of the 24 objects are still alive, among them the
   SharedNodeState (object 0) and the os::Service (object 3). *)
Example c17_survivor_keeps_deps_nonvacuous :
  (let '(g, H) := scenario PubSub false in
   match run_all keep_edges g (map (fun k => nth k H 0) [0; 1; 2; 3]) (init g H) with
   | Done s => Nat.eqb (List.length (live_objs g s)) 18 && alive s 0 && alive s 3
               && alive s (nth 4 H 0) && alive s (nth 5 H 0)
   | _ => false
   end) = true.
Proof. vm_compute; reflexivity. Qed.
Print Assumptions c17_survivor_keeps_deps_nonvacuous.

(* ------------------------------------------------------------------------------------------
   The dynamic edge Receiver -> receiver::Connection (mapping of a departed sender's segment).
   port/details/receiver.rs; the conditions (early exit of the channel scan, keep-on-disconnect,
   remove-on-poll) are rows of the generated table (own_decisions) and the lemmas below go through
   only for the conditions the code has now. *)

(* A receiver that polls an expired connection (sender gone) on any channel releases it ONLY IF no
   channel of that connection has a borrowed chunk: a Sample / Response / ActiveRequest that is
   still alive keeps the segment mapped.  "retain iff EXISTS a channel with a borrow", for any
   number of channels; needs the scan over ALL channels (early exit `has_data && has_borrows`). *)
Theorem c17_expired_connection_kept_while_borrowed : forall (chs : list chan) (c m : nat),
  poll_expired chs c m = XRemove ->
  (forall ch, In ch chs -> snd ch = 0) /\ fst (nth c chs (false, 0)) = false.
Proof. exact expired_removed_no_borrow. Qed.
Check c17_expired_connection_kept_while_borrowed : forall (chs : list chan) (c m : nat),
  poll_expired chs c m = XRemove ->
  (forall ch, In ch chs -> snd ch = 0) /\ fst (nth c chs (false, 0)) = false.
Print Assumptions c17_expired_connection_kept_while_borrowed.
Example c17_expired_connection_kept_while_borrowed_nonvacuous :
  poll_expired [(false, 0); (false, 0)] 1 2 = XRemove /\ poll_expired [(true, 0); (false, 1)] 1 2 = XKeep /\
  poll_expired [(true, 0); (false, 0)] 1 2 = XKeep /\
  scan_from orb [(true, 0); (false, 1)] false false = (true, false).
Proof. vm_compute. repeat split; reflexivity. Qed.
Print Assumptions c17_expired_connection_kept_while_borrowed_nonvacuous.

(* When the sender disappears the connection is kept (as expired) iff some channel has data or a borrow. *)
Theorem c17_connection_kept_on_disconnect : forall chs,
  keep_on_disconnect chs = true <-> exists ch, In ch chs /\ (fst ch = true \/ 0 < snd ch).
Proof. exact keep_on_disconnect_iff. Qed.
Print Assumptions c17_connection_kept_on_disconnect.

(* ... and only if NO channel has a delivered, unreceived chunk: a pending response does not lose a
   response that the server sent before it went away because a sibling pending response polled the
   expired connection first.  True since fix 9915d96 (`if !has_borrows && !has_data`); it was refuted
   for the previous condition (`if !has_borrows`, finding
   reqres:delivered-response-lost-when-sibling-polls-expired-connection, harness family reqres2 order
   6,3,8,7), which is kept as the Example below over the explicit old rule. *)
Definition c17_expired_connection_keeps_data_full : Prop := expired_keeps_data_full.
Theorem c17_expired_connection_keeps_data : c17_expired_connection_keeps_data_full.
Proof. exact expired_keeps_data. Qed.
Check c17_expired_connection_keeps_data :
  forall chs c m, poll_expired chs c m = XRemove -> forall ch, In ch chs -> fst ch = false.
Print Assumptions c17_expired_connection_keeps_data.
Example c17_expired_connection_keeps_data_old_condition_refuted : ~ expired_keeps_data_with remove_if_old.
Proof. exact expired_keeps_data_old_refuted. Qed.
Print Assumptions c17_expired_connection_keeps_data_old_condition_refuted.

(* The channel scan every decision above (and the buffer-overflow path of prepare_connection_removal,
   find_connection_without_borrows / _without_data_and_borrows, exercised by the harness family rrovf)
   consumes is EXACT for any number of channels: (some channel has data, some channel has a borrow). *)
Theorem c17_channel_scan_exact : forall chs,
  scan chs = (existsb fst chs, existsb (fun c => Nat.ltb 0 (snd c)) chs).
Proof. exact scan_spec. Qed.
Print Assumptions c17_channel_scan_exact.

(* A subscriber can always park the connection of a departed publisher that still has a borrowed Sample:
   for every configured expired-connection buffer and every max-borrowed-samples limit, as long as the
   borrows respect that limit, prepare_connection_removal never reaches its fatal_panic ("Expired
   connection buffer exceeded ... still borrowed").  Needs the capacity max(buffer, max borrowed samples)
   that Subscriber::new computes AND passes to the list (two rows of own_decisions); with the raw config
   value as capacity it is false (buffer 1, limit 2: second example below, harness family ps2). *)
Theorem c17_borrowed_connection_can_always_be_parked : forall (buffer maxb : nat) (l : list econn) (c : econn),
  0 < snd c -> list_sum (map snd l) + snd c <= maxb -> park (expired_capacity buffer maxb) l c <> ParkFatalPanic.
Proof. exact park_never_fatal. Qed.
Check c17_borrowed_connection_can_always_be_parked : forall (buffer maxb : nat) (l : list econn) (c : econn),
  0 < snd c -> list_sum (map snd l) + snd c <= maxb -> park (expired_capacity buffer maxb) l c <> ParkFatalPanic.
Print Assumptions c17_borrowed_connection_can_always_be_parked.
Example c17_borrowed_connection_can_always_be_parked_nonvacuous :
  expired_capacity 1 2 = 2 /\ park (expired_capacity 1 2) [(false, 1)] (false, 1) = Parked /\
  park 1 [(false, 1)] (false, 1) = ParkFatalPanic /\
  park (expired_capacity 1 2) [(true, 0); (false, 1)] (false, 1) = ParkedDiscardingData.
Proof. vm_compute. repeat split; reflexivity. Qed.
Print Assumptions c17_borrowed_connection_can_always_be_parked_nonvacuous.

(* An open() that is REFUSED at any of its fallible steps (service resource, dynamic configuration:
   ExceedsMaxNumberOfNodes, IsMarkedForDestruction, ...) leaves no service tag behind, so the refused
   node's directory can be removed when the node goes: the ownership of the tag is released only after
   the last fallible step (row BuilderWithServiceType::open.step_order of the generated table).  With the
   release moved before the fallible steps the tag of a refused open stays for ever (second example;
   harness family openfail). *)
Theorem c17_refused_open_leaves_no_service_tag : forall k left,
  open_run open_steps_code k false false = Some left -> left = false.
Proof. exact refused_open_no_tag. Qed.
Print Assumptions c17_refused_open_leaves_no_service_tag.
Example c17_refused_open_leaves_no_service_tag_nonvacuous :
  open_run open_steps_code 1 false false = Some false /\ open_run open_steps_code 2 false false = None /\
  open_run [OCreateTag; OReleaseTag; OFallible; OFallible] 1 false false = Some true.
Proof. vm_compute. repeat split; reflexivity. Qed.
Print Assumptions c17_refused_open_leaves_no_service_tag_nonvacuous.
