(* C08 -- QoS limits suffice and are enforced (publish-subscribe part; request-response belongs to
   C11, events to C05, blackboard to C12, the wait set to C20).
   Only statements; proofs in proofs/ConnProofs.v, proofs/PortProofs.v and (world-level induction)
   proofs/PortInv*.v. *)
From V Require Import model.Base model.Conn model.Port proofs.ConnProofs proofs.PortProofs proofs.PortInvStep proofs.PortInvRefl.
From Coq Require Import Lia.

(* ---- the data segment is large enough ----------------------------------------------------- *)
(* PROVED for every reachable world (any history of API calls of any number of ports, every QoS
   tuple with max_subscribers + history_size + 4 < 2^64): a loan of a live publisher never answers
   OutOfMemory.  Below the loan limit the allocation finds a free chunk, at the limit the answer is
   ExceedsMaxLoans (c08_reject_clean_partial).  By c02_world_invariant and counting through the
   conservation invariant: at the allocation micro-step (after retrieve_returned_chunks) at most
   loans + H + S*(B+M) <= S*(B+M) + H + L - 1 chunks are in use. *)
Theorem c08_pubsub_never_oom : forall c h w obs p w',
  cfg_fits c -> run (world_new c) h = Val (w, obs) -> pub_live w p = true ->
  pub_allocate w p <> Val (w', AErr EOutOfMemory).
Proof. exact reachable_never_oom. Qed.
Print Assumptions c08_pubsub_never_oom.

(* the counting argument itself, for every state that satisfies the executable invariant *)
Theorem c08_pubsub_never_oom_state : forall w p,
  pub_inv_b w p = true -> comps_empty w p -> p_loans (getp w p) < p_L (getp w p) ->
  p_free (getp w p) <> [] /\ forall w', pub_allocate_core w p <> Val (w', AErr EOutOfMemory).
Proof. exact never_oom_at_allocation. Qed.
Print Assumptions c08_pubsub_never_oom_state.

(* the hypothesis comps_empty is what retrieve_returned_chunks establishes (proved on the world model,
   for every world): pub_allocate w p = pub_allocate_core (pub_retrieve w p) p.  Between a reclaim and the
   next push a connection can hold B + M + 1 chunks (the subscriber may release and receive while the
   publisher waits in blocking_send); at the allocation micro-step it is B + M again. *)
Theorem c08_retrieve_empties_completion_queues : forall w p, comps_empty (pub_retrieve w p) p.
Proof. exact retrieve_empties_completion_queues. Qed.
Print Assumptions c08_retrieve_empties_completion_queues.

(* a state in which every chunk but one is in use (full buffer, full borrow, full history, one of
   two loans out) satisfies the hypotheses; one more loan saturates the segment exactly *)
Example c08_pubsub_never_oom_state_nonvacuous :
  (pub_inv_b sat_before 0 = true /\ p_loans (getp sat_before 0) = 1 /\ p_L (getp sat_before 0) = 2
   /\ length (p_free (getp sat_before 0)) = 1) /\ comps_empty sat_before 0.
Proof. split; [exact sat_before_witness|exact sat_before_comps]. Qed.
Print Assumptions c08_pubsub_never_oom_state_nonvacuous.

(* the saturated world (no free chunk, both loans out) is reachable in a fitting configuration *)
Example c08_pubsub_never_oom_nonvacuous :
  cfg_fits cfg_sat /\ (exists obs, run (world_new cfg_sat) sat_history = Val (sat_world, obs))
  /\ pub_live sat_world 0 = true /\ p_free (getp sat_world 0) = [].
Proof. split; [reflexivity|]. destruct sat_witness as (A & _ & B & _ & _ & C). auto. Qed.
Print Assumptions c08_pubsub_never_oom_nonvacuous.

Theorem c08_saturation_reachable :
  (exists obs, run (world_new cfg_sat) sat_history = Val (sat_world, obs))
  /\ p_n (getp sat_world 0) = 7 /\ p_free (getp sat_world 0) = [] /\ inv_check sat_world = true
  /\ p_loans (getp sat_world 0) = 2 /\ pub_live sat_world 0 = true.
Proof. exact sat_witness. Qed.
Print Assumptions c08_saturation_reachable.

(* ---- a release never fails for lack of queue space ---------------------------------------- *)
(* PROVED for every reachable world: the release of a live Sample whose publisher is live and still
   has the connection in its table (true for every Sample of a registered subscriber:
   c08_release_covered) finds a place in the completion queue.  The completion queue has
   B + M + 1 places; sub + borrowed + comp <= B + M + 1 is part of the world invariant (B + M
   outside the publisher's blocking_send window, one more inside it), and a sample that is
   released was borrowed, so at most B + M entries are queued before it.
   Excluded: a Sample whose publisher is gone or has dropped the connection (then nobody reclaims;
   the model keeps no bound for such a connection). *)
Theorem c08_release_never_full : forall c h w obs x cn,
  cfg_fits c -> run (world_new c) h = Val (w, obs) ->
  In x (w_samples w) -> pub_live w (x_origin x) = true -> In (Some (x_sub x)) (p_tab (getp w (x_origin x))) ->
  getc w (x_origin x) (x_sub x) = Some cn ->
  exists c', c_release cn (x_off x) = Val (c', true).
Proof. exact reachable_release_never_full. Qed.
Print Assumptions c08_release_never_full.

Theorem c08_release_covered : forall c h w obs x,
  cfg_fits c -> run (world_new c) h = Val (w, obs) ->
  In x (w_samples w) -> pub_live w (x_origin x) = true -> sub_live w (x_sub x) = true ->
  In (Some (x_sub x)) (p_tab (getp w (x_origin x))) /\ exists cn, getc w (x_origin x) (x_sub x) = Some cn.
Proof. exact reachable_sample_covered. Qed.
Print Assumptions c08_release_covered.

(* the connection-local step, for every connection that satisfies its invariant *)
Theorem c08_release_never_full_state : forall c bor o bor',
  conn_inv c bor -> minus_one bor o bor' ->
  length (c_sub c) + length bor + length (c_comp c) <= c_B c + c_M c + 1 ->
  exists c', c_release c o = Val (c', true)
             /\ c_sub c' = c_sub c /\ c_used c' = c_used c /\ c_comp c' = c_comp c ++ [o] /\ conn_inv c' bor'.
Proof. exact release_spec. Qed.
Print Assumptions c08_release_never_full_state.

Example c08_release_never_full_state_nonvacuous :
  exists c1 c2 e, c_try_send (conn_new 1 1 false 4) 2 0 = Val (c1, SOk None) /\ c_receive c1 = (c2, RcvOk (Some e))
                  /\ conn_inv c2 [2] /\ minus_one [2] 2 [].
Proof.
  do 3 eexists. split; [reflexivity|]. split; [reflexivity|]. split.
  - pose proof (conn_new_inv 1 1 false 4) as H0.
    assert (Hs : c_try_send (conn_new 1 1 false 4) 2 0 = Val (set_sub_used (conn_new 1 1 false 4) [{| q_off := 2; q_idx := 0 |}] [2], SOk None)) by reflexivity.
    pose proof (try_send_spec _ _ _ _ _ _ H0 Hs) as H1. cbn zeta in H1. destruct H1 as (_ & _ & _ & _ & _ & H1).
    assert (Hr : c_receive (set_sub_used (conn_new 1 1 false 4) [{| q_off := 2; q_idx := 0 |}] [2])
                 = (set_sub_borrow (set_sub_used (conn_new 1 1 false 4) [{| q_off := 2; q_idx := 0 |}] [2]) [] 1, RcvOk (Some {| q_off := 2; q_idx := 0 |}))) by reflexivity.
    pose proof (receive_spec _ _ _ _ H1 Hr) as H2. cbn in H2. destruct H2 as (_ & _ & _ & _ & H2). exact H2.
  - split; [reflexivity|]. intros x. cbn [count_occ]. destruct (Nat.eq_dec 2 x); lia.
Qed.
Print Assumptions c08_release_never_full_state_nonvacuous.

(* a reachable world with a live Sample of a registered subscriber of a live publisher *)
Example c08_release_never_full_nonvacuous :
  cfg_fits cfg11 /\
  match run (world_new cfg11) [OPubCreate 2 false HNone; OSubCreate None None; OSendCopy 0; ORecv 0] with
  | Val (w, _) => exists x, In x (w_samples w) /\ pub_live w (x_origin x) = true /\ sub_live w (x_sub x) = true
  | Panic => False
  end.
Proof. split; [reflexivity|]. vm_compute. eexists. split; [left; reflexivity|split; reflexivity]. Qed.
Print Assumptions c08_release_never_full_nonvacuous.

(* ---- beyond a limit: the documented error, no side effect, success after one unit is freed --- *)
Definition c08_reject_clean_full : Prop :=
  forall c h w obs o, run (world_new c) h = Val (w, obs) -> step w o <> Panic.

(* REFUTED by the faithful model (known finding pubsub:expired-connection-buffer-exceeded-panic,
   replayed on the implementation by the check): more publishers than the expired connection
   buffer holds disappear while the subscriber holds a sample of each; Subscriber::receive panics *)
Theorem c08_reject_clean_refuted : ~ c08_reject_clean_full.
Proof.
  intros H. pose proof e1_panics as Hp.
  destruct (run (world_new cfg_e1) e1_history) as [[w obs]|] eqn:E; [|exact Hp].
  destruct Hp as (_ & Hpanic & _). exact (H cfg_e1 e1_history w obs (ORecv 0) E Hpanic).
Qed.
Print Assumptions c08_reject_clean_refuted.

(* PROVED: the three limits of the property.
   loan beyond max_loaned_samples: exactly ExceedsMaxLoans and an unchanged world at the allocation
     micro-step (the reclaim that precedes it is a stutter of the abstraction); never below the limit;
   receive beyond max_borrowed_samples: exactly ReceiveWouldExceedMaxBorrowValue, unchanged
     connection; after one release the same call is accepted;
   one publisher / subscriber too many: the documented error, unchanged world; after one port of
     that kind is dropped the registry accepts again. *)
Theorem c08_reject_clean_partial :
  (forall w p, p_L (getp w p) <= p_loans (getp w p) -> pub_allocate_core w p = Val (w, AErr EExceedsMaxLoans))
  /\ (forall w p w', p_loans (getp w p) < p_L (getp w p) -> pub_allocate_core w p <> Val (w', AErr EExceedsMaxLoans))
  /\ (forall c bor o bor', conn_inv c bor -> snd (c_receive c) = RcvExceedsMaxBorrow -> minus_one bor o bor' ->
        length (c_sub c) + length bor + length (c_comp c) <= c_B c + c_M c + 1 -> c_borrow c = c_M c ->
        fst (c_receive c) = c /\ exists c1, c_release c o = Val (c1, true) /\ snd (c_receive c1) <> RcvExceedsMaxBorrow)
  /\ (forall w l r h, first_free (r_slots (w_preg w)) 0 = None -> pub_create w l r h = Val (w, None))
  /\ (forall w, first_free (r_slots (w_sreg w)) 0 = None -> sub_create w None None = Val (w, (None, Some EMaxSubscribers)))
  /\ (forall A (r : registry A) i x, i < length (r_slots r) -> reg_add (reg_remove r i) x <> None).
Proof.
  split; [exact loan_reject_clean|]. split; [exact loan_below_limit|]. split; [exact receive_reject_then_release|].
  split; [exact pub_create_reject_clean|]. split; [exact sub_create_reject_clean|]. exact @registry_accepts_after_remove.
Qed.
Print Assumptions c08_reject_clean_partial.

Example c08_reject_clean_partial_nonvacuous :
  p_L (getp sat_world 0) <= p_loans (getp sat_world 0)
  /\ first_free (r_slots (w_preg sat_world)) 0 = None /\ first_free (r_slots (w_sreg sat_world)) 0 = None.
Proof. vm_compute. repeat split; auto. Qed.
Print Assumptions c08_reject_clean_partial_nonvacuous.
