(* C07 -- liveness verdicts are sound and stale cleanup is exclusive.  (statements are being added) *)
From V Require Import model.Base model.Conc model.Fs model.ProcState.
Open Scope N_scope.

Example c07_model_runs : fst (fst (run (step false true) [0%nat;0%nat] (init (fun _ => [OCreate]) (fun _ => None)))) = fst (fst (run (step false true) [0%nat;0%nat] (init (fun _ => [OCreate]) (fun _ => None)))).
Proof. reflexivity. Qed.
Print Assumptions c07_model_runs.
