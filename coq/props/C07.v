(* C07 -- liveness verdicts are sound and stale cleanup is exclusive.  Statements only.
   Model: model/ProcState.v (process_state.rs, one step = one libc call of one process) over
   model/Fs.v (files, modes, link state, per-process fcntl locks released by ANY close or by death).
   `step priv nlc`: priv = the processes are root (CAP_DAC_OVERRIDE); nlc = true is the code since
   the repair a8f7c5d of F3 (state() re-checks nlink of an unlocked state file).
   Schedules are arbitrary lists of thread ids (all interleavings at libc-call granularity).
   The all-schedule theorems are for the stated finite instances (process 0 = the guarded process
   over its whole life, process 1 = one monitor / one cleaner; every other thread id is idle): proved by
   a verified reachability closure (proofs/ProcStateClosure.v), not by sampling.  The general
   statement for ANY number of concurrent monitors and cleaners is not proved here (see claims). *)
From V Require Import model.Base model.Conc model.Fs model.ProcState proofs.ProcStateClosure proofs.ProcStateProofs.
Open Scope N_scope.

(* ---- a running process is never reported dead, its files are never handed to a cleaner ---- *)
(* process 0: ProcessGuard create, hold, orderly drop (never killed);  process 1: one state() call.
   In every interleaving, a transition that returns the verdict Dead can only happen when
   process 0 has crashed -- which it never does here: the verdict Dead is unreachable. *)
Theorem c07_alive_never_dead : forall priv sched t c' es,
  let ps := inst_mon None in
  let c := fst (run (step priv true) sched (init (progs_of ps) (kills_of ps))) in
  step1 (step priv true) t c = Some (c', es) ->
  In (ERet OP_STATE VDead) es -> crashed (snd c 0%nat) = true.
Proof. intros priv sched t c' es ps c H1 H2. eapply alive_never_dead_or_reclaimed; eauto. Qed.
Print Assumptions c07_alive_never_dead.

(* process 1: ProcessCleaner::new (then drop): it never returns Ok while process 0 has not crashed,
   at any moment of process 0's life including start-up and orderly shutdown *)
Theorem c07_alive_never_reclaimed : forall priv sched t c' es,
  let ps := inst_cln None in
  let c := fst (run (step priv true) sched (init (progs_of ps) (kills_of ps))) in
  step1 (step priv true) t c = Some (c', es) ->
  In (ERet OP_STATE VDead) es \/ In (ERet OP_CLEAN 0) es -> crashed (snd c 0%nat) = true.
Proof. intros priv sched t c' es ps c H1 H2. eapply alive_never_dead_or_reclaimed; eauto. Qed.
Print Assumptions c07_alive_never_reclaimed.

(* non-vacuity: the monitor does reach verdicts in these instances (Alive while the guard is held) *)
Example c07_alive_nonvacuous :
  rets (snd (run (step false true) (repeat 0%nat 14 ++ repeat 1%nat 12) (init (progs_of (inst_mon None)) (kills_of (inst_mon None)))))
  = [(0%nat, OP_CREATE, 0); (1%nat, OP_STATE, VAlive)].
Proof. vm_compute. reflexivity. Qed.
Print Assumptions c07_alive_nonvacuous.

(* F3 (repaired in /repo by a8f7c5d): with the code before the repair (nlc = false) the statement
   was false: monitor open(state) -> guard remove(state), close(state) -> monitor F_GETLK = unlocked
   => Dead while the guard process lives; the same schedule now yields CleaningUp *)
Definition c07_alive_never_dead_before_repair : Prop := forall sched t c' es,
  let ps := inst_mon None in
  let c := fst (run (step false false) sched (init (progs_of ps) (kills_of ps))) in
  step1 (step false false) t c = Some (c', es) ->
  In (ERet OP_STATE VDead) es -> crashed (snd c 0%nat) = true.
Theorem c07_f3_before_repair :
  In (1%nat, ERet OP_STATE VDead) (snd (f3_run false)) /\ crashed (snd (fst (f3_run false)) 0%nat) = false.
Proof. exact f3_before_repair. Qed.
Print Assumptions c07_f3_before_repair.
Theorem c07_f3_after_repair : rets (snd (f3_run true)) = [(0%nat, OP_CREATE, 0); (1%nat, OP_STATE, VCleaning)].
Proof. exact f3_after_repair. Qed.
Print Assumptions c07_f3_after_repair.

(* ---- a process that has died is never reported alive for ever ---- *)
(* no F_GETLK on the state file issued after the death of process 0 (exit without drop, or SIGKILL
   before any of its 21 calls) ever sees its lock: the only way to the verdict Alive is closed *)
Theorem c07_dead_never_seen_alive : forall priv ps sched t c' es,
  ps = inst_mon_exit \/ (priv = false /\ exists k, (k <= 20)%nat /\ ps = inst_mon (Some k)) ->
  step1 (step priv true) t (fst (run (step priv true) sched (init (progs_of ps) (kills_of ps)))) = Some (c', es) ->
  crashed (snd (fst (run (step priv true) sched (init (progs_of ps) (kills_of ps)))) 0%nat) = true ->
  sees_state_lock es = false.
Proof. exact dead_lock_never_seen. Qed.
Print Assumptions c07_dead_never_seen_alive.

(* what a fresh process gets (state, clean, cdrop, state) after process 0 was killed before its
   k-th call (create = 0..11, drop = 12..20): DoesNotExist for k <= 1 and k = 20; Starting for ever
   for k = 2..11 (crash inside creation: never collectable, cal/monitoring maps it to DoesNotExist);
   Dead, collected, DoesNotExist for k = 12, 13; CleaningUp FOR EVER for k = 14..19 *)
Theorem c07_dead_eventually_table : forall priv k, (k <= 20)%nat -> fst (after_guard_kill priv k) = expect_guard k.
Proof. exact guard_kill_table. Qed.
Print Assumptions c07_dead_eventually_table.

(* the property clause "ends up reported dead (and collectable) or absent": the residue is gone after one
   state/clean/cdrop round of a survivor.  FALSE of the faithful model. *)
Definition c07_dead_eventually_full : Prop := forall priv k, (k <= 20)%nat -> snd (after_guard_kill priv k) = [].
Theorem c07_dead_eventually_refuted : ~ c07_dead_eventually_full.
Proof.
  intros H. specialize (H false 14%nat). assert (Hk : (14 <= 20)%nat) by lia. specialize (H Hk).
  apply (proj1 (guard_kill_residue false 14 Hk)) in H. vm_compute in H. discriminate.
Qed.
Print Assumptions c07_dead_eventually_refuted.
Theorem c07_dead_eventually_partial : forall priv k, (k <= 20)%nat ->
  (snd (after_guard_kill priv k) = [] <-> guard_collectable k = true).
Proof. exact guard_kill_residue. Qed.
Print Assumptions c07_dead_eventually_partial.

(* ---- a cleaner that dies does not make the resources uncollectable ---- *)
(* the winning cleaner is killed before its j-th call (new = 16 calls as user / 18 as root, then drop);
   FALSE for the 6 kill points after remove(state) and before remove(context) *)
Definition c07_cleaner_crash_recoverable_full : Prop := forall priv j, (j <= newcalls priv + 8)%nat ->
  exists pre, fst (after_cleaner_kill priv j) = pre ++ follow2 VDead 0 0 VDNE \/
              fst (after_cleaner_kill priv j) = pre ++ follow2 VDNE K_DoesNotExist 0 VDNE.
Theorem c07_cleaner_crash_recoverable_refuted : ~ c07_cleaner_crash_recoverable_full.
Proof.
  intros H. assert (Hj : (18 <= newcalls false + 8)%nat) by (cbn; lia).
  destruct (H false 18%nat Hj) as [pre [E|E]];
    rewrite (cleaner_kill_table false 18 Hj) in E;
    apply (f_equal (fun l => nth 0 (rev l) (0%nat, 0, 0))) in E; rewrite rev_app_distr in E; vm_compute in E; discriminate E.
Qed.
Print Assumptions c07_cleaner_crash_recoverable_refuted.
Theorem c07_cleaner_crash_recoverable_partial : forall priv j, (j <= newcalls priv + 8)%nat ->
  fst (after_cleaner_kill priv j) = expect_cleaner priv j.
Proof. exact cleaner_kill_table. Qed.
Print Assumptions c07_cleaner_crash_recoverable_partial.

(* ---- exclusivity of the cleanup ---- *)
(* at any time at most one process owns a ProcessCleaner: FALSE when the owner queries state() itself *)
Definition c07_cleaner_exclusive_full : Prop := forall (ps : list (list pop * option nat)) sched t u,
  let c := fst (run (step false true) sched (init (progs_of ps) (kills_of ps))) in
  cfd (snd c t) <> None -> cfd (snd c u) <> None -> crashed (snd c t) = false -> crashed (snd c u) = false -> t = u.
Theorem c07_cleaner_exclusive_refuted : ~ c07_cleaner_exclusive_full.
Proof.
  intros H. specialize (H n4_inst (seq_sched 3) 1%nat 2%nat). cbv zeta in H.
  assert (E : 1%nat = 2%nat); [apply H; vm_compute; congruence | discriminate E].
Qed.
Print Assumptions c07_cleaner_exclusive_refuted.
(* sequential part that does hold: a second cleaner that comes while the first one holds is refused *)
Theorem c07_cleaner_exclusive_partial :
  fst (seq_rets false n4c_inst) = [(0%nat, OP_CREATE, 0); (1%nat, OP_CLEAN, 0); (2%nat, OP_CLEAN, K_BeingCleaned)].
Proof. exact n4_control. Qed.
Print Assumptions c07_cleaner_exclusive_partial.
