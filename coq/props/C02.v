(* C02 -- Zero-copy sample lifetime: no reuse while referenced, no leak after (publish-subscribe
   part; the request-response part belongs to C11).
   Only statements; proofs in proofs/ConnProofs.v, proofs/PortProofs.v and (world-level induction)
   proofs/PortView.v, PortInv.v, PortInvPub.v, PortInvSub.v, PortInvLife.v, PortInvStep.v, PortInvRefl.v.

   The conservation invariant is model/Port.v inv_check (executable): for every ACTIVE publisher p
   and every chunk o of its data segment
       refcnt o = [Loan o] + [History o] + sum over the connections c of p's table of [o in used c]
       o on the free list  <->  refcnt o = 0,   free list NoDup, inside the segment
       for every connection c of the table:  used c = sub c + borrowed c + comp c  (multisets, NoDup),
       |sub c| <= B, borrow counter = |borrowed c| <= M, |sub c| + |borrowed c| + |comp c| <= B + M + 1
       loan counter = number of live loans <= L, |history| <= H
   and every live sample of a registered subscriber still has its connection in the table of its
   (active) publisher.  `borrowed c` = the live Samples received through c, whether or not their
   Subscriber object still exists. *)
From V Require Import model.Base model.Conn model.Port proofs.ConnProofs proofs.PortProofs proofs.PortView proofs.PortInv
  proofs.PortInvStep proofs.PortInvRefl.

(* PROVED by induction over the history, for any number of publishers and subscribers and every
   QoS tuple: the world invariant InvR (proofs/PortInv.v; propositions: per active publisher the
   conservation equations above, per live subscriber the consistency of its connection table,
   storage, free keys and expired-connection list, the topology between both sides, both
   registries) holds initially (world_new_ok) and is preserved by EVERY operation of the history
   alphabet (step_ok; one lemma per function of model/Port.v: pub_create_ok, pub_drop_ok,
   sub_create_ok, sub_drop_ok, do_loan_ok, pub_write_ok, do_send_ok (pub_send_sample_ok with the
   handler micro-steps run_hacts_ok, pub_update_connections_ok, deliver_history_ok,
   pub_deliver_all_ok), loan_drop_ok, sub_receive_ok, sample_drop_ok, sub_has_samples_ok,
   sub_update_connections_ok, exhaust_loans_ok/drop_all_ok); it implies the executable inv_check
   (Inv_inv_check).
   The only hypothesis: cfg_fits c, i.e. max_subscribers + history_size + 4 < 2^64 (the reference
   counters of the data segment are u64). *)
Theorem c02_world_invariant : forall c w, cfg_fits c -> reachable c w -> InvR w.
Proof. exact reachable_InvR. Qed.
Print Assumptions c02_world_invariant.

Theorem c02_invariant_initial : forall c, cfg_fits c -> InvR (world_new c).
Proof. exact world_new_ok. Qed.
Print Assumptions c02_invariant_initial.

Theorem c02_invariant_step : forall w o w' ob, InvR w -> step w o = Val (w', ob) -> InvR w'.
Proof. exact step_ok. Qed.
Print Assumptions c02_invariant_step.

Theorem c02_invariant_reflects : forall w, Inv w -> inv_check w = true.
Proof. exact Inv_inv_check. Qed.
Print Assumptions c02_invariant_reflects.

Theorem c02_conservation_full :
  forall c h w obs, cfg_fits c -> run (world_new c) h = Val (w, obs) -> inv_check w = true.
Proof. exact reachable_inv_check. Qed.
Print Assumptions c02_conservation_full.

(* the saturating history (every chunk of the segment in use) is a reachable world of a fitting
   configuration *)
Example c02_conservation_full_nonvacuous :
  cfg_fits cfg_sat /\ (exists obs, run (world_new cfg_sat) sat_history = Val (sat_world, obs))
  /\ p_free (getp sat_world 0) = [].
Proof. split; [reflexivity|]. destruct sat_witness as (A & _ & B & _). auto. Qed.
Print Assumptions c02_conservation_full_nonvacuous.

(* PROVED: the base case for every configuration, and the connection-local part for every operation
   of a connection: each of try_send / receive / release / reclaim maps an invariant-satisfying
   connection to an invariant-satisfying one with exactly the stated movement of the offset between
   sub, borrowed, comp and used *)
Theorem c02_conservation_initial : forall c, inv_check (world_new c) = true.
Proof. exact inv_check_initial. Qed.
Print Assumptions c02_conservation_initial.

Theorem c02_conservation_partial :
  (forall b m ovf n, conn_inv (conn_new b m ovf n) [])
  /\ (forall c bor o gi c' r, conn_inv c bor -> c_try_send c o gi = Val (c', r) ->
        match r with
        | SOk None => c_used c' = o :: c_used c /\ c_sub c' = c_sub c ++ [{| q_off := o; q_idx := gi |}] /\ conn_inv c' bor
        | SOk (Some old) => (forall x, cnt (c_used c') x + cnt [old] x = cnt (c_used c) x + cnt [o] x) /\ conn_inv c' bor
        | SBufferFull => c' = c
        | _ => False
        end)
  /\ (forall c bor c' e, conn_inv c bor -> c_receive c = (c', RcvOk (Some e)) ->
        c_used c' = c_used c /\ c_sub c = e :: c_sub c' /\ conn_inv c' (bor ++ [q_off e]))
  /\ (forall c bor o bor', conn_inv c bor -> minus_one bor o bor' ->
        length (c_sub c) + length bor + length (c_comp c) <= c_B c + c_M c + 1 ->
        exists c', c_release c o = Val (c', true) /\ c_used c' = c_used c /\ c_comp c' = c_comp c ++ [o] /\ conn_inv c' bor')
  /\ (forall c bor c' o, conn_inv c bor -> c_reclaim c = (c', RSome o) ->
        (forall x, cnt (c_used c) x = cnt [o] x + cnt (c_used c') x) /\ c_comp c = o :: c_comp c' /\ conn_inv c' bor)
  /\ (forall c bor c', conn_inv c bor -> c_reclaim c = (c', RCorrupt) -> False).
Proof.
  split; [exact conn_new_inv|]. split.
  { intros c bor o gi c' r Hi Hs. pose proof (try_send_spec _ _ _ _ _ _ Hi Hs) as H. cbn zeta in H.
    destruct r as [[old|]| | | | |]; try contradiction.
    - destruct H as (_ & _ & _ & Hc & _ & _ & _ & Hinv). auto.
    - destruct H as (_ & Hs' & Hu & _ & _ & Hinv). auto.
    - destruct H as (-> & _). reflexivity. }
  split.
  { intros c bor c' e Hi Hr. pose proof (receive_spec _ _ _ _ Hi Hr) as H. cbn in H. destruct H as (_ & Hs & _ & Hu & Hinv). auto. }
  split.
  { intros c bor o bor' Hi Hm Hb. destruct (release_spec _ _ _ _ Hi Hm Hb) as (c' & Hr & _ & Hu & Hc & Hinv). eauto. }
  split.
  { intros c bor c' o Hi Hr. pose proof (reclaim_spec _ _ _ _ Hi Hr) as H. cbn in H. destruct H as (Hc & _ & _ & Hu & Hinv). auto. }
  intros c bor c' Hi Hr. exact (reclaim_spec _ _ _ _ Hi Hr).
Qed.
Print Assumptions c02_conservation_partial.

(* ---- no reuse while referenced ----------------------------------------------------------- *)
Definition c02_no_reuse_full : Prop :=
  forall c h w obs p w' o, run (world_new c) h = Val (w, obs) -> pub_live w p = true ->
    pub_allocate w p = Val (w', AOk o) ->
    forall x, In x (w_samples w) -> x_origin x = p -> x_off x <> o.

(* REFUTED by the faithful model (known finding pubsub:sample-outlives-subscriber-chunk-reused,
   F2, replayed on the implementation by the check): a Sample that outlives its Subscriber *)
Theorem c02_no_reuse_refuted : ~ c02_no_reuse_full.
Proof.
  intros H. destruct f2_before_witness as ([obs Hrun] & Hlive & _ & [w' Ha] & (x & Hin & Ho & Hoff)).
  exact (H cfg11 f2_prefix f2_before obs 0 w' 0 Hrun Hlive Ha x Hin Ho Hoff).
Qed.
Print Assumptions c02_no_reuse_refuted.

(* PROVED for every state that satisfies the invariant, at the allocation micro-step (the one after
   retrieve_returned_chunks): the chunk handed out has no holder at all, and no Sample whose
   Subscriber is still registered points at it *)
Theorem c02_no_reuse_partial : forall w p w' o,
  inv_check w = true -> pub_live w p = true ->
  pub_allocate_core w p = Val (w', AOk o) ->
  holders w p o = 0
  /\ forall x, In x (w_samples w) -> x_origin x = p -> s_active (gets w (x_sub x)) = true -> x_off x <> o.
Proof. exact no_reuse_at_allocation. Qed.
Print Assumptions c02_no_reuse_partial.

Example c02_no_reuse_partial_nonvacuous :
  inv_check sat_before = true /\ pub_live sat_before 0 = true
  /\ (exists w' o, pub_allocate_core sat_before 0 = Val (w', AOk o))
  /\ length (w_samples sat_before) = 2.
Proof. vm_compute. repeat split. do 2 eexists. reflexivity. Qed.
Print Assumptions c02_no_reuse_partial_nonvacuous.

(* ---- no leak ------------------------------------------------------------------------------ *)
(* PROVED (c02_conservation_full + the theorem below): after any history, once every holder is
   gone, every chunk of a live publisher is on the free list again with counter 0 *)
Theorem c02_no_leak_full :
  forall c h w obs p, cfg_fits c -> run (world_new c) h = Val (w, obs) -> pub_live w p = true ->
    (forall o, o < p_n (getp w p) -> holders w p o = 0) ->
    length (p_free (getp w p)) = p_n (getp w p)
    /\ (forall o, o < p_n (getp w p) -> nth o (p_refcnt (getp w p)) 0%N = 0%N).
Proof. exact reachable_no_leak. Qed.
Print Assumptions c02_no_leak_full.

(* PROVED for every state that satisfies the invariant: when no loan, no history entry and no
   connection refers to any chunk, every chunk is on the free list and every counter is 0 *)
Theorem c02_no_leak_partial : forall w p,
  pub_inv_b w p = true -> (forall o, o < p_n (getp w p) -> holders w p o = 0) ->
  length (p_free (getp w p)) = p_n (getp w p)
  /\ (forall o, o < p_n (getp w p) -> nth o (p_refcnt (getp w p)) 0%N = 0%N).
Proof. exact all_free_when_no_holder. Qed.
Print Assumptions c02_no_leak_partial.

Example c02_no_leak_partial_nonvacuous :
  match run (world_new cfg11) [OPubCreate 2 false HNone; OSubCreate None None; OSendCopy 0; ORecv 0; OSampleDrop 0; OPubUpdate 0; OLoan 0; OLoanDrop 1] with
  | Val (w, _) => pub_inv_b w 0 = true /\ forallb (fun o => Nat.eqb (holders w 0 o) 0) (seq 0 (p_n (getp w 0))) = true
                  /\ length (p_sent (getp w 0)) = 1
  | Panic => False
  end.
Proof. vm_compute. repeat split. Qed.
Print Assumptions c02_no_leak_partial_nonvacuous.
