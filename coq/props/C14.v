(* C14 -- shared-memory data structures are position independent.  Statements only; every
   proof is `exact <lemma>` from proofs/, followed by Print Assumptions (checked by ./check).

   What a theorem carries here is small (DESIGN.md section 4, C14: "partial"): the arithmetic
   of the self-relative pointer, relocation invariance of a memory-image model of ONE structure
   (the ring queue, field for field) and of every program that reaches its payload only
   through self-relative pointers, and the absence of address-carrying field types in the
   generated table of shared-memory types.  What decides the property for the real code is the
   correspondence run by ./check C14: the metamorphic relocation of every relocatable
   structure of /repo (harness/g3/c14). *)
From V Require Import model.Base model.RingQueue model.RelPtr proofs.RelPtrProofs proofs.RelPtrQueue.
From V Require Import model.ShmTypes gen.ShmTypes proofs.RelPtrTable.
From Coq Require Import String ZifyBool.
Open Scope Z_scope.

(* ------------------------------------------------------------------------------------------
   RelocatablePointer as coded (distance = target - address of the pointer object, signed):
   when the pointer object is found delta further (the block was mapped or copied elsewhere),
   as_ptr moves by exactly delta, for every delta -- over Z ... *)
Theorem c14_relptr_shift : forall self_addr distance delta,
  rp_as_ptr (self_addr + delta) distance = rp_as_ptr self_addr distance + delta.
Proof. exact rp_shift. Qed.
Check c14_relptr_shift : forall self_addr distance delta,
  rp_as_ptr (self_addr + delta) distance = rp_as_ptr self_addr distance + delta.
Print Assumptions c14_relptr_shift.

(* ... and with the 64-bit wrap-around of `wrapping_add_signed` *)
Theorem c14_relptr_shift_wrapping : forall self_addr distance delta,
  rp_as_ptr_w (wrap64 (self_addr + delta)) distance = wrap64 (rp_as_ptr_w self_addr distance + delta).
Proof. exact rp_shift_w. Qed.
Print Assumptions c14_relptr_shift_wrapping.

(* init then as_ptr gives the target back; after the object AND its target moved by delta
   together (same block), as_ptr gives the moved target *)
Theorem c14_relptr_init_then_moved : forall self_addr target delta,
  rp_as_ptr self_addr (rp_init self_addr target) = target /\
  rp_as_ptr (self_addr + delta) (rp_init self_addr target) = target + delta.
Proof. intros; split; [apply rp_roundtrip|apply rp_relocated]. Qed.
Print Assumptions c14_relptr_init_then_moved.

(* the contrast: an absolute pointer (OwningPointer / SyncPointer / NonNull) does not move
   with its holder, so after any real move it no longer denotes the moved target *)
Theorem c14_absptr_does_not_move : forall self_addr target delta,
  ap_as_ptr (self_addr + delta) (ap_init self_addr target) = ap_as_ptr self_addr (ap_init self_addr target) /\
  (delta <> 0 -> ap_as_ptr (self_addr + delta) (ap_init self_addr target) <> target + delta).
Proof. intros; split; [apply ap_no_shift|apply ap_stale]. Qed.
Print Assumptions c14_absptr_does_not_move.

(* ------------------------------------------------------------------------------------------
   Any method body that touches memory only as header fields and through self-relative
   pointers stored in header fields (`safe P`: every touched address, and every pointer field
   read, lies in the copied address set P; no absolute-pointer access): run on the header at h
   with memory m, or on the header at h + delta with any memory that holds on P + delta what m
   holds on P, it returns the same value and leaves images that again agree on P. *)
Theorem c14_prog_reloc : forall (P : Z -> Prop) delta A (p : prog A) h m m',
  agree P delta m m' -> safe P h m p ->
  snd (exec h m p) = snd (exec (h + delta) m' p) /\
  agree P delta (fst (exec h m p)) (fst (exec (h + delta) m' p)).
Proof. exact exec_reloc. Qed.
Print Assumptions c14_prog_reloc.
(* not vacuous, and false for an absolute pointer: the same one-cell read through a relative
   pointer returns 7 before and after the copy; through an absolute pointer stored in the
   header it returns 7 before and the poison 170 after (it reads the OLD place) *)
Example c14_prog_reloc_nonvacuous :
  agree (in_block 100 8) 1000 ex_m_rel (ex_copy ex_m_rel) /\
  safe (in_block 100 8) 100 ex_m_rel (Rd (Rel F_PTR 0) (fun v => Ret v)) /\
  snd (exec 100 ex_m_rel (Rd (Rel F_PTR 0) (fun v => Ret v))) = 7 /\
  snd (exec (100 + 1000) (ex_copy ex_m_rel) (Rd (Rel F_PTR 0) (fun v => Ret v))) = 7.
Proof.
  split; [apply ex_copy_agree|]. split; [|split; reflexivity].
  cbn. unfold in_block. repeat split; try reflexivity; cbv; intro; discriminate.
Qed.
Print Assumptions c14_prog_reloc_nonvacuous.
Example c14_absolute_pointer_image_diverges :
  agree (in_block 100 8) 1000 ex_m_abs (ex_copy ex_m_abs) /\
  snd (exec 100 ex_m_abs aq_get0) = 7 /\ snd (exec (100 + 1000) (ex_copy ex_m_abs) aq_get0) = 170.
Proof. split; [apply ex_copy_agree|apply abs_image_diverges]. Qed.
Print Assumptions c14_absolute_pointer_image_diverges.

(* ------------------------------------------------------------------------------------------
   The memory image of RelocatableQueue (model/RelPtr.v iq_*: header words data_ptr.distance,
   start, len, capacity, is_initialized + payload cells reached only through data_ptr;
   operations push / push_with_overflow / pop / peek / get / clear / len).
   For every operation list split anywhere: running it all on the image at h, or running the
   prefix at h, copying the block [b, b+n) byte for byte to [b+delta, b+n+delta) -- the rest of
   the new memory arbitrary -- and running the rest on the header at h + delta, yields the same
   observations, and final images that are equal up to the shift on the block.  The side
   condition is that the unrelocated run stays inside the block. *)
Theorem c14_model_reloc : forall ops1 ops2 h delta b n m mc,
  safe_run (in_block b n) iq_prog h m (ops1 ++ ops2)%list ->
  (forall x, b <= x < b + n -> mc (x + delta) = fst (iq_run h m ops1) x) ->
  snd (iq_run h m (ops1 ++ ops2)%list) = (snd (iq_run h m ops1) ++ snd (iq_run (h + delta) mc ops2))%list /\
  forall x, b <= x < b + n ->
    fst (iq_run (h + delta) mc ops2) (x + delta) = fst (iq_run h m (ops1 ++ ops2)%list) x.
Proof. exact iq_reloc_split. Qed.
Check c14_model_reloc : forall ops1 ops2 h delta b n m mc,
  safe_run (in_block b n) iq_prog h m (ops1 ++ ops2)%list ->
  (forall x, b <= x < b + n -> mc (x + delta) = fst (iq_run h m ops1) x) ->
  snd (iq_run h m (ops1 ++ ops2)%list) = (snd (iq_run h m ops1) ++ snd (iq_run (h + delta) mc ops2))%list /\
  forall x, b <= x < b + n ->
    fst (iq_run (h + delta) mc ops2) (x + delta) = fst (iq_run h m (ops1 ++ ops2)%list) x.
Print Assumptions c14_model_reloc.

(* the same without a side condition when the whole memory is shifted: every operation list,
   every base address, every delta *)
Theorem c14_model_reloc_whole : forall ops h delta m m',
  (forall x, m' (x + delta) = m x) ->
  snd (iq_run h m ops) = snd (iq_run (h + delta) m' ops) /\
  forall x, fst (iq_run (h + delta) m' ops) (x + delta) = fst (iq_run h m ops) x.
Proof. exact iq_reloc_whole. Qed.
Print Assumptions c14_model_reloc_whole.

(* the side condition of c14_model_reloc holds for EVERY operation list on an initialised queue
   image whose payload lies right behind the header: all accesses of the unrelocated run stay
   inside the block [h, h + 5 + capacity), for every capacity (0 included), base address and
   initial memory content *)
Theorem c14_queue_image_in_bounds : forall (c : N) h m0 ops,
  safe_run (in_block h (HDR_WORDS + Z.of_N c)) iq_prog h (iq_init h (h + HDR_WORDS) c m0) ops.
Proof. exact iq_safe_run_init. Qed.
Print Assumptions c14_queue_image_in_bounds.

(* not vacuous: a capacity-2 queue image at 100 (payload right behind the 5 header words, block
   [100, 107)), three pushes, the block copied 4112 further into poisoned memory, then
   push_with_overflow / pop / get / len / clear on the copy *)
Definition ex_q0 : mem := iq_init 100 105 2 (fun _ => 170).
Definition ex_ops1 : list qop := [QPush 1; QPush 2; QPush 3].
Definition ex_ops2 : list qop := [QPushOverflow 4; QPop; QGet 0; QLen; QClear].
Definition ex_qcopy : mem :=
  fun x => if (4212 <=? x) && (x <? 4219) then fst (iq_run 100 ex_q0 ex_ops1) (x - 4112) else 170.
Example c14_model_reloc_nonvacuous :
  safe_run (in_block 100 7) iq_prog 100 ex_q0 (ex_ops1 ++ ex_ops2)%list /\
  (forall x, 100 <= x < 100 + 7 -> ex_qcopy (x + 4112) = fst (iq_run 100 ex_q0 ex_ops1) x) /\
  (snd (iq_run 100 ex_q0 ex_ops1) ++ snd (iq_run (100 + 4112) ex_qcopy ex_ops2))%list =
    [OBool true; OBool true; OBool false; OOpt (Some 1%N); OOpt (Some 2%N); ONum 4%N; ONum 1%N; OList [4%N]].
Proof.
  split; [|split].
  - vm_compute. repeat split; first [reflexivity | intro; discriminate].
  - intros x Hx. unfold ex_qcopy.
    destruct (Z.leb_spec 4212 (x + 4112)); destruct (Z.ltb_spec (x + 4112) 4219); cbn [andb]; try lia.
    f_equal; lia.
  - vm_compute. reflexivity.
Qed.
Print Assumptions c14_model_reloc_nonvacuous.
Example c14_model_reloc_whole_nonvacuous : forall (m : mem) delta,
  forall x, (fun y => m (y - delta)) (x + delta) = m x.
Proof. intros m delta x. cbn. f_equal. lia. Qed.
Print Assumptions c14_model_reloc_whole_nonvacuous.

(* ------------------------------------------------------------------------------------------
   The generated table of shared-memory types (gen/ShmTypes.v: every #[derive(ZeroCopySend)],
   every `unsafe impl ZeroCopySend`, every RelocatableContainer implementer of iceoryx2-bb/*,
   iceoryx2-cal, iceoryx2, iceoryx2-pal; regenerated from /repo on every ./check C14).
   Full claim: no field type of any row lets a raw pointer, reference, fn pointer, Box, Vec,
   String, NonNull, OwningPointer, Rc, Arc, ... be reached, outside the four justified
   exceptions of proofs/RelPtrTable.v.  It is FALSE of the current source: *)
Definition c14_all_shm_types_pi_free_full : Prop := all_shm_types_pi_free_full.
Theorem c14_all_shm_types_pi_free_refuted : ~ c14_all_shm_types_pi_free_full.
Proof. exact all_shm_types_pi_free_refuted. Qed.
Print Assumptions c14_all_shm_types_pi_free_refuted.
(* the witness rows: iceoryx2-bb/threadsafe TriggerQueue is declared ZeroCopySend but holds
   references (through Mutex<'a, ..> and UnnamedSemaphore<'a>) *)
Theorem c14_trigger_queue_not_pi_free :
  map (fun x => (fst (fst x), snd (fst x))) (failing shm_tables exceptions) =
  [("iceoryx2_bb_threadsafe::trigger_queue::TriggerQueue", "queue");
   ("iceoryx2_bb_threadsafe::trigger_queue::TriggerQueue", "free_slots");
   ("iceoryx2_bb_threadsafe::trigger_queue::TriggerQueue", "used_slots")]%string.
Proof. exact trigger_queue_not_pi_free. Qed.
Print Assumptions c14_trigger_queue_not_pi_free.
(* strongest true statement: every other row is address free *)
Theorem c14_all_shm_types_pi_free : forallb row_ok_or_known shm_types = true.
Proof. exact all_shm_types_pi_free_partial. Qed.
Check c14_all_shm_types_pi_free : forallb row_ok_or_known shm_types = true.
Print Assumptions c14_all_shm_types_pi_free.

(* the exception lists contain no stale entry, and the structures the harness relocates are rows *)
Theorem c14_exceptions_live :
  forallb (exception_live shm_tables) exceptions = true /\
  forallb (fun q => existsb (fun r => String.eqb (r_qual r) q && negb (row_ok shm_tables exceptions r)) shm_types)
          known_not_pi_free = true.
Proof. split; [exact exceptions_live|exact known_not_pi_free_live]. Qed.
Print Assumptions c14_exceptions_live.

Theorem c14_relocated_types_in_table :
  forallb (fun q => existsb (fun r => String.eqb (r_qual r) q) shm_types) relocated_by_harness = true.
Proof. exact relocated_types_in_table. Qed.
Print Assumptions c14_relocated_types_in_table.
