(* C20 -- WaitSet dispatch is exact: every ready attachment reported, nothing else.
   Statements only; every proof is `exact <lemma>` from proofs/WaitSetProofs.v, followed by
   Print Assumptions (checked by ./check).  All theorems quantify over every capacity, every
   reactor flavour (check order, events per wait) and every history of attach_notification /
   attach_deadline / attach_interval / guard drop / notify / drain / process operations
   (induction over the history, no bound).  The model (model/WaitSet.v) transcribes
   iceoryx2/src/waitset.rs and the reactors / deadline queue below it; its correspondence
   with the code is checked by the G3 harness (harness/g3/c20).
   `reach cap maxev ord h` = the state reached from a fresh wait set by history h. *)
From V Require Import model.Base model.WaitSet proofs.WaitSetProofs proofs.WaitSetTimeProofs.
Local Open Scope N_scope.

(* ------------------------------------------------------------------------------------------
   c20_exact.  At every reachable state, a processing call (whatever its callback does)
   delivers exactly
       {Deadline/Tick g | g attached and expired}, then {Notification g | g attached and its
       listener has a pending event},
   each id matched (has_event_from / has_missed_deadline) by exactly the guard it belongs to,
   and no id that matches no live guard (foreign = 0); an empty wait set yields NoAttachments.
   Hypothesis ready_ok: the number of ready descriptors does not exceed what one reactor wait
   can return (rmaxev; Epoll::max_wait_events() = 512 in iceoryx2-bb/linux/src/epoll.rs; the
   select reactor has no such bound).  With more than 512 descriptors ready at once Epoll
   reports 512 of them per call (harness probe `c20 epoll512 520`), the rest on the next call;
   see c20_exact_needs_ready_bound.  The property quantifies over 1..4 listeners, far below. *)
Theorem c20_exact : forall cap maxev ord h o,
  ready_ok (reach cap maxev ord h) -> is_process o = true ->
  snd (step (reach cap maxev ord h) o) = spec_delivery (reach cap maxev ord h).
Proof. exact p_c20_exact. Qed.
Check c20_exact : forall cap maxev ord h o,
  ready_ok (reach cap maxev ord h) -> is_process o = true ->
  snd (step (reach cap maxev ord h) o) = spec_delivery (reach cap maxev ord h).
Print Assumptions c20_exact.

Example c20_exact_nonvacuous :
  let s := reach 3 512 DupFirst [OAttachN 0; OAttachD 1 1; OAttachI 1; ONotify [0; 1]] in
  ready_ok s /\ is_process OProcess = true /\
  snd (step s OProcess) = ODelivered [(1, KMissed); (2, KEvent)] [(0, KEvent); (1, KEvent)] 0.
Proof. exact p_c20_exact_nonvacuous. Qed.
Print Assumptions c20_exact_nonvacuous.

(* the bound is needed: a reactor that returns one event per wait, two descriptors ready *)
Example c20_exact_needs_ready_bound :
  let s := reach 2 1 DupFirst [OAttachN 0; OAttachN 1; ONotify [0; 1]] in
  ~ ready_ok s /\ snd (step s OProcess) <> spec_delivery s.
Proof. exact p_c20_exact_needs_ready_bound. Qed.
Print Assumptions c20_exact_needs_ready_bound.

(* ------------------------------------------------------------------------------------------
   c20_refines_spec.  When one reactor wait can report as many events as the wait set can
   hold (cap <= maxev: the select reactor; Epoll whenever at most 512 descriptors are
   attached), the observations of EVERY operation of EVERY history agree with the reference
   specification run on the same history: equal, or -- for a refused attach -- one of the
   documented reasons (already attached / insufficient capacity; both are admissible when
   both hold). *)
Theorem c20_refines_spec : forall cap maxev ord h,
  cap <= maxev ->
  obs_rel_run (sp_new cap) h (snd (run (sys_new cap maxev ord) h)) (snd (sp_run (sp_new cap) h)).
Proof. exact p_c20_refines_spec. Qed.
Print Assumptions c20_refines_spec.

Example c20_refines_spec_nonvacuous :
  (2 <= 2) /\
  snd (run (sys_new 2 2 CapFirst) [OAttachN 0; OAttachI 1; OAttachD 1 1; ODrop 1; OAttachD 1 1; ONotify [1]; OProcessConsume; OProcess]) =
  [OAttached 0; OAttached 1; OAttachErr EInsufficientCapacity; ODropped true; OAttached 2; ODone;
   ODelivered [(2, KMissed)] [(2, KEvent)] 0; ODelivered [(2, KMissed)] [] 0].
Proof. exact p_c20_refines_spec_nonvacuous. Qed.
Print Assumptions c20_refines_spec_nonvacuous.

(* ------------------------------------------------------------------------------------------
   c20_not_lost.  An event that arrives between two processing calls (ONotify) or while the
   wait set is processing (OProcessNotify: the notifier fires from inside the first callback
   invocation) is reported by the next processing call for every guard attached to that
   listener at that time -- whatever else happens in between (attach, drop, other
   notifications, non-consuming processing calls), as long as nobody consumes the listener's
   events (keeps f: the operation is neither `drain f` nor a consuming processing call). *)
Theorem c20_not_lost : forall cap maxev ord h1 fs h2 f g,
  let s2 := fst (run (fst (step (reach cap maxev ord h1) (ONotify fs))) h2) in
  In f fs -> Forall (keeps f) h2 ->
  In g (guards s2) -> fd_of (g_id g) = Some f -> ready_ok s2 ->
  exists dl nt fo, snd (step s2 OProcess) = ODelivered dl nt fo /\ In (g_no g, KEvent) nt.
Proof. exact p_c20_not_lost. Qed.
Print Assumptions c20_not_lost.

Example c20_not_lost_nonvacuous :
  let s2 := fst (run (fst (step (reach 4 512 DupFirst [OAttachN 0]) (ONotify [0; 1]))) [OAttachD 1 3600000000000; OProcess]) in
  In 1 [0; 1] /\ Forall (keeps 1) [OAttachD 1 3600000000000; OProcess] /\ ready_ok s2 /\
  snd (step s2 OProcess) = ODelivered [] [(0, KEvent); (1, KEvent)] 0.
Proof. exact p_c20_not_lost_nonvacuous. Qed.
Print Assumptions c20_not_lost_nonvacuous.

Theorem c20_not_lost_during_processing : forall cap maxev ord h1 fs h2 f g ids1 ids2,
  let s1 := reach cap maxev ord h1 in
  let s2 := fst (run (fst (step s1 (OProcessNotify fs))) h2) in
  process_ids (w s1) (pend s1) = Some (ids1, ids2) -> ids1 ++ ids2 <> [] ->   (* the callback ran *)
  In f fs -> Forall (keeps f) h2 ->
  In g (guards s2) -> fd_of (g_id g) = Some f -> ready_ok s2 ->
  exists dl nt fo, snd (step s2 OProcess) = ODelivered dl nt fo /\ In (g_no g, KEvent) nt.
Proof. exact p_c20_not_lost_during_processing. Qed.
Print Assumptions c20_not_lost_during_processing.

Example c20_not_lost_during_processing_nonvacuous :
  let s1 := reach 4 512 DupFirst [OAttachN 0; OAttachI 1] in
  let s2 := fst (run (fst (step s1 (OProcessNotify [0]))) []) in
  process_ids (w s1) (pend s1) = Some ([ATick 0], []) /\ ready_ok s2 /\
  snd (step s1 (OProcessNotify [0])) = ODelivered [(1, KEvent)] [] 0 /\
  snd (step s2 OProcess) = ODelivered [(1, KEvent)] [(0, KEvent)] 0.
Proof. exact p_c20_not_lost_during_processing_nonvacuous. Qed.
Print Assumptions c20_not_lost_during_processing_nonvacuous.

(* ------------------------------------------------------------------------------------------
   c20_no_dropped_guard_reported.  (a) Every id handed to the callback -- truncated wait or
   not -- is matched by exactly one guard, and that guard is live: no foreign object, no
   dropped guard.  (b) Once a guard has been dropped, its number never appears in any later
   delivery, whatever is attached afterwards on the same descriptor. *)
Theorem c20_callback_ids_belong_to_live_guards : forall cap maxev ord h ids1 ids2 id,
  let s := reach cap maxev ord h in
  process_ids (w s) (pend s) = Some (ids1, ids2) -> In id (ids1 ++ ids2) ->
  exists g k, In g (guards s) /\ classify1 (guards s) id = [(g_no g, k)].
Proof. exact p_c20_callback_ids_belong_to_live_guards. Qed.
Print Assumptions c20_callback_ids_belong_to_live_guards.

Theorem c20_no_dropped_guard_reported : forall cap maxev ord h j g h',
  let s := reach cap maxev ord h in
  nth_error (guards s) (N.to_nat j) = Some g ->
  Forall (not_reported (g_no g)) (snd (run (fst (step s (ODrop j))) h')).
Proof. exact p_c20_no_dropped_guard_reported. Qed.
Print Assumptions c20_no_dropped_guard_reported.

Example c20_no_dropped_guard_reported_nonvacuous :
  let s := reach 4 512 DupFirst [OAttachD 0 1; ONotify [0]] in
  (exists g, nth_error (guards s) (N.to_nat 0) = Some g /\ g_no g = 0) /\
  snd (run (fst (step s (ODrop 0))) [OAttachN 0; OProcess]) = [OAttached 1; ODelivered [] [(1, KEvent)] 0].
Proof. exact p_c20_no_dropped_guard_reported_nonvacuous. Qed.
Print Assumptions c20_no_dropped_guard_reported_nonvacuous.

(* ------------------------------------------------------------------------------------------
   c20_attach_reject_full.  A refused attach (any of the three, at any reachable state)
   leaves every component of the wait set -- reactor, deadline queue, both maps, the
   attachment counter -- and the user's guards and the pending events unchanged, and the error
   is a documented one (AlreadyAttached only if the object is attached, InsufficientCapacity
   only if the wait set is full).  The one exception to "unchanged" is DeadlineQueue::id_count,
   the cursor from which deadline indices are allocated, which a refused attach_deadline /
   attach_interval advances by one (see ws_unchanged_but_cursor in model/WaitSet.v).
   History: before the fix: commits eeeea11 / 359f071 of /repo this statement was false
   (candidate defect F10): reactor overflow was reported as AlreadyAttached, and a refused
   attach_deadline left a stale pair in attachment_to_deadline and deadline_to_attachment. *)
Theorem c20_attach_reject_full : forall cap maxev ord h o e s',
  let s := reach cap maxev ord h in
  op_skind o <> None -> step s o = (s', OAttachErr e) ->
  ws_unchanged_but_cursor (w s) (w s') /\ guards s' = guards s /\ nextg s' = nextg s /\ pend s' = pend s /\
  obs_ok (abs s) o (OAttachErr e) = true.
Proof. exact p_c20_attach_reject_full. Qed.
Print Assumptions c20_attach_reject_full.

(* the two former F10 witnesses, now refused cleanly; and the case where both reasons hold:
   the select order answers InsufficientCapacity, the epoll order AlreadyAttached *)
Example c20_attach_reject_full_nonvacuous :
  snd (step (reach 2 2 CapFirst [OAttachN 0; OAttachN 1]) (OAttachN 2)) = OAttachErr EInsufficientCapacity /\
  (let s := reach 2 2 CapFirst [OAttachN 0; OAttachI 3600000000000] in
   snd (step s (OAttachD 1 1)) = OAttachErr EInsufficientCapacity /\
   a2d (w (fst (step s (OAttachD 1 1)))) = [] /\ d2a (w (fst (step s (OAttachD 1 1)))) = [] /\
   id_count (w (fst (step s (OAttachD 1 1)))) = 2) /\
  snd (step (reach 1 1 CapFirst [OAttachN 0]) (OAttachN 0)) = OAttachErr EInsufficientCapacity /\
  snd (step (reach 1 1 DupFirst [OAttachN 0]) (OAttachN 0)) = OAttachErr EAlreadyAttached.
Proof. exact p_c20_attach_reject_full_nonvacuous. Qed.
Print Assumptions c20_attach_reject_full_nonvacuous.

(* ==========================================================================================
   Time.  The theorems above abstract from time ("expired" = period <= 1 ns).  The ones below
   are about the deadline queue WITH its clock (model/WaitSet.v, second part: t_due = the test
   of DeadlineQueue::handle_missed_deadlines, t_call a b = one zero-timeout processing call that
   reads the clock at a in duration_until_next_deadline and at b in missed_deadlines).  The user
   callbacks run after b was read and before previous_iteration is written; they may take
   arbitrarily long. *)

(* an attachment is reported iff a period boundary start + k*period lies in
   (previous evaluation, this evaluation]: nothing expired is skipped within one call, and *)
Theorem c20_due_iff_boundary : forall prev now e,
  t_period e <> 0 -> t_start e <= now ->
  (t_due prev now e = true <->
   exists k, N.max prev (t_start e) < t_start e + k * t_period e /\ t_start e + k * t_period e <= now).
Proof. exact t_due_iff_boundary. Qed.
Print Assumptions c20_due_iff_boundary.

(* ... nothing is invented: every report of a call is justified by a boundary crossed since the
   previous evaluation *)
Theorem c20_report_sound : forall q a b i,
  (forall e, In e (t_att q) -> t_period e <> 0 /\ t_start e <= b) ->
  In i (snd (t_call q a b)) ->
  exists e k, In e (t_att q) /\ t_idx e = i /\
              t_prev (t_peek q a) < t_start e + k * t_period e /\ t_start e + k * t_period e <= b.
Proof. exact t_report_sound. Qed.
Print Assumptions c20_report_sound.

(* c20_no_expiry_lost.  No expiry is lost across consecutive processing calls: a boundary that
   falls after the evaluation time b1 of call k -- in particular while the callbacks of call k
   are running, however long they take -- and not after the evaluation time b2 of call k+1 is
   reported by call k+1. *)
Theorem c20_no_expiry_lost : forall q a1 b1 a2 b2 e k,
  In e (t_att q) -> t_period e <> 0 -> t_start e <= b1 -> b1 <= a2 -> a2 <= b2 ->
  b1 < t_start e + k * t_period e -> t_start e + k * t_period e <= b2 ->
  In (t_idx e) (snd (t_call (fst (t_call q a1 b1)) a2 b2)).
Proof. exact t_no_expiry_lost. Qed.
Print Assumptions c20_no_expiry_lost.

(* interval 100 + deadline 400 attached at 0; call at 150 (callbacks run until 450); call at 450:
   the code reports both; with previous_iteration := time after the callbacks it reports nothing *)
Example c20_no_expiry_lost_nonvacuous :
  let q := t_add (t_add (tdq_new 0) 100 0) 400 0 in
  snd (t_call q 150 150) = [0] /\ snd (t_call (fst (t_call q 150 150)) 450 450) = [0; 1] /\
  snd (t_call_late (fst (t_call_late q 150 150 300)) 450 450 0) = [].
Proof. exact t_no_expiry_lost_nonvacuous. Qed.
Print Assumptions c20_no_expiry_lost_nonvacuous.

(* the variant of the rule that writes previous_iteration AFTER the callbacks have returned
   (t_report_late) does not have this property: deadline 400 attached at 0, call at 150 whose
   callbacks take 350, next call at 500 reports nothing *)
Definition c20_no_expiry_lost_late_full : Prop := t_no_expiry_lost_late_full.
Theorem c20_no_expiry_lost_late_refuted : ~ c20_no_expiry_lost_late_full.
Proof. exact t_no_expiry_lost_late_refuted. Qed.
Print Assumptions c20_no_expiry_lost_late_refuted.

(* the boundary formulation used as the oracle of the timed scenarios = the code's test *)
Theorem c20_timed_oracle_is_code : forall q now,
  (forall e, In e (t_att q) -> t_start e <= now) -> t_missed q now = t_spec_missed q now.
Proof. exact t_missed_spec. Qed.
Print Assumptions c20_timed_oracle_is_code.
