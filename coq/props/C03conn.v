(* C03, third clause -- "a zero-copy connection never loses or duplicates a sample offset
   between sender and receiver, and a release by the receiver never fails for lack of space".
   Statements only.

   Model: model/ConnConc.v -- a sender thread (thread 0) and a receiver thread (thread 1) on one
   channel of a zero-copy connection; one step = one access to a cursor of the submission queue
   or of the completion queue, one swap of a used-chunk-list flag, or one access to the borrow
   counter; the slot arrays of the queues are lists (justified by c03_spsc_* / OQ.c03_oq_* of
   props/C03.v, which are about access-granular models of these two queues).  Any interleaving
   (schedule = list of thread ids), any programs of the two threads over
       sender:   OSend (reclaim until Ok(None), then try_send -- what the ports do), OReclaim
       receiver: OReceive, ORelease i
   any buffer size b, max borrow m, number of chunks k, safe overflow on or off.  The capacity cq
   of the completion queue is a parameter; the code uses completion_queue_size b m = b + m + 1. *)
From V Require Import model.Base model.Conc model.Events model.ConnConc proofs.ConnConcProofs.
From Coq Require Import Permutation.
Open Scope N_scope.

(* With a completion queue of at least b + m + 1 slots no release ever returns
   RetrieveBufferFull (rel_failed is set exactly by that return, model/ConnConc.v RPushLoadRp). *)
Theorem c03_conn_release_never_full : forall b m cq ovf k ps pr g ls,
  b + m + 1 <= cq -> reachable step (init b m cq ovf k ps pr) (g, ls) -> rel_failed g = false.
Proof. exact conn_release_never_full. Qed.
Print Assumptions c03_conn_release_never_full.

(* The invariant behind it, for every capacity cq:  queued + borrowed + returned-not-yet-reclaimed
   never exceeds b + m + 1, and is at most b + m while the sender is between "its reclaim loop saw
   the completion queue empty" and the publication of the next offset (phaseA); the submission
   queue holds at most b offsets (b + 1 only between publication and eviction attempt of an
   overflowing push), the receiver at most m, the completion queue at most cq; the borrow
   counter is the number of borrowed offsets. *)
Theorem c03_conn_capacity : forall b m cq ovf k ps pr g ls,
  reachable step (init b m cq ovf k ps pr) (g, ls) ->
  lenN (sub g) <= b + b2n (in_cas (pc (ls 0%nat))) /\
  lenN (held (ls 1%nat)) <= m /\
  lenN (comp g) <= cq /\
  lenN (sub g) + lenN (held (ls 1%nat)) + lenN (comp g) + b2n (phaseA (pc (ls 0%nat))) <= b + m + 1 /\
  ctr g + b2n (is_incr (pc (ls 1%nat))) = lenN (held (ls 1%nat)) + b2n (is_decr (pc (ls 1%nat))).
Proof. exact conn_capacity. Qed.
Print Assumptions c03_conn_capacity.

(* b + m slots are NOT enough (this is what the "+ 1" of completion_queue_size is for): a
   concrete schedule in which the receiver runs between the last reclaim of a send and its
   push into the submission queue makes a release fail -- with safe overflow off and on -- and
   the same schedules are harmless with b + m + 1 slots. *)
Theorem c03_conn_needs_plus_one :
  rel_failed (fst (w_final (1 + 1) false w_sched)) = true /\
  rel_failed (fst (w_final (1 + 1) true w_sched_ovf)) = true /\
  existsb (fun p => match p with (1%nat, ERet c) => N.eqb c RET_RETRIEVE_FULL | _ => false end)
          (snd (run step w_sched (init 1 1 (1 + 1) false 3 w_ps w_pr))) = true /\
  rel_failed (fst (w_final (completion_queue_size 1 1) false w_sched)) = false /\
  rel_failed (fst (w_final (completion_queue_size 1 1) true w_sched_ovf)) = false.
Proof. exact conn_needs_plus_one. Qed.
Print Assumptions c03_conn_needs_plus_one.

(* Conservation.  At every instant every offset 0 .. k-1 of the segment is in exactly one of:
   the sender's free list (never sent, reclaimed, evicted or refused), the sender's hand inside
   an operation, the submission queue, the receiver's borrowed list, the completion queue -- the
   concatenation of the five is a permutation of the offsets, so none is lost or duplicated.
   The used-chunk list is exactly what is on the receiver's side (plus the one offset whose flag
   the sender is about to clear / has just set); no remove ever finds a cleared flag and no
   insert a set one (no ConnectionCorrupted, no ReceiverReturnedCorruptedPointerOffset).
   Order: what was sent = what was taken from the head of the submission queue (each entry
   tagged received / evicted, in order) followed by what is still queued; what was released =
   what was reclaimed followed by what is still in the completion queue. *)
Theorem c03_conn_conservation : forall b m cq ovf k ps pr g ls,
  reachable step (init b m cq ovf k ps pr) (g, ls) ->
  Permutation (offsets k) (free (ls 0%nat) ++ hand (pc (ls 0%nat)) ++ sub g ++ held (ls 1%nat) ++ comp g) /\
  Permutation (used g) (handU (pc (ls 0%nat)) ++ sub g ++ held (ls 1%nat) ++ comp g) /\
  corrupted g = false /\
  sent g = map fst (taken g) ++ sub g /\
  released g = reclaimed g ++ comp g.
Proof. exact conn_conservation. Qed.
Print Assumptions c03_conn_conservation.

(* No thread ever stops inside an operation: the branches in which the model has no step (pop
   of an empty list after the emptiness check passed, borrow counter underflow) are unreachable. *)
Theorem c03_conn_progress : forall b m cq ovf k ps pr g ls,
  reachable step (init b m cq ovf k ps pr) (g, ls) ->
  (pc (ls 0%nat) <> Idle -> step 0 g (ls 0%nat) <> None) /\
  (pc (ls 1%nat) <> Idle -> step 1 g (ls 1%nat) <> None).
Proof. exact conn_progress. Qed.
Print Assumptions c03_conn_progress.

(* non-vacuity: the bound b + m + 1 is attained in a reachable state *)
Example c03_conn_nonvacuous_bound_tight :
  let c := fst (run step (repeat 0%nat 11 ++ repeat 1%nat 6 ++ repeat 0%nat 14 ++ repeat 1%nat 16 ++ repeat 0%nat 8)
                    (init 1 1 (completion_queue_size 1 1) false 3 w_ps w_pr)) in
  reachable step (init 1 1 (completion_queue_size 1 1) false 3 w_ps w_pr) c /\
  sub (fst c) = [2] /\ held (snd c 1%nat) = [] /\ comp (fst c) = [0; 1] /\
  lenN (sub (fst c)) + lenN (held (snd c 1%nat)) + lenN (comp (fst c)) = 1 + 1 + 1 /\
  sent (fst c) = [0; 1; 2] /\ received (fst c) = [0; 1] /\ released (fst c) = [0; 1] /\ reclaimed (fst c) = [].
Proof. exact conn_bound_tight. Qed.
Print Assumptions c03_conn_nonvacuous_bound_tight.

(* non-vacuity: with safe overflow an eviction races with a receive; the receiver's
   compare-exchange loses, offset 0 goes back to the sender as evicted, the receiver gets 1 *)
Example c03_conn_nonvacuous_eviction_race :
  let c := fst (run step e_sched (init 1 1 (completion_queue_size 1 1) true 3 e_ps e_pr)) in
  reachable step (init 1 1 (completion_queue_size 1 1) true 3 e_ps e_pr) c /\
  taken (fst c) = [(0, false); (1, true)] /\ sent (fst c) = [0; 1] /\ sub (fst c) = [] /\
  held (snd c 1%nat) = [1] /\ free (snd c 0%nat) = [2; 0] /\ used (fst c) = [1].
Proof. exact conn_eviction_race. Qed.
Print Assumptions c03_conn_nonvacuous_eviction_race.
