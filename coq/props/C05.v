(* C05 -- events: no lost wake-up, no phantom event.  Statements only.
   Model (model/Event.v): one step = one shared-memory access of Handle::notify /
   Waiter::{try,timed,blocking}_wait of iceoryx2-cal event::common over the bit set (u8 words)
   or the counting bit set (u64 counters), or one operation of an abstract trigger (token
   counter with capacity tc, None = unbounded; the number of tokens a successful wait and
   empty_buffer leave is the parameter po).  rp = true is the current protocol (second reset of the
   notification state after empty_buffer, /repo c0b284e), rp = false the protocol before that repair.
   Thread 0 is the listener, every other thread a
   notifier; any number of threads, any programs, any schedule (list of thread ids), any
   event_id_max (c = event_id_max + 1), sequentially consistent interleaving.
   Ghost: notified_total / delivered_total per id, covered (notified_total at the last Drain step
   of the id's word), done_idx (largest activation index among notifies that RETURNED Ok);
   undelivered g i := covered g i < done_idx g i  ("a notify of i has returned and no Drain step
   has taken its activation since"). *)
From V Require Import model.Base model.Conc model.Events model.Event proofs.EventProofs.
From V Require Import model.EventPort proofs.EventPortProofs.
Open Scope N_scope.

(* ---- no phantom event ---- *)
(* never more occurrences delivered than notified, for every id, at every reachable state *)
Theorem c05_no_phantom : forall rp k c tc po pd lp np ff g ls i,
  0 < c -> reachable step (init rp k c tc po pd lp np ff) (g, ls) ->
  delivered_total g i <= notified_total g i.
Proof. exact ev_no_phantom. Qed.
Print Assumptions c05_no_phantom.

(* whatever a Drain step of word w would report in a reachable state -- the step reports exactly
   `reports (kind g) w (words g w)` -- is an id of that word with that many pending occurrences,
   and that id was notified (lost g i = 0 unless the u64 counter of i wrapped) *)
Theorem c05_reported_was_notified : forall rp k c tc po pd lp np ff g ls w i n,
  0 < c -> reachable step (init rp k c tc po pd lp np ff) (g, ls) ->
  In (i, n) (reports (kind g) w (words g w)) ->
  0 < n /\ n = pend (kind g) (words g) i /\ widx (kind g) i = w /\ n <= notified_total g i + two64 * lost g i.
Proof. exact ev_reported_was_notified. Qed.
Print Assumptions c05_reported_was_notified.

(* ---- merged, never dropped ---- *)
(* CountingBitSet: delivered + pending = notified, up to the 2^64 wrap-arounds of the counter
   (lost); below the counter bound (hypothesis: fewer than 2^64 undelivered occurrences) exactly *)
Theorem c05_counting_conservation : forall rp k c tc po pd lp np ff g ls i,
  0 < c -> reachable step (init rp k c tc po pd lp np ff) (g, ls) -> kind g = ECounting ->
  delivered_total g i + pend (kind g) (words g) i + two64 * lost g i = notified_total g i /\
  (notified_total g i - delivered_total g i < two64 ->
   delivered_total g i + pend (kind g) (words g) i = notified_total g i).
Proof. exact ev_counting_conservation. Qed.
Print Assumptions c05_counting_conservation.

(* BitSet: the bit of i is set exactly when an activation of i took effect after the last Drain
   step of i's word; reports are merged (at most one per Drain), never more than activations *)
Theorem c05_merge_not_drop_bitset : forall rp k c tc po pd lp np ff g ls i,
  0 < c -> reachable step (init rp k c tc po pd lp np ff) (g, ls) -> kind g = EBitSet ->
  (pend (kind g) (words g) i = 1 <-> covered g i < notified_total g i) /\ pend (kind g) (words g) i <= 1 /\
  delivered_total g i <= covered g i.
Proof. exact ev_bitset_pending_iff. Qed.
Print Assumptions c05_merge_not_drop_bitset.

(* an activated id stays pending until a Drain step of its word, and that step reports it (with
   its pending count): a step of any thread from a reachable state either keeps pend i > 0 or is
   the listener's Drain of i's word and emits the report of i.  (Counter bound: pend + 1 < 2^64.)
   Hence the first listener call -- try_wait, timed_wait or blocking_wait, all of which drain every
   word -- whose Drain of i's word comes after the activation reports i: polling and bounded
   timed waits never lose an event, they only delay it. *)
Theorem c05_merge_not_drop : forall rp k c tc po pd lp np ff cf t cf' es i,
  0 < c -> reachable step (init rp k c tc po pd lp np ff) cf ->
  step1 step t cf = Some (cf', es) ->
  0 < pend (kind (fst cf)) (words (fst cf)) i -> pend (kind (fst cf)) (words (fst cf)) i + 1 < two64 ->
  0 < pend (kind (fst cf')) (words (fst cf')) i \/
  exists w tot, at_pc (snd cf t) = LDrain w tot /\ widx (kind (fst cf)) i = w /\
                In (ERet (rep_code (i, pend (kind (fst cf)) (words (fst cf)) i))) es.
Proof. exact ev_pending_until_drained. Qed.
Print Assumptions c05_merge_not_drop.

(* a notifier between its activation of i and its return: a Drain step has already taken that
   activation, or i is pending *)
Theorem c05_activation_pending_or_taken : forall rp k c tc po pd lp np ff g ls t i,
  0 < c -> reachable step (init rp k c tc po pd lp np ff) (g, ls) -> kind g = EBitSet ->
  (at_pc (ls t) = NCasIP i \/ at_pc (ls t) = NTrig i \/ at_pc (ls t) = NCasPN i) ->
  my_idx (ls t) <= covered g i \/ pend (kind g) (words g) i = 1.
Proof. exact ev_bitset_my_activation. Qed.
Print Assumptions c05_activation_pending_or_taken.

(* a thread cannot move only when it is finished or inside blocking_wait on an empty trigger:
   try_wait / timed_wait calls always run to their Drain (so, with c05_merge_not_drop, polling and
   bounded timed waits never lose an event, they only delay it), every notify runs to completion *)
Theorem c05_blocked_only_in_blocking_wait : forall t g l,
  step t g l = None -> (at_pc l = PIdle /\ prog l = []) \/ (at_pc l = LWait WBlock /\ trig g = 0).
Proof. exact ev_blocked_only_in_blocking_wait. Qed.
Print Assumptions c05_blocked_only_in_blocking_wait.

(* ---- no lost wake-up ---- *)
(* the wake-up invariant (inductive, all schedules, both protocols): an undelivered returned
   notification is always covered by a promise -- the flag is Notified (the listener's next state
   check drains), or the listener is between its wake-up and the Drain of the id's word *)
Theorem c05_wakeup_invariant : forall rp k c tc po pd lp np ff cf i,
  0 < c -> reachable step (init rp k c tc po pd lp np ff) cf -> undelivered (fst cf) i ->
  st (fst cf) = Notified \/ in_phase (kind (fst cf)) (listener_pc cf) i.
Proof. exact ev_wakeup_invariant. Qed.
Print Assumptions c05_wakeup_invariant.

(* FULL clause, current protocol (hypotheses: trigger capacity > 0; no thread crashes -- a crashed
   notifier is a thread that is never scheduled again, see c05_crash_residual_window):
   whenever the listener is at a wait on the trigger while a notification whose notify returned
   Ok is undelivered, a token is in the trigger or a notifier is between its state CAS and its
   trigger post (Tok) *)
Theorem c05_no_lost_wakeup : forall k c tc po pd lp np ff cf m i,
  0 < c -> tc <> Some 0 -> reachable step (init true k c tc po pd lp np ff) cf ->
  listener_pc cf = LWait m -> undelivered (fst cf) i ->
  0 < trig (fst cf) \/ exists t j, at_pc (snd cf t) = NTrig j.
Proof. exact ev_no_lost_wakeup. Qed.
Print Assumptions c05_no_lost_wakeup.

(* the same for a notify that has not returned yet but is past its trigger post *)
Theorem c05_inflight_has_token : forall k c tc po pd lp np ff cf m t i,
  0 < c -> tc <> Some 0 -> reachable step (init true k c tc po pd lp np ff) cf ->
  listener_pc cf = LWait m -> at_pc (snd cf t) = NCasPN i -> covered (fst cf) i < my_idx (snd cf t) ->
  0 < trig (fst cf) \/ exists u j, at_pc (snd cf u) = NTrig j.
Proof. exact ev_inflight_has_token. Qed.
Print Assumptions c05_inflight_has_token.

(* a sleeping listener with an undelivered notification is never stuck: an in-flight post is
   enabled and puts a token into the trigger *)
Theorem c05_sleeping_listener_gets_token : forall k c tc po pd lp np ff cf i,
  0 < c -> tc <> Some 0 -> reachable step (init true k c tc po pd lp np ff) cf ->
  asleep cf -> undelivered (fst cf) i ->
  exists t j cf' es, at_pc (snd cf t) = NTrig j /\ step1 step t cf = Some (cf', es) /\ 0 < trig (fst cf').
Proof. exact ev_sleeping_listener_gets_token. Qed.
Print Assumptions c05_sleeping_listener_gets_token.

(* in particular: no terminal state (no thread can move) has a sleeping listener and an
   undelivered notification -- the statement that is refuted for the old protocol below *)
Theorem c05_no_terminal_lost_wakeup : forall k c tc po pd lp np ff cf i,
  0 < c -> tc <> Some 0 -> reachable step (init true k c tc po pd lp np ff) cf ->
  (forall t, step1 step t cf = None) -> asleep cf -> ~ undelivered (fst cf) i.
Proof. exact ev_no_terminal_lost_wakeup. Qed.
Print Assumptions c05_no_terminal_lost_wakeup.

(* non-vacuity: in the current protocol the configuration "flag Notified, trigger empty, listener
   in its blocking wait, a returned notification undelivered" IS reachable (notifier 1's late
   Pending -> Notified CAS promotes the Pending of notifier 2), with notifier 2 at its post *)
Definition nv3_np (u : nat) : list N := match u with O => [0; 0] | S O => [0] | _ => [] end.
Definition nv3_init : cfg egst elst := init true ECounting 1 None pol_model 56 [WTry; WBlock] nv3_np (fun _ => false).
Definition nv3_sched : list nat := [0;0;0; 1;1;1;1; 0;0;0;0;0; 2;2;2; 1; 1;1;1]%nat.
Example c05_no_lost_wakeup_nonvacuous :
  let cf := fst (run step nv3_sched nv3_init) in
  reachable step nv3_init cf /\ asleep cf /\ undelivered (fst cf) 0 /\ bad_window cf /\ at_pc (snd cf 2%nat) = NTrig 0.
Proof.
  cbv zeta. split; [exists nv3_sched; reflexivity|].
  split; [split; vm_compute; reflexivity|]. split; [vm_compute; reflexivity|].
  split; [split; [split|]; vm_compute; reflexivity|]. vm_compute. reflexivity.
Qed.
Print Assumptions c05_no_lost_wakeup_nonvacuous.

(* residual window, NOT covered by the theorems above (they assume that no thread crashes): if
   notifier 1 dies at its post -- after its Idle -> Pending CAS, fault model of C04 -- in this reachable
   state, nobody else can move: notifier 2's late Pending -> Notified CAS has promoted notifier 1's
   Pending, notifier 2's second notify has seen Notified and returned Ok without a trigger, the
   listener sleeps.  (The same holds for the old protocol; a repair needs a per-notifier epoch in
   the state word.) *)
Definition cr_np (u : nat) : list N := match u with O => [0] | S O => [0; 0] | _ => [] end.
Definition cr_init : cfg egst elst := init true ECounting 1 None pol_model 56 [WTry; WBlock] cr_np (fun _ => false).
Definition cr_sched : list nat := [0;0;0; 1;1; 2;2;2;2; 0;0;0;0;0; 1; 2; 2;2;2]%nat.
Example c05_crash_residual_window :
  let cf := fst (run step cr_sched cr_init) in
  reachable step cr_init cf /\ at_pc (snd cf 1%nat) = NTrig 0 /\
  asleep cf /\ undelivered (fst cf) 0 /\ st (fst cf) = Notified /\
  step1 step 0 cf = None /\ step1 step 2 cf = None /\ (forall t, (3 <= t)%nat -> step1 step t cf = None).
Proof.
  cbv zeta. split; [exists cr_sched; reflexivity|].
  split; [vm_compute; reflexivity|]. split; [split; vm_compute; reflexivity|].
  split; [vm_compute; reflexivity|]. split; [vm_compute; reflexivity|].
  split; [vm_compute; reflexivity|]. split; [vm_compute; reflexivity|].
  intros t Ht. destruct t as [|[|[|t]]]; try lia. vm_compute. reflexivity.
Qed.
Print Assumptions c05_crash_residual_window.

(* ---- the protocol before the repair (rp = false): fixed finding event:lost-wakeup-notified-empty-trigger ---- *)
Definition c05_old_no_terminal_lost_wakeup : Prop :=
  forall k c tc po pd lp np ff cf i,
  0 < c -> tc <> Some 0 -> reachable step (init false k c tc po pd lp np ff) cf ->
  (forall t, step1 step t cf = None) -> asleep cf -> ~ undelivered (fst cf) i.

(* witness: listener [try_wait; blocking_wait], ONE notifier [notify 0; notify 0], counting bit set, 15 accesses *)
Definition f17_np (u : nat) : list N := match u with O => [0; 0] | _ => [] end.
Definition f17_init : cfg egst elst := init false ECounting 1 None pol_model 56 [WTry; WBlock] f17_np (fun _ => false).
Definition f17_sched : list nat := [0;0;0; 1;1;1;1; 0;0;0;0; 1; 1;1;1]%nat.
Definition f17_cfg : cfg egst elst := fst (run step f17_sched f17_init).

Theorem c05_old_protocol_lost_wakeup : ~ c05_old_no_terminal_lost_wakeup.
Proof.
  intros H.
  assert (Hr : reachable step f17_init f17_cfg) by (exists f17_sched; unfold f17_cfg; reflexivity).
  assert (Hc : 0 < 1) by reflexivity.
  assert (Htc : @None N <> Some 0) by discriminate.
  apply (H ECounting 1 None pol_model 56 [WTry; WBlock] f17_np (fun _ => false) f17_cfg 0 Hc Htc Hr).
  - intros t. destruct t as [|[|t]]; vm_compute; reflexivity.
  - split; vm_compute; reflexivity.
  - vm_compute. reflexivity.
Qed.
Print Assumptions c05_old_protocol_lost_wakeup.

(* regression: the same programs and the same schedule shape on the current protocol (the second
   reset is the extra listener step) deliver both occurrences and terminate *)
Definition f17_init_new : cfg egst elst := init true ECounting 1 None pol_model 56 [WTry; WBlock] f17_np (fun _ => false).
Definition f17_sched_new : list nat := [0;0;0; 1;1;1;1; 0;0;0;0;0; 1; 1;1;1;1;1; 0;0;0;0;0;0]%nat.
Example c05_old_witness_now_delivers :
  let cf := fst (run step f17_sched_new f17_init_new) in
  notified_total (fst cf) 0 = 2 /\ delivered_total (fst cf) 0 = 2 /\ ~ undelivered (fst cf) 0 /\
  prog (snd cf 0%nat) = [] /\ at_pc (snd cf 0%nat) = PIdle /\ prog (snd cf 1%nat) = [] /\ at_pc (snd cf 1%nat) = PIdle.
Proof.
  cbv zeta. split; [vm_compute; reflexivity|]. split; [vm_compute; reflexivity|].
  split; [intros H; vm_compute in H; discriminate|]. vm_compute. repeat split; reflexivity.
Qed.
Print Assumptions c05_old_witness_now_delivers.

(* in either protocol the configuration flag Notified / trigger empty / listener in its blocking
   wait is the only one in which a sleeping listener coexists with an undelivered notification, *)
Theorem c05_lost_wakeup_only_in_bad_window : forall rp k c tc po pd lp np ff cf i,
  0 < c -> reachable step (init rp k c tc po pd lp np ff) cf -> asleep cf -> undelivered (fst cf) i -> bad_window cf.
Proof. exact ev_lost_wakeup_only_in_bad_window. Qed.
Print Assumptions c05_lost_wakeup_only_in_bad_window.

(* and it is entered in exactly one way: a notifier's late Pending -> Notified CAS (second CAS of
   Handle::notify) while the listener already sleeps on the empty trigger *)
Theorem c05_bad_window_entry : forall rp k c tc po pd lp np ff cf t cf' es,
  0 < c -> reachable step (init rp k c tc po pd lp np ff) cf ->
  step1 step t cf = Some (cf', es) -> ~ bad_window cf -> bad_window cf' ->
  asleep cf /\ st (fst cf) = Pending /\ t <> O /\ exists i, at_pc (snd cf t) = NCasPN i.
Proof. exact ev_bad_window_entry. Qed.
Print Assumptions c05_bad_window_entry.

(* non-vacuity: step 12 of the old witness schedule is such an entry *)
Example c05_bad_window_entry_nonvacuous :
  let c11 := fst (run step (firstn 11 f17_sched) f17_init) in
  reachable step f17_init c11 /\ ~ bad_window c11 /\ asleep c11 /\ at_pc (snd c11 1%nat) = NCasPN 0 /\
  match step1 step 1 c11 with Some (c12, _) => bad_window c12 | None => False end.
Proof.
  cbv zeta. split; [exists (firstn 11 f17_sched); reflexivity|].
  split; [intros [_ H]; vm_compute in H; discriminate|].
  split; [split; vm_compute; reflexivity|]. split; [vm_compute; reflexivity|].
  vm_compute. repeat split; reflexivity.
Qed.
Print Assumptions c05_bad_window_entry_nonvacuous.

(* non-vacuity of the data theorems: two notifies of id 9 merged into one delivery (bit set),
   a second id pending in the other word *)
Definition nv2_np (u : nat) : list N := match u with O => [9; 9; 0] | _ => [] end.
Definition nv2_init : cfg egst elst := init true EBitSet 10 None pol_model 72 [WTry; WTry] nv2_np (fun _ => false).
Definition nv2_sched : list nat := [1;1;1;1;1;1; 1;1;1; 0;0;0;0;0;0;0;0;0; 1;1;1;1;1;1]%nat.
Example c05_data_nonvacuous :
  let cf := fst (run step nv2_sched nv2_init) in
  reachable step nv2_init cf /\
  notified_total (fst cf) 9 = 2 /\ delivered_total (fst cf) 9 = 1 /\ pend EBitSet (words (fst cf)) 9 = 0 /\
  notified_total (fst cf) 0 = 1 /\ delivered_total (fst cf) 0 = 0 /\ pend EBitSet (words (fst cf)) 0 = 1.
Proof. cbv zeta. split; [exists nv2_sched; reflexivity|]. vm_compute. repeat split; reflexivity. Qed.
Print Assumptions c05_data_nonvacuous.

(* ---- port level (iceoryx2::port::notifier fan-out over the per-listener connection slots) ---- *)
(* every occupied slot is notified, whatever the occupancy pattern (holes included); empty slots
   stay empty; the returned count is the number of occupied slots *)
Theorem c05_port_fanout_all : forall i s,
  length (fst (fanout i s)) = length s /\
  snd (fanout i s) = occupied s /\
  forall k, (nth_error s k = Some None -> nth_error (fst (fanout i s)) k = Some None) /\
            (forall p, nth_error s k = Some (Some p) -> nth_error (fst (fanout i s)) k = Some (Some (pend_add i p))).
Proof. exact fanout_all. Qed.
Print Assumptions c05_port_fanout_all.

Theorem c05_port_fanout_reaches_everyone : forall i s k p,
  nth_error s k = Some (Some p) ->
  exists p' c, nth_error (fst (fanout i s)) k = Some (Some p') /\ In (i, c) p' /\ 0 < c.
Proof. exact fanout_reaches_everyone. Qed.
Print Assumptions c05_port_fanout_reaches_everyone.

(* the variant that ends the fan-out at the first empty slot (prefix iteration) is refuted: the
   listener behind a hole is not notified although the call reports success *)
Definition c05_port_prefix_fanout_reaches_everyone : Prop := forall i s k p,
  nth_error s k = Some (Some p) ->
  exists p' c, nth_error (fst (fanout_prefix i s)) k = Some (Some p') /\ In (i, c) p' /\ 0 < c.
Theorem c05_port_prefix_fanout_refuted : ~ c05_port_prefix_fanout_reaches_everyone.
Proof.
  intros H. destruct (H 2 [None; Some []] 1%nat [] eq_refl) as (p' & c & H1 & H2 & _).
  cbn in H1. inversion H1; subst. destruct H2.
Qed.
Print Assumptions c05_port_prefix_fanout_refuted.
