(* C05 -- events: no lost wake-up, no phantom event.  Statements only.
   Model (model/Event.v): one step = one shared-memory access of Handle::notify /
   Waiter::{try,timed,blocking}_wait of iceoryx2-cal event::common over the bit set (u8 words)
   or the counting bit set (u64 counters), or one operation of an abstract trigger (token
   counter with capacity tc, None = unbounded; the number of tokens a successful wait and
   empty_buffer leave is the parameter po).  Thread 0 is the listener, every other thread a
   notifier; any number of threads, any programs, any schedule (list of thread ids), any
   event_id_max (c = event_id_max + 1), sequentially consistent interleaving.
   Ghost: notified_total / delivered_total per id, covered (notified_total at the last Drain step
   of the id's word), done_idx (largest activation index among notifies that RETURNED Ok);
   undelivered g i := covered g i < done_idx g i  ("a notify of i has returned and no Drain step
   has taken its activation since"). *)
From V Require Import model.Base model.Conc model.Events model.Event proofs.EventProofs.
Open Scope N_scope.

(* ---- no phantom event ---- *)
(* never more occurrences delivered than notified, for every id, at every reachable state *)
Theorem c05_no_phantom : forall k c tc po pd lp np ff g ls i,
  0 < c -> reachable step (init k c tc po pd lp np ff) (g, ls) ->
  delivered_total g i <= notified_total g i.
Proof. exact ev_no_phantom. Qed.
Print Assumptions c05_no_phantom.

(* whatever a Drain step of word w would report in a reachable state -- the step reports exactly
   `reports (kind g) w (words g w)` -- is an id of that word with that many pending occurrences,
   and that id was notified (lost g i = 0 unless the u64 counter of i wrapped) *)
Theorem c05_reported_was_notified : forall k c tc po pd lp np ff g ls w i n,
  0 < c -> reachable step (init k c tc po pd lp np ff) (g, ls) ->
  In (i, n) (reports (kind g) w (words g w)) ->
  0 < n /\ n = pend (kind g) (words g) i /\ widx (kind g) i = w /\ n <= notified_total g i + two64 * lost g i.
Proof. exact ev_reported_was_notified. Qed.
Print Assumptions c05_reported_was_notified.

(* ---- merged, never dropped ---- *)
(* CountingBitSet: delivered + pending = notified, up to the 2^64 wrap-arounds of the counter
   (lost); below the counter bound (hypothesis: fewer than 2^64 undelivered occurrences) exactly *)
Theorem c05_counting_conservation : forall k c tc po pd lp np ff g ls i,
  0 < c -> reachable step (init k c tc po pd lp np ff) (g, ls) -> kind g = ECounting ->
  delivered_total g i + pend (kind g) (words g) i + two64 * lost g i = notified_total g i /\
  (notified_total g i - delivered_total g i < two64 ->
   delivered_total g i + pend (kind g) (words g) i = notified_total g i).
Proof. exact ev_counting_conservation. Qed.
Print Assumptions c05_counting_conservation.

(* BitSet: the bit of i is set exactly when an activation of i took effect after the last Drain
   step of i's word; reports are merged (at most one per Drain), never more than activations *)
Theorem c05_merge_not_drop_bitset : forall k c tc po pd lp np ff g ls i,
  0 < c -> reachable step (init k c tc po pd lp np ff) (g, ls) -> kind g = EBitSet ->
  (pend (kind g) (words g) i = 1 <-> covered g i < notified_total g i) /\ pend (kind g) (words g) i <= 1 /\
  delivered_total g i <= covered g i.
Proof. exact ev_bitset_pending_iff. Qed.
Print Assumptions c05_merge_not_drop_bitset.

(* an activated id stays pending until a Drain step of its word, and that step reports it (with
   its pending count): a step of any thread from a reachable state either keeps pend i > 0 or is
   the listener's Drain of i's word and emits the report of i.  (Counter bound: pend + 1 < 2^64.)
   Hence the first listener call -- try_wait, timed_wait or blocking_wait, all of which drain every
   word -- whose Drain of i's word comes after the activation reports i: polling and bounded
   timed waits never lose an event, they only delay it. *)
Theorem c05_merge_not_drop : forall k c tc po pd lp np ff cf t cf' es i,
  0 < c -> reachable step (init k c tc po pd lp np ff) cf ->
  step1 step t cf = Some (cf', es) ->
  0 < pend (kind (fst cf)) (words (fst cf)) i -> pend (kind (fst cf)) (words (fst cf)) i + 1 < two64 ->
  0 < pend (kind (fst cf')) (words (fst cf')) i \/
  exists w tot, at_pc (snd cf t) = LDrain w tot /\ widx (kind (fst cf)) i = w /\
                In (ERet (rep_code (i, pend (kind (fst cf)) (words (fst cf)) i))) es.
Proof. exact ev_pending_until_drained. Qed.
Print Assumptions c05_merge_not_drop.

(* a notifier between its activation of i and its return: a Drain step has already taken that
   activation, or i is pending *)
Theorem c05_activation_pending_or_taken : forall k c tc po pd lp np ff g ls t i,
  0 < c -> reachable step (init k c tc po pd lp np ff) (g, ls) -> kind g = EBitSet ->
  (at_pc (ls t) = NCasIP i \/ at_pc (ls t) = NTrig i \/ at_pc (ls t) = NCasPN i) ->
  my_idx (ls t) <= covered g i \/ pend (kind g) (words g) i = 1.
Proof. exact ev_bitset_my_activation. Qed.
Print Assumptions c05_activation_pending_or_taken.

(* a thread cannot move only when it is finished or inside blocking_wait on an empty trigger:
   try_wait / timed_wait calls always run to their Drain (so, with c05_merge_not_drop, polling and
   bounded timed waits never lose an event, they only delay it), every notify runs to completion *)
Theorem c05_blocked_only_in_blocking_wait : forall t g l,
  step t g l = None -> (at_pc l = PIdle /\ prog l = []) \/ (at_pc l = LWait WBlock /\ trig g = 0).
Proof. exact ev_blocked_only_in_blocking_wait. Qed.
Print Assumptions c05_blocked_only_in_blocking_wait.

(* ---- no lost wake-up ---- *)
(* the full clause: whenever the listener sleeps (blocking wait, empty trigger), no returned
   notification is undelivered.  FALSE of the faithful model and of the implementation: *)
Definition c05_no_lost_wakeup_full : Prop :=
  forall k c tc po pd lp np ff cf,
  0 < c -> reachable step (init k c tc po pd lp np ff) cf -> asleep cf -> forall i, ~ undelivered (fst cf) i.

(* witness (known finding event:lost-wakeup-notified-empty-trigger): listener [try_wait;
   blocking_wait], ONE notifier [notify 0; notify 0], counting bit set, 15 accesses *)
Definition f17_np (u : nat) : list N := match u with O => [0; 0] | _ => [] end.
Definition f17_init : cfg egst elst := init ECounting 1 None pol_model 56 [WTry; WBlock] f17_np (fun _ => false).
Definition f17_sched : list nat := [0;0;0; 1;1;1;1; 0;0;0;0; 1; 1;1;1]%nat.
Definition f17_cfg : cfg egst elst := fst (run step f17_sched f17_init).

Theorem c05_no_lost_wakeup_refuted : ~ c05_no_lost_wakeup_full.
Proof.
  intros H.
  assert (Hr : reachable step f17_init f17_cfg) by (exists f17_sched; unfold f17_cfg; reflexivity).
  assert (Hc : 0 < 1) by reflexivity.
  apply (H ECounting 1 None pol_model 56 [WTry; WBlock] f17_np (fun _ => false) f17_cfg Hc Hr) with (i := 0).
  - split; vm_compute; reflexivity.
  - vm_compute. reflexivity.
Qed.
Print Assumptions c05_no_lost_wakeup_refuted.

(* what the witness state is: both notifies have returned (the notifier is finished), id 0 is
   pending with count 1 and undelivered, the flag says Notified, the trigger is empty, the
   listener sleeps, and no thread can move: a deadlock, not a transient *)
Example c05_f17_witness_state :
  prog (snd f17_cfg 1%nat) = [] /\ at_pc (snd f17_cfg 1%nat) = PIdle /\
  pend ECounting (words (fst f17_cfg)) 0 = 1 /\ undelivered (fst f17_cfg) 0 /\
  bad_window f17_cfg /\
  step1 step 0 f17_cfg = None /\ step1 step 1 f17_cfg = None.
Proof. vm_compute. repeat split; reflexivity. Qed.
Print Assumptions c05_f17_witness_state.

(* the wake-up invariant (inductive, all schedules): an undelivered returned notification is
   always covered by a promise -- the flag is Notified (the listener's next state check drains),
   or the listener is between its wake-up and the Drain of the id's word *)
Theorem c05_wakeup_invariant : forall k c tc po pd lp np ff cf i,
  0 < c -> reachable step (init k c tc po pd lp np ff) cf -> undelivered (fst cf) i ->
  st (fst cf) = Notified \/ in_phase (kind (fst cf)) (listener_pc cf) i.
Proof. exact ev_wakeup_invariant. Qed.
Print Assumptions c05_wakeup_invariant.

(* the bad window (flag Notified, trigger empty, listener in its blocking wait) is the ONLY way
   to lose a wake-up *)
Theorem c05_lost_wakeup_only_in_bad_window : forall k c tc po pd lp np ff cf i,
  0 < c -> reachable step (init k c tc po pd lp np ff) cf -> asleep cf -> undelivered (fst cf) i -> bad_window cf.
Proof. exact ev_lost_wakeup_only_in_bad_window. Qed.
Print Assumptions c05_lost_wakeup_only_in_bad_window.

(* the bad window is ENTERED in exactly one way: a notifier's late Pending -> Notified CAS
   (second CAS of Handle::notify) while the listener already sleeps on the empty trigger, i.e. the
   token that notifier posted has been consumed by the listener's empty_buffer in the meantime *)
Theorem c05_bad_window_entry : forall k c tc po pd lp np ff cf t cf' es,
  0 < c -> reachable step (init k c tc po pd lp np ff) cf ->
  step1 step t cf = Some (cf', es) -> ~ bad_window cf -> bad_window cf' ->
  asleep cf /\ st (fst cf) = Pending /\ t <> O /\ exists i, at_pc (snd cf t) = NCasPN i.
Proof. exact ev_bad_window_entry. Qed.
Print Assumptions c05_bad_window_entry.

(* non-vacuity: step 12 of the witness schedule is such an entry *)
Example c05_bad_window_entry_nonvacuous :
  let c11 := fst (run step (firstn 11 f17_sched) f17_init) in
  reachable step f17_init c11 /\ ~ bad_window c11 /\ asleep c11 /\ at_pc (snd c11 1%nat) = NCasPN 0 /\
  match step1 step 1 c11 with Some (c12, _) => bad_window c12 | None => False end.
Proof.
  cbv zeta. split; [exists (firstn 11 f17_sched); reflexivity|].
  split; [intros [_ H]; vm_compute in H; discriminate|].
  split; [split; vm_compute; reflexivity|]. split; [vm_compute; reflexivity|].
  vm_compute. repeat split; reflexivity.
Qed.
Print Assumptions c05_bad_window_entry_nonvacuous.

(* the partial clause: excluding exactly the known class, the full statement holds *)
Theorem c05_no_lost_wakeup_partial : forall k c tc po pd lp np ff cf,
  0 < c -> reachable step (init k c tc po pd lp np ff) cf -> ~ bad_window cf ->
  asleep cf -> forall i, ~ undelivered (fst cf) i.
Proof.
  intros k c tc po pd lp np ff cf Hc Hr Hnb Ha i Hu. apply Hnb.
  exact (ev_lost_wakeup_only_in_bad_window k c tc po pd lp np ff cf i Hc Hr Ha Hu).
Qed.
Print Assumptions c05_no_lost_wakeup_partial.

(* non-vacuity of the partial clause: a reachable state in which the listener sleeps outside the
   bad window while a notifier is in flight (activated, flag Pending, trigger not yet posted) *)
Definition nv_np (u : nat) : list N := match u with O => [9] | _ => [] end.
Definition nv_init : cfg egst elst := init EBitSet 10 None pol_model 72 [WBlock] nv_np (fun _ => false).
Definition nv_sched : list nat := [0; 1;1;1;1]%nat.
Example c05_no_lost_wakeup_partial_nonvacuous :
  let cf := fst (run step nv_sched nv_init) in
  reachable step nv_init cf /\ asleep cf /\ ~ bad_window cf /\
  st (fst cf) = Pending /\ at_pc (snd cf 1%nat) = NTrig 9 /\ pend EBitSet (words (fst cf)) 9 = 1.
Proof.
  cbv zeta. split; [exists nv_sched; reflexivity|].
  split; [split; vm_compute; reflexivity|]. split; [intros [_ H]; vm_compute in H; discriminate|].
  vm_compute. repeat split; reflexivity.
Qed.
Print Assumptions c05_no_lost_wakeup_partial_nonvacuous.

(* non-vacuity of the data theorems: two notifies of id 9 merged into one delivery (bit set),
   a second id pending in the other word *)
Definition nv2_np (u : nat) : list N := match u with O => [9; 9; 0] | _ => [] end.
Definition nv2_init : cfg egst elst := init EBitSet 10 None pol_model 72 [WTry; WTry] nv2_np (fun _ => false).
Definition nv2_sched : list nat := [1;1;1;1;1;1; 1;1;1; 0;0;0;0;0;0;0;0; 1;1;1;1;1;1]%nat.
Example c05_data_nonvacuous :
  let cf := fst (run step nv2_sched nv2_init) in
  reachable step nv2_init cf /\
  notified_total (fst cf) 9 = 2 /\ delivered_total (fst cf) 9 = 1 /\ pend EBitSet (words (fst cf)) 9 = 0 /\
  notified_total (fst cf) 0 = 1 /\ delivered_total (fst cf) 0 = 0 /\ pend EBitSet (words (fst cf)) 0 = 1.
Proof. cbv zeta. split; [exists nv2_sched; reflexivity|]. vm_compute. repeat split; reflexivity. Qed.
Print Assumptions c05_data_nonvacuous.
