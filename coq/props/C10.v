(* C10 -- port registry snapshots (mpmc::Container): never torn, never ghost, eventually exact.
   Statements only.  Model: model/Container.v, one step = one shared-memory access, any number
   of threads (each adds / removes / recovers under its own owner id and owns one ContainerState),
   any schedule, any capacity, sequentially consistent interleaving.  The theorems are about
   `crash_ok` programs: calls may be abandoned after any number of accesses (the owner died
   inside add / remove), provided the program then recovers that owner (predicate true) --
   `crash_free` programs are a special case (c10_crash_free_is_ok). *)
From V Require Import model.Base model.Conc model.Events model.Container.
From V Require Import proofs.ContainerBase proofs.ContainerInv proofs.ContainerStep proofs.ContainerDirty proofs.ContainerProofs proofs.ContainerQuiet.
Open Scope N_scope.

(* never torn: whenever thread t's snapshot lists slot i (odd generation) -- at any time except
   inside the copy window of that very slot, in particular after update_state returned -- the
   pair (generation, payload) is one an add published in slot i *)
Theorem c10_no_torn : forall c d0 d1 d2 progs g ls t i,
  crash_ok progs -> reachable step (init c d0 d1 d2 progs) (g, ls) ->
  refreshing (pc (ls t)) i = false -> odd (rgen (ls t) i) = true ->
  In (rgen (ls t) i, rdata (ls t) i) (published g i).
Proof. intros; eapply no_torn; eauto. Qed.
Print Assumptions c10_no_torn.

(* ... and that pair is exactly the data the entry was added with: a generation is published at
   most once per slot, published generations are odd and not ahead of the slot *)
Theorem c10_published_once : forall c d0 d1 d2 progs g ls i a b b',
  crash_ok progs -> reachable step (init c d0 d1 d2 progs) (g, ls) ->
  In (a, b) (published g i) -> In (a, b') (published g i) -> b = b' /\ odd a = true /\ a <= gens g i.
Proof. intros; eapply published_exact; eauto. Qed.
Print Assumptions c10_published_once.

(* the mechanism: payload memory is only written while the slot's generation is even *)
Theorem c10_write_only_when_even : forall c d0 d1 d2 progs g ls t v n,
  crash_ok progs -> reachable step (init c d0 d1 d2 progs) (g, ls) ->
  pc (ls t) = AddWrite v n -> odd (gens g n) = false.
Proof. intros; eapply write_only_when_even; eauto. Qed.
Print Assumptions c10_write_only_when_even.

(* never ghost + notice.  (i, gm, ch, e) in oplog: an operation completed at time e after which
   slot i has reached generation gm (add: its odd generation; remove / recover of generation gn:
   gn + 1).  If it completed before thread t's latest update_state started, then once that call
   has returned the snapshot generation of slot i is >= gm: a removed entry (generation gn < gm)
   is not listed, an added entry is (or something newer); and if the call returned false the
   snapshot before the call already was >= gm (an earlier call had seen it). *)
Theorem c10_no_ghost_notice : forall c d0 d1 d2 progs g ls t i gm ch e,
  crash_ok progs -> reachable step (init c d0 d1 d2 progs) (g, ls) ->
  In (i, gm, ch, e) (oplog g) -> e < ustart (ls t) -> pc (ls t) = Idle ->
  gm <= rgen (ls t) i /\ (ulast (ls t) = false -> gm <= uprev (ls t) i).
Proof.
  intros c d0 d1 d2 progs g ls t i gm ch e Hcf Hr Hin He Hpc.
  assert (H : gm <= rgen (ls t) i) by (eapply noticed; eauto; rewrite Hpc; reflexivity).
  split; [exact H|]. intros Hu. erewrite unchanged_when_false; eauto. rewrite Hpc. reflexivity.
Qed.
Print Assumptions c10_no_ghost_notice.

(* the log is sound and snapshots never run ahead of the container *)
Theorem c10_log_sound : forall c d0 d1 d2 progs g ls i gm ch e,
  crash_ok progs -> reachable step (init c d0 d1 d2 progs) (g, ls) ->
  In (i, gm, ch, e) (oplog g) -> i < cap g /\ gm <= gens g i /\ ch <= change g /\ e < clock g.
Proof. intros; eapply log_sound; eauto. Qed.
Print Assumptions c10_log_sound.
Theorem c10_snapshot_not_ahead : forall c d0 d1 d2 progs g ls t i,
  crash_ok progs -> reachable step (init c d0 d1 d2 progs) (g, ls) -> rgen (ls t) i <= gens g i.
Proof. intros; eapply snapshot_not_ahead; eauto. Qed.
Print Assumptions c10_snapshot_not_ahead.

(* non-vacuity: cap 1, writer a1,r0,a2 against a reader u,u: the reader's first call lists
   (1, payload 1), the remove and the second add complete, the second call lists (3, payload 2) *)
Definition ex_progs (t : nat) : list cop :=
  match t with O => [CAdd 1 None; CRem 0 None; CAdd 2 None] | S O => [CUpd; CUpd] | _ => [] end.
Definition ex_sched : list nat := repeat 0%nat 14 ++ repeat 1%nat 6 ++ repeat 0%nat 30 ++ repeat 1%nat 8.
Example c10_nonvacuous :
  let cf := fst (run step ex_sched (init 1 7 8 9 ex_progs)) in
  crash_ok ex_progs /\ reachable step (init 1 7 8 9 ex_progs) cf /\
  pc (snd cf 1%nat) = Idle /\ rgen (snd cf 1%nat) 0 = 3 /\ rdata (snd cf 1%nat) 0 = 2 /\
  published (fst cf) 0 = [(1, 1); (3, 2)] /\ ulast (snd cf 1%nat) = true /\
  exists ch e, In (0, 2, ch, e) (oplog (fst cf)) /\ e < ustart (snd cf 1%nat).
Proof.
  cbv zeta. split; [intros [|[|t]]; reflexivity|]. split; [exists ex_sched; reflexivity|].
  vm_compute. repeat split; auto. exists 2, 5. split; [tauto|reflexivity].
Qed.
Print Assumptions c10_nonvacuous.

(* ---- the crash clause ---- *)
(* Nothing in flight, every owner that died inside a call has been recovered (no thread dirty).
   Then (1) a listed slot (odd generation) is owned, unless a call was abandoned on it inside the
   known window (remove between index release and generation CAS: `orph`, set by `abandon` for
   exactly those pcs); (2) an owned slot is a complete entry, and its owner is not one that died
   and was recovered (`dead`).  So after recover(owner) a quiescent refresh -- which by
   c10_quiescent_exact lists exactly the odd slots -- lists no entry of that owner and no
   half-added entry, whatever access the owner died at, the window excepted. *)
Theorem c10_no_ghost_after_recover : forall c d0 d1 d2 progs g ls i,
  crash_ok progs -> reachable step (init c d0 d1 d2 progs) (g, ls) ->
  (forall u, reader_pc (pc (ls u)) /\ dirty (ls u) = false) ->
  (odd (gens g i) = true -> cells g i <> EMPTY \/ exists u, In i (orph (ls u))) /\
  (cells g i <> EMPTY ->
     odd (gens g i) = true /\ i < cap g /\
     exists u e, cells g i = owner_of u e /\ e <= epoch (ls u) /\ ~ In e (dead (ls u))).
Proof. exact quiet_registry. Qed.
Print Assumptions c10_no_ghost_after_recover.

(* the completion of recover(dead owner) is what puts the owner's epoch into `dead` *)
Theorem c10_recover_marks_dead : forall t g l acc lk,
  pc l = RecIncChange acc lk -> fuse l = None -> dirty l = true ->
  exists g' l' es, step t g l = Some (g', l', es) /\ dirty l' = false /\ epoch l' = epoch l + 1 /\ In (epoch l) (dead l') /\
                   pc l' = Idle.
Proof. exact recover_marks_dead. Qed.
Print Assumptions c10_recover_marks_dead.

Theorem c10_crash_free_is_ok : forall progs, crash_free progs -> crash_ok progs.
Proof. exact crash_free_is_ok. Qed.
Print Assumptions c10_crash_free_is_ok.

(* non-vacuity: the owner dies inside add() after 9 accesses (payload written, generation still
   even); recover; quiescence: slot 0 free, generation 0 (not listed), epoch 0 dead, nothing orphaned *)
Definition cr_progs (t : nat) : list cop :=
  match t with O => [CAdd 1 (Some 9%nat); CRec true; CAdd 2 None] | S O => [CUpd] | _ => [] end.
Definition cr_end := fst (run step (repeat 0%nat 50 ++ repeat 1%nat 9) (init 1 7 8 9 cr_progs)).
Example c10_crash_nonvacuous :
  crash_ok cr_progs /\ ~ crash_free cr_progs /\
  reachable step (init 1 7 8 9 cr_progs) (fst cr_end, snd cr_end) /\
  (forall u, reader_pc (pc (snd cr_end u)) /\ dirty (snd cr_end u) = false) /\
  dead (snd cr_end 0%nat) = [0] /\ orph (snd cr_end 0%nat) = [] /\ epoch (snd cr_end 0%nat) = 1 /\
  gens (fst cr_end) 0 = 1 /\ datas (fst cr_end) 0 = 2 /\ cells (fst cr_end) 0 = owner_of 0 1 /\
  rgen (snd cr_end 1%nat) 0 = 1 /\ rdata (snd cr_end 1%nat) 0 = 2.
Proof.
  split; [intros [|[|t]]; reflexivity|].
  split; [intros H; specialize (H 0%nat); discriminate|].
  split; [exists (repeat 0%nat 50 ++ repeat 1%nat 9); unfold cr_end; rewrite <- surjective_pairing; reflexivity|].
  split; [intros [|[|u]]; vm_compute; auto|].
  vm_compute. repeat split; auto.
Qed.
Print Assumptions c10_crash_nonvacuous.

(* the known window (known finding container:crashed-remove-leaves-entry): without the `orph`
   exception the statement is FALSE of the code as it is.  Witness: the owner dies inside remove()
   after the index release (4 accesses) and before the generation CAS; recover() of that owner
   does not find the released index, the generation stays odd; the slot is in `orph`. *)
Definition c10_free_slot_not_listed_full : Prop :=
  forall c d0 d1 d2 progs g ls,
    reachable step (init c d0 d1 d2 progs) (g, ls) ->
    (forall t, pc (ls t) = Idle /\ prog (ls t) = []) ->
    forall i, cells g i = EMPTY -> odd (gens g i) = false.
Definition d2_progs (t : nat) : list cop :=
  match t with O => [CAdd 1 None; CRem 0 (Some 4%nat); CRec true] | _ => [] end.
Theorem c10_free_slot_not_listed_refuted : ~ c10_free_slot_not_listed_full.
Proof.
  intros H.
  pose (cf := fst (run step (repeat 0%nat 40) (init 1 7 8 9 d2_progs))).
  specialize (H 1 7 8 9 d2_progs (fst cf) (snd cf)).
  assert (Hr : reachable step (init 1 7 8 9 d2_progs) (fst cf, snd cf)).
  { exists (repeat 0%nat 40). rewrite <- surjective_pairing. reflexivity. }
  specialize (H Hr).
  assert (Hq : forall t, pc (snd cf t) = Idle /\ prog (snd cf t) = []).
  { intros [|t]; vm_compute; auto. }
  specialize (H Hq 0 eq_refl). vm_compute in H. discriminate.
Qed.
Print Assumptions c10_free_slot_not_listed_refuted.
Example c10_window_witness_is_orphan :
  crash_ok d2_progs /\
  let cf := fst (run step (repeat 0%nat 40) (init 1 7 8 9 d2_progs)) in
  orph (snd cf 0%nat) = [0] /\ cells (fst cf) 0 = EMPTY /\ gens (fst cf) 0 = 1 /\ dirty (snd cf 0%nat) = false.
Proof. split; [intros [|t]; reflexivity|]. vm_compute. auto. Qed.
Print Assumptions c10_window_witness_is_orphan.
(* the proved part: a free slot is listed only if it is such an orphan *)
Theorem c10_free_slot_not_listed_partial : forall c d0 d1 d2 progs g ls i,
  crash_ok progs -> reachable step (init c d0 d1 d2 progs) (g, ls) ->
  (forall u, reader_pc (pc (ls u)) /\ dirty (ls u) = false) ->
  cells g i = EMPTY -> odd (gens g i) = true -> exists u, In i (orph (ls u)).
Proof.
  intros c d0 d1 d2 progs g ls i Hcf Hr HQ Hc Ho.
  destruct (proj1 (quiet_registry c d0 d1 d2 progs g ls i Hcf Hr HQ) Ho) as [H|H]; [contradiction|exact H].
Qed.
Print Assumptions c10_free_slot_not_listed_partial.

(* ---- eventually exact ---- *)
(* Start in any reachable state in which no call is in flight; let any schedule s run in which only
   threads with nothing but update_state left in their programs are scheduled (readers, in any
   interleaving).  Then the container does not change, and a thread t that has consumed at least
   one update_state of its program and is back at Idle (it ran a refresh to completion) holds, for
   every slot, exactly the container's generation and -- for the listed (odd) slots -- payload;
   its change counter is current.  (Which slots are listed: c10_no_ghost_after_recover below.) *)
Theorem c10_quiescent_exact : forall c d0 d1 d2 progs g ls s g' ls' t,
  crash_ok progs -> reachable step (init c d0 d1 d2 progs) (g, ls) ->
  (forall u, pc (ls u) = Idle /\ dirty (ls u) = false) ->
  (forall u, In u s -> upd_only (prog (ls u)) = true) ->
  fst (run step s (g, ls)) = (g', ls') ->
  pc (ls' t) = Idle -> (length (prog (ls' t)) < length (prog (ls t)))%nat ->
  (forall i, i < cap g ->
     rgen (ls' t) i = gens g i /\ (odd (gens g i) = true -> rdata (ls' t) i = datas g i)) /\
  rchange (ls' t) = change g /\
  gens g' = gens g /\ datas g' = datas g /\ cells g' = cells g /\ change g' = change g.
Proof. exact quiescent_exact. Qed.
Print Assumptions c10_quiescent_exact.

(* ... and a refresh that starts with a current change counter returns false (the R line of the
   call carries changed = false) and leaves the snapshot untouched *)
Theorem c10_refresh_unchanged : forall t g l p,
  fuse l = None -> pc l = Idle -> prog l = CUpd :: p -> rchange l = change g ->
  exists l' es, step t g l = Some (tick (tick g), l', es) /\ pc l' = Idle /\ ulast l' = false /\
                rgen l' = rgen l /\ rdata l' = rdata l /\ rchange l' = rchange l /\
                In (upd_ret g l false) es.
Proof. exact refresh_unchanged. Qed.
Print Assumptions c10_refresh_unchanged.

(* the same facts at any reachable state in which every thread is at Idle or inside update_state *)
Theorem c10_quiet_snapshot_is_container : forall c d0 d1 d2 progs g ls t i,
  crash_ok progs -> reachable step (init c d0 d1 d2 progs) (g, ls) ->
  (forall u, reader_pc (pc (ls u))) -> (forall u, dirty (ls u) = false) ->
  pc (ls t) = Idle -> rchange (ls t) = change g -> i < cap g ->
  rgen (ls t) i = gens g i /\ (odd (gens g i) = true -> rdata (ls t) i = datas g i).
Proof. intros. eapply quiet_sync; eauto. eapply inv2_reach; eauto. Qed.
Print Assumptions c10_quiet_snapshot_is_container.

(* non-vacuity: cap 2; the writer runs a1,a2,r0 to completion while the reader is idle (so the
   reader's state is stale: change counter 0 against 3); then only the reader runs: its first
   refresh ends with slot 0 empty (generation 2) and slot 1 = (1, payload 2) *)
Definition qx_progs (t : nat) : list cop :=
  match t with O => [CAdd 1 None; CAdd 2 None; CRem 0 None] | S O => [CUpd; CUpd] | _ => [] end.
Definition qx_start := fst (run step (repeat 0%nat 60) (init 2 7 8 9 qx_progs)).
Example c10_quiescent_nonvacuous :
  crash_ok qx_progs /\ reachable step (init 2 7 8 9 qx_progs) (fst qx_start, snd qx_start) /\
  (forall u, pc (snd qx_start u) = Idle /\ dirty (snd qx_start u) = false) /\
  (forall u, In u (repeat 1%nat 9) -> upd_only (prog (snd qx_start u)) = true) /\
  let c' := fst (run step (repeat 1%nat 9) (fst qx_start, snd qx_start)) in
  pc (snd c' 1%nat) = Idle /\ (length (prog (snd c' 1%nat)) < length (prog (snd qx_start 1%nat)))%nat /\
  change (fst qx_start) = 3 /\ rchange (snd qx_start 1%nat) = 0 /\
  rgen (snd c' 1%nat) 0 = 2 /\ rgen (snd c' 1%nat) 1 = 1 /\ rdata (snd c' 1%nat) 1 = 2.
Proof.
  split; [intros [|[|t]]; reflexivity|].
  split; [exists (repeat 0%nat 60); unfold qx_start; rewrite <- surjective_pairing; reflexivity|].
  split; [intros [|[|u]]; vm_compute; auto|].
  split; [intros u Hin; apply repeat_spec in Hin; subst u; vm_compute; reflexivity|].
  vm_compute. repeat split; auto.
Qed.
Print Assumptions c10_quiescent_nonvacuous.
