(* C01 -- Pub-sub delivery: ordered, exactly once, loss only as documented.
   Only statements; proofs in proofs/ConnProofs.v and proofs/PortProofs.v.  The model is
   model/Conn.v (one connection = per (publisher, subscriber) pair buffer) and model/Port.v (ports).
   Per connection: for every buffer size, borrow limit, overflow setting and every sequence of
   operations on an invariant-satisfying connection.  World level (every history of API calls of any
   number of ports): c01_order_once_full and c01_prefix_history_full are PROVED by induction over the
   history (proofs/PortInv*.v, proofs/PortOrd*.v); c01_loss_only_reported_full is REFUTED (known
   findings) and kept with its proved variant. *)
From V Require Import model.Base model.Conn model.Port proofs.ConnProofs proofs.PortProofs proofs.PortInv proofs.PortInvStep proofs.PortInvRefl proofs.PortOrd proofs.PortOrdStep.

(* ---- order, at most once ---------------------------------------------------------------- *)
(* world level: what every subscriber has received from one publisher has strictly increasing
   send indices (order and at-most-once in one statement).  PROVED for every history of API calls
   of any number of ports (incl. the handler micro-steps inside blocking_send) and every QoS tuple
   with max_subscribers + history_size + 4 < 2^64, by induction over the history with the order
   invariant Ord (proofs/PortOrd.v): for every connection, receive log ++ submission queue is
   strictly increasing and below the publisher's send counter; so is the history; a registered
   subscriber that is not in an active publisher's table has received nothing from it and its
   connection is empty (so the history replay at connect time starts a fresh sequence).  Every
   operation that neither pushes nor pops is shown to leave logs, queues (up to emptying), send
   counters and histories alone (Neutral); the pushes (send, history replay) and the pop (receive)
   are treated directly (step_ord).  The oracle recv_in_order is evaluated at every receive of the tie. *)
Theorem c01_order_once_full :
  forall c h w obs s p, cfg_fits c -> run (world_new c) h = Val (w, obs) ->
    increasing (map rl_idx (filter (fun r => Nat.eqb (rl_pub r) p) (s_recv (gets w s)))).
Proof. exact reachable_order_once. Qed.
Print Assumptions c01_order_once_full.

Theorem c01_order_invariant : forall c w, cfg_fits c -> reachable c w -> Ord w.
Proof. exact reachable_Ord. Qed.
Print Assumptions c01_order_invariant.

Theorem c01_order_step : forall w o w' ob, InvR w -> Ord w -> step w o = Val (w', ob) -> Ord w'.
Proof. exact step_ord. Qed.
Print Assumptions c01_order_step.

(* a subscriber that joins late (history 2), receives the replay and then a fresh sample *)
Example c01_order_once_full_nonvacuous :
  match run (world_new {| cf_S := 2; cf_P := 1; cf_B := 3; cf_M := 3; cf_H := 2; cf_ovf := true; cf_E := 2 |})
            [OPubCreate 1 false HNone; OSendCopy 0; OSendCopy 0; OSendCopy 0; OSubCreate None None; OPubUpdate 0;
             OSendCopy 0; ORecv 0; ORecv 0; ORecv 0] with
  | Val (w, _) => map rl_idx (s_recv (gets w 0)) = [1; 2; 3]
  | Panic => False
  end.
Proof. vm_compute. reflexivity. Qed.
Print Assumptions c01_order_once_full_nonvacuous.

(* per connection: the send indices in the submission queue increase strictly when every send
   carries a larger index than all before it (the send log only grows), whatever was evicted *)
Theorem c01_order_once_partial : forall c bor o gi c' r,
  conn_inv c bor -> c_try_send c o gi = Val (c', r) ->
  increasing (idxs c) -> (forall j, In j (idxs c) -> j < gi) ->
  increasing (idxs c') /\ (forall j, In j (idxs c') -> j <= gi).
Proof. exact try_send_increasing. Qed.
Print Assumptions c01_order_once_partial.

(* and receive hands out the OLDEST entry, once: it leaves the queue and becomes borrowed *)
Theorem c01_receive_fifo : forall c bor c' r,
  conn_inv c bor -> c_receive c = (c', r) ->
  match r with
  | RcvOk (Some e) => c_borrow c < c_M c /\ c_sub c = e :: c_sub c' /\ c_comp c' = c_comp c /\ c_used c' = c_used c
                      /\ conn_inv c' (bor ++ [q_off e])
  | RcvOk None => c' = c /\ c_sub c = [] /\ c_borrow c < c_M c
  | RcvExceedsMaxBorrow => c' = c /\ c_M c <= c_borrow c
  end.
Proof. exact receive_spec. Qed.
Print Assumptions c01_receive_fifo.

Example c01_order_once_nonvacuous :
  let c := conn_new 2 1 true 8 in
  conn_inv c [] /\ exists c' r, c_try_send c 3 0 = Val (c', r) /\ idxs c' = [0].
Proof. split; [apply conn_new_inv|]. do 2 eexists. split; reflexivity. Qed.
Print Assumptions c01_order_once_nonvacuous.

(* ---- overflow: exactly the oldest are evicted ------------------------------------------- *)
(* every send on a connection is one push on the reference bounded FIFO of send indices .. *)
Theorem c01_refines_log_partial : forall c bor o gi c' r,
  conn_inv c bor -> c_try_send c o gi = Val (c', r) ->
  (idxs c', sent_ok r) = ref_push (c_ovf c) (c_B c) (idxs c) gi.
Proof. exact try_send_ref. Qed.
Print Assumptions c01_refines_log_partial.

(* .. which with safe overflow keeps exactly the newest min(B, k) of the k elements pushed .. *)
Theorem c01_overflow_exact : forall b l q,
  1 <= b -> length q <= b -> suffix_of_len (ref_push_all true b q l) (q ++ l) (Nat.min b (length q + length l)).
Proof. exact ref_push_all_overflow. Qed.
Print Assumptions c01_overflow_exact.

(* .. and the evicted offset is exactly the oldest entry and is handed back to the sender
   (Ok(Some(old))); nothing else leaves the used-chunk set *)
Theorem c01_overflow_hands_back : forall c bor o gi c' r,
  conn_inv c bor -> c_try_send c o gi = Val (c', r) ->
  let e := {| q_off := o; q_idx := gi |} in
  match r with
  | SOk None =>
      length (c_sub c) < c_B c /\ c_sub c' = c_sub c ++ [e] /\ c_used c' = o :: c_used c
      /\ c_comp c' = c_comp c /\ ~ In o (c_used c) /\ conn_inv c' bor
  | SOk (Some old) =>
      c_ovf c = true /\ length (c_sub c) = c_B c
      /\ (exists e0 rest, c_sub c = e0 :: rest /\ old = q_off e0 /\ c_sub c' = rest ++ [e])
      /\ (forall x, cnt (c_used c') x + cnt [old] x = cnt (c_used c) x + cnt [o] x)
      /\ c_comp c' = c_comp c /\ ~ In o (c_used c) /\ In old (c_used c) /\ conn_inv c' bor
  | SBufferFull => c' = c /\ c_ovf c = false /\ length (c_sub c) = c_B c
  | _ => False
  end.
Proof. exact try_send_spec. Qed.
Print Assumptions c01_overflow_hands_back.

Example c01_overflow_exact_nonvacuous : ref_push_all true 2 [] [5; 6; 7] = [6; 7].
Proof. reflexivity. Qed.
Print Assumptions c01_overflow_exact_nonvacuous.

(* ---- loss only as documented ------------------------------------------------------------- *)
(* world level: a connection that holds undelivered samples for a subscriber that stays registered
   never disappears (lost_delivery = 0 for every step of every history) *)
Definition c01_loss_only_reported_full : Prop :=
  forall c h w obs o w1 ob, run (world_new c) h = Val (w, obs) -> step w o = Val (w1, ob) -> lost_delivery w w1 = 0.

(* REFUTED by the faithful model (known finding pubsub:delivered-sample-lost-subscriber-not-yet-connected,
   replayed on the implementation by the check): the publisher is dropped before the registered
   subscriber attached its receiver side *)
Theorem c01_loss_only_reported_refuted : ~ c01_loss_only_reported_full.
Proof.
  intros H. destruct lost_witness as ([obs Hr] & w1 & ob & Hs & Hl).
  rewrite (H _ _ _ _ _ _ _ Hr Hs) in Hl. discriminate.
Qed.
Print Assumptions c01_loss_only_reported_refuted.

(* what holds per connection: a send is refused only when the buffer is full and overflow is off,
   and then reports it (ReceiveBufferFull -> the recipient count excludes this subscriber), state
   unchanged; without overflow an accepted entry is never evicted *)
Theorem c01_loss_only_reported_partial : forall c bor o gi c' r,
  conn_inv c bor -> c_try_send c o gi = Val (c', r) ->
  (sent_ok r = false <-> (c_ovf c = false /\ length (c_sub c) = c_B c))
  /\ (sent_ok r = false -> c' = c)
  /\ (c_ovf c = false -> sent_ok r = true -> c_sub c' = c_sub c ++ [{| q_off := o; q_idx := gi |}]).
Proof.
  intros c bor o gi c' r Hinv Hs. pose proof (try_send_spec _ _ _ _ _ _ Hinv Hs) as H. cbn zeta in H.
  destruct r as [[old|]| | | | |]; try contradiction; cbn [sent_ok].
  - destruct H as (Hovf & _). repeat split; try discriminate; try congruence. intros [Hf _]; congruence.
  - destruct H as (Hlt & Hsub & _). repeat split; try discriminate; auto. intros [_ Hf]. rewrite Hf in Hlt. exfalso. apply (Nat.lt_irrefl _ Hlt).
  - destruct H as (-> & Hovf & Hfull). repeat split; auto. discriminate.
Qed.
Print Assumptions c01_loss_only_reported_partial.

Example c01_loss_only_reported_nonvacuous :
  exists c r, c_try_send (conn_new 1 1 false 4) 0 0 = Val (c, SOk None) /\ c_try_send c 1 1 = Val (c, r) /\ r = SBufferFull.
Proof. do 2 eexists. repeat split. Qed.
Print Assumptions c01_loss_only_reported_nonvacuous.

(* the back-pressure handler decides between discard, failure and blocking; with
   RetryUntilDelivered and a handler that always retries / follows the strategy the call does not
   return while the buffer is full and the receiver is connected *)
Theorem c01_blocking_send_blocks : forall c o gi h,
  c_ovf c = false -> c_is_full c = true -> c_is_connected c = true ->
  (forall k, h_at h k = BRetry \/ h_at h k = BFollow) ->
  c_blocking_send c o gi h true = Val (c, SBlocks).
Proof.
  intros c o gi h Hovf Hfull Hconn Hh. unfold c_blocking_send. rewrite Hovf, Hfull, Hconn. cbn [negb andb].
  assert (Hw : forall fuel k, wait_loop fuel h true k = WForever).
  { induction fuel as [|f IH]; intros k; cbn [wait_loop]; [reflexivity|].
    destruct (Hh k) as [-> | ->]; [apply IH|reflexivity]. }
  now rewrite Hw.
Qed.
Print Assumptions c01_blocking_send_blocks.

(* ---- history ----------------------------------------------------------------------------- *)
(* PROVED, for EVERY world (reachable or not) in which the pair has no connection yet: when the
   publisher creates the connection (Sender::create + deliver_sample_history) and the call returns,
   the submission queue holds exactly the last min(history_request, buffer size) entries of the
   history, oldest first; receive hands them out in that order (c01_receive_fifo).  Model:
   pub_create_connection / deliver_history; tie: exhaustive suite `join` and the random histories. *)
Theorem c01_prefix_history_full :
  forall c h w obs p i d w1, run (world_new c) h = Val (w, obs) -> pub_live w p = true ->
    nth i (p_tab (getp w p)) None = None -> getc w p (sd_id d) = None ->
    pub_create_connection w p i d = Val w1 ->
    exists cn, getc w1 p (sd_id d) = Some cn /\
      idxs cn = map he_idx (lastn (Nat.min (sd_hreq d) (Nat.max 1 (sd_buf d))) (p_hist (getp w p))).
Proof. intros c h w obs p i d w1 _ _ _. apply prefix_history. Qed.
Print Assumptions c01_prefix_history_full.

(* a publisher with history 2 that has sent three samples; a subscriber that asks for 2 *)
Example c01_prefix_history_full_nonvacuous :
  match run (world_new {| cf_S := 2; cf_P := 1; cf_B := 2; cf_M := 1; cf_H := 2; cf_ovf := true; cf_E := 2 |})
            [OPubCreate 1 false HNone; OSendCopy 0; OSendCopy 0; OSendCopy 0] with
  | Val (w, _) =>
    map he_idx (p_hist (getp w 0)) = [1; 2] /\ getc w 0 7 = None /\
    match pub_create_connection w 0 1 {| sd_id := 7; sd_buf := 2; sd_hreq := 2 |} with
    | Val w1 => exists cn, getc w1 0 7 = Some cn /\ idxs cn = [1; 2]
    | Panic => False
    end
  | Panic => False
  end.
Proof. vm_compute. split; [reflexivity|]. split; [reflexivity|]. eexists. split; reflexivity. Qed.
Print Assumptions c01_prefix_history_full_nonvacuous.

(* F1 (fixed in /repo by 81d4165): three expired connections are cleaned up completely *)
Theorem c01_expired_connections_regression :
  (exists obs, run (world_new cfg13) f1_history = Val (f1_world, obs))
  /\ w_samples f1_world = [] /\ s_tbr (gets f1_world 0) = []
  /\ length (w_conns f1_world) = 0 /\ stale_expired f1_world 0 = false.
Proof. exact f1_regression. Qed.
Print Assumptions c01_expired_connections_regression.
