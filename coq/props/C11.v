(* C11 -- request-response: responses reach exactly the request they answer.
   Statements only; every proof is `exact <lemma>` from proofs/ReqResProofs.v, proofs/ReqResInv.v,
   followed by Print Assumptions (checked by ./check).  `reach g s`: s is the state of
   model/ReqRes.v after ANY history of the 20 operations (client/server create and drop,
   loan/send/send_copy, receive, drops of every object in any order, set_disconnect_hint,
   has_requests) with ANY polling order, for the configuration g (all limits, overflow and
   fire-and-forget flags, numbers of client / server slots are universally quantified). *)
From V Require Import model.Base model.ReqRes proofs.ReqResProofs proofs.ReqResInv proofs.ReqResRoute proofs.ReqResLink proofs.ReqResOrder proofs.ReqResOnce.
Open Scope N_scope.

(* ---- the channel-state word ------------------------------------------------------------- *)
(* close_channel(r) leaves a word that no longer has state r (with or without the hint), and
   does not touch a channel that was re-opened for another request r' *)
Theorem c11_close_channel : forall w r, chw w -> rid_ok r -> ch_has_state (ch_close w r) r = false.
Proof. exact close_not_state. Qed.
Print Assumptions c11_close_channel.
Example c11_close_channel_nonvacuous :
  chw (N.lor 5 HINT_BIT) /\ rid_ok 5 /\ ch_has_state (N.lor 5 HINT_BIT) 5 = true /\ ch_close (N.lor 5 HINT_BIT) 5 = CH_CLOSED.
Proof. split; [apply chw_hint; reflexivity|]. split; [reflexivity|]. split; vm_compute; reflexivity. Qed.
Print Assumptions c11_close_channel_nonvacuous.

Theorem c11_close_channel_other : forall w r r', chw w -> rid_ok r -> rid_ok r' -> r <> r' ->
  ch_has_state w r' = true -> ch_close w r = w.
Proof. exact close_other. Qed.
Print Assumptions c11_close_channel_other.
Example c11_close_channel_other_nonvacuous : chw 7 /\ rid_ok 5 /\ rid_ok 7 /\ 5 <> 7 /\ ch_has_state 7 7 = true.
Proof. split; [apply chw_rid; reflexivity|]. repeat split; try reflexivity. discriminate. Qed.
Print Assumptions c11_close_channel_other_nonvacuous.

(* ---- no stale response into a reused channel (unconditional) --------------------------- *)
(* In every reachable state, every response ever handed out by PendingResponse::receive carries
   the request id of THAT pending response: a response written for request r (its header id is
   r: act_loan) that is still queued in a channel when the channel is recycled for a later
   request r' of the same client is never returned through r'. *)
Theorem c11_no_stale_into_reused : forall g s, reach g s ->
  forall p m, In (p, m) (s_rlog s) -> p_rid m = q_rid (pn_msg p).
Proof. exact rlog_ok_reach. Qed.
Check c11_no_stale_into_reused : forall g s, reach g s -> forall p m, In (p, m) (s_rlog s) -> p_rid m = q_rid (pn_msg p).
Print Assumptions c11_no_stale_into_reused.
(* ... the filter is what PendingResponse::receive itself does, for every fuel / order ... *)
Theorem c11_receive_filters : forall fuel g s p ord s' sv m,
  pend_receive fuel g s p ord = (s', PRSome sv m) -> p_rid m = q_rid (pn_msg p).
Proof. exact pend_receive_filter. Qed.
Print Assumptions c11_receive_filters.
(* ... and the discarded response is released: release_offset moves it from the borrowed set
   into the completion queue of its channel (the sender reclaims it at its next allocate/send) *)
Theorem c11_discarded_is_released : forall s cl sv ch m k,
  get_conn s cl sv = Some k -> view_on (k_cv k) = true ->
  exists k', get_conn (response_release s cl sv ch m) cl sv = Some k' /\
             c_comp (k_chan k' ch) = (if N.ltb ch (lenN (k_ch k)) then c_comp (k_chan k ch) ++ [m] else c_comp (k_chan k' ch)) /\
             (N.ltb ch (lenN (k_ch k)) = true -> ~ In (p_id m) (map p_id (c_bor (k_chan k' ch)))).
Proof. exact response_release_spec. Qed.
Print Assumptions c11_discarded_is_released.
(* non-vacuity: request 0 (channel 0) is answered, dropped unread, channel 0 is recycled for
   request 3 with the stale response still queued (has_response = true); the next receive
   discards it and returns the answer to request 3 *)
Example c11_no_stale_into_reused_nonvacuous :
  let s := run cfg3 w_reuse in
  reach cfg3 s /\
  map (fun p => (q_ch (pn_msg p), q_rid (pn_msg p))) (s_pends s) = [(0, 3)] /\
  digest_p s = [(3, true, true)] /\
  snd (step cfg3 ord_all s (Pr 0)) = OResp 30000 /\
  map (fun pm => (q_rid (pn_msg (fst pm)), p_rid (snd pm))) (s_rlog (fst (step cfg3 ord_all s (Pr 0)))) = [(3, 3)].
Proof. split; [apply reach_run|exact w_reuse_spec]. Qed.
Print Assumptions c11_no_stale_into_reused_nonvacuous.

(* ---- expired connections (server gone) keep what was delivered ------------------------------ *)
(* Receiver::receive_from_to_be_removed_connections (fix 9915d96): a poll of one pending response
   on its own, empty channel never releases the connection of a vanished server while ANY
   channel of that connection still has data or borrows -- a response delivered before the
   server went away stays receivable whichever sibling PendingResponse polls first.  (Before
   the fix the model released the connection whenever no channel had borrows: a known loss.)
   The connection is released exactly when nothing is left. *)
Theorem c11_expired_connection_keeps_data : forall g s cl ch k,
  c_sub (k_chan k ch) = [] -> lenN (c_bor (k_chan k ch)) <> MB g ->
  (existsb chan_has_data_or_borrows (k_ch k) = true -> poll_retained g s cl ch [k] = (s, R1None)) /\
  (existsb chan_has_data_or_borrows (k_ch k) = false ->
     poll_retained g s cl ch [k] = (upd_conn s cl (k_sv k) (fun k => k_with_cv k VNone), R1None)).
Proof. intros. split; [apply retained_kept|apply retained_released]; assumption. Qed.
Print Assumptions c11_expired_connection_keeps_data.
(* non-vacuity: the sibling-polls-first history on the model (kernel-evaluated): server and both
   active requests gone, pending_b.receive() = None leaves a's response queued, pending_a
   receives it *)
Example c11_expired_connection_keeps_data_nonvacuous :
  let s := run cfg4 w_sibling in
  reach cfg4 s /\ s_sreg s = [] /\ digest_p s = [(0, false, true); (1, false, false)] /\
  snd (step cfg4 ord_all s (Pr 1)) = ORecvNone /\
  digest_p (fst (step cfg4 ord_all s (Pr 1))) = [(0, false, true); (1, false, false)] /\
  snd (step cfg4 ord_all (fst (step cfg4 ord_all s (Pr 1))) (Pr 0)) = OResp 0.
Proof. split; [apply reach_run|exact w_sibling_spec]. Qed.
Print Assumptions c11_expired_connection_keeps_data_nonvacuous.

(* ---- routing ------------------------------------------------------------------------------ *)
(* The clause as the property states it: every response handed out through a pending response
   carries its request id AND was sent by an ActiveRequest of a request of the SAME client. *)
Definition c11_routing_full : Prop := forall g s, reach g s ->
  forall p m, In (p, m) (s_rlog s) -> p_rid m = q_rid (pn_msg p) /\ p_ocl m = pn_cl p.
(* FALSE of the faithful model (and of /repo: known finding
   routing:stale-active-request-reaches-new-client): ActiveRequest addresses its client by the
   slot index of the connection; a new client that takes over the slot, with request ids
   restarting at 0, receives the answer. *)
Theorem c11_routing_refuted : ~ c11_routing_full.
Proof.
  intro H. pose proof (H cfg1 (run cfg1 w_routing) (reach_run _ _)) as H1.
  pose proof w_routing_spec as W. apply existsb_exists in W. destruct W as [[p m] [Hin Hne]].
  destruct (H1 p m Hin) as [_ E]. cbn [fst snd] in Hne. rewrite E, N.eqb_refl in Hne. discriminate.
Qed.
Print Assumptions c11_routing_refuted.
(* proved part 1: the request-id half, unconditionally *)
Theorem c11_routing_partial : forall g s, reach g s ->
  forall p m, In (p, m) (s_rlog s) -> p_rid m = q_rid (pn_msg p).
Proof. exact rlog_ok_reach. Qed.
Print Assumptions c11_routing_partial.
(* proved part 2: the full clause for every history in which no response is SENT into a
   connection of another client (reach_ok: at every As / Aw step the connection that
   response_sender.connections[connection_id] resolves to after update_connections belongs to
   the client whose request the ActiveRequest holds).  Channel recycling, stale queued
   responses, overflow, several servers, to-be-removed connections, any drop order: none of
   them can mis-route; the slot-index aliasing of the known finding is the only way.  The link
   "no client takes over the slot of a client whose requests a server still holds => reach_ok"
   is NOT proved (the correspondence runs never saw a violation outside that class). *)
Theorem c11_routing_under_send_ok : forall g s, reach_ok g s ->
  forall p m, In (p, m) (s_rlog s) -> p_rid m = q_rid (pn_msg p) /\ p_ocl m = pn_cl p.
Proof. exact routing_reach_ok. Qed.
Check c11_routing_under_send_ok : forall g s, reach_ok g s ->
  forall p m, In (p, m) (s_rlog s) -> p_rid m = q_rid (pn_msg p) /\ p_ocl m = pn_cl p.
Print Assumptions c11_routing_under_send_ok.
(* non-vacuity: the channel-reuse history (stale response discarded, genuine one delivered)
   satisfies the hypothesis and hands out a response; the known-defect history violates it *)
Example c11_routing_under_send_ok_nonvacuous :
  reach_ok cfg3 (run cfg3 (w_reuse ++ [Pr 0])) /\ length (s_rlog (run cfg3 (w_reuse ++ [Pr 0]))) = 1%nat /\
  all_send_okb cfg1 (init cfg1) w_routing = false.
Proof. split; [exact (proj1 w_reuse_ok)|]. split; [exact (proj2 w_reuse_ok)|exact w_routing_not_ok]. Qed.
Print Assumptions c11_routing_under_send_ok_nonvacuous.

(* ---- limits ------------------------------------------------------------------------------- *)
(* In every reachable state, for every connection: at most max_response_buffer_size responses
   are buffered per channel (= per pending response and server), at most
   max_borrowed_responses_per_pending_response are borrowed per channel, at most
   max_active_requests_per_client requests are queued and at most that many are held by the
   server per client. *)
Theorem c11_limits : forall g s, cfg_ok g -> reach g s ->
  Forall (fun k => Forall (fun x => lenN (c_sub x) <= RB g /\ lenN (c_bor x) <= MB g) (k_ch k) /\
                   lenN (k_rsub k) <= MA g /\ lenN (k_rbor k) <= MA g) (s_conns s).
Proof. exact lim_ok_reach. Qed.
Print Assumptions c11_limits.
Example c11_limits_nonvacuous :
  cfg_ok cfg3 /\ reach cfg3 (run cfg3 w_reuse) /\
  map (fun k => map (fun x => lenN (c_sub x)) (k_ch k)) (s_conns (run cfg3 w_reuse)) = [[2; 0; 0]].
Proof. split; [split; vm_compute; discriminate|]. split; [apply reach_run|vm_compute; reflexivity]. Qed.
Print Assumptions c11_limits_nonvacuous.
(* an excess send (ExceedsMaxActiveRequests) gives everything back: the state is the one after
   dropping the unsent request (counters and reference count restored, channel id returned) *)
Theorem c11_limits_rejected_send : forall g s m p, client_send g s m = (p, inl EMaxActive) ->
  get_client s (q_cl m) <> None -> p = request_release s m false.
Proof. exact client_send_rejected. Qed.
Print Assumptions c11_limits_rejected_send.
Example c11_limits_rejected_send_nonvacuous :
  snd (step cfg1 ord_all (run cfg1 [Cc 0; Sc 0; Q 0; Sr 0]) (Q 0)) = OErr EMaxActive /\
  snd (step cfg1 ord_all (run cfg1 [Cc 0; Sc 0; Q 0; Sr 0; Q 0; Pd 0]) (Q 0)) = OOkN 1.
Proof. split; vm_compute; reflexivity. Qed.
Print Assumptions c11_limits_rejected_send_nonvacuous.
(* a full buffer without overflow rejects, with overflow evicts exactly the oldest *)
Theorem c11_limits_buffer : forall A cap (q : list A) m,
  (cap <= lenN q -> try_send false cap q m = None) /\
  (forall q' old, try_send true cap q m = Some (q', Some old) -> exists t, q = old :: t /\ q' = t ++ [m]).
Proof. intros. split; [apply try_send_full_no_overflow|apply try_send_evicts_oldest]. Qed.
Print Assumptions c11_limits_buffer.

(* ---- disconnect ---------------------------------------------------------------------------- *)
(* drop of the PendingResponse closes its channel on every connection of the client: no
   ActiveRequest bound to (that connection, channel, request id) is connected afterwards *)
Theorem c11_disconnect_visible_partial : forall s p k,
  In k (s_conns s) -> k_cl k = pn_cl p -> view_on (k_cv k) = true ->
  N.ltb (q_ch (pn_msg p)) (lenN (k_ch k)) = true ->
  chw (c_state (k_chan k (q_ch (pn_msg p)))) -> rid_ok (q_rid (pn_msg p)) ->
  exists k', In k' (s_conns (pend_drop s p)) /\ k_cl k' = k_cl k /\ k_sv k' = k_sv k /\
             ch_has_state (c_state (k_chan k' (q_ch (pn_msg p)))) (q_rid (pn_msg p)) = false.
Proof. exact pend_drop_closes. Qed.
Print Assumptions c11_disconnect_visible_partial.
Example c11_disconnect_visible_nonvacuous :
  digest_a (run cfg1 [Cc 0; Sc 0; Q 0; Sr 0]) = [(0, 0, true, false)] /\
  digest_a (run cfg1 [Cc 0; Sc 0; Q 0; Sr 0; Pd 0]) = [(0, 0, false, false)] /\
  digest_p (run cfg1 [Cc 0; Sc 0; Q 0; Sr 0; Ad 0]) = [(0, false, false)].
Proof. repeat split; vm_compute; reflexivity. Qed.
Print Assumptions c11_disconnect_visible_nonvacuous.
(* the clause for all later states ("an ActiveRequest is connected only while the pending
   response of its own request lives") is false for the same reason as routing: *)
Definition c11_disconnect_visible_full : Prop := forall g s, reach g s ->
  forall a, In a (s_acts s) -> act_connected s a = true ->
  exists p, In p (s_pends s) /\ pn_cl p = q_cl (ac_msg a) /\ q_rid (pn_msg p) = q_rid (ac_msg a).
Theorem c11_disconnect_visible_refuted : ~ c11_disconnect_visible_full.
Proof.
  intro H. pose proof (H cfg1 (run cfg1 w_disc) (reach_run _ _)) as H1.
  pose proof w_disc_spec as W. unfold disc_bad in W. apply existsb_exists in W. destruct W as [a [Hin Hb]].
  apply andb_prop in Hb. destruct Hb as [Hc Hn].
  destruct (H1 a Hin Hc) as [p [Hp [E1 E2]]].
  apply Bool.negb_true_iff in Hn. rewrite <- Bool.not_true_iff_false in Hn. apply Hn.
  apply existsb_exists. exists p. split; [exact Hp|]. rewrite E1, E2, !N.eqb_refl. reflexivity.
Qed.
Print Assumptions c11_disconnect_visible_refuted.

(* ---- request / response payload memory ----------------------------------------------------- *)
(* "a port never runs out of chunks while all limits are respected": false on both sides *)
Definition c11_reqres_never_oom_full : Prop := forall g s ord o, cfg_ok g -> reach g s ->
  snd (step g ord s o) <> OErr EOom.
Theorem c11_reqres_never_oom_refuted_client : ~ c11_reqres_never_oom_full.
Proof.
  intro H. apply (H cfg1 (run cfg1 w_client_oom) ord_all (L 0)); [split; vm_compute; discriminate|apply reach_run|exact w_client_oom_spec].
Qed.
Print Assumptions c11_reqres_never_oom_refuted_client.
Theorem c11_reqres_never_oom_refuted_server : ~ c11_reqres_never_oom_full.
Proof.
  intro H. apply (H cfg2 (run cfg2 w_server_oom) ord_all (As 0)); [split; vm_compute; discriminate|apply reach_run|exact w_server_oom_spec].
Qed.
Print Assumptions c11_reqres_never_oom_refuted_server.
(* proved part: OutOfMemory is exact -- a client loan fails with it only when every chunk of
   the segment is referenced (after reclaiming everything the servers returned) *)
Theorem c11_reqres_never_oom_partial : forall g s cl hid s',
  client_loan g s cl hid = (s', Val (inl EOom)) ->
  exists c, get_client s' cl = Some c /\ nreq g <= rc_used (cl_rc c).
Proof. exact client_loan_oom_exact. Qed.
Print Assumptions c11_reqres_never_oom_partial.
(* The link from a condition on the HISTORY to the hypothesis of c11_routing_under_send_ok:
   s_idxlog records (client, slot) of every client ever registered in the dynamic config; if no
   slot was ever taken over by a second client (the exclusion of the known finding
   routing:stale-active-request-reaches-new-client, stated on the whole history), every
   response handed out carries the request id of its pending response AND answers a request
   of the same client.  Invariant (proofs/ReqResLink.v refs_ok): every reference to a slot --
   the registry, every server's sender connection vector, every ActiveRequest, every loaned
   response -- names a (client, slot) pair of the log. *)
Definition c11_routing_slot_link_full : Prop := forall g s, reach g s ->
  NoDup (map snd (s_idxlog s)) -> forall p m, In (p, m) (s_rlog s) -> p_ocl m = pn_cl p.
Theorem c11_routing_slot_link : c11_routing_slot_link_full.
Proof. intros g s H Hn p m Hin. exact (proj2 (routing_slot_link g s H Hn p m Hin)). Qed.
Print Assumptions c11_routing_slot_link.
Theorem c11_routing_no_slot_reuse : forall g s, reach g s -> NoDup (map snd (s_idxlog s)) ->
  (forall p m, In (p, m) (s_rlog s) -> p_rid m = q_rid (pn_msg p) /\ p_ocl m = pn_cl p) /\ reach_ok g s.
Proof. intros g s H Hn. split; [exact (routing_slot_link g s H Hn)|exact (proj1 (slot_link g s H Hn))]. Qed.
Print Assumptions c11_routing_no_slot_reuse.
Example c11_routing_slot_link_nonvacuous :
  reach cfg3 (run cfg3 (w_reuse ++ [Pr 0])) /\ NoDup (map snd (s_idxlog (run cfg3 (w_reuse ++ [Pr 0])))) /\
  length (s_rlog (run cfg3 (w_reuse ++ [Pr 0]))) = 1%nat /\
  map snd (s_idxlog (run cfg1 w_routing)) = [0; 0].
Proof. split; [apply reach_run|]. split; [exact (proj1 w_reuse_no_slot_reuse)|]. split; [exact (proj2 w_reuse_no_slot_reuse)|exact w_routing_slot_reuse]. Qed.
Print Assumptions c11_routing_slot_link_nonvacuous.

(* ---- order / at most once -------------------------------------------------------------------- *)
(* Every response gets a stamp from the global counter at the moment ResponseMut::send delivers
   it (stamps = send order).  In every reachable state the receive log of a pending response,
   restricted to one server, has strictly increasing stamps: the responses of one server arrive
   through a PendingResponse in the order they were sent, and none arrives twice.  Invariant
   (proofs/ReqResOrder.v oi): in every channel queue the stamps strictly increase, are below the
   counter and above the stamps of everything the same (client, server, channel) handed out
   before -- across channel recycling, overflow eviction, discarded stale responses, expired
   connections. *)
Definition c11_routing_order_full : Prop := forall g s, reach g s ->
  forall l1 p m1 l2 m2, s_rlog s = l1 ++ (p, m1) :: l2 -> In (p, m2) l2 -> p_sv m2 = p_sv m1 -> p_stamp m1 < p_stamp m2.
Theorem c11_routing_order : c11_routing_order_full.
Proof. exact routing_order. Qed.
Print Assumptions c11_routing_order.
Example c11_routing_order_nonvacuous :
  reach cfg3 (run cfg3 w_two) /\
  map (fun pm => (q_hid (pn_msg (fst pm)), p_val (snd pm), p_stamp (snd pm))) (s_rlog (run cfg3 w_two)) = [(0, 0, 6); (0, 1, 8)].
Proof. split; [apply reach_run|exact w_two_spec]. Qed.
Print Assumptions c11_routing_order_nonvacuous.

(* ---- a request is never visible to a server before its response channel is open ---------------- *)
(* send_request opens the response channel (set_channel_state) BEFORE deliver_offset.  The
   correspondence alphabet has a send whose client-side backpressure handler lets a server poll
   in the middle of the delivery (model/ReqRes.v stepx, XQh); kernel-evaluated on the model: the
   request that already sits in the buffer of the polling server comes out as a connected
   ActiveRequest (with the opposite order of the two steps it would be discarded as stale). The
   invariant theorems of this file are about the 20 operations of `step`; the scripted send is
   covered by the correspondence runs and this evaluation only. *)
Example c11_request_visible_only_after_channel_open :
  let s := run cfg5 w_bph_pre in
  let r := stepx cfg5 ord_all ord_all s (XQh 0 0) in
  reach cfg5 s /\ snd r = OQh (OOkN 1) (Some (Some (true, OAct 1 1 1))) /\
  digest_p (fst r) = [(1, true, false)] /\ digest_a (fst r) = [(1, 0, true, false)].
Proof. split; [apply reach_run|exact w_bph_spec]. Qed.
Print Assumptions c11_request_visible_only_after_channel_open.

(* ---- requests: in send order, at most once per server ------------------------------------------ *)
(* Every request gets a stamp from the global counter at the moment send_request delivers it.
   In every reachable state the receive log of a server, restricted to one client, has strictly
   increasing stamps: a server receives the requests of a client in the order they were sent and
   never the same request twice (the recipient count returned by send says how many servers
   accepted it; a request that was not accepted, was evicted by overflow, or whose server or
   client went away is received by nobody -- "exactly once" is not a safety property).
   Invariant (proofs/ReqResOnce.v ri): in every request queue the stamps strictly increase, are
   below the counter and above everything the server already received from that client; the
   connection table has at most one connection per (client, server) pair. *)
Definition c11_request_once_full : Prop := forall g s, reach g s ->
  forall l1 sv m1 l2 m2, s_slog s = l1 ++ (sv, m1) :: l2 -> In (sv, m2) l2 -> q_cl m2 = q_cl m1 -> q_stamp m1 < q_stamp m2.
Theorem c11_request_once : c11_request_once_full.
Proof. exact request_once. Qed.
Print Assumptions c11_request_once.
Example c11_request_once_nonvacuous :
  reach cfg4 (run cfg4 w_two_req) /\
  map (fun x => (fst x, q_cl (snd x), q_hid (snd x), q_stamp (snd x))) (s_slog (run cfg4 w_two_req)) = [(1, 0, 0, 3); (1, 0, 1, 5)].
Proof. split; [apply reach_run|exact w_two_req_spec]. Qed.
Print Assumptions c11_request_once_nonvacuous.
Theorem c11_connection_table_unique : forall g s, reach g s -> NoDup (map (fun k => (k_cl k, k_sv k)) (s_conns s)).
Proof. exact conn_keys_unique. Qed.
Print Assumptions c11_connection_table_unique.
(* NOT proved (visible on purpose): conservation of the reference counts (stored counter =
   holders + queued + borrowed + not yet reclaimed; model/ReqRes.v cons_okb).  Tied by the
   correspondence runs: the driver evaluates cons_okb on every model state of every history (and
   LoanError::OutOfMemory, which depends on the counts, is compared with the implementation). *)
Definition c11_reqres_conservation_full : Prop := forall g s, reach g s -> cons_okb s = true.
