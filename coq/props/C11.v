(* C11 -- request-response: responses reach exactly the request they answer. Statements only. *)
From V Require Import model.Base model.ReqRes proofs.ReqResProofs.
Open Scope N_scope.

Theorem c11_cas_spec : forall cur e n, cas cur e n = if N.eqb cur e then (n, true) else (cur, false).
Proof. exact cas_spec. Qed.
Print Assumptions c11_cas_spec.
