(* C04 -- Crash at any instant: survivor cleanup restores a clean, usable system.
   Statements only.  What is PROVED here is the abstract cleanup argument over model/Lifecycle.v (worlds =
   sets of named resources, operations = step lists in the code's order, cleanup = the walk of
   remove_stale_resources); the property itself is decided by fault enumeration on the real code
   (tools/checks/C04.py).  Resource creation is atomic in this model; the enumeration shows where the
   code is not (see tools/claims/C04.json). *)
From V Require Import model.Base model.Lifecycle proofs.LifecycleProofs.

(* A crash behind ANY prefix (k is universally quantified, proved by induction over the step list) of a
   step list that keeps the guard discipline, followed by the cleanup of node n: nothing whose owner set
   is {n} remains, and every resource with another owner set is still there. *)
Theorem c04_crash_prefix_clean : forall n w sts k,
  disc n w sts = true ->
  let w' := crash k sts w in
  (forall r, In r (cleanup n w') -> solely n w' r = false) /\
  (forall r, In r w' -> solely n w' r = false -> In r (cleanup n w')) /\
  (forall r, In r (cleanup n w') -> In r w').
Proof.
  intros n w sts k H w'. pose proof (disc_prefix n sts w k H) as I. fold w' in I. repeat split.
  - intros r. now apply cleanup_complete.
  - intros r. apply cleanup_frame.
  - intros r. apply cleanup_subset.
Qed.
Print Assumptions c04_crash_prefix_clean.

(* ---- c04_tag_first_entry_last: the step lists AS TRANSCRIBED keep the discipline, for every well-formed
   world (any other nodes, services, ports), every port kind, any number of connections ---- *)
Theorem c04_tag_first_entry_last_port_create : forall k n s p conns w,
  inv n w = true -> mem (Tok n) w = true -> mem (STag n s) w = true ->
  (forall c, In c conns -> conn_of n p c = true) ->
  disc n w (port_create k n s p conns) = true.
Proof. exact port_create_disc. Qed.
Print Assumptions c04_tag_first_entry_last_port_create.

Theorem c04_tag_first_entry_last_port_drop : forall k n s p conns w,
  inv n w = true -> mem (PTag n p) w = true ->
  (forall c, In c conns -> leaf c = true) ->
  (forall x, In x w -> uses_port n p x = true -> solely n w x = true ->
             (x = Data n p /\ has_data k = true) \/ In x conns) ->
  disc n w (port_drop k n s p conns) = true.
Proof. exact port_drop_disc. Qed.
Print Assumptions c04_tag_first_entry_last_port_drop.

Theorem c04_tag_first_entry_last_svc_open : forall n s w,
  inv n w = true -> mem (Tok n) w = true -> disc n w (svc_open n s) = true.
Proof. exact svc_open_disc. Qed.
Print Assumptions c04_tag_first_entry_last_svc_open.

Theorem c04_tag_first_entry_last_svc_create : forall n s extra w,
  inv n w = true -> mem (Tok n) w = true -> disc n w (svc_create n s extra) = true.
Proof. exact svc_create_disc. Qed.
Print Assumptions c04_tag_first_entry_last_svc_create.

Theorem c04_tag_first_entry_last_node_drop : forall n w,
  inv n w = true -> (forall x, In x w -> solely n w x = true -> x = Det n \/ x = Tok n) ->
  disc n w (node_drop n) = true.
Proof. exact node_drop_disc. Qed.
Print Assumptions c04_tag_first_entry_last_node_drop.

(* non-vacuity: a world with a survivor (node 0: service 1, subscriber 100) and node 1 about to create a
   publisher that connects to it; every hypothesis holds, and the crash after 3 of the 4 steps leaves a
   data segment and a connection that the cleanup removes while the survivor's resources stay *)
Definition ex_w : world :=
  [RegP 1 0 100; PTag 0 100; RegN 1 1; STag 1 1; RegN 1 0; Dyn 1; Stat 1; STag 0 1; Det 1; Tok 1; Det 0; Tok 0].
Example c04_tag_first_entry_last_nonvacuous :
  inv 1 ex_w = true /\ mem (Tok 1) ex_w = true /\ mem (STag 1 1) ex_w = true /\
  (forall c, In c [Conn 1 1 0 100] -> conn_of 1 1 c = true) /\
  let w' := crash 3 (port_create KPub 1 1 1 [Conn 1 1 0 100]) ex_w in
  mem (Data 1 1) w' = true /\ mem (Conn 1 1 0 100) w' = true /\ mem (RegP 1 1 1) w' = false /\
  mem (Data 1 1) (cleanup 1 w') = false /\ mem (PTag 1 1) (cleanup 1 w') = false /\ mem (Tok 1) (cleanup 1 w') = false /\
  mem (Conn 1 1 0 100) (cleanup 1 w') = true /\ mem (Stat 1) (cleanup 1 w') = true /\ mem (RegP 1 0 100) (cleanup 1 w') = true.
Proof.
  repeat split; try (vm_compute; reflexivity).
  intros c [<-|[]]. reflexivity.
Qed.
Print Assumptions c04_tag_first_entry_last_nonvacuous.

Example c04_crash_prefix_clean_nonvacuous :
  disc 1 ex_w (port_create KPub 1 1 1 [Conn 1 1 0 100]) = true /\
  disc 1 (apply (port_create KPub 1 1 1 [Conn 1 1 0 100]) ex_w) (port_drop KPub 1 1 1 [Conn 1 1 0 100]) = true.
Proof. split; vm_compute; reflexivity. Qed.
Print Assumptions c04_crash_prefix_clean_nonvacuous.

(* ---- the full statement "every lifecycle operation as transcribed keeps the discipline" is FALSE of the
   faithful model: node creation writes the node directory and details file BEFORE the monitoring token
   exists, and ServiceState::drop removes the service tag FIRST.  Both witnesses are reproduced on the
   real code by the enumeration (residue that no cleanup ever finds). ---- *)
Definition c04_tag_first_entry_last_full : Prop :=
  (forall n w, inv n w = true -> disc n w (node_create n) = true) /\
  (forall n s extra last w, inv n w = true -> mem (Tok n) w = true -> disc n w (svc_drop n s extra last) = true).

Theorem c04_tag_first_entry_last_refuted : ~ c04_tag_first_entry_last_full.
Proof.
  intros [H _]. pose proof (H 1 [] eq_refl) as E. destruct node_create_breaks as [_ B]. congruence.
Qed.
Print Assumptions c04_tag_first_entry_last_refuted.

Theorem c04_svc_drop_order_refuted :
  ~ (forall n s extra last w, inv n w = true -> mem (Tok n) w = true -> disc n w (svc_drop n s extra last) = true).
Proof.
  intros H. destruct svc_drop_breaks as [I B]. rewrite (H 1 1 false true w_svc_last I eq_refl) in B. discriminate.
Qed.
Print Assumptions c04_svc_drop_order_refuted.

(* the concrete consequence for the property: a crash after the first step of node creation / of the last
   user's service drop leaves resources that are solely the dead node's and that cleanup does not remove *)
Definition c04_crash_prefix_clean_full : Prop :=
  forall n w sts k, inv n w = true ->
    (sts = node_create n \/ exists s e l, sts = svc_drop n s e l) ->
    forall r, In r (cleanup n (crash k sts w)) -> solely n (crash k sts w) r = false.

Theorem c04_crash_prefix_clean_refuted : ~ c04_crash_prefix_clean_full.
Proof.
  intros H. specialize (H 1 [] (node_create 1) 1 eq_refl (or_introl eq_refl) (Det 1)).
  vm_compute in H. specialize (H (or_introl eq_refl)). discriminate.
Qed.
Print Assumptions c04_crash_prefix_clean_refuted.

Theorem c04_crash_prefix_clean_refuted_svc_drop :
  In (Stat 1) (cleanup 1 (crash 1 (svc_drop 1 1 false true) w_svc_last)) /\
  solely 1 (crash 1 (svc_drop 1 1 false true) w_svc_last) (Stat 1) = true.
Proof. split; vm_compute; auto 10. Qed.
Print Assumptions c04_crash_prefix_clean_refuted_svc_drop.

(* ... and the order that repairs node creation satisfies the discipline (partial result) *)
Theorem c04_tag_first_entry_last_partial_node_create_fixed : forall n w,
  inv n w = true -> disc n w (node_create_fixed n) = true.
Proof. exact node_create_fixed_disc. Qed.
Print Assumptions c04_tag_first_entry_last_partial_node_create_fixed.

(* ---- service OPEN: the node's service tag is created before its registry entry.  Crash behind any prefix of the
   open (k universally quantified): the cleanup leaves nothing of the dead node, in particular no registry entry,
   in every world in which the node exists ---- *)
Theorem c04_open_crash_clean : forall n s w k,
  inv n w = true -> mem (Tok n) w = true ->
  let w' := crash k (svc_open n s) w in
  (forall r, In r (cleanup n w') -> solely n w' r = false) /\ mem (RegN s n) (cleanup n w') = false.
Proof.
  intros n s w k Hi T w'.
  pose proof (c04_crash_prefix_clean n w (svc_open n s) k (svc_open_disc n s w Hi T)) as [H _]. fold w' in H.
  split; [exact H|]. destruct (mem (RegN s n) (cleanup n w')) eqn:E; auto.
  apply mem_In in E. apply H in E. cbn in E. rewrite Nat.eqb_refl in E. discriminate.
Qed.
Print Assumptions c04_open_crash_clean.

(* the inverted order (registry entry first) does not keep the discipline: behind its first step the registry entry
   of the dead node survives the cleanup for ever (the slot of the service's node table is lost) *)
Theorem c04_open_registry_before_tag_refuted :
  ~ (forall n s w, inv n w = true -> mem (Tok n) w = true -> disc n w (svc_open_swapped n s) = true).
Proof.
  intros H. destruct svc_open_swapped_breaks as [I [T B]]. rewrite (H 1 1 w_open I T) in B. discriminate.
Qed.
Print Assumptions c04_open_registry_before_tag_refuted.

Theorem c04_open_registry_before_tag_leaks :
  let w' := crash 1 (svc_open_swapped 1 1) w_open in
  mem (RegN 1 1) (cleanup 1 w') = true /\ solely 1 w' (RegN 1 1) = true /\ mem (Tok 1) (cleanup 1 w') = false.
Proof. vm_compute. repeat split; reflexivity. Qed.
Print Assumptions c04_open_registry_before_tag_leaks.

(* ---- cleanup can be repeated: a second cleanup after a completed one changes nothing ---- *)
Theorem c04_cleanup_idempotent : forall n w, cleanup n (cleanup n w) = cleanup n w.
Proof. exact cleanup_idempotent. Qed.
Print Assumptions c04_cleanup_idempotent.

(* ---- second crash: the cleaner itself dies behind ANY prefix of its removal list (order of the code:
   port resources, registry entries, port tags, node entry, service, service tags, node details, token
   last); a second, complete cleanup then yields exactly the result of one undisturbed cleanup. ---- *)
Theorem c04_double_crash : forall n w k,
  cleanup n (crash k (cleanup_steps n w) w) = cleanup n w.
Proof. exact double_crash. Qed.
Print Assumptions c04_double_crash.

Theorem c04_cleanup_steps_sound : forall n w, apply (cleanup_steps n w) w = cleanup n w.
Proof. exact apply_cleanup_steps. Qed.
Print Assumptions c04_cleanup_steps_sound.

Example c04_double_crash_nonvacuous :
  let w := apply (port_create KPub 1 1 1 [Conn 1 1 1 7]) ex_w in
  length (cleanup_steps 1 w) = 8 /\
  mem (Tok 1) (crash 5 (cleanup_steps 1 w) w) = true /\ mem (Data 1 1) (crash 5 (cleanup_steps 1 w) w) = false /\
  cleanup 1 (crash 5 (cleanup_steps 1 w) w) = cleanup 1 w /\ mem (Tok 0) (cleanup 1 w) = true /\ mem (Stat 1) (cleanup 1 w) = true.
Proof. vm_compute. repeat split; reflexivity. Qed.
Print Assumptions c04_double_crash_nonvacuous.
