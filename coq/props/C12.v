(* C12 -- blackboard reads are atomic and monotone; one writer at a time.  Statements only.

   Sequence lock (UnrestrictedAtomic, model/SeqLock.v).  `fstep` is the FINE model: one step =
   one atomic access, one UnsafeCell::get, or ONE BYTE of a value copy; any number of threads,
   any schedule (list of thread ids), any value size n, sequentially consistent interleaving.
   `step` is the coarse model the G1 gate observes (a copy rides on the preceding gated access);
   it is a projection of the fine one (c12_coarse_is_projection).
   Explicit hypothesis of every theorem: fewer than 2^64 images have been published
   (`lenN (written g) < W64`), i.e. the u64 write_cell counter has not wrapped.
   `written g` (ghost) = images made current by the successive fetch_adds, element 0 = initial value.
   `loads l` (ghost) = (write_cell at the load's first access, validated write_cell, returned bytes)
   of every completed load of that thread, newest first. *)
From V Require Import model.Base model.Conc model.Events model.SeqLock proofs.SeqLockConc proofs.SeqLockProofs.
From V Require model.Blackboard proofs.BlackboardProofs.
From V Require model.SeqLockRA proofs.SeqLockRAProofs.
From Coq Require Import Sorted.
Open Scope N_scope.

(* a returning load yields exactly nth (w-1) written for the w it validated: one whole published
   image, never a mixture, whatever the size and however often the writer lapped the copy *)
Theorem c12_atomic : forall n v0 progs g ls t w0 w v,
  reachable fstep (init n v0 progs) (g, ls) -> lenN (written g) < W64 ->
  In (w0, w, v) (loads (ls t)) ->
  1 <= w /\ nth_error (written g) (N.to_nat (w - 1)) = Some v.
Proof. exact sl_atomic. Qed.
Print Assumptions c12_atomic.

(* the cell designated by write_cell holds the last published image at every instant (a store
   in progress, a discarded loan, a half-written spare cell never disturb it) *)
Theorem c12_current_intact : forall n v0 progs g ls,
  reachable fstep (init n v0 progs) (g, ls) -> lenN (written g) < W64 ->
  lenN (written g) = wc g /\ 1 <= wc g /\ current g = nth (N.to_nat (wc g - 1)) (written g) [] /\
  length (current g) = n.
Proof. exact sl_current. Qed.
Print Assumptions c12_current_intact.

(* successive loads of one reader validate non-decreasing write_cell values: never back to an
   older value *)
Theorem c12_monotone : forall n v0 progs g ls t,
  reachable fstep (init n v0 progs) (g, ls) -> lenN (written g) < W64 ->
  StronglySorted N.le (validated (ls t)).
Proof. exact sl_monotone. Qed.
Print Assumptions c12_monotone.

(* a load returns nothing older than what was current when it began (w0 = number of images
   published at its first access), and the next load of the same thread begins at least there *)
Theorem c12_fresh : forall n v0 progs g ls t,
  reachable fstep (init n v0 progs) (g, ls) -> lenN (written g) < W64 ->
  (forall w0 w v, In (w0, w, v) (loads (ls t)) -> w0 <= w /\ w <= wc g) /\
  (forall pre newer older post, loads (ls t) = pre ++ newer :: older :: post ->
     snd (fst older) <= fst (fst newer)).
Proof. exact sl_fresh. Qed.
Print Assumptions c12_fresh.

(* acquire_producer succeeds for at most one holder at a time; only the holder is ever inside a
   store / loan; has_producer is false only while somebody holds; once nobody holds it is true again *)
Theorem c12_single_writer : forall n v0 progs g ls,
  reachable fstep (init n v0 progs) (g, ls) -> lenN (written g) < W64 ->
  (forall t t', holdsP (ls t) = true -> holdsP (ls t') = true -> t = t') /\
  (forall t, writing (at_pc (ls t)) = true -> holdsP (ls t) = true) /\
  (hasP g = false -> exists t, holdsP (ls t) = true) /\
  ((forall t, holdsP (ls t) = false) -> hasP g = true).
Proof. exact sl_single_writer. Qed.
Print Assumptions c12_single_writer.

(* ... and with the flag set the next acquire_producer succeeds; with the flag cleared it fails
   and changes nothing *)
Theorem c12_acquire_when_free : forall t g l p,
  hasP g = true -> at_pc l = Idle -> prog l = OAcq :: p ->
  exists g' l' e, fstep t g l = Some (g', l', e) /\ holdsP l' = true /\ hasP g' = false /\ In (ERet 1) e.
Proof. exact sl_acquire_succeeds. Qed.
Print Assumptions c12_acquire_when_free.

Theorem c12_acquire_when_held_fails : forall t g l p,
  hasP g = false -> at_pc l = Idle -> prog l = OAcq :: p ->
  exists l' e, fstep t g l = Some (g, l', e) /\ holdsP l' = holdsP l /\ In (ERet 0) e.
Proof. exact sl_acquire_fails. Qed.
Print Assumptions c12_acquire_when_held_fails.

(* the two cells computed by __internal_get_data_cell for an aligned data_ptr: disjoint, aligned,
   inside the 2 * align(size, alignment) reserved bytes; the cell only depends on counter mod 2
   and consecutive counter values designate different cells.  All sizes >= 1, all alignments >= 1
   (in particular every power of two: c12_cells_disjoint) *)
Theorem c12_cells_disjoint_general : forall size al ptr,
  1 <= size -> al <> 0 -> ptr mod al = 0 ->
  let a0 := data_cell size al ptr 0 in
  let a1 := data_cell size al ptr 1 in
  a0 = ptr /\ a1 = ptr + align size al /\
  a0 + size <= a1 /\ a1 + size <= ptr + reserved size al /\
  a0 mod al = 0 /\ a1 mod al = 0 /\
  (forall c, data_cell size al ptr c = if N.eqb (c mod 2) 0 then a0 else a1) /\
  (forall w, 1 <= w -> data_cell size al ptr w <> data_cell size al ptr (w - 1)).
Proof. exact sl_cells_disjoint. Qed.
Print Assumptions c12_cells_disjoint_general.

Theorem c12_cells_disjoint : forall size k ptr,
  1 <= size -> ptr mod 2 ^ k = 0 ->
  let al := 2 ^ k in
  let a0 := data_cell size al ptr 0 in
  let a1 := data_cell size al ptr 1 in
  a0 + size <= a1 /\ ptr <= a0 /\ a1 + size <= ptr + reserved size al /\ a0 mod al = 0 /\ a1 mod al = 0.
Proof. exact sl_cells_disjoint_pow2. Qed.
Print Assumptions c12_cells_disjoint.

Example c12_cells_disjoint_nonvacuous :
  data_cell 3 8 16 0 = 16 /\ data_cell 3 8 16 1 = 24 /\ reserved 3 8 = 16 /\
  data_cell 129 1 1000 5 = 1129 /\ data_cell 129 1 1000 4 = 1000 /\ 16 mod 2 ^ 3 = 0.
Proof. vm_compute. repeat split; reflexivity. Qed.
Print Assumptions c12_cells_disjoint_nonvacuous.

(* the coarse (gate granular) model is a projection of the fine one: every coarse run is a fine
   run with the same trace and the same final state (thread-local states pointwise) *)
Theorem c12_coarse_is_projection : forall s c,
  exists s', ceq (fst (run fstep s' c)) (fst (run step s c)) /\ snd (run fstep s' c) = snd (run step s c).
Proof. exact coarse_run_is_fine_run. Qed.
Print Assumptions c12_coarse_is_projection.

(* hence the theorems hold of every state the extracted (coarse) model reaches in the G1 tie *)
Theorem c12_coarse : forall n v0 progs g ls t,
  reachable step (init n v0 progs) (g, ls) -> lenN (written g) < W64 ->
  (forall w0 w v, In (w0, w, v) (loads (ls t)) -> 1 <= w /\ nth_error (written g) (N.to_nat (w - 1)) = Some v) /\
  StronglySorted N.le (validated (ls t)) /\
  (forall t', holdsP (ls t) = true -> holdsP (ls t') = true -> t = t') /\
  current g = nth (N.to_nat (wc g - 1)) (written g) [].
Proof. exact sl_coarse. Qed.
Print Assumptions c12_coarse.

(* non-vacuity: the writer laps the reader in the middle of a 2-byte copy; the reader's private
   buffer then holds the mixture [7;2] of two values -- the validation rejects it and the load
   returns the whole value [1;1] for the validated counter 2 *)
Example c12_nonvacuous :
  let ca := fst (run fstep lap_sched_a (init 2 [7; 7] lap_progs)) in
  let cb := fst (run fstep lap_sched_b (init 2 [7; 7] lap_progs)) in
  reachable fstep (init 2 [7; 7] lap_progs) ca /\ reachable fstep (init 2 [7; 7] lap_progs) cb /\
  at_pc (snd ca 1%nat) = RCas 1 1 [7; 2] /\ wc (fst ca) = 2 /\
  loads (snd cb 1%nat) = [(1, 2, [1; 1])] /\ written (fst cb) = [[7; 7]; [1; 1]; [2; 2]] /\
  lenN (written (fst cb)) < W64.
Proof. exact lap_witness. Qed.
Print Assumptions c12_nonvacuous.

(* non-vacuity of the single-writer clauses: a losing acquire_producer (ERet 0), a hand-over *)
Example c12_single_writer_nonvacuous :
  let c := fst (run fstep ho_sched (init 1 [7] ho_progs)) in
  reachable fstep (init 1 [7] ho_progs) c /\
  holdsP (snd c 0%nat) = false /\ holdsP (snd c 1%nat) = true /\ written (fst c) = [[7]; [1]; [2]] /\
  snd (run fstep [0; 1]%nat (init 1 [7] ho_progs)) =
    [(0%nat, EAcc 1 B_HASP 0 KCas Acquire Relaxed 1 0 true); (0%nat, ERet 1);
     (1%nat, EAcc 1 B_HASP 0 KCas Acquire Relaxed 0 0 false); (1%nat, ERet 0)].
Proof. exact ho_witness. Qed.
Print Assumptions c12_single_writer_nonvacuous.

(* A clause that is FALSE of the faithful model: "a byte read never targets the cell a byte write
   targets".  A lapped reader keeps copying from the cell the writer has started to overwrite
   (a plain, non-atomic read racing a plain write; the result is discarded by the validation).
   Kept visible, refuted by a concrete schedule, and the strongest true part proved: a reader
   whose snapshot is still valid (w = write_cell) never touches the writer's cell. *)
Definition c12_no_racy_read_full : Prop := sl_no_racy_read_full.

Theorem c12_no_racy_read_refuted : ~ c12_no_racy_read_full.
Proof. exact sl_no_racy_read_refuted. Qed.
Print Assumptions c12_no_racy_read_refuted.

Theorem c12_no_racy_read_partial : forall n v0 progs g ls t t' m v w i w0 w' buf j,
  reachable fstep (init n v0 progs) (g, ls) -> lenN (written g) < W64 ->
  at_pc (ls t) = WByte m v w i -> at_pc (ls t') = RByte w0 w' buf j -> w' = wc g ->
  w mod 2 <> (w' - 1) mod 2.
Proof. exact sl_valid_read_no_conflict. Qed.
Print Assumptions c12_no_racy_read_partial.

(* ---------------- API level: writer port / per-key write handle uniqueness ----------------
   model/Blackboard.v: sequential model of the blackboard registry as the public API drives it
   (Writer::new / add_writer_id with max_writers = 1, Writer::entry -> acquire_producer,
   drops, updates, loans, readers); `reach mr init h` = state after history h (any list of
   operations) of a service with max_readers mr and entries init. *)
Module BB.
Import V.model.Blackboard V.proofs.BlackboardProofs.
Local Open Scope nat_scope.

(* at most one writer port exists at a time *)
Theorem c12_bb_single_writer_port : forall mr init h, let s := reach mr init h in
  nwriters s <= max_writers /\ live_writers s <= nwriters s.
Proof. exact bb_single_writer_port. Qed.

Theorem c12_bb_at_most_one_writer : forall mr init h, live_writers (reach mr init h) <= 1.
Proof. exact bb_at_most_one_writer. Qed.

(* at most one write handle per key *)
Theorem c12_bb_single_handle_per_key : forall mr init h k, live_handles_on (reach mr init h) k <= 1.
Proof. exact bb_single_handle_per_key. Qed.

(* creating a second one fails without disturbing the first: a refused creation changes nothing,
   and the holder's next update succeeds and is what every reader of that key gets *)
Theorem c12_bb_failed_create_no_effect : forall s o,
  is_create o = true -> is_failure (snd (step s o)) = true -> fst (step s o) = s.
Proof. exact bb_failed_create_no_effect. Qed.

Theorem c12_bb_first_holder_undisturbed : forall mr init h o hd hr v x xr, let s := reach mr init h in
  is_create o = true -> is_failure (snd (step s o)) = true ->
  nth_error (whs s) hd = Some hr -> h_st hr = HIdle ->
  nth_error (rhs s) x = Some xr -> x_live xr = true -> x_k xr = h_k hr ->
  let s1 := fst (step s o) in let s2 := fst (step s1 (UpdateWithCopy hd v)) in
  s1 = s /\ snd (step s1 (UpdateWithCopy hd v)) = OOk /\ exists g, snd (step s2 (Get x)) = OValue v g.
Proof. exact bb_first_holder_undisturbed. Qed.

(* once the holder is gone, creation succeeds again (the writer slot is kept until the last
   EntryHandleMut made by a dropped Writer is gone: Arc<WriterSharedState>) *)
Theorem c12_bb_release_reenables : forall mr init h i w, let s := reach mr init h in
  nth_error (writers s) i = Some w -> w_obj w = true -> live_handles_of s i = 0 ->
  snd (step s (DropWriter i)) = OOk /\
  snd (step (fst (step s (DropWriter i))) CreateWriter) = OId (length (writers s)).
Proof. exact bb_release_reenables. Qed.

Theorem c12_bb_writer_creatable_when_free : forall mr init h, let s := reach mr init h in
  live_writers s = 0 -> live_handles s = 0 -> snd (step s CreateWriter) = OId (length (writers s)).
Proof. exact bb_writer_creatable_when_free. Qed.

Theorem c12_bb_release_reenables_handle : forall mr init h hd hr i w e, let s := reach mr init h in
  nth_error (whs s) hd = Some hr -> h_live hr = true -> nth_error (writers s) i = Some w -> w_obj w = true ->
  nth_error (entries s) (h_k hr) = Some e ->
  snd (step s (DropHandleMut hd)) = OOk /\
  snd (step (fst (step s (DropHandleMut hd))) (WriterEntry i (h_k hr) (e_ty e))) = OId (length (whs s)).
Proof. exact bb_release_reenables_handle. Qed.

(* every run of the concrete model is accepted by the reference specification (the oracle the
   check runs on the implementation's own observations) *)
Theorem c12_bb_refines_spec : forall mr init h,
  sp_accepts (sp_new mr init) h (snd (run (bb_new mr init) h)) = true.
Proof. exact bb_refines_spec. Qed.

Theorem c12_bb_digest_ok : forall mr init h, let s := reach mr init h in
  sp_digest_ok (abs s) (nwriters s) (nreaders s) = true.
Proof. exact bb_digest_ok. Qed.

Example c12_bb_single_writer_port_nonvacuous :
  let s := reach 1 ex_init [CreateWriter] in
  live_writers s = 1 /\ nwriters s = max_writers /\
  snd (step s CreateWriter) = OWriterErr ExceedsMaxSupportedWriters.
Proof. exact bb_single_writer_port_nonvacuous. Qed.

Example c12_bb_single_handle_per_key_nonvacuous :
  let s := reach 1 ex_init [CreateWriter; WriterEntry 0 0 0] in
  live_handles_on s 0 = 1 /\ snd (step s (WriterEntry 0 0 0)) = OHandleMutErr HM_HandleAlreadyExists /\
  snd (step s (WriterEntry 0 1 1)) = OId 1.
Proof. exact bb_single_handle_per_key_nonvacuous. Qed.

Example c12_bb_first_holder_undisturbed_nonvacuous :
  let s := reach 1 ex_init [CreateWriter; WriterEntry 0 0 0; CreateReader; ReaderEntry 0 0 0] in
  is_create CreateWriter = true /\ is_failure (snd (step s CreateWriter)) = true /\
  (exists hr, nth_error (whs s) 0 = Some hr /\ h_st hr = HIdle /\
   exists xr, nth_error (rhs s) 0 = Some xr /\ x_live xr = true /\ x_k xr = h_k hr) /\
  snd (run s [CreateWriter; WriterEntry 0 0 0; UpdateWithCopy 0 77; Get 0]) =
    [OWriterErr ExceedsMaxSupportedWriters; OHandleMutErr HM_HandleAlreadyExists; OOk; OValue 77 2].
Proof. exact bb_first_holder_undisturbed_nonvacuous. Qed.

Example c12_bb_release_reenables_nonvacuous :
  let s := reach 1 ex_init [CreateWriter; CreateWriter] in
  (exists w, nth_error (writers s) 0 = Some w /\ w_obj w = true) /\ live_handles_of s 0 = 0 /\
  snd (run (bb_new 1 ex_init) [CreateWriter; CreateWriter; DropWriter 0; CreateWriter]) =
    [OId 0; OWriterErr ExceedsMaxSupportedWriters; OOk; OId 1].
Proof. exact bb_release_reenables_nonvacuous. Qed.

Example c12_bb_release_reenables_needs_no_handle :
  snd (run (bb_new 1 ex_init) [CreateWriter; WriterEntry 0 0 0; DropWriter 0; CreateWriter; UpdateWithCopy 0 5;
                               DropHandleMut 0; CreateWriter]) =
    [OId 0; OId 0; OOk; OWriterErr ExceedsMaxSupportedWriters; OOk; OOk; OId 1].
Proof. exact bb_release_reenables_needs_no_handle. Qed.

Example c12_bb_writer_creatable_when_free_nonvacuous :
  let s := reach 1 ex_init [CreateWriter; WriterEntry 0 1 1; DropWriter 0; DropHandleMut 0] in
  live_writers s = 0 /\ live_handles s = 0 /\ snd (step s CreateWriter) = OId 1.
Proof. exact bb_writer_creatable_when_free_nonvacuous. Qed.

Example c12_bb_release_reenables_handle_nonvacuous :
  let s := reach 1 ex_init [CreateWriter; WriterEntry 0 1 1; LoanUninit 0] in
  (exists hr, nth_error (whs s) 0 = Some hr /\ h_live hr = true /\ h_k hr = 1 /\
   exists e, nth_error (entries s) 1 = Some e /\ e_ty e = 1%N) /\
  (exists w, nth_error (writers s) 0 = Some w /\ w_obj w = true) /\
  snd (run s [WriterEntry 0 1 1; DropHandleMut 0; WriterEntry 0 1 1]) =
    [OHandleMutErr HM_HandleAlreadyExists; OOk; OId 1].
Proof. exact bb_release_reenables_handle_nonvacuous. Qed.
End BB.
Print Assumptions BB.c12_bb_single_writer_port.
Print Assumptions BB.c12_bb_at_most_one_writer.
Print Assumptions BB.c12_bb_single_handle_per_key.
Print Assumptions BB.c12_bb_failed_create_no_effect.
Print Assumptions BB.c12_bb_first_holder_undisturbed.
Print Assumptions BB.c12_bb_release_reenables.
Print Assumptions BB.c12_bb_writer_creatable_when_free.
Print Assumptions BB.c12_bb_release_reenables_handle.
Print Assumptions BB.c12_bb_refines_spec.
Print Assumptions BB.c12_bb_digest_ok.
Print Assumptions BB.c12_bb_single_writer_port_nonvacuous.
Print Assumptions BB.c12_bb_single_handle_per_key_nonvacuous.
Print Assumptions BB.c12_bb_first_holder_undisturbed_nonvacuous.
Print Assumptions BB.c12_bb_release_reenables_nonvacuous.
Print Assumptions BB.c12_bb_release_reenables_needs_no_handle.
Print Assumptions BB.c12_bb_writer_creatable_when_free_nonvacuous.
Print Assumptions BB.c12_bb_release_reenables_handle_nonvacuous.

(* ---------------- the sequence lock under release/acquire semantics ---------------- *)
Module SLRA.
Import V.model.SeqLockRA V.proofs.SeqLockRAProofs.

(* With the four memory orderings of the code (sl_ords_code, i.e. after the repair 0bff03d; pinned
   against the implementation by the trace comparison on every run), when every load and every
   FAILED compare-exchange of write_cell may return an arbitrarily stale value (oracle) and only
   acquire reads of release read-modify-writes transfer visibility: no byte that is used (copied
   by a load that validates, or overwritten after a validated load copied it) is accessed
   racily, every returned load is exactly the image its validated write_cell value designates,
   and a thread's validated values never decrease; for every value size, any number of
   threads, every schedule and oracle, within the 2^64 bound of the counter. *)
Theorem c12_slra_atomic_monotone_used_race_free : forall n v0 orc progs g ls,
  reachable (sstep sl_ords_code) (sinit n v0 orc progs) (g, ls) -> lenN (written (sg g)) < W64 ->
  srace_used g = false /\
  (forall t w0 w v, In (w0, w, v) (loads (ssc (ls t))) ->
     1 <= w /\ nth_error (written (sg g)) (N.to_nat (w - 1)) = Some v) /\
  (forall t, dchain (wc (sg g)) (loads (ssc (ls t)))).
Proof. exact slra_atomic_monotone_used_race_free. Qed.

(* every ordering is necessary; sl_fadd_release_only is the table before the repair 0bff03d
   (finding seqlock:validated-read-unordered-with-cell-reuse) *)
Example c12_slra_orderings_necessary :
  used_race_after sl_weak_load ra_sched = true /\
  used_race_after sl_fadd_acquire_only ra_sched = true /\
  used_race_after sl_fadd_release_only ra_sched = true /\
  used_race_after sl_weak_cas ra_sched = true /\
  used_race_after sl_weak_fail ra_sched_fail = true /\
  used_race_after sl_ords_code ra_sched = false /\
  used_race_after sl_ords_code ra_sched_fail = false.
Proof. exact slra_orderings_necessary. Qed.

Example c12_slra_nonvacuous_stale :
  let c := fst (run (sstep sl_ords_code) [0; 0;0;0;0; 1;1;1; 1;1]%nat (sinit 1 [5] [5] ra_progs)) in
  loads (ssc (snd c 1%nat)) = [(1, 2, [7])] /\ srace_used (fst c) = false /\ wc (sg (fst c)) = 2.
Proof. exact slra_nonvacuous_stale. Qed.
End SLRA.
Print Assumptions SLRA.c12_slra_atomic_monotone_used_race_free.
Print Assumptions SLRA.c12_slra_orderings_necessary.
Print Assumptions SLRA.c12_slra_nonvacuous_stale.
