(* C13 -- connection lifecycle: one sender, one receiver, removed once by the last.
   Statements only.  Model: model/ConnState.v (one connection name; one step = one access to the
   state byte, to a handle's ownership flag, or one storage-level operation on the name), any
   number of threads, any schedule, sequentially consistent interleaving.  The model mirrors
   /repo as it is NOW (create_or_open_shm releases the ownership when reserve_port fails). *)
From V Require Import model.Base model.Conc model.Events model.ConnState
  proofs.ConnStateProofs proofs.ConnStateThms.
Open Scope N_scope.

(* ---- the byte-level transition functions are total and closed over all 256 values ---- *)
(* domain: b in 0..255 (upto 256), both roles; checked by evaluation, lifted by byte_ok_all *)
Theorem c13_state_table : forallb byte_ok (upto 256) = true.
Proof. exact byte_table. Qed.
Print Assumptions c13_state_table.

Theorem c13_state_total : forall b r, b < 256 ->
  (match reserve_check b r with
   | RsvAnother => N.land b (rbit r) <> 0
   | RsvCleanup => N.land b (rbit r) = 0 /\ N.land b MARKED <> 0
   | RsvTry n => N.land b (rbit r) = 0 /\ N.land b MARKED = 0 /\ n < 256 /\ N.land n (rbit r) <> 0 /\
                 N.land n (rbit (other r)) = N.land b (rbit (other r)) /\ N.land n MARKED = 0
   end) /\
  remove_new b r < 256 /\
  (b = rbit r -> remove_new b r = MARKED) /\
  (b <> rbit r -> N.land (remove_new b r) (rbit r) = 0 /\
                  N.land (remove_new b r) (rbit (other r)) = N.land b (rbit (other r)) /\
                  N.land (remove_new b r) MARKED = N.land b MARKED).
Proof. exact byte_total. Qed.
Print Assumptions c13_state_total.

(* ---- roles ---- *)
(* In every reachable state: (1) the byte of every incarnation is one of 0,1,2,3,128 and its
   Sender / Receiver bit is set exactly when a handle holds that role; (2) every port a thread
   holds (create_* returned Ok, Drop not begun) is THE holder of its role on its incarnation,
   unless its bit was cleared by somebody else (`stolen`: forced removal, or the Drop of a port
   that had itself been forcibly removed); (3) hence at most one attached sender and one attached
   receiver per incarnation. *)
Theorem c13_roles : forall progs g ls,
  reachable step (init progs) (g, ls) ->
  (forall i, (i < length (incs g))%nat -> inc_ok (get_inc g i)) /\
  (forall t k h, nth k (hs (ls t)) None = Some h -> h_id h = k /\ (h_inc h < length (incs g))%nat /\ att g t h) /\
  (forall t k h t' k' h', nth k (hs (ls t)) None = Some h -> nth k' (hs (ls t')) None = Some h' ->
     h_inc h = h_inc h' -> h_role h = h_role h' ->
     ~ In (t, k) (stolen g) -> ~ In (t', k') (stolen g) -> (t, k) = (t', k')).
Proof. exact conn_roles. Qed.
Print Assumptions c13_roles.

(* In EVERY state (reachable or not): an attach that observes its role bit is refused with
   AnotherInstanceIsAlreadyConnected, one that observes MarkedForDestruction with
   IsBeingCleanedUp (from the load and from a lost CAS alike); the global state -- the byte --
   is unchanged, the refused handle releases its ownership, unlinks nothing and the call
   returns exactly that error; opening with mismatching parameters selects the specific
   Incompatible* code (first mismatch in the order of the if-chain) and enters remove_state,
   whose CAS (c13_state_total) clears exactly the opener's bit or marks the byte if it was the
   only one, leaving the other role's bit as it is; the code is what the call returns. *)
Theorem c13_refusals : forall t g l h,
  (forall p, at_pc l = CrLoad h p ->
     let c := st_of g (h_inc h) in
     (N.land c (rbit (h_role h)) <> 0 -> exists e, step t g l = Some (g, goto l (CrFail h C_ANOTHER), [e])) /\
     (N.land c (rbit (h_role h)) = 0 -> N.land c MARKED <> 0 -> exists e, step t g l = Some (g, goto l (CrFail h C_CLEANUP), [e]))) /\
  (forall p c0, at_pc l = CrCas h p c0 ->
     let c := i_st (get_inc g (h_inc h)) in
     c <> c0 ->
     (N.land c (rbit (h_role h)) <> 0 -> exists e, step t g l = Some (g, goto l (CrFail h C_ANOTHER), [e])) /\
     (N.land c (rbit (h_role h)) = 0 -> N.land c MARKED <> 0 -> exists e, step t g l = Some (g, goto l (CrFail h C_CLEANUP), [e]))) /\
  (forall code, at_pc l = CrFail h code ->
     exists e1 l1, step t g l = Some (g, l1, [e1]) /\ exists e2, step t g l1 = Some (g, finish l1 None, [e2; ret_ev g code])) /\
  (forall p code, at_pc l = CrOwn h p -> h_own h = false -> mismatch p (i_par (get_inc g (h_inc h))) = Some code ->
     exists e, step t g l = Some (g, goto l (RsLoad h (WFail code)), [e])) /\
  (forall w, at_pc l = DrOwn h w -> h_own h = false ->
     exists e, step t g l = Some (g, finish l None, [e; ret_ev g (why_code w)])).
Proof. exact conn_refusals. Qed.
Print Assumptions c13_refusals.

(* ---- unlink ---- *)
(* The clause as the property states it: every incarnation is unlinked at most once, and every
   successful unlink is performed by a handle that has mapped THAT incarnation, after its byte
   became MarkedForDestruction, while no role is attached to it (unlink_good). *)
Definition c13_unlink_once_full : Prop :=
  forall progs g ls, reachable step (init progs) (g, ls) ->
    NoDup (removed g) /\ forall u, In u (unl g) -> unlink_good u = true.

(* FALSE of the faithful model (and of the implementation: the schedule is replayed by the
   check): a dead sender is cleaned up by two racing remove_sender calls; the second finds the
   byte already marked, remove_state returns MarkedForDestruction early and makes it a second
   owner; the first unlinks, a new sender re-creates the connection and attaches, the second
   owner's drop unlinks the NEW incarnation (byte = Sender, sender attached). *)
Definition p0 : params := {| p_bs := 2; p_mb := 2; p_ovf := false; p_ns := 4; p_seg := 1; p_ch := 1 |}.
Definition w_progs (t : nat) : list op :=
  match t with
  | O => [OCreate RSend p0; OLeak 0; OForce RSend; OCreate RSend p0]
  | S O => [OForce RSend]
  | _ => []
  end.
Definition w_sched : list nat := [0;0;0;0;0;0;0;0;0;0;0;1;0;0;0;0;1;1;1;1;0;0]%nat.

Theorem c13_unlink_once_refuted : ~ c13_unlink_once_full.
Proof. exact (conn_unlink_refuted w_progs w_sched eq_refl). Qed.
Print Assumptions c13_unlink_once_refuted.

(* the witness in detail: two successful unlinks, the second removes incarnation 1 through a
   handle that mapped incarnation 0, while the byte is Sender (1) and the sender is attached *)
Example c13_unlink_once_witness :
  let g := fst (fst (run step w_sched (init w_progs))) in
  map (fun u => (u_hinc u, u_rm u, u_st u, u_att u)) (unl g) = [(0%nat, Some 0%nat, 128, false); (0%nat, Some 1%nat, 1, true)] /\
  saw_marked g = true /\ cur g = None /\
  exists h, nth 3 (hs (snd (fst (run step w_sched (init w_progs))) 0%nat)) None = Some h /\ h_inc h = 1%nat.
Proof. vm_compute. split; [reflexivity|]. split; [reflexivity|]. split; [reflexivity|]. eexists. split; reflexivity. Qed.
Print Assumptions c13_unlink_once_witness.

(* TRUE: at most one successful unlink per incarnation (= per name between two creations),
   unconditionally; and the full statement as long as no remove_state has found an already
   marked byte (saw_marked: the early `return MarkedForDestruction` / the CAS 128 -> 128, which
   only a forced removal -- or the Drop of a port whose bit had been forcibly removed -- reaches) *)
Theorem c13_unlink_once_partial : forall progs g ls,
  reachable step (init progs) (g, ls) ->
  NoDup (removed g) /\
  (saw_marked g = false -> forall u, In u (unl g) -> unlink_good u = true).
Proof. exact conn_unlink_partial. Qed.
Print Assumptions c13_unlink_once_partial.

(* without forced-removal operations the FULL statement holds unconditionally (and no bit is
   ever cleared by anybody but its holder) *)
Theorem c13_unlink_once_no_forced_removal : forall progs g ls,
  (forall t, Forall no_force_op (progs t)) -> reachable step (init progs) (g, ls) ->
  NoDup (removed g) /\ (forall u, In u (unl g) -> unlink_good u = true) /\ stolen g = [] /\ saw_marked g = false.
Proof. exact conn_unlink_no_force. Qed.
Print Assumptions c13_unlink_once_no_forced_removal.

(* an attached port never sits on a destroyed resource: under the same hypothesis the
   incarnation a held, not-stolen port has mapped is the one the name refers to *)
Theorem c13_attached_exists : forall progs g ls t k h,
  reachable step (init progs) (g, ls) -> saw_marked g = false ->
  nth k (hs (ls t)) None = Some h -> ~ In (t, k) (stolen g) -> cur g = Some (h_inc h).
Proof. exact conn_attached_exists. Qed.
Print Assumptions c13_attached_exists.

(* non-vacuity: sender and receiver attach concurrently (creator = thread 0), both detach, the
   last one marks and unlinks; no forced removal: hypotheses of _partial, _no_forced_removal and
   _attached_exists hold in states where something is attached / something was unlinked *)
Definition n_progs (t : nat) : list op :=
  match t with
  | O => [OCreate RSend p0; ODrop 0]
  | S O => [OCreate RRecv p0; ODrop 0]
  | _ => []
  end.
Definition n_sched1 : list nat := [0;1;1;1;0;0;0;0;1]%nat.        (* both attached *)
Definition n_sched2 : list nat := n_sched1 ++ [0;0;0;0; 1;1;1;1;1;1]%nat.   (* both detached, unlinked *)
Example c13_nonvacuous :
  (forall t, Forall no_force_op (n_progs t)) /\
  (let c := fst (run step n_sched1 (init n_progs)) in
   reachable step (init n_progs) c /\ saw_marked (fst c) = false /\ st_of (fst c) 0 = 3 /\ cur (fst c) = Some 0%nat /\
   (exists h, nth 0 (hs (snd c 0%nat)) None = Some h /\ h_role h = RSend) /\
   (exists h, nth 0 (hs (snd c 1%nat)) None = Some h /\ h_role h = RRecv)) /\
  (let c := fst (run step n_sched2 (init n_progs)) in
   reachable step (init n_progs) c /\ saw_marked (fst c) = false /\ st_of (fst c) 0 = 128 /\ cur (fst c) = None /\
   removed (fst c) = [0%nat] /\ forallb unlink_good (unl (fst c)) = true).
Proof.
  split.
  { intros t. destruct t as [|[|t]]; cbn; repeat constructor. }
  split.
  - cbv zeta. split; [exists n_sched1; reflexivity|]. vm_compute.
    split; [reflexivity|]. split; [reflexivity|]. split; [reflexivity|]. split; eexists; split; reflexivity.
  - cbv zeta. split; [exists n_sched2; reflexivity|]. vm_compute. repeat (split; [reflexivity|]). reflexivity.
Qed.
Print Assumptions c13_nonvacuous.

(* ---- forced removal of a role that is NOT attached ---- *)
(* domain: b in 0..255, both roles (evaluated table absent_table, lifted): remove_state for a role
   whose bit is clear writes the byte back unchanged -- it never marks a connection under the
   attached opposite role *)
Theorem c13_forced_absent_noop : forall b r, b < 256 -> N.land b (rbit r) = 0 -> remove_new b r = b.
Proof. exact remove_absent_noop. Qed.
Print Assumptions c13_forced_absent_noop.

(* in every reachable state such a CAS changes neither the byte nor the holders, the name still
   refers to the same incarnation, nothing is unlinked, and the handle proceeds to Storage::drop
   without having acquired the ownership *)
Theorem c13_forced_absent_step : forall progs g ls t h w c,
  reachable step (init progs) (g, ls) -> at_pc (ls t) = RsCas h w c ->
  i_st (get_inc g (h_inc h)) = c -> N.land c (rbit (h_role h)) = 0 -> c <> MARKED ->
  exists g' e, step t g (ls t) = Some (g', goto (ls t) (DrOwn h w), [e]) /\
    get_inc g' (h_inc h) = get_inc g (h_inc h) /\ cur g' = cur g /\ unl g' = unl g /\ saw_marked g' = saw_marked g.
Proof. exact forced_absent_step. Qed.
Print Assumptions c13_forced_absent_step.

(* the rule "mark unless both roles are attached" is NOT this function: receiver attached (2),
   remove_sender: the code leaves 2, the variant marks *)
Example c13_seeded_rule_refuted :
  N.land 2 (rbit RSend) = 0 /\ remove_new 2 RSend = 2 /\ remove_new_seeded 2 RSend = MARKED.
Proof. exact seeded_rule_marks_under_attached_peer. Qed.
Print Assumptions c13_seeded_rule_refuted.
