(* C18 part A -- "The mapping from Rust errors to C codes is total and one-to-one with distinct
   printable names."  Statements only; every proof is `exact <lemma>` from proofs/FfiTable.v.

   DOMAIN.  Every theorem quantifies over the two FINITE tables of gen/FfiEnums.v, which
   harness/xlate regenerates from /repo's current source on every run of ./check C18:
     ffi_cenums : every #[repr(C)] enum iox2_*_e of iceoryx2-ffi/c/src/api (variants,
                  discriminants, CStrRepr strings),
     ffi_rmaps  : every `impl IntoCInt for X` -- ALL leaves of X from the enum definition with
                  the result of `into_c_int` on each.
   The proofs are boolean checkers evaluated by vm_compute over these tables and lifted to the
   Prop statements by lemmas proved once and for all (proofs/FfiProofs.v).

   Totality, top-level injectivity and codes <> IOX2_OK hold without exception (after the repairs
   76b0be9 c6bf028 41ac4e3 e07cbfb bd7254f in /repo).  Leaf-level injectivity and distinct names
   are false of the current source: each is kept as `..._full`, refuted with a witness from the
   table, and proved with the exact list of exceptions (pinned at the end of this file; each
   entry proved real). *)
From V Require Import model.Base model.Ffi proofs.FfiProofs proofs.FfiTable gen.FfiEnums.
From Coq Require Import String.
Open Scope string_scope.

(* ---- total ---- *)
(* every leaf of every Rust enum with an IntoCInt impl is mapped to a code of an existing
   variant of a C enum (no arm diverges, none names a missing variant) *)
Theorem c18_total : forall m l, In m ffi_rmaps -> In l (rm_leaves m) -> exists z, leaf_code ffi_cenums l = Some z.
Proof. exact tbl_total. Qed.
Print Assumptions c18_total.

(* all codes of one Rust enum are variants of ONE C enum *)
Theorem c18_single_cenum : forall m, In m ffi_rmaps -> single_cenum m.
Proof. exact tbl_single_cenum. Qed.
Print Assumptions c18_single_cenum.

(* ---- one-to-one ---- *)
(* granularity that holds without exception: the C code determines the top-level variant of
   the Rust enum *)
Theorem c18_injective : forall m a b z, In m ffi_rmaps -> In a (rm_leaves m) -> In b (rm_leaves m) ->
  leaf_code ffi_cenums a = Some z -> leaf_code ffi_cenums b = Some z -> lf_top a = lf_top b.
Proof. exact tbl_injective_top. Qed.
Print Assumptions c18_injective.

(* leaf granularity (payload enums expanded): false, payloads are dropped by `X::Y(_)` arms *)
Definition c18_injective_leaf_full : Prop := forall m, In m ffi_rmaps -> injective_leaf ffi_cenums [] m.
Theorem c18_injective_leaf_refuted : ~ c18_injective_leaf_full.
Proof. exact tbl_injective_leaf_full_refuted. Qed.
Print Assumptions c18_injective_leaf_refuted.

(* ... and the listed (enum, C variant) pairs are the ONLY codes shared by two leaves *)
Theorem c18_injective_leaf_partial : forall m, In m ffi_rmaps -> injective_leaf ffi_cenums known_leaf_collapses m.
Proof. exact tbl_injective_leaf. Qed.
Print Assumptions c18_injective_leaf_partial.

(* a code names one variant of its C enum *)
Theorem c18_cenum_codes_distinct : forall c, In c ffi_cenums -> codes_distinct c.
Proof. exact tbl_codes_distinct. Qed.
Print Assumptions c18_cenum_codes_distinct.

(* ---- distinct printable names ---- *)
(* per C enum that derives CStrRepr: strings pairwise distinct and non-empty, except the
   three open_or_create enums *)
Theorem c18_names_distinct : forall c, In c ffi_cenums -> names_distinct known_dup_names c.
Proof. exact tbl_names_distinct. Qed.
Print Assumptions c18_names_distinct.

Definition c18_names_distinct_full : Prop := forall c, In c ffi_cenums -> names_distinct [] c.
Theorem c18_names_distinct_refuted : ~ c18_names_distinct_full.
Proof. exact tbl_names_distinct_full_refuted. Qed.
Print Assumptions c18_names_distinct_refuted.

(* along each mapping: different codes print differently, except for the three
   *OpenOrCreateError enums (their Open and Create halves print the same words) *)
Theorem c18_names_separate : forall m, In m ffi_rmaps -> names_separate ffi_cenums known_name_clashes m.
Proof. exact tbl_names_separate. Qed.
Print Assumptions c18_names_separate.

(* ---- no error maps to IOX2_OK ---- *)
Theorem c18_codes_nonzero : forall m l, In m ffi_rmaps -> rm_is_error m = true -> In l (rm_leaves m) ->
  leaf_code ffi_cenums l <> Some ffi_ok.
Proof. exact tbl_nonzero. Qed.
Print Assumptions c18_codes_nonzero.

(* ---- the tables are well formed (names are keys) ---- *)
Theorem c18_tables_wf : tables_wf ffi_cenums ffi_rmaps.
Proof. exact tbl_wf. Qed.
Print Assumptions c18_tables_wf.

(* ---- every exception is a real collapse of the current source ---- *)
Theorem c18_known_leaf_collapses_real : forall k, In k known_leaf_collapses ->
  exists m a b z, In m ffi_rmaps /\ rm_name m = fst k /\ In a (rm_leaves m) /\ In b (rm_leaves m)
    /\ leaf_cvariant a = snd k /\ leaf_code ffi_cenums a = Some z /\ leaf_code ffi_cenums b = Some z /\ lf_name a <> lf_name b.
Proof. exact known_leaf_collapses_real. Qed.
Print Assumptions c18_known_leaf_collapses_real.

Theorem c18_known_dup_names_real : forall n, In n known_dup_names ->
  exists c, In c ffi_cenums /\ ce_name c = n /\ ce_cstr c = true /\ ~ NoDup (map cv_str (ce_variants c)).
Proof. exact known_dup_names_real. Qed.
Print Assumptions c18_known_dup_names_real.

(* ---- non-vacuity of the `In m ffi_rmaps` / `In c ffi_cenums` hypotheses ---- *)
Example c18_total_nonvacuous :
  exists m a b za zb sa sb,
    In m ffi_rmaps /\ rm_is_error m = true /\ In a (rm_leaves m) /\ In b (rm_leaves m)
    /\ leaf_code ffi_cenums a = Some za /\ leaf_code ffi_cenums b = Some zb
    /\ za <> ffi_ok /\ za <> zb /\ lf_name a <> lf_name b
    /\ leaf_str ffi_cenums a = Some sa /\ leaf_str ffi_cenums b = Some sb /\ sa <> sb /\ sa <> "".
Proof. exact tbl_nonvacuous. Qed.
Print Assumptions c18_total_nonvacuous.

Example c18_names_distinct_nonvacuous :
  exists c, In c ffi_cenums /\ ce_cstr c = true /\ (2 <= List.length (ce_variants c))%nat.
Proof. exact tbl_cenums_nonvacuous. Qed.
Print Assumptions c18_names_distinct_nonvacuous.

(* ---- the exception lists are part of the statements: pinned ---- *)
Example c18_exceptions_pinned :
  known_leaf_collapses =
       [ ("SendError", "CONNECTION_ERROR"); ("RequestSendError", "CONNECTION_ERROR");
         ("ReceiveError", "FAILED_TO_ESTABLISH_CONNECTION"); ("ReceiveError", "UNABLE_TO_MAP_SENDERS_DATA_SEGMENT");
         ("ConnectionFailure", "FAILED_TO_ESTABLISH_CONNECTION"); ("ConnectionFailure", "UNABLE_TO_MAP_SENDERS_DATA_SEGMENT") ]
  /\ known_dup_names = [ "iox2_event_open_or_create_error_e"; "iox2_pub_sub_open_or_create_error_e"; "iox2_request_response_open_or_create_error_e" ]
  /\ known_name_clashes = [ "EventOpenOrCreateError"; "PublishSubscribeOpenOrCreateError"; "RequestResponseOpenOrCreateError" ].
Proof. repeat split. Qed.
Print Assumptions c18_exceptions_pinned.
