(* C15 -- Shm allocators: disjoint, aligned, in-bounds memory; resizing keeps data.
   Statements only; every proof is `exact <lemma>` from proofs/, followed by Print Assumptions
   (checked by ./check).  Model: model/Alloc.v (transcribed from /repo, see the file header). *)
From V Require Import model.Base model.Alloc proofs.AllocArith proofs.AllocProofs.
Open Scope N_scope.

(* ---------------------------------------------------------------- math.rs align *)
(* align v a is the least multiple of a that is >= v, and the div/mul form agrees *)
Theorem c15_align_spec : forall v a, a <> 0 ->
  v <= align v a /\ align v a < v + a /\ (a | align v a) /\ align v a = ((v + a - 1) / a) * a.
Proof. intros v a Ha. repeat split; [apply align_ge|apply align_lt|apply align_divide|apply align_div_form]; exact Ha. Qed.
Print Assumptions c15_align_spec.
Example c15_align_spec_nonvacuous : align 13 8 = 16 /\ align 16 8 = 16 /\ align 0 4096 = 0.
Proof. vm_compute. auto. Qed.
Print Assumptions c15_align_spec_nonvacuous.

(* ---------------------------------------------------------------- bb-memory PoolAllocator *)
(* bucket i of a pool over [ptr, ptr+size) lies inside the block, for every ptr, size, layout *)
Theorem c15_pool_inbounds : forall bl ptr size p i,
  lalign bl <> 0 -> pool_new bl ptr size = Val p -> i < p_nb p ->
  ptr <= bucket_addr p i /\ bucket_addr p i + p_bsize p <= ptr + size.
Proof. exact pool_inbounds. Qed.
Print Assumptions c15_pool_inbounds.

(* distinct indices -> disjoint byte ranges *)
Theorem c15_pool_disjoint : forall (p : pool) i j, i <> j ->
  bucket_addr p i + p_bsize p <= bucket_addr p j \/ bucket_addr p j + p_bsize p <= bucket_addr p i.
Proof. exact pool_disjoint. Qed.
Print Assumptions c15_pool_disjoint.

(* every bucket address is a multiple of the bucket alignment (no divisibility guard: the
   stride is the aligned bucket size since fix 1e23dc4) *)
Theorem c15_pool_aligned : forall bl ptr size p i,
  lalign bl <> 0 -> pool_new bl ptr size = Val p -> (p_balign p | bucket_addr p i).
Proof. exact pool_aligned. Qed.
Print Assumptions c15_pool_aligned.

(* former defect F13 (bucket size 5, alignment 4): second bucket is now start + 8 *)
Theorem c15_pool_f13_regression :
  exists p p1 p2 a1 a2,
    pool_new {| lsize := 5; lalign := 4 |} 1048576 64 = Val p /\
    pool_allocate p {| lsize := 4; lalign := 4 |} = (p1, AOk a1) /\
    pool_allocate p1 {| lsize := 4; lalign := 4 |} = (p2, AOk a2) /\
    a2 = 1048576 + 8 /\ a2 mod 4 = 0.
Proof. exact pool_f13_regression. Qed.
Print Assumptions c15_pool_f13_regression.

Example c15_pool_nonvacuous : exists p,
  pool_new {| lsize := 24; lalign := 16 |} 1048577 200 = Val p /\ p_nb p = 5 /\ p_bsize p = 32 /\
  bucket_addr p 4 = 1048592 + 128.
Proof. eexists. repeat split; vm_compute; reflexivity. Qed.
Print Assumptions c15_pool_nonvacuous.

(* allocation of layout (s,a) succeeds only if s <= bucket size and a <= bucket alignment; it
   hands out the first free bucket, nothing else changes *)
Theorem c15_pool_size_ok : forall p l p' addr,
  pool_allocate p l = (p', AOk addr) ->
  lsize l <= p_bsize p /\ lalign l <= p_balign p /\
  exists i, p_free p = i :: p_free p' /\ addr = bucket_addr p i /\
            p_bsize p' = p_bsize p /\ p_balign p' = p_balign p /\ p_start p' = p_start p /\
            p_size p' = p_size p /\ p_nb p' = p_nb p.
Proof. exact pool_size_ok. Qed.
Print Assumptions c15_pool_size_ok.

(* a request that cannot be satisfied: the documented error, state unchanged *)
Theorem c15_reject : forall p l,
  (p_bsize p < lsize l -> pool_allocate p l = (p, AErr ESizeTooLarge)) /\
  (lsize l <= p_bsize p -> p_balign p < lalign l -> pool_allocate p l = (p, AErr EAlignmentFailure)) /\
  (lsize l <= p_bsize p -> lalign l <= p_balign p -> p_free p = [] -> pool_allocate p l = (p, AErr EOutOfMemory)) /\
  (forall p' e, pool_allocate p l = (p', AErr e) -> p' = p).
Proof. exact pool_reject. Qed.
Print Assumptions c15_reject.
Example c15_reject_nonvacuous : exists p,
  pool_new {| lsize := 8; lalign := 8 |} 1048576 8 = Val p /\
  snd (pool_allocate p {| lsize := 9; lalign := 1 |}) = AErr ESizeTooLarge /\
  snd (pool_allocate p {| lsize := 1; lalign := 16 |}) = AErr EAlignmentFailure /\
  snd (pool_allocate (fst (pool_allocate p {| lsize := 8; lalign := 8 |})) {| lsize := 1; lalign := 1 |}) = AErr EOutOfMemory.
Proof. eexists. repeat split; vm_compute; reflexivity. Qed.
Print Assumptions c15_reject_nonvacuous.

(* a freed bucket is handed out again by the next fitting request *)
Theorem c15_pool_free_reusable : forall p i l,
  pool_geom p -> i < p_nb p -> lsize l <= p_bsize p -> lalign l <= p_balign p ->
  exists p1 p2, pool_deallocate p (bucket_addr p i) = Val p1 /\
                pool_allocate p1 l = (p2, AOk (bucket_addr p i)) /\ p_free p2 = p_free p.
Proof. exact pool_free_reusable. Qed.
Print Assumptions c15_pool_free_reusable.

(* ALL allocate / deallocate histories (deallocate only of live addresses, the Rust safety
   contract): no panic; every live allocation is in bounds, aligned, has the full bucket, and
   any two live allocations are disjoint *)
Theorem c15_pool_history_safe : forall bl ptr size p0 ops,
  lalign bl <> 0 -> 1 <= lsize bl -> pool_new bl ptr size = Val p0 ->
  lsize bl <= p_bsize p0 /\
  exists p live, pool_run (p0, []) ops = Val (p, live) /\
    (forall k a, nth_error live k = Some a ->
       ptr <= a /\ a + p_bsize p0 <= ptr + size /\ (lalign bl | a)) /\
    (forall k1 k2 a1 a2, k1 <> k2 -> nth_error live k1 = Some a1 -> nth_error live k2 = Some a2 ->
       a1 + p_bsize p0 <= a2 \/ a2 + p_bsize p0 <= a1).
Proof. exact pool_history_safe. Qed.
Print Assumptions c15_pool_history_safe.
Example c15_pool_history_nonvacuous : exists p0 p live,
  pool_new {| lsize := 5; lalign := 4 |} 1048579 40 = Val p0 /\
  pool_run (p0, []) [PAlloc {| lsize := 5; lalign := 4 |}; PAlloc {| lsize := 1; lalign := 1 |};
                     PFree 1; PAlloc {| lsize := 3; lalign := 2 |}; PAlloc {| lsize := 9; lalign := 1 |}] = Val (p, live) /\
  length live = 2%nat.
Proof. eexists. eexists. eexists. split; [vm_compute; reflexivity|]. split; vm_compute; reflexivity. Qed.
Print Assumptions c15_pool_history_nonvacuous.

(* FixedSizePoolAllocator::<MAX>::new is total (former defect F16: panicked when the memory
   yields >= MAX buckets) *)
Theorem c15_fixed_ctor_total : forall max mgmt bl ptr size,
  (4 | mgmt) -> 1 <= lsize bl -> lalign bl <> 0 -> align ptr (lalign bl) <= ptr + size ->
  exists p, fixed_pool_new max mgmt bl ptr size = Val p.
Proof. exact fixed_ctor_total'. Qed.
Print Assumptions c15_fixed_ctor_total.
Theorem c15_fixed_f16_regression :
  exists p, fixed_pool_new 4 0 {| lsize := 8; lalign := 8 |} 1048576 32 = Val p /\ p_nb p = 4.
Proof. exact fixed_f16_regression. Qed.
Print Assumptions c15_fixed_f16_regression.

(* ---------------------------------------------------------------- bump allocator *)
(* a successful bump allocation is aligned, lies above everything handed out before, inside
   the block, and advances the cursor to its end *)
Theorem c15_bump_alloc : forall b l b' addr,
  lalign l <> 0 -> b_pos b <= b_total b -> bump_allocate b l = (b', AOk addr) ->
  addr mod lalign l = 0 /\
  b_start b + b_pos b <= addr /\ addr + lsize l = b_start b' + b_pos b' /\
  b_pos b' <= b_total b' /\ b_start b' = b_start b /\ b_total b' = b_total b /\ 1 <= lsize l.
Proof. exact bump_alloc_ok. Qed.
Print Assumptions c15_bump_alloc.

(* failure: SizeIsZero or OutOfMemory, state unchanged *)
Theorem c15_bump_reject : forall b l,
  (lsize l = 0 -> bump_allocate b l = (b, AErr ESizeIsZero)) /\
  (forall b' e, bump_allocate b l = (b', AErr e) -> b' = b /\ (e = ESizeIsZero \/ e = EOutOfMemory)).
Proof. exact bump_reject. Qed.
Print Assumptions c15_bump_reject.

(* all request sequences: the set of allocations is in bounds, aligned, pairwise disjoint *)
Theorem c15_bump_history_safe : forall start total ls,
  Forall (fun l => lalign l <> 0) ls ->
  live_ok start (start + total) (bump_run (bump_new start total) ls) = true.
Proof. exact bump_history_safe. Qed.
Print Assumptions c15_bump_history_safe.
Example c15_bump_nonvacuous :
  bump_run (bump_new 1048577 64) [{| lsize := 3; lalign := 1 |}; {| lsize := 8; lalign := 8 |}; {| lsize := 100; lalign := 1 |}; {| lsize := 1; lalign := 32 |}]
  = [{| lv_addr := 1048577; lv_size := 3; lv_align := 1 |}; {| lv_addr := 1048584; lv_size := 8; lv_align := 8 |};
     {| lv_addr := 1048608; lv_size := 1; lv_align := 32 |}].
Proof. vm_compute. reflexivity. Qed.
Print Assumptions c15_bump_nonvacuous.

(* ---------------------------------------------------------------- one-chunk allocator *)
Theorem c15_onechunk : forall o l o' addr,
  lalign l <> 0 -> oc_allocate o l = Val (o', AOk addr) ->
  oc_chunk o = 0 /\ addr mod lalign l = 0 /\ oc_start o <= addr /\ addr + lsize l < oc_start o + oc_size o /\
  oc_chunk o' = addr.
Proof. exact onechunk_alloc_ok. Qed.
Print Assumptions c15_onechunk.
Theorem c15_onechunk_exclusive : forall o l, oc_chunk o <> 0 -> oc_allocate o l = Val (o, AErr EOutOfMemory).
Proof. exact onechunk_exclusive. Qed.
Print Assumptions c15_onechunk_exclusive.
Example c15_onechunk_nonvacuous :
  oc_allocate (oc_new 1048577 64) {| lsize := 10; lalign := 16 |}
  = Val ({| oc_start := 1048577; oc_size := 64; oc_chunk := 1048592 |}, AOk 1048592).
Proof. vm_compute. reflexivity. Qed.
Print Assumptions c15_onechunk_nonvacuous.

(* ---------------------------------------------------------------- PointerOffset *)
Theorem c15_offset_codec : forall offset seg, offset < 2 ^ 56 -> seg < 256 ->
  po_offset (po_make offset seg) = offset /\ po_segment (po_make offset seg) = seg.
Proof. exact offset_codec. Qed.
Print Assumptions c15_offset_codec.
(* set_segment_id changes only the segment bits *)
Theorem c15_offset_set_segment : forall v seg, seg < 256 ->
  po_offset (po_set_segment v seg) = po_offset v /\ po_segment (po_set_segment v seg) = seg.
Proof. exact offset_set_segment. Qed.
Print Assumptions c15_offset_set_segment.
(* the bound is tight: the shift silently drops the bits above 2^56 *)
Theorem c15_offset_codec_truncates : po_offset (po_make (2 ^ 56) 0) = 0.
Proof. exact offset_codec_truncates. Qed.
Print Assumptions c15_offset_codec_truncates.
Example c15_offset_codec_nonvacuous : po_make 4096 7 = 1048583 /\ po_set_segment 1048583 255 = 1048831.
Proof. vm_compute. auto. Qed.
Print Assumptions c15_offset_codec_nonvacuous.

(* ---------------------------------------------------------------- resize hints *)
(* bucket count: unchanged unless every bucket is in use; then +1 (best fit), the next power
   of two above (power of two), unchanged (static) *)
Theorem c15_resize_hint_count : forall used nb s,
  (used <> nb -> resize_hint_count used nb s = nb) /\
  (used = nb -> match s with
                | BestFit => resize_hint_count used nb s = nb + 1
                | PowerOfTwo => nb + 1 <= resize_hint_count used nb s /\ exists k, resize_hint_count used nb s = 2 ^ k
                | Static => resize_hint_count used nb s = nb
                end).
Proof. exact resize_hint_count_rule. Qed.
Print Assumptions c15_resize_hint_count.
(* bucket layout: static never changes; otherwise size >= max(old, requested), alignment >=
   both, and the size stays a multiple of the alignment *)
Theorem c15_resize_hint : forall cur l s, lalign cur <> 0 -> lalign l <> 0 ->
  let r := resize_hint_layout cur l s in
  (s = Static -> r = cur) /\
  (s <> Static -> lsize cur <= lsize r /\ lsize l <= lsize r /\ lalign cur <= lalign r /\ lalign l <= lalign r /\
                  lalign r <> 0 /\ ((lalign cur | lsize cur) -> (lalign r | lsize r))) /\
  (s = PowerOfTwo -> (lsize cur < lsize l \/ lalign cur < lalign l) ->
                  (exists k, lalign r = 2 ^ k) /\ (lalign r | lsize r)).
Proof. exact resize_hint_layout_rule. Qed.
Print Assumptions c15_resize_hint.
Example c15_resize_hint_nonvacuous :
  resize_hint_layout {| lsize := 24; lalign := 8 |} {| lsize := 25; lalign := 16 |} BestFit = {| lsize := 32; lalign := 16 |} /\
  resize_hint_layout {| lsize := 24; lalign := 8 |} {| lsize := 33; lalign := 4 |} PowerOfTwo = {| lsize := 64; lalign := 8 |} /\
  resize_hint_count 3 3 PowerOfTwo = 4 /\ resize_hint_count 4 4 PowerOfTwo = 8 /\ resize_hint_count 2 3 BestFit = 3.
Proof. vm_compute. auto. Qed.
Print Assumptions c15_resize_hint_nonvacuous.

(* ---------------------------------------------------------------- chunk layouts *)
(* the layouts the ports build: alignment divides size, alignment >= every part's *)
Theorem c15_chunk_layout_guard : forall m n, mtd_ok m ->
  let cl := chunk_layout m n in
  lalign cl <> 0 /\ (lalign cl | lsize cl) /\
  td_align (m_header m) <= lalign cl /\ td_align (m_uheader m) <= lalign cl /\ td_align (m_payload m) <= lalign cl /\
  all_headers_len m + align (td_size (m_payload m)) (td_align (m_payload m)) * n <= lsize cl.
Proof. exact chunk_layout_guard. Qed.
Print Assumptions c15_chunk_layout_guard.

(* pub/sub payloads are aligned: for every bucket of a pool built from chunk_layout *)
Theorem c15_publisher_chunk_aligned : forall m n ptr size p i,
  mtd_pow2 m -> pool_new (chunk_layout m n) ptr size = Val p ->
  let h := bucket_addr p i in
  p_bsize p = lsize (chunk_layout m n) /\
  (td_align (m_header m) | h) /\
  (td_align (m_uheader m) | user_header_ptr_from_header m h) /\
  (td_align (m_payload m) | payload_ptr_from_header m h) /\
  h + td_size (m_header m) <= user_header_ptr_from_header m h /\
  user_header_ptr_from_header m h + td_size (m_uheader m) <= payload_ptr_from_header m h /\
  payload_ptr_from_header m h + align (td_size (m_payload m)) (td_align (m_payload m)) * n <= h + p_bsize p.
Proof. exact publisher_chunk_aligned. Qed.
Print Assumptions c15_publisher_chunk_aligned.
Example c15_chunk_layout_nonvacuous :
  let m := {| m_header := {| td_size := 40; td_align := 8 |}; m_uheader := {| td_size := 3; td_align := 1 |};
              m_payload := {| td_size := 17; td_align := 16 |} |} in
  chunk_layout m 3 = {| lsize := 144; lalign := 16 |} /\ payload_ptr_from_header m 1048576 = 1048576 + 48.
Proof. vm_compute. auto. Qed.
Print Assumptions c15_chunk_layout_nonvacuous.

(* ---------------------------------------------------------------- segment sizing *)
(* data_segment.rs create_static_segment: size*k + align - 1 bytes yield >= k buckets *)
Theorem c15_segment_enough : forall bs a ptr k, 1 <= bs -> a <> 0 -> (a | bs) ->
  exists n, pool_nbuckets {| lsize := bs; lalign := a |} ptr (static_segment_size {| lsize := bs; lalign := a |} k) = Val n /\ k <= n.
Proof. exact segment_enough. Qed.
Print Assumptions c15_segment_enough.
(* the dynamic segment (initial_setup_hint / resize_hint: size*k bytes, no slack): the full
   claim is FALSE of the faithful model -- known finding F18 *)
Definition c15_dyn_segment_enough_full : Prop :=
  forall bs a ptr k, 1 <= bs -> a <> 0 -> (a | bs) -> 1 <= k ->
  exists n, pool_nbuckets {| lsize := bs; lalign := a |} ptr (dynamic_segment_size {| lsize := bs; lalign := a |} k) = Val n /\ k <= n.
(* witness: Layout(16,16), one chunk, payload start 8 mod 16 (what posix and process-local
   shared memory produce): zero buckets *)
Theorem c15_dyn_segment_enough_refuted : ~ c15_dyn_segment_enough_full.
Proof. exact dyn_segment_enough_refuted. Qed.
Print Assumptions c15_dyn_segment_enough_refuted.
(* what holds: enough when the payload start is a multiple of the chunk alignment (all chunk
   alignments <= 8 with the real shared memories) ... *)
Theorem c15_dyn_segment_enough_partial_aligned : forall bs a ptr k, 1 <= bs -> a <> 0 -> (a | bs) -> (a | ptr) ->
  exists n, pool_nbuckets {| lsize := bs; lalign := a |} ptr (dynamic_segment_size {| lsize := bs; lalign := a |} k) = Val n /\ k <= n.
Proof. exact dyn_segment_enough_aligned. Qed.
Print Assumptions c15_dyn_segment_enough_partial_aligned.
(* ... and for every payload start at most one bucket is lost *)
Theorem c15_dyn_segment_enough_partial : forall bs a ptr k, 1 <= bs -> a <> 0 -> (a | bs) -> 1 <= k ->
  exists n, pool_nbuckets {| lsize := bs; lalign := a |} ptr (dynamic_segment_size {| lsize := bs; lalign := a |} k) = Val n /\ k - 1 <= n.
Proof. exact dyn_segment_enough_partial. Qed.
Print Assumptions c15_dyn_segment_enough_partial.
Example c15_dyn_segment_enough_nonvacuous :
  pool_nbuckets {| lsize := 16; lalign := 16 |} (1048576 + 8) (dynamic_segment_size {| lsize := 16; lalign := 16 |} 3) = Val 2 /\
  pool_nbuckets {| lsize := 24; lalign := 8 |} (1048576 + 8) (dynamic_segment_size {| lsize := 24; lalign := 8 |} 3) = Val 3.
Proof. vm_compute. auto. Qed.
Print Assumptions c15_dyn_segment_enough_nonvacuous.
(* and for exactly the layouts the ports build *)
Theorem c15_publisher_static_segment_enough : forall m n ptr k, mtd_ok m -> 1 <= lsize (chunk_layout m n) ->
  exists nb, pool_nbuckets (chunk_layout m n) ptr (static_segment_size (chunk_layout m n) k) = Val nb /\ k <= nb.
Proof. exact publisher_static_segment_enough. Qed.
Print Assumptions c15_publisher_static_segment_enough.


(* ---------------------------------------------------------------- growth keeps data *)
From V Require Import model.AllocSys proofs.AllocSegProofs.
(* The dynamic data segment (DynamicMemory + DynamicView, model/AllocSys.v) under ALL operation
   sequences of allocate / send (receiver registers) / release (receiver unregisters) / reclaim
   (sender deallocates): the receiver never fails to open the segment of an outstanding offset;
   every outstanding offset's segment is still held by the sender (so it was not removed) and,
   once registered, by the receiver; an unregistered outstanding offset resolves to exactly
   (its segment id, its offset); segment ids only grow (a segment id is never reused for a
   different segment while the instance lives).  Hence a segment is removed only when no
   offset into it is outstanding on that side. *)
Theorem c15_growth_keeps_data : forall maxmem base st hint n d ops,
  dyn_new maxmem base st hint n = Val (Some d) ->
  sys_run (sys_init d) ops <> OpenFailed /\
  forall s, sys_run (sys_init d) ops = Ok s ->
    (forall c, In c (y_live s) -> exists sg, alookup (po_segment (c_off c)) (d_segs (y_mem s)) = Some sg /\ 1 <= s_count sg) /\
    (forall c, In c (y_live s) -> c_reg c = true -> exists m, alookup (po_segment (c_off c)) (v_segs (y_view s)) = Some m /\ 1 <= m) /\
    (forall k c, nth_error (y_live s) k = Some c -> c_reg c = false ->
       exists v', view_register (seg_exists (y_mem s)) (y_view s) (c_off c) = (v', Some (po_segment (c_off c), po_offset (c_off c)))) /\
    (forall c, In c (y_live s) -> po_segment (c_off c) <= d_cur (y_mem s)) /\ d_cur (y_mem s) < 256.
Proof. exact growth_keeps_data. Qed.
Print Assumptions c15_growth_keeps_data.

(* a reachable state with three live segments: growth by size, by alignment and by exhaustion,
   the subscriber holding the oldest sample across all of them *)
Example c15_growth_keeps_data_nonvacuous : exists d s,
  dyn_new 4096 (1048576 + 8) BestFit {| lsize := 16; lalign := 16 |} 2 = Val (Some d) /\
  sys_run (sys_init d) [SAlloc {| lsize := 16; lalign := 16 |}; SSend 0; SAlloc {| lsize := 16; lalign := 16 |};
                        SAlloc {| lsize := 40; lalign := 8 |}; SSend 0; SAlloc {| lsize := 8; lalign := 64 |};
                        SReclaim 2; SRelease 0] = Ok s /\
  dyn_nsegs (y_mem s) = 3 /\ view_nsegs (y_view s) = 2 /\ length (y_live s) = 3%nat /\ d_cur (y_mem s) = 3.
Proof. eexists. eexists. split; [vm_compute; reflexivity|]. split; [vm_compute; reflexivity|]. vm_compute. auto. Qed.
Print Assumptions c15_growth_keeps_data_nonvacuous.
