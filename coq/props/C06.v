(* C06 -- service creation is atomic and its lifetime follows its users.  Statements only.
   Model: coq/model/Service.v.  Threads = nodes (one per process), any number of them, any
   programs of create / open / open_or_create / drop on ONE service name, any schedule (list of
   thread ids), any timeout budget T; one step = one libc call or one atomic registry operation. *)
From V Require Import model.Base model.Conc model.Service proofs.ServiceVerifyProofs proofs.ServiceProofs proofs.ServiceRegistryProofs proofs.ServiceAtomicProofs.
Open Scope N_scope.

(* ---------------------------------------------------------------------------------------------- *)
(* verify_service_configuration                                                                   *)
(* ---------------------------------------------------------------------------------------------- *)
(* verify = Ok  <->  every required attribute is present and, row by row of the pattern's table,
   existing >= required (capacities) resp. existing = required (flags, event ids, deadline), where
   `required` is the builder's value, raised from 0 to 1 exactly where the entry point adjusts *)
Theorem c06_verify_char : forall c r k,
  verify c r k = None <->
  attrs_rule (r_require r) (r_keys r) (c_attrs c) /\
  fields_ok (field_table (r_pat r)) (c_vals c)
            (req_vals (does_adjust (r_pat r) (r_sized r) k) (adjust_mask (r_pat r)) (r_vals r)).
Proof. exact verify_char. Qed.
Print Assumptions c06_verify_char.

(* verify = Err e: e is the documented error of the FIRST requirement that does not hold *)
Theorem c06_verify_first_error : forall c r k e,
  verify c r k = Some e ->
  (e = IncompatibleAttributes /\ ~ attrs_rule (r_require r) (r_keys r) (c_attrs c)) \/
  (attrs_rule (r_require r) (r_keys r) (c_attrs c) /\
   exists i fk x rv,
     nth_error (field_table (r_pat r)) i = Some (fk, e) /\ nth_error (c_vals c) i = Some x /\
     nth_error (req_vals (does_adjust (r_pat r) (r_sized r) k) (adjust_mask (r_pat r)) (r_vals r)) i = Some rv /\
     ~ field_rule fk x rv /\
     fields_ok (firstn i (field_table (r_pat r))) (c_vals c)
               (req_vals (does_adjust (r_pat r) (r_sized r) k) (adjust_mask (r_pat r)) (r_vals r))).
Proof. exact verify_error. Qed.
Print Assumptions c06_verify_first_error.

(* an open whose requirements are not met returns exactly that error at the read of the static config,
   having changed nothing: instances, the linked name and the service tags are as before *)
Theorem c06_incompatible_untouched : forall P t g l j x e,
  at_pc l = PRead j -> get_inst g j = Some x -> cur_kind l = KOpen -> in_ooc l = None ->
  open_check (i_cfg x) (the_req l) KOpen = Some e ->
  exists g' l', step P t g l = Some (g', l', [ECall CRead BStatic XOk; ERet (RErr SOpen e)]) /\
    fs_part g' = fs_part g /\ rets l' = rets l ++ [RErr SOpen e] /\ handles l' = handles l /\ at_pc l' = Idle.
Proof. exact incompatible_open_returns. Qed.
Print Assumptions c06_incompatible_untouched.

(* ... and nothing was changed on the way there: is_service_available only looks *)
Theorem c06_availability_reads_only : forall P t g l g' l' es,
  step P t g l = Some (g', l', es) -> avail_pc (at_pc l) -> fs_part g' = fs_part g.
Proof. exact avail_phase_reads_only. Qed.
Print Assumptions c06_availability_reads_only.

(* ---------------------------------------------------------------------------------------------- *)
(* all interleavings                                                                              *)
(* ---------------------------------------------------------------------------------------------- *)
(* every call that ever returned Ok (create, open or open_or_create; glog = all returned results)
   refers to an instance whose dynamic config has passed the creator's final initialisation step, and
   carries exactly the settings stored by that instance's creator: nobody obtains a half-initialised
   service *)
Theorem c06_open_complete : forall P progs g ls t k j c,
  reachable (step P) (init progs) (g, ls) -> In (t, k, ROk j c) (glog g) ->
  exists x, get_inst g j = Some x /\ i_cfg x = c /\ i_dy x = DFinal.
Proof. exact open_complete. Qed.
Print Assumptions c06_open_complete.

Theorem c06_ok_same_settings : forall P progs g ls t1 k1 t2 k2 j c1 c2,
  reachable (step P) (init progs) (g, ls) ->
  In (t1, k1, ROk j c1) (glog g) -> In (t2, k2, ROk j c2) (glog g) -> c1 = c2.
Proof. exact ok_same_settings. Qed.
Print Assumptions c06_ok_same_settings.

(* an instance = what one exclusive creation of the static config file made; the file name is linked
   to at most one instance at a time (gst.cur); per instance at most one create ever returns Ok *)
Theorem c06_single_creator : forall P progs g ls j,
  reachable (step P) (init progs) (g, ls) -> (ncreates j (glog g) <= 1)%nat.
Proof. exact single_creator. Qed.
Print Assumptions c06_single_creator.

(* while its creator is between create_locked and the final permissions, nobody has obtained the instance *)
Theorem c06_mid_creation_not_obtained : forall P progs g ls t i t0 k c,
  reachable (step P) (init progs) (g, ls) -> creating (at_pc (ls t)) = Some i -> ~ In (t0, k, ROk i c) (glog g).
Proof. exact mid_creation_not_obtained. Qed.
Print Assumptions c06_mid_creation_not_obtained.

(* marked for destruction: once the last deregistration has locked the registry, a registration attempt
   fails with IsMarkedForDestruction and changes no instance *)
Theorem c06_lifetime_partial_marked : forall P t g l j own x,
  at_pc l = OReg j own -> get_inst g j = Some x -> nreg l = O -> i_locked x = true -> in_ooc l = None ->
  exists g' l' es, step P t g l = Some (g', l', es) /\ insts g' = insts g /\
    (own = false -> rets l' = rets l ++ [RErr SOpen IsMarkedForDestruction]) /\
    (own = true -> at_pc l' = PRmTag (KRet KOpen IsMarkedForDestruction)).
Proof. exact locked_registry_refuses. Qed.
Print Assumptions c06_lifetime_partial_marked.

(* ---------------------------------------------------------------------------------------------- *)
(* the node registry and the lifetime of the resources (all interleavings of the refined protocol:  *)
(* acquire = [lock check + cell CAS] ; [generation increment, LOCK re-checked];                     *)
(* release(LockIfLastIndex) = [cell CAS + increment] ; [snapshot] ; [CAS generation -> LOCK])        *)
(* Hypotheses: p_recheck P = true (the code re-checks; refuted without: c06_recheck_refuted), and          *)
(* gmulti g = false: no release has reported Locked for a set that ANOTHER release had locked        *)
(* (that happens in the code: c06_single_last_refuted).                                                    *)
(* ---------------------------------------------------------------------------------------------- *)
(* (1) the set of node ids in the registry of an instance that is not marked for destruction = the nodes that hold
   a handle + the nodes in flight: inside open after the cell CAS, the creator between its initializer and the
   hand-out, inside the drop of the last handle before the cell is cleared *)
Theorem c06_registry_correspondence : forall P progs g ls,
  p_recheck P = true -> reachable (step P) (init progs) (g, ls) -> gmulti g = false -> forall i x t,
  get_inst g i = Some x -> i_locked x = false ->
  (In t (i_members x) <->
   regi (ls t) = Some i \/ pcl (at_pc (ls t)) = CUnconf i \/ pcl (at_pc (ls t)) = CInit i \/ pcl (at_pc (ls t)) = CDropPre i).
Proof. exact registry_correspondence. Qed.
Print Assumptions c06_registry_correspondence.

Theorem c06_handles_registered : forall P progs g ls,
  p_recheck P = true -> reachable (step P) (init progs) (g, ls) -> gmulti g = false -> forall t j c,
  In (j, c) (handles (ls t)) -> regi (ls t) = Some j /\ nreg (ls t) = length (handles (ls t)).
Proof. exact handles_registered. Qed.
Print Assumptions c06_handles_registered.

(* (2) never earlier: while a node holds a handle the instance is completely initialised and not marked for destruction,
   its dynamic config exists, its static config is the file linked under the name, the node is in its registry *)
Theorem c06_holder_resources_exist : forall P progs g ls,
  p_recheck P = true -> reachable (step P) (init progs) (g, ls) -> gmulti g = false -> forall t j c,
  In (j, c) (handles (ls t)) ->
  exists x, get_inst g j = Some x /\ i_dy x = DFinal /\ i_locked x = false /\ i_dy_linked x = true /\ cur g = Some j /\
            In t (i_members x).
Proof. exact holder_resources_exist. Qed.
Print Assumptions c06_holder_resources_exist.

(* ... a locked registry has no holder, no creator about to hand out, nobody about to deregister: a late opener whose
   cell CAS slipped in is the only kind of member left, and it fails the re-check (c06_late_opener_refused) *)
Theorem c06_locked_no_holder : forall P progs g ls,
  p_recheck P = true -> reachable (step P) (init progs) (g, ls) -> gmulti g = false -> forall i x t,
  get_inst g i = Some x -> i_locked x = true ->
  (forall c, ~ In (i, c) (handles (ls t))) /\ regi (ls t) <> Some i /\
  pcl (at_pc (ls t)) <> CInit i /\ pcl (at_pc (ls t)) <> CDropPre i.
Proof. exact locked_no_holder. Qed.
Print Assumptions c06_locked_no_holder.

Theorem c06_late_opener_refused : forall P t g l j own x,
  p_recheck P = true -> at_pc l = RIncr j own -> get_inst g j = Some x -> i_locked x = true ->
  exists g' l' es, step P t g l = Some (g', l', es) /\ handles l' = handles l /\ nreg l' = nreg l /\ insts g' = insts g.
Proof. exact late_opener_refused. Qed.
Print Assumptions c06_late_opener_refused.

(* exactly when: the resources are removed only by the thread whose release locked the registry (one per instance),
   only after the lock, and the static config it removes is the instance's own *)
Theorem c06_removal_only_when_locked : forall P progs g ls,
  p_recheck P = true -> reachable (step P) (init progs) (g, ls) -> gmulti g = false -> forall t h,
  pcl (at_pc (ls t)) = CRem h ->
  cur g = Some h /\ exists x, get_inst g h = Some x /\ i_dy x = DFinal /\ i_locked x = true.
Proof. exact removal_only_when_locked. Qed.
Print Assumptions c06_removal_only_when_locked.

Theorem c06_one_remover : forall P progs g ls,
  p_recheck P = true -> reachable (step P) (init progs) (g, ls) -> gmulti g = false -> forall t t' h,
  pcl (at_pc (ls t)) = CRem h -> pcl (at_pc (ls t')) = CRem h -> t = t'.
Proof. exact one_remover. Qed.
Print Assumptions c06_one_remover.

Theorem c06_unlinked_only_after_lock : forall P progs g ls,
  p_recheck P = true -> reachable (step P) (init progs) (g, ls) -> gmulti g = false -> forall i x,
  get_inst g i = Some x -> i_dy x = DFinal -> i_dy_linked x = false -> i_locked x = true.
Proof. exact unlinked_only_after_lock. Qed.
Print Assumptions c06_unlinked_only_after_lock.

(* a completely initialised instance that is not marked for destruction is the one linked under the name: no second
   create can succeed while it lives *)
Theorem c06_live_is_linked : forall P progs g ls,
  p_recheck P = true -> reachable (step P) (init progs) (g, ls) -> gmulti g = false -> forall i x,
  get_inst g i = Some x -> i_dy x = DFinal -> i_locked x = false -> cur g = Some i.
Proof. exact live_is_linked. Qed.
Print Assumptions c06_live_is_linked.

(* ---------------------------------------------------------------------------------------------- *)
(* concrete executions: non-vacuity, and the clauses that are FALSE of the faithful model         *)
(* ---------------------------------------------------------------------------------------------- *)
Definition td_u64 : tdetail := mkTd 0 1 8 8.
Definition defs (p : pattern) : list N :=
  match p with PubSub => [2; 8; 2; 0; 2; 1; 20] | Event => [16; 16; 255; 36; 0; 0; 0; 0]
             | ReqRes => [1; 1; 1; 4; 2; 2; 2; 2; 8; 20] | Blackboard => [8; 20] end.
Definition reqA : req := mkReq PubSub true [Some 1; None; None; None; None; None; Some 2] [td_u64] [] [] [] false None.
Definition reqB : req := mkReq PubSub true [Some 2; None; None; None; None; None; Some 1] [td_u64] [] [] [] false None.
Definition reqU : req := mkReq PubSub true [None; None; None; None; None; None; None] [td_u64] [] [] [] false None.
Definition reqBb : req := mkReq Blackboard true [None; None] [td_u64] [] [] [] false None.
Definition P0 : params := mkP 0 defs true true false.
Definition P9 : params := mkP 9 defs true true false.
(* the same without the re-check of the LOCK indicator in acquire() *)
Definition P9nr : params := mkP 9 defs false true false.
(* ... and with create() giving up the ownership of the static config right after unlocking it *)
Definition P9no : params := mkP 9 defs true false false.

Definition progs2 (a b : list op) (t : nat) : list op := match t with O => a | S O => b | _ => [] end.

(* two creators race, then an opener: one create succeeds, the other gets AlreadyExists, the opener gets the
   winner's settings *)
Definition race_sched : list nat := (repeat 0 9 ++ repeat 1 9 ++ repeat 0 9 ++ repeat 1 40)%nat.
Definition ex_race := run (step P9) race_sched (init (progs2 [OCreate reqA] [OCreate reqB; OOpen reqU])).
Example c06_nonvacuous :
  reachable (step P9) (init (progs2 [OCreate reqA] [OCreate reqB; OOpen reqU])) (fst ex_race) /\
  rets (snd (fst ex_race) 0%nat) = [ROk 0 (mk_cfg (defs PubSub) reqA KCreate)] /\
  rets (snd (fst ex_race) 1%nat) = [RErr SCreate AlreadyExists; ROk 0 (mk_cfg (defs PubSub) reqA KCreate)] /\
  ncreates 0 (glog (fst (fst ex_race))) = 1%nat /\
  In (1%nat, KOpen, ROk 0%nat (mk_cfg (defs PubSub) reqA KCreate)) (glog (fst (fst ex_race))).
Proof.
  split; [unfold ex_race; apply reachable_run|]. vm_compute. repeat split; auto 10.
Qed.
Print Assumptions c06_nonvacuous.

(* a verification failure is reachable: opener asks for 2 publishers, the service has 1 *)
Example c06_incompatible_nonvacuous :
  let c := fst (run (step P9) (repeat 0 20 ++ repeat 1 6)%nat (init (progs2 [OCreate reqA] [OOpen reqB]))) in
  exists j x, at_pc (snd c 1%nat) = PRead j /\ get_inst (fst c) j = Some x /\
    open_check (i_cfg x) (the_req (snd c 1%nat)) KOpen = Some DoesNotSupportRequestedAmountOfPublishers.
Proof. vm_compute. exists 0%nat. eexists. repeat split. Qed.
Print Assumptions c06_incompatible_nonvacuous.

(* ---- termination within the budget ---- *)
Definition finished (c : cfg gst lst) (t : nat) : bool :=
  match at_pc (snd c t), prog (snd c t) with Idle, [] => true | _, _ => false end.
Definition solo_bound (P : params) : nat := 60 * S (p_T P) * S (p_T P).

(* every call returns within the budget whatever the others do (here: even if they do nothing).
   Status: no longer refuted -- the only witness was open's retry of a zero-sized dynamic config without a timeout check,
   repaired in /repo by 868edb1 and in the model (ODyFstatSize); not proved: it needs a lexicographic measure over
   (open_or_create iterations, waits of the open call, retries of the inner loop, position in the step list).  What is
   proved: every one of the three waiting loops gives up at the budget (c06_terminates_partial), and the former witness
   schedule now ends with HangsInCreation (c06_spin_regression). *)
Definition c06_terminates_full : Prop :=
  forall P progs c t, reachable (step P) (init progs) c -> (forall t', length (progs t') <= 1)%nat ->
    exists k, (k <= solo_bound P)%nat /\ finished (fst (run (step P) (repeat t k) c)) t = true.

(* the creator stands between shm_open(O_CREAT|O_EXCL) and ftruncate of the dynamic config; the opener (budget T = 0)
   now comes back with HangsInCreation, having removed the service tag it created *)
Definition spin_sched : list nat := repeat 0%nat 13.
Definition spin_cfg := fst (run (step P0) spin_sched (init (progs2 [OCreate reqA] [OOpen reqU]))).
Example c06_spin_regression :
  let c := fst (run (step P0) (repeat 1 20)%nat spin_cfg) in
  finished c 1%nat = true /\ rets (snd c 1%nat) = [RErr SOpen HangsInCreation] /\ tags (fst c) = [0%nat].
Proof. vm_compute. repeat split. Qed.
Print Assumptions c06_spin_regression.

(* no create / open_or_create can reach the fatal_panic of DynamicConfig::init: the settings it writes never have a
   zero container capacity, for every pattern, payload kind, defaults and requirement (after fix c6a737e the slice
   builders adjust like the fixed-size ones; the former witness is a regression history of the check) *)
Theorem c06_created_settings_never_panic : forall defs r k, k <> KOpen -> init_panics (mk_cfg defs r k) = false.
Proof. exact created_settings_never_panic. Qed.
Print Assumptions c06_created_settings_never_panic.

(* the three waiting loops check the budget (step level): the static-config wait gives up after T ticks, the
   zero-size wait and the permission wait of the dynamic config at T ticks *)
Theorem c06_terminates_partial : forall P t g l j n x,
  get_inst g j = Some x ->
  (at_pc l = PFstat2 j n -> st_is_init x = true -> (p_T P < n)%nat -> cur_kind l = KOpen -> in_ooc l = None -> (p_T P <= used l)%nat ->
     exists g' l' es, step P t g l = Some (g', l', es) /\ rets l' = rets l ++ [RErr SOpen HangsInCreation]) /\
  (at_pc l = ODyFstatSize j false n -> i_dy x = DCreated -> (p_T P <= n)%nat -> in_ooc l = None -> (p_T P <= used l)%nat ->
     exists g' l' es, step P t g l = Some (g', l', es) /\ rets l' = rets l ++ [RErr SOpen HangsInCreation]) /\
  (at_pc l = ODyFstatPerm j false n -> i_dy x = DSized -> (p_T P <= n)%nat -> in_ooc l = None -> (p_T P <= used l)%nat ->
     exists g' l' es, step P t g l = Some (g', l', es) /\ rets l' = rets l ++ [RErr SOpen HangsInCreation]).
Proof.
  intros P t g l j n x Hx. split; [|split].
  - intros Epc Hi Hn Ek Eo Hu. unfold step, with_inst. rewrite Epc, Hx, Hi.
    apply Nat.ltb_lt in Hn. rewrite Hn. unfold avail_hangs. rewrite Ek. unfold wait_retry.
    apply Nat.leb_le in Hu. rewrite Hu. unfold call_fails. rewrite Eo. unfold op_done, op_done_k. eexists _, _, _. split; reflexivity.
  - intros Epc Hd Hn Eo Hu. unfold step, with_inst. rewrite Epc, Hx, Hd.
    apply Nat.leb_le in Hn. rewrite Hn. unfold fail_with_tag, run_cont, wait_retry.
    apply Nat.leb_le in Hu. rewrite Hu. unfold call_fails. rewrite Eo. unfold op_done, op_done_k. eexists _, _, _. split; reflexivity.
  - intros Epc Hd Hn Eo Hu. unfold step, with_inst. rewrite Epc, Hx, Hd.
    apply Nat.leb_le in Hn. rewrite Hn. unfold fail_with_tag, run_cont, wait_retry.
    apply Nat.leb_le in Hu. rewrite Hu. unfold call_fails. rewrite Eo. unfold op_done, op_done_k. eexists _, _, _. split; reflexivity.
Qed.
Print Assumptions c06_terminates_partial.

(* ---- no failure report for a healthy service ---- *)
Definition c06_no_spurious_corruption_full : Prop :=
  forall P progs g ls t, reachable (step P) (init progs) (g, ls) -> ~ In (RErr SOpen ServiceInCorruptedState) (rets (ls t)).

(* witness: blackboard creator stopped after unlocking the static config (its resources are created next); the
   opener opens the resources before the dynamic config and does not wait for them *)
Definition bb_sched : list nat := (repeat 0 12 ++ repeat 1 30)%nat.
Definition bb_cfg := fst (run (step P9) bb_sched (init (progs2 [OCreate reqBb] [OOpen reqBb]))).
Theorem c06_no_spurious_corruption_refuted : ~ c06_no_spurious_corruption_full.
Proof.
  intros H. apply (H P9 (progs2 [OCreate reqBb] [OOpen reqBb]) (fst bb_cfg) (snd bb_cfg) 1%nat).
  - unfold bb_cfg. apply reachable_run_pair.
  - vm_compute. left; reflexivity.
Qed.
Print Assumptions c06_no_spurious_corruption_refuted.

(* ServiceInCorruptedState can only come out of the resource step, which only patterns with resources have *)
Theorem c06_no_spurious_corruption_partial : forall P t g l j x,
  at_pc l = OTagChmod2 j -> get_inst g j = Some x -> has_res (r_pat (the_req l)) = false ->
  exists g' l' es, step P t g l = Some (g', l', es) /\ at_pc l' = ODyOpen j true 0.
Proof.
  intros P t g l j x Epc Hx Hr. unfold step. rewrite Epc, Hr. eexists _, _, _. split; reflexivity.
Qed.
Print Assumptions c06_no_spurious_corruption_partial.

(* ---- the re-check of acquire() is needed ---- *)
Definition progs3 (a b c : list op) (t : nat) : list op := match t with O => a | S O => b | S (S O) => c | _ => [] end.
(* last user leaves || late opener registers: the opener's cell CAS lands between the leaver's snapshot (0 cells) and
   its CAS generation -> LOCK *)
Definition late_sched : list nat := (repeat 0 17 ++ repeat 1 15 ++ repeat 0 4 ++ [1] ++ repeat 0 5 ++ repeat 1 3)%nat.
Definition late_progs := progs2 [OCreate reqA; ODrop 0] [OOpen reqU].
Definition c06_holder_resources_norecheck_full : Prop :=
  forall P progs g ls t j c, reachable (step P) (init progs) (g, ls) -> gmulti g = false ->
    In (j, c) (handles (ls t)) -> exists x, get_inst g j = Some x /\ i_locked x = false /\ i_dy_linked x = true.
Definition late_nr := fst (run (step P9nr) late_sched (init late_progs)).
Lemma c06_recheck_witness :
  In (0%nat, mk_cfg (defs PubSub) reqA KCreate) (handles (snd late_nr 1%nat)) /\
  gmulti (fst late_nr) = false /\
  exists y, get_inst (fst late_nr) 0%nat = Some y /\ i_locked y = true /\ i_dy_linked y = false.
Proof. vm_compute. split; [left; reflexivity|]. split; [reflexivity|]. eexists. repeat split. Qed.
Print Assumptions c06_recheck_witness.

Theorem c06_recheck_refuted : ~ c06_holder_resources_norecheck_full.
Proof.
  intros H.
  assert (Hr : reachable (step P9nr) (init late_progs) (fst late_nr, snd late_nr)) by (unfold late_nr; apply reachable_run_pair).
  destruct c06_recheck_witness as (Hin & Hmul & y & Hy & Hyl & _).
  (* from here on the state is opaque: no tactic may start evaluating the run *)
  revert Hr Hin Hmul Hy. generalize (fst late_nr) as g0, (snd late_nr) as ls0. intros g0 ls0 Hr Hin Hmul Hy.
  destruct (H P9nr late_progs g0 ls0 1%nat 0%nat (mk_cfg (defs PubSub) reqA KCreate) Hr Hmul Hin) as (x & Hx & Hl & _).
  rewrite Hy in Hx. injection Hx as Exy. rewrite <- Exy in Hl. rewrite Hyl in Hl. discriminate.
Qed.
Print Assumptions c06_recheck_refuted.

(* the same schedule with the re-check: the opener gets IsMarkedForDestruction, the service is gone *)
Definition late_rc := fst (run (step P9) late_sched (init late_progs)).
Example c06_recheck_nonvacuous :
  rets (snd late_rc 1%nat) = [RErr SOpen IsMarkedForDestruction] /\ handles (snd late_rc 1%nat) = [] /\
  rets (snd late_rc 0%nat) = [ROk 0 (mk_cfg (defs PubSub) reqA KCreate); RDropped] /\
  listing (fst late_rc) = (0, 0, 0)%nat /\ gmulti (fst late_rc) = false.
Proof. vm_compute. repeat split. Qed.
Print Assumptions c06_recheck_nonvacuous.

(* ---- release(LockIfLastIndex) reports Locked to more than one releaser ---- *)
(* two holders drop concurrently: both clear their cells, one locks, the other finds the set locked (lock(): `if
   self.is_locked() { return Locked }`) and gets NoMoreOwners as well *)
Definition c06_single_last_full : Prop :=
  forall P progs g ls, p_recheck P = true -> reachable (step P) (init progs) (g, ls) -> gmulti g = false.
Definition multi_progs := progs3 [OCreate reqA; ODrop 0] [OOpen reqU; ODrop 0] [OCreate reqB].
Definition multi_sched : list nat :=
  (repeat 0 17 ++ repeat 1 17 ++ repeat 0 3 ++ repeat 1 3 ++ repeat 0 2 ++ repeat 1 1 ++ repeat 0 3 ++ repeat 2 17 ++ repeat 1 3)%nat.
Definition multi_cfg := fst (run (step P9) multi_sched (init multi_progs)).
Lemma c06_multi_witness :
  gmulti (fst multi_cfg) = true /\ cur (fst multi_cfg) = None /\
  exists x, get_inst (fst multi_cfg) 1%nat = Some x /\ i_dy x = DFinal /\ i_locked x = false /\ i_members x = [2%nat].
Proof. vm_compute. split; [reflexivity|]. split; [reflexivity|]. eexists. repeat split. Qed.
Print Assumptions c06_multi_witness.

Theorem c06_single_last_refuted : ~ c06_single_last_full.
Proof.
  intros H.
  assert (Hr : reachable (step P9) (init multi_progs) (fst multi_cfg, snd multi_cfg)) by (unfold multi_cfg; apply reachable_run_pair).
  destruct c06_multi_witness as (Hm & _).
  revert Hr Hm. generalize (fst multi_cfg) as g0, (snd multi_cfg) as ls0. intros g0 ls0 Hr Hm.
  rewrite (H P9 multi_progs g0 ls0 eq_refl Hr) in Hm. discriminate.
Qed.
Print Assumptions c06_single_last_refuted.

(* consequence: the slower of the two removes the static config BY NAME after a new service was created under it: a
   live instance (held, not marked for destruction) whose static config is gone *)
Definition c06_live_is_linked_full : Prop :=
  forall P progs g ls i x, p_recheck P = true -> reachable (step P) (init progs) (g, ls) ->
    get_inst g i = Some x -> i_dy x = DFinal -> i_locked x = false -> cur g = Some i.
Theorem c06_live_is_linked_refuted : ~ c06_live_is_linked_full.
Proof.
  intros H.
  assert (Hr : reachable (step P9) (init multi_progs) (fst multi_cfg, snd multi_cfg)) by (unfold multi_cfg; apply reachable_run_pair).
  destruct c06_multi_witness as (_ & Hc & x & Hx & Hd & Hl & _).
  revert Hr Hc Hx. generalize (fst multi_cfg) as g0, (snd multi_cfg) as ls0. intros g0 ls0 Hr Hc Hx.
  rewrite (H P9 multi_progs g0 ls0 1%nat x eq_refl Hr Hx Hd Hl) in Hc. discriminate.
Qed.
Print Assumptions c06_live_is_linked_refuted.

(* ---- a failing create leaves nothing behind ---- *)
(* all interleavings: when the name is linked to an instance that is not completely initialised, that instance's creator is
   still inside its create call; i.e. a create that has returned an error after create_locked (resource creation failed:
   blackboard key added twice, Flatbuffer schema not found; dynamic config could not be created) has removed the static
   config again, the name is free for a new create with other settings *)
Theorem c06_failed_create_leaves_no_static : forall P progs g ls i x,
  p_own_static P = true -> reachable (step P) (init progs) (g, ls) ->
  get_inst g i = Some x -> i_dy x <> DFinal -> creating (at_pc (ls (i_owner x))) <> Some i -> cur g <> Some i.
Proof. exact failed_create_leaves_no_static. Qed.
Print Assumptions c06_failed_create_leaves_no_static.

(* blackboard creator that adds the same key twice, then a create with other settings, then an open *)
Definition reqBbDup : req := mkReq Blackboard true [None; None] [td_u64] [] [] [] false (Some ServiceInCorruptedState).
Definition reqBb3 : req := mkReq Blackboard true [Some 3; None] [td_u64] [] [] [] false None.
Definition fail_progs := progs2 [OCreate reqBbDup; OCreate reqBb3] [OOpen reqBb].
Definition fail_sched : list nat := (repeat 0 16 ++ repeat 1 3 ++ repeat 0 22 ++ repeat 1 24)%nat.
Definition fail_cfg := fst (run (step P9) fail_sched (init fail_progs)).
Example c06_failed_create_nonvacuous :
  rets (snd fail_cfg 0%nat) = [RErr SCreate ServiceInCorruptedState; ROk 1 (mk_cfg (defs Blackboard) reqBb3 KCreate)] /\
  rets (snd fail_cfg 1%nat) = [RErr SOpen DoesNotExist] /\
  cur (fst fail_cfg) = Some 1%nat /\ listing (fst fail_cfg) = (1, 1, 1)%nat.
Proof. vm_compute. repeat split. Qed.
Print Assumptions c06_failed_create_nonvacuous.

(* without the ownership (seeded variant): the failed create leaves an unlocked, complete static config behind for ever *)
Definition c06_failed_create_noown_full : Prop :=
  forall P progs g ls i x, reachable (step P) (init progs) (g, ls) ->
    get_inst g i = Some x -> i_dy x <> DFinal -> creating (at_pc (ls (i_owner x))) <> Some i -> cur g <> Some i.
Definition noown_cfg := fst (run (step P9no) (repeat 0 16)%nat (init (progs2 [OCreate reqBbDup] []))).
Lemma c06_noown_witness :
  rets (snd noown_cfg 0%nat) = [RErr SCreate ServiceInCorruptedState] /\ at_pc (snd noown_cfg 0%nat) = Idle /\
  cur (fst noown_cfg) = Some 0%nat /\ does_exist (fst noown_cfg) = true /\
  exists x, get_inst (fst noown_cfg) 0%nat = Some x /\ i_dy x = DAbsent /\ i_owner x = 0%nat.
Proof. vm_compute. repeat split. eexists. repeat split. Qed.
Print Assumptions c06_noown_witness.
Theorem c06_failed_create_noown_refuted : ~ c06_failed_create_noown_full.
Proof.
  intros H.
  assert (Hr : reachable (step P9no) (init (progs2 [OCreate reqBbDup] [])) (fst noown_cfg, snd noown_cfg)) by (unfold noown_cfg; apply reachable_run_pair).
  destruct c06_noown_witness as (_ & Hpc & Hc & _ & x & Hx & Hd & Ho).
  revert Hr Hpc Hc Hx. generalize (fst noown_cfg) as g0, (snd noown_cfg) as ls0. intros g0 ls0 Hr Hpc Hc Hx.
  apply (H P9no _ g0 ls0 0%nat x Hr Hx); auto.
  - congruence.
  - rewrite Ho, Hpc. discriminate.
Qed.
Print Assumptions c06_failed_create_noown_refuted.

(* ---- lifetime ---- *)
Definition quiescent (ls : nat -> lst) : Prop := forall t, at_pc (ls t) = Idle.
(* when nobody is inside a call: the dynamic config of an instance exists iff its registry is unlocked and non-empty *)
Definition c06_lifetime_full : Prop :=
  forall P progs g ls i x, reachable (step P) (init progs) (g, ls) -> quiescent ls -> get_inst g i = Some x ->
    (i_dy x = DFinal -> gmulti g = false -> (i_dy_linked x = true <-> (i_locked x = false /\ i_members x <> []))).

(* Status: not refuted (the former witness was the leak of the repaired slice-builder panic), not proved.  Proved
   instead: c06_registry_correspondence, c06_holder_resources_exist, c06_locked_no_holder, c06_removal_only_when_locked,
   c06_unlinked_only_after_lock (never earlier; removal only by the locker, after the lock).  Missing for the "<-" direction
   at quiescence (an instance without members IS locked and removed): the progress invariant "unlocked, final, no member
   => some releaser stands between its cell CAS and its CAS generation -> LOCK with a snapshot that will be retried or
   succeed", and "locked => the locker stands in the removal steps or has finished them". *)

