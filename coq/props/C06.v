(* C06 -- service creation is atomic and its lifetime follows its users.  Statements only.
   Model: coq/model/Service.v.  Threads = nodes (one per process), any number of them, any
   programs of create / open / open_or_create / drop on ONE service name, any schedule (list of
   thread ids), any timeout budget T; one step = one libc call or one atomic registry operation. *)
From V Require Import model.Base model.Conc model.Service proofs.ServiceVerifyProofs proofs.ServiceProofs.
Open Scope N_scope.

(* ---------------------------------------------------------------------------------------------- *)
(* verify_service_configuration                                                                   *)
(* ---------------------------------------------------------------------------------------------- *)
(* verify = Ok  <->  every required attribute is present and, row by row of the pattern's table,
   existing >= required (capacities) resp. existing = required (flags, event ids, deadline), where
   `required` is the builder's value, raised from 0 to 1 exactly where the entry point adjusts *)
Theorem c06_verify_char : forall c r k,
  verify c r k = None <->
  attrs_rule (r_require r) (r_keys r) (c_attrs c) /\
  fields_ok (field_table (r_pat r)) (c_vals c)
            (req_vals (does_adjust (r_pat r) (r_sized r) k) (adjust_mask (r_pat r)) (r_vals r)).
Proof. exact verify_char. Qed.
Print Assumptions c06_verify_char.

(* verify = Err e: e is the documented error of the FIRST requirement that does not hold *)
Theorem c06_verify_first_error : forall c r k e,
  verify c r k = Some e ->
  (e = IncompatibleAttributes /\ ~ attrs_rule (r_require r) (r_keys r) (c_attrs c)) \/
  (attrs_rule (r_require r) (r_keys r) (c_attrs c) /\
   exists i fk x rv,
     nth_error (field_table (r_pat r)) i = Some (fk, e) /\ nth_error (c_vals c) i = Some x /\
     nth_error (req_vals (does_adjust (r_pat r) (r_sized r) k) (adjust_mask (r_pat r)) (r_vals r)) i = Some rv /\
     ~ field_rule fk x rv /\
     fields_ok (firstn i (field_table (r_pat r))) (c_vals c)
               (req_vals (does_adjust (r_pat r) (r_sized r) k) (adjust_mask (r_pat r)) (r_vals r))).
Proof. exact verify_error. Qed.
Print Assumptions c06_verify_first_error.

(* an open whose requirements are not met returns exactly that error at the read of the static config,
   having changed nothing: instances, the linked name and the service tags are as before *)
Theorem c06_incompatible_untouched : forall P t g l j x e,
  at_pc l = PRead j -> get_inst g j = Some x -> cur_kind l = KOpen -> in_ooc l = None ->
  open_check (i_cfg x) (the_req l) KOpen = Some e ->
  exists g' l', step P t g l = Some (g', l', [ECall CRead BStatic XOk; ERet (RErr SOpen e)]) /\
    fs_part g' = fs_part g /\ rets l' = rets l ++ [RErr SOpen e] /\ handles l' = handles l /\ at_pc l' = Idle.
Proof. exact incompatible_open_returns. Qed.
Print Assumptions c06_incompatible_untouched.

(* ... and nothing was changed on the way there: is_service_available only looks *)
Theorem c06_availability_reads_only : forall P t g l g' l' es,
  step P t g l = Some (g', l', es) -> avail_pc (at_pc l) -> fs_part g' = fs_part g.
Proof. exact avail_phase_reads_only. Qed.
Print Assumptions c06_availability_reads_only.

(* ---------------------------------------------------------------------------------------------- *)
(* all interleavings                                                                              *)
(* ---------------------------------------------------------------------------------------------- *)
(* every call that ever returned Ok (create, open or open_or_create; glog = all returned results)
   refers to an instance whose dynamic config has passed the creator's final initialisation step, and
   carries exactly the settings stored by that instance's creator: nobody obtains a half-initialised
   service *)
Theorem c06_open_complete : forall P progs g ls t k j c,
  reachable (step P) (init progs) (g, ls) -> In (t, k, ROk j c) (glog g) ->
  exists x, get_inst g j = Some x /\ i_cfg x = c /\ i_dy x = DFinal.
Proof. exact open_complete. Qed.
Print Assumptions c06_open_complete.

Theorem c06_ok_same_settings : forall P progs g ls t1 k1 t2 k2 j c1 c2,
  reachable (step P) (init progs) (g, ls) ->
  In (t1, k1, ROk j c1) (glog g) -> In (t2, k2, ROk j c2) (glog g) -> c1 = c2.
Proof. exact ok_same_settings. Qed.
Print Assumptions c06_ok_same_settings.

(* an instance = what one exclusive creation of the static config file made; the file name is linked
   to at most one instance at a time (gst.cur); per instance at most one create ever returns Ok *)
Theorem c06_single_creator : forall P progs g ls j,
  reachable (step P) (init progs) (g, ls) -> (ncreates j (glog g) <= 1)%nat.
Proof. exact single_creator. Qed.
Print Assumptions c06_single_creator.

(* while its creator is between create_locked and the final permissions, nobody has obtained the instance *)
Theorem c06_mid_creation_not_obtained : forall P progs g ls t i t0 k c,
  reachable (step P) (init progs) (g, ls) -> creating (at_pc (ls t)) = Some i -> ~ In (t0, k, ROk i c) (glog g).
Proof. exact mid_creation_not_obtained. Qed.
Print Assumptions c06_mid_creation_not_obtained.

(* marked for destruction: once the last deregistration has locked the registry, a registration attempt
   fails with IsMarkedForDestruction and changes no instance *)
Theorem c06_lifetime_partial_marked : forall P t g l j own x,
  at_pc l = OReg j own -> get_inst g j = Some x -> nreg l = O -> i_locked x = true -> in_ooc l = None ->
  exists g' l' es, step P t g l = Some (g', l', es) /\ insts g' = insts g /\
    (own = false -> rets l' = rets l ++ [RErr SOpen IsMarkedForDestruction]) /\
    (own = true -> at_pc l' = PRmTag (KRet KOpen IsMarkedForDestruction)).
Proof. exact locked_registry_refuses. Qed.
Print Assumptions c06_lifetime_partial_marked.

(* ---------------------------------------------------------------------------------------------- *)
(* concrete executions: non-vacuity, and the clauses that are FALSE of the faithful model         *)
(* ---------------------------------------------------------------------------------------------- *)
Definition td_u64 : tdetail := mkTd 0 1 8 8.
Definition defs (p : pattern) : list N :=
  match p with PubSub => [2; 8; 2; 0; 2; 1; 20] | Event => [16; 16; 255; 36; 0; 0; 0; 0]
             | ReqRes => [1; 1; 1; 4; 2; 2; 2; 2; 8; 20] | Blackboard => [8; 20] end.
Definition reqA : req := mkReq PubSub true [Some 1; None; None; None; None; None; Some 2] [td_u64] [] [] [] false.
Definition reqB : req := mkReq PubSub true [Some 2; None; None; None; None; None; Some 1] [td_u64] [] [] [] false.
Definition reqU : req := mkReq PubSub true [None; None; None; None; None; None; None] [td_u64] [] [] [] false.
Definition reqBb : req := mkReq Blackboard true [None; None] [td_u64] [] [] [] false.
Definition P0 : params := mkP 0 defs.
Definition P9 : params := mkP 9 defs.

Definition progs2 (a b : list op) (t : nat) : list op := match t with O => a | S O => b | _ => [] end.

(* two creators race, then an opener: one create succeeds, the other gets AlreadyExists, the opener gets the
   winner's settings *)
Definition race_sched : list nat := (repeat 0 9 ++ repeat 1 9 ++ repeat 0 9 ++ repeat 1 40)%nat.
Definition ex_race := run (step P9) race_sched (init (progs2 [OCreate reqA] [OCreate reqB; OOpen reqU])).
Example c06_nonvacuous :
  reachable (step P9) (init (progs2 [OCreate reqA] [OCreate reqB; OOpen reqU])) (fst ex_race) /\
  rets (snd (fst ex_race) 0%nat) = [ROk 0 (mk_cfg (defs PubSub) reqA KCreate)] /\
  rets (snd (fst ex_race) 1%nat) = [RErr SCreate AlreadyExists; ROk 0 (mk_cfg (defs PubSub) reqA KCreate)] /\
  ncreates 0 (glog (fst (fst ex_race))) = 1%nat /\
  In (1%nat, KOpen, ROk 0%nat (mk_cfg (defs PubSub) reqA KCreate)) (glog (fst (fst ex_race))).
Proof.
  split; [unfold ex_race; apply reachable_run|]. vm_compute. repeat split; auto 10.
Qed.
Print Assumptions c06_nonvacuous.

(* a verification failure is reachable: opener asks for 2 publishers, the service has 1 *)
Example c06_incompatible_nonvacuous :
  let c := fst (run (step P9) (repeat 0 20 ++ repeat 1 6)%nat (init (progs2 [OCreate reqA] [OOpen reqB]))) in
  exists j x, at_pc (snd c 1%nat) = PRead j /\ get_inst (fst c) j = Some x /\
    open_check (i_cfg x) (the_req (snd c 1%nat)) KOpen = Some DoesNotSupportRequestedAmountOfPublishers.
Proof. vm_compute. exists 0%nat. eexists. repeat split. Qed.
Print Assumptions c06_incompatible_nonvacuous.

(* ---- termination within the budget ---- *)
Definition finished (c : cfg gst lst) (t : nat) : bool :=
  match at_pc (snd c t), prog (snd c t) with Idle, [] => true | _, _ => false end.
Definition solo_bound (P : params) : nat := 60 * S (p_T P) * S (p_T P).

(* every call returns within the budget whatever the others do (here: even if they do nothing) *)
Definition c06_terminates_full : Prop :=
  forall P progs c t, reachable (step P) (init progs) c -> (forall t', length (progs t') <= 1)%nat ->
    exists k, (k <= solo_bound P)%nat /\ finished (fst (run (step P) (repeat t k) c)) t = true.

(* witness: the creator stands between shm_open(O_CREAT|O_EXCL) and ftruncate of the dynamic config; the opener
   (budget T = 0) retries MappingSizeIsZero for ever: open_impl has no timeout check on that branch
   (known finding open:zero-size-dynamic-config-spins-without-timeout) *)
Definition spin_sched : list nat := repeat 0%nat 13.
Definition spin_cfg := fst (run (step P0) spin_sched (init (progs2 [OCreate reqA] [OOpen reqU]))).
Lemma c06_open_spin_refuted :
  forallb (fun k => negb (finished (fst (run (step P0) (repeat 1 k)%nat spin_cfg)) 1%nat)) (seq 0 (S (solo_bound P0))) = true.
Proof. vm_compute. reflexivity. Qed.
Print Assumptions c06_open_spin_refuted.

Theorem c06_terminates_refuted : ~ c06_terminates_full.
Proof.
  intros H.
  destruct (H P0 (progs2 [OCreate reqA] [OOpen reqU]) spin_cfg 1%nat) as (k & Hk & Hf).
  - unfold spin_cfg; apply reachable_run.
  - intros [|[|t']]; cbn; auto.
  - pose proof c06_open_spin_refuted as Hs. rewrite forallb_forall in Hs.
    assert (Hin : In k (seq 0 (S (solo_bound P0)))) by (apply in_seq; lia).
    specialize (Hs k Hin). rewrite Hf in Hs. discriminate.
Qed.
Print Assumptions c06_terminates_refuted.

(* no create / open_or_create can reach the fatal_panic of DynamicConfig::init: the settings it writes never have a
   zero container capacity, for every pattern, payload kind, defaults and requirement (after fix c6a737e the slice
   builders adjust like the fixed-size ones; the former witness is a regression history of the check) *)
Theorem c06_created_settings_never_panic : forall defs r k, k <> KOpen -> init_panics (mk_cfg defs r k) = false.
Proof. exact created_settings_never_panic. Qed.
Print Assumptions c06_created_settings_never_panic.

(* what holds: the two waiting loops that DO check the budget stop there (step level):
   the static-config wait gives up after T ticks, the permission wait of the dynamic config at T ticks *)
Theorem c06_terminates_partial : forall P t g l j n x,
  get_inst g j = Some x ->
  (at_pc l = PFstat2 j n -> st_is_init x = true -> (p_T P < n)%nat -> cur_kind l = KOpen -> in_ooc l = None -> (p_T P <= used l)%nat ->
     exists g' l' es, step P t g l = Some (g', l', es) /\ rets l' = rets l ++ [RErr SOpen HangsInCreation]) /\
  (at_pc l = ODyFstatPerm j false n -> i_dy x = DSized -> (p_T P <= n)%nat -> in_ooc l = None -> (p_T P <= used l)%nat ->
     exists g' l' es, step P t g l = Some (g', l', es) /\ rets l' = rets l ++ [RErr SOpen HangsInCreation]).
Proof.
  intros P t g l j n x Hx. split.
  - intros Epc Hi Hn Ek Eo Hu. unfold step, with_inst. rewrite Epc, Hx, Hi.
    apply Nat.ltb_lt in Hn. rewrite Hn. unfold avail_hangs. rewrite Ek. unfold wait_retry.
    apply Nat.leb_le in Hu. rewrite Hu. unfold call_fails. rewrite Eo. unfold op_done, op_done_k. eexists _, _, _. split; reflexivity.
  - intros Epc Hd Hn Eo Hu. unfold step, with_inst. rewrite Epc, Hx, Hd.
    apply Nat.leb_le in Hn. rewrite Hn. unfold fail_with_tag, run_cont, wait_retry.
    apply Nat.leb_le in Hu. rewrite Hu. unfold call_fails. rewrite Eo. unfold op_done, op_done_k. eexists _, _, _. split; reflexivity.
Qed.
Print Assumptions c06_terminates_partial.

(* ---- no failure report for a healthy service ---- *)
Definition c06_no_spurious_corruption_full : Prop :=
  forall P progs g ls t, reachable (step P) (init progs) (g, ls) -> ~ In (RErr SOpen ServiceInCorruptedState) (rets (ls t)).

(* witness: blackboard creator stopped after unlocking the static config (its resources are created next); the
   opener opens the resources before the dynamic config and does not wait for them *)
Definition bb_sched : list nat := (repeat 0 12 ++ repeat 1 30)%nat.
Definition bb_cfg := fst (run (step P9) bb_sched (init (progs2 [OCreate reqBb] [OOpen reqBb]))).
Theorem c06_no_spurious_corruption_refuted : ~ c06_no_spurious_corruption_full.
Proof.
  intros H. apply (H P9 (progs2 [OCreate reqBb] [OOpen reqBb]) (fst bb_cfg) (snd bb_cfg) 1%nat).
  - unfold bb_cfg. apply reachable_run_pair.
  - vm_compute. left; reflexivity.
Qed.
Print Assumptions c06_no_spurious_corruption_refuted.

(* ServiceInCorruptedState can only come out of the resource step, which only patterns with resources have *)
Theorem c06_no_spurious_corruption_partial : forall P t g l j x,
  at_pc l = OTagChmod2 j -> get_inst g j = Some x -> has_res (r_pat (the_req l)) = false ->
  exists g' l' es, step P t g l = Some (g', l', es) /\ at_pc l' = ODyOpen j true 0.
Proof.
  intros P t g l j x Epc Hx Hr. unfold step. rewrite Epc, Hr. eexists _, _, _. split; reflexivity.
Qed.
Print Assumptions c06_no_spurious_corruption_partial.

(* ---- lifetime ---- *)
Definition quiescent (ls : nat -> lst) : Prop := forall t, at_pc (ls t) = Idle.
(* when nobody is inside a call: the dynamic config of an instance exists iff its registry is unlocked and non-empty *)
Definition c06_lifetime_full : Prop :=
  forall P progs g ls i x, reachable (step P) (init progs) (g, ls) -> quiescent ls -> get_inst g i = Some x ->
    (i_dy_linked x = true <-> (i_locked x = false /\ i_members x <> [])).

(* Status: NOT refuted any more (the only witness was the dynamic config leaked by the panicking slice create,
   repaired by c6a737e) and NOT proved.  Missing for a proof: (1) the registry/handle correspondence
   "i_members x = the threads t with nreg (ls t) > 0 whose handles refer to i, or standing in DRmTag i / DDereg i"
   as part of the invariant (it needs: all handles of a node refer to one instance, length handles = nreg outside
   drop, owner-stage facts for CDyInit); (2) that CPanicRmStatic is unreachable, i.e. every instance's settings come
   from mk_cfg with a kind <> KOpen (then c06_created_settings_never_panic applies); (3) i_dy_linked x = true exactly
   between CDyOpen and DDyUnlink.  The G3 tie checks this clause on every history (`ls=` = linked dynamic configs
   against the model, `end` line: nothing left) and the G2 tie on every explored interleaving (F line). *)
