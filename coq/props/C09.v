(* C09 -- concurrent index allocation is exclusive, bounded and leak-free.  Statements only.
   Models: one step = one gated shared-memory access (atomic op, or UnsafeCell::get of a `next`
   cell); any number of threads; every schedule (list of thread ids); sequentially consistent
   interleaving.  UniqueIndexSet: every capacity below 2^24 - 1, schedules in which no pending
   head-CAS spans 2^16 or more successful head updates (`bounded_tag`; without it the statement is
   refuted below).  RobustUniqueIndexSet: every capacity, every schedule. *)
From V Require Import model.Base model.Conc model.Events model.UniqueIndexSet model.RobustIndexSet.
From V Require Import proofs.UniqueIndexSetCodec proofs.UniqueIndexSetProofs proofs.UniqueIndexSetWrap proofs.RobustIndexSetProofs proofs.RobustIndexSetHeld.
From V Require model.Alloc proofs.AllocProofs.
From V Require model.UniqueIndexSetRA proofs.UniqueIndexSetRAProofs.
Open Scope N_scope.

(* ---------------- HeadDetails codec (head:24 | aba:16 | borrowed:24) ---------------- *)
Theorem c09_head_codec :
  (forall h a b, h < 2 ^ 24 -> a < 2 ^ 16 -> b < 2 ^ 24 ->
     hd_head (hd_value h a b) = h /\ hd_aba (hd_value h a b) = a /\ hd_borrowed (hd_value h a b) = b /\
     hd_value h a b < 2 ^ 64) /\
  (forall w, w < 2 ^ 64 -> hd_value (hd_head w) (hd_aba w) (hd_borrowed w) = w).
Proof. split; [exact hd_from_value|exact hd_value_from]. Qed.
Print Assumptions c09_head_codec.

(* ---------------- UniqueIndexSet ---------------- *)
(* the free list from head is a duplicate-free path through `next` ending at capacity; it and
   the owned indices partition [0, capacity); borrowed = number of owned indices, or the lock
   marker with nothing owned; the ABA tag is the number of head updates modulo 2^16 *)
Theorem c09_uis_structure : forall c dist progs g ls,
  c < 16777215 -> reach_via ustep bounded_tag (uinit c dist progs) (g, ls) ->
  fpath (unext g) c (hd_head (uhead g)) (gfree g) /\ NoDup (gfree g) /\
  (forall i, i < c -> (In i (gfree g) <-> nthN (uown g) i None = None)) /\
  ((hd_borrowed (uhead g) = LOCK_ACQUIRE /\ lenN (gfree g) = c) \/ hd_borrowed (uhead g) + lenN (gfree g) = c) /\
  hd_aba (uhead g) = updates g mod 65536 /\ uhead g < P64.
Proof. exact uis_structure. Qed.
Print Assumptions c09_uis_structure.

(* no index is handed out twice (neither to two threads nor twice to one), every index a
   thread owns is below the capacity and not on the free list *)
Theorem c09_uis_exclusive : forall c dist progs g ls t t' i,
  c < 16777215 -> reach_via ustep bounded_tag (uinit c dist progs) (g, ls) ->
  In i (owned_by (ls t)) ->
  i < c /\ ~ In i (gfree g) /\ NoDup (owned_by (ls t)) /\ (In i (owned_by (ls t')) -> t = t').
Proof. exact uis_exclusive. Qed.
Print Assumptions c09_uis_exclusive.

Theorem c09_uis_borrowed_counts : forall c dist progs g ls,
  c < 16777215 -> reach_via ustep bounded_tag (uinit c dist progs) (g, ls) ->
  hd_borrowed (uhead g) <> LOCK_ACQUIRE -> hd_borrowed (uhead g) = c - lenN (gfree g).
Proof. exact uis_borrowed_counts. Qed.
Print Assumptions c09_uis_borrowed_counts.

(* acquire fails with OutOfIndices only at an instant at which the free list is empty: every
   index is owned by some thread *)
Theorem c09_uis_out_of_indices_only_when_all_owned : forall c dist progs g ls t cfg' es,
  c < 16777215 -> reach_via ustep bounded_tag (uinit c dist progs) (g, ls) ->
  step1 ustep t (g, ls) = Some (cfg', es) -> In (ERet RC_OUT_OF_INDICES) es ->
  gfree g = [] /\ forall i, i < c -> exists t', nthN (uown g) i None = Some t'.
Proof. exact uis_out_of_indices_only_when_all_owned. Qed.
Print Assumptions c09_uis_out_of_indices_only_when_all_owned.

(* IsLocked is answered only by a locked set; the only step that locks is the successful CAS of
   a release(LockIfLastIndex) that saw borrowed = 1; a locked set owns nothing, its head word
   never changes again and no acquire returns an index *)
Theorem c09_uis_is_locked_only_when_locked : forall t c c' e,
  step1 ustep t c = Some (c', e) -> In (ERet RC_IS_LOCKED) e -> is_locked (fst c).
Proof. exact is_locked_only_when_locked. Qed.
Print Assumptions c09_uis_is_locked_only_when_locked.

Theorem c09_uis_lock_origin : forall c dist progs cfg0 t cfg' e,
  c < 16777215 -> reach_via ustep bounded_tag (uinit c dist progs) cfg0 ->
  ~ is_locked (fst cfg0) -> step1 ustep t cfg0 = Some (cfg', e) -> is_locked (fst cfg') ->
  exists i u0, upc_of (snd cfg0 t) = RelCas i MLockIfLast (uhead (fst cfg0)) u0 /\ hd_borrowed (uhead (fst cfg0)) = 1.
Proof. intros c dist progs cfg0 t cfg' e Hc Hr. apply lock_origin. eapply uis_inv_reach; eauto. Qed.
Print Assumptions c09_uis_lock_origin.

Theorem c09_uis_locked_forever : forall c dist progs cfg0 t cfg' e,
  c < 16777215 -> reach_via ustep bounded_tag (uinit c dist progs) cfg0 ->
  is_locked (fst cfg0) -> step1 ustep t cfg0 = Some (cfg', e) ->
  uhead (fst cfg') = uhead (fst cfg0) /\ (forall t', owned_by (snd cfg0 t') = []) /\ forall i, ~ In (ERet (rc_ok i)) e.
Proof.
  intros c dist progs [g ls] t cfg' e Hc Hr Hl Hs. pose proof (uis_inv_reach _ _ _ _ Hc Hr) as HI.
  split; [eapply locked_stable; eauto|]. split; [intros t'; eapply locked_nobody_owns; eauto|].
  intros i. eapply locked_no_acquire; eauto.
Qed.
Print Assumptions c09_uis_locked_forever.

(* a released index is acquirable again: release's successful CAS makes it the head of the free
   list (and nobody owns it), acquire's successful CAS hands out exactly the head of the free
   list; together with the partition above no index is ever lost *)
Theorem c09_uis_release_pushes : forall c dist progs g ls t c' e i m ov u0,
  c < 16777215 -> reach_via ustep bounded_tag (uinit c dist progs) (g, ls) ->
  upc_of (ls t) = RelCas i m ov u0 -> uhead g = ov -> step1 ustep t (g, ls) = Some (c', e) ->
  gfree (fst c') = i :: gfree g /\ hd_head (uhead (fst c')) = i /\ nthN (uown (fst c')) i None = None /\
  ~ In i (owned_by (snd c' t)).
Proof. intros c dist progs g ls t c' e i m ov u0 Hc Hr. apply uis_release_pushes. eapply uis_inv_reach; eauto. Qed.
Print Assumptions c09_uis_release_pushes.

Theorem c09_uis_acquire_pops : forall c dist progs g ls t c' e ov nx u0,
  c < 16777215 -> reach_via ustep bounded_tag (uinit c dist progs) (g, ls) ->
  upc_of (ls t) = AcqCas ov nx u0 -> uhead g = ov -> step1 ustep t (g, ls) = Some (c', e) ->
  exists h, gfree g = h :: gfree (fst c') /\ upc_of (snd c' t) = AcqWDist h /\ nthN (uown (fst c')) h None = Some t.
Proof.
  intros c dist progs g ls t c' e ov nx u0 Hc Hr. apply uis_acquire_pops; [eapply uis_inv_reach; eauto|].
  apply (reach_via_P _ _ _ _ Hr t).
Qed.
Print Assumptions c09_uis_acquire_pops.

(* release never hits the `borrowed - 1` overflow panic *)
Theorem c09_uis_no_panic : forall c dist progs g ls t,
  c < 16777215 -> reach_via ustep bounded_tag (uinit c dist progs) (g, ls) -> upc_of (ls t) <> UDead.
Proof. exact uis_no_panic. Qed.
Print Assumptions c09_uis_no_panic.

(* non-vacuity: the classic ABA pattern.  Capacity 3; thread 0 loads head (index 0) and
   next[0] = 1 and stalls; thread 1 acquires 0 and 1 and releases 0: the head index is 0 again but
   next[0] is now 2.  Thread 0's CAS fails on the tag, it retries and obtains 0; all of it within
   bounded_tag. *)
Definition ex_progs (t : nat) : list uop :=
  match t with
  | O => [UAcq]
  | S O => [UAcq; UAcq; URel MDefault true]
  | _ => []
  end.
Definition ex_sched : list nat := [0;0;0; 1;1;1;1;1;1; 1;1;1;1;1;1; 1;1;1;1; 0; 0;0;0;0;0]%nat.
Example c09_uis_nonvacuous :
  exists cfg0, reach_via ustep bounded_tag (uinit 3 32 ex_progs) cfg0 /\
    owned_by (snd cfg0 0%nat) = [0] /\ owned_by (snd cfg0 1%nat) = [1] /\ gfree (fst cfg0) = [2] /\
    updates (fst cfg0) = 4 /\ hd_borrowed (uhead (fst cfg0)) = 2.
Proof.
  assert (H0 : reach_via ustep bounded_tag (uinit 3 32 ex_progs) (uinit 3 32 ex_progs) /\ quiet_above 2 (uinit 3 32 ex_progs)).
  { split.
    - apply rv_init. intros t. cbn. exact I.
    - intros t Ht. destruct t as [|[|t]]; [lia|lia|]. cbn. auto. }
  destruct H0 as [R0 Q0].
  destruct (run_chk 2 ex_sched (uinit 3 32 ex_progs)) as [cfg0|] eqn:E; [|vm_compute in E; discriminate].
  exists cfg0. destruct (run_chk_reach 2 _ _ _ _ R0 Q0 E) as [R _]. split; [exact R|].
  vm_compute in E. inversion E; subst cfg0. vm_compute. auto.
Qed.
Print Assumptions c09_uis_nonvacuous.

(* ---- the 16-bit tag: without bounded_tag exclusivity is false (candidate defect F12) ---- *)
Definition c09_uis_exclusive_full : Prop := uis_exclusive_full.
Check (eq_refl : c09_uis_exclusive_full =
  (forall c dist progs g ls t t' i,
    c < 16777215 -> reachable ustep (uinit c dist progs) (g, ls) ->
    In i (owned_by (ls t)) -> In i (owned_by (ls t')) -> t = t')).
Theorem c09_uis_tag_wrap_refuted : ~ c09_uis_exclusive_full.
Proof. exact uis_tag_wrap_refuted. Qed.
Print Assumptions c09_uis_tag_wrap_refuted.
(* the witness: 2^16 head updates by thread 1 while thread 0 is parked before its CAS; afterwards
   both own index 2 *)
Theorem c09_uis_tag_wrap_witness :
  let c := fst (run ustep wrap_sched (uinit 3 32 wrap_progs)) in
  owned_by (snd c 0%nat) = [1; 2] /\ owned_by (snd c 1%nat) = [2] /\
  updates (fst c) = 65536 + 3 /\ uprog (snd c 0%nat) = [] /\ uprog (snd c 1%nat) = [].
Proof. exact wrap_final. Qed.
Print Assumptions c09_uis_tag_wrap_witness.

(* FULL statement "no two pending plain accesses to one next cell" is false: the classic
   speculative read of a tagged-pointer stack (finding uis:speculative-next-read; specread_sched
   is replayed on the implementation on every run).  The value read is discarded. *)
Example c09_uis_no_cell_conflict_refuted :
  let c := fst (run ustep specread_sched (uinit 2 32 specread_progs)) in
  reachable ustep (uinit 2 32 specread_progs) c /\
  upc_of (snd c 0%nat) = AcqRead 0 0 /\ upc_of (snd c 1%nat) = AcqWrite 0 /\ hd_head 0 = 0.
Proof. exact uis_no_cell_conflict_refuted. Qed.
Print Assumptions c09_uis_no_cell_conflict_refuted.

(* ---------------- UniqueIndexSet under release/acquire semantics ---------------- *)
Module UISRA.
Import V.model.UniqueIndexSetRA V.proofs.UniqueIndexSetRAProofs.

(* With the six memory orderings of the code (uis_ords_code; pinned against the implementation by
   the trace comparison on every run), when every load and every FAILED compare-exchange of the
   head word may return an arbitrarily stale value of its modification order (oracle) and only
   acquire reads of release compare-exchanges transfer visibility: the structure and exclusivity
   statements above still hold, and no next-cell value used by a successful compare-exchange was
   read racily; for every capacity < 2^24 - 1, any number of threads, every tag-bounded schedule
   and every oracle. *)
Theorem c09_uisra_exclusive_and_used_race_free : forall c dist orc progs g ls,
  c < 16777215 -> reach_via (vstep uis_ords_code) vbounded (vinit c dist orc progs) (g, ls) ->
  vrace_used g = false /\
  fpath (unext (vg g)) c (hd_head (uhead (vg g))) (gfree (vg g)) /\ NoDup (gfree (vg g)) /\
  (forall i, i < c -> (In i (gfree (vg g)) <-> nthN (uown (vg g)) i None = None)) /\
  (forall t t' i, In i (owned_by (vsc (ls t))) ->
     i < c /\ ~ In i (gfree (vg g)) /\ NoDup (owned_by (vsc (ls t))) /\ (In i (owned_by (vsc (ls t'))) -> t = t')).
Proof. exact uisra_exclusive_and_used_race_free. Qed.

(* the acquire load, the acquire failure ordering and the release of release_raw_index's
   compare-exchange are each necessary *)
Example c09_uisra_orderings_necessary :
  used_race_after uis_weak_load ra_sched = true /\
  used_race_after uis_weak_cas ra_sched = true /\
  used_race_after uis_weak_fail ra_sched_fail = true /\
  used_race_after uis_ords_code ra_sched = false /\
  used_race_after uis_ords_code ra_sched_fail = false.
Proof. exact uisra_orderings_necessary. Qed.

(* under stale reads the verdict OutOfIndices is taken on the head word at the position of the
   modification order the thread observed last (vspos l'), which is never older than its previous
   observation: "at some instant since the thread's last look every index was owned", not
   necessarily an instant of the call (a plain Acquire load need not return the newest value) *)
Theorem c09_uisra_out_of_indices_verdict : forall Q t g l g' l' es,
  vstep Q t g l = Some (g', l', es) -> In (ERet RC_OUT_OF_INDICES) es ->
  ucap (vg g) <= hd_head (nthN (vhist g) (vspos l') 0).
Proof. exact vret_out_of_indices_source. Qed.

Example c09_uisra_nonvacuous_stale :
  let c := fst (run (vstep uis_ords_code) [0;0;0;0;0;0; 1;1;1;1;1;1;1;1;1]%nat (vinit 2 32 [0; 5] ra_progs)) in
  uheld (vsc (snd c 0%nat)) = [0] /\ uheld (vsc (snd c 1%nat)) = [1] /\ vrace_used (fst c) = false /\
  updates (vg (fst c)) = 2.
Proof. exact uisra_nonvacuous_stale. Qed.
End UISRA.
Print Assumptions UISRA.c09_uisra_exclusive_and_used_race_free.
Print Assumptions UISRA.c09_uisra_out_of_indices_verdict.
Print Assumptions UISRA.c09_uisra_orderings_necessary.
Print Assumptions UISRA.c09_uisra_nonvacuous_stale.

(* ---------------- RobustUniqueIndexSet ---------------- *)
(* exclusivity from the cell CAS: a cell is non-empty exactly while it has a holder, and a thread
   becomes holder of a cell only by its own CAS on the empty cell *)
Theorem c09_ruis_cell_holder : forall c dist progs g ls,
  reachable rstep (rinit c dist progs) (g, ls) -> forall i, i < rcap g ->
  (cellv g i = EMPTY <-> nthN (rholder g) i None = None).
Proof. exact ruis_cell_holder. Qed.
Print Assumptions c09_ruis_cell_holder.

Theorem c09_ruis_acquire_cas_on_empty : forall t g l g' l' es i t',
  rstep t g l = Some (g', l', es) -> i < lenN (rholder g) ->
  nthN (rholder g') i None = Some t' -> nthN (rholder g) i None <> Some t' ->
  t' = t /\ cellv g i = EMPTY /\ exists d cur, rpc_of l = AScan d cur i.
Proof. exact ruis_acquire_cas_on_empty. Qed.
Print Assumptions c09_ruis_acquire_cas_on_empty.

Theorem c09_ruis_held_in_range : forall c dist progs g ls,
  reachable rstep (rinit c dist progs) (g, ls) -> forall t i d, In (i, d) (rheld (ls t)) -> i < rcap g.
Proof. exact ruis_held_in_range. Qed.
Print Assumptions c09_ruis_held_in_range.

(* acquire answers OutOfIndices only if its scan, bracketed by an unchanged generation counter,
   found every cell taken: at the instant of the validating CAS every cell is non-empty or was
   cleared by a release/recover whose generation increment has not happened yet *)
Theorem c09_ruis_out_of_indices_bracket : forall c dist progs g ls,
  reachable rstep (rinit c dist progs) (g, ls) -> forall t cfg' es,
  step1 rstep t (g, ls) = Some (cfg', es) -> In (ERet RC_OUT_OF_INDICES) es ->
  forall i, i < rcap g -> cellv g i <> EMPTY \/ nthN (cleared_at g) i None = Some (gen g).
Proof. exact ruis_out_of_indices_bracket. Qed.
Print Assumptions c09_ruis_out_of_indices_bracket.

(* the set is locked only by lock()'s CAS after a scan bracketed by an unchanged generation
   counter counted zero owners: no cell is held by a completed acquire at that instant *)
Theorem c09_ruis_lock_only_without_completed_owner : forall c dist progs g ls,
  reachable rstep (rinit c dist progs) (g, ls) -> forall t cfg' es,
  gen g <> MAX64 -> gen g + 1 <> MAX64 -> step1 rstep t (g, ls) = Some (cfg', es) -> gen (fst cfg') = MAX64 ->
  (exists kl, rpc_of (ls t) = LockCas (gen g) kl) /\ no_completed_owner g.
Proof. exact ruis_lock_only_without_completed_owner. Qed.
Print Assumptions c09_ruis_lock_only_without_completed_owner.

(* after generation = MAX it stays MAX and no acquire returns Ok *)
Theorem c09_ruis_locked_forever : forall c dist progs g ls,
  reachable rstep (rinit c dist progs) (g, ls) -> forall t cfg' es,
  gen g = MAX64 -> step1 rstep t (g, ls) = Some (cfg', es) ->
  gen (fst cfg') = MAX64 /\ forall n, ~ In (ERet (rc_ok n)) es.
Proof. exact ruis_locked_forever. Qed.
Print Assumptions c09_ruis_locked_forever.

(* recover(d) clears a cell only by a CAS that found d in it, and records exactly that index *)
Theorem c09_ruis_recover_clears_only_owner : forall t g l g' l' es n d m mask,
  rpc_of l = RecCas n d m mask -> rstep t g l = Some (g', l', es) ->
  (cellv g n = d /\ cells g' = updN (cells g) n EMPTY /\ recovered g' = d :: recovered g /\
   rpc_of l' = IncLoad (KRec n d m (mask + 2 ^ n))) \/
  (cellv g n <> d /\ g' = g /\ rpc_of l' = rec_next g (n + 1) d m mask).
Proof. exact ruis_recover_clears_only_owner. Qed.
Print Assumptions c09_ruis_recover_clears_only_owner.

(* non-vacuity: capacity 1; thread 0 acquires and releases with LockIfLastIndex while thread 1 is
   inside acquire with its cell CAS already done: the lock succeeds, thread 1 gets IsLocked and
   its cell stays populated (leaked in a locked set) *)
Definition rex_progs (t : nat) : list rop :=
  match t with
  | O => [RAcq 1; RRel MLockIfLast false]
  | S O => [RAcq 2]
  | _ => []
  end.
Definition rex_sched : list nat := [0;0;0;0;0; 0;0;0;0; 0;0;0;0; 1;1;1; 0;0;0; 1;1]%nat.
Example c09_ruis_nonvacuous :
  let r := run rstep rex_sched (rinit 1 32 rex_progs) in
  reachable rstep (rinit 1 32 rex_progs) (fst r) /\
  gen (fst (fst r)) = MAX64 /\ cells (fst (fst r)) = [2] /\ rdone (fst (fst r)) = [false] /\
  map snd (filter (fun x => match snd x with ERet _ => true | _ => false end) (snd r)) =
    [ERet (rc_ok 0); ERet RC_LOCKED; ERet RC_IS_LOCKED].
Proof. cbv zeta. split; [exists rex_sched; reflexivity|]. vm_compute. auto. Qed.
Print Assumptions c09_ruis_nonvacuous.

(* ---- thread level: what the threads hold (held list + the pair in flight inside acquire after
   its cell CAS / inside release before its clearing CAS) ---- *)
(* Every pair (index, owner) a thread holds whose owner id no recover has taken: the cell
   contains that owner, the thread is the cell's holder, the index is below the capacity, a
   completed acquire is marked completed, no other thread and no other entry of the same thread
   holds that index under an owner id that was not recovered.  All schedules, all capacities. *)
Theorem c09_ruis_held_exclusive_partial : forall c dist progs g ls,
  reachable rstep (rinit c dist progs) (g, ls) -> forall t i d,
  In (i, d) (rowned (ls t)) -> ~ In d (recovered g) ->
  cellv g i = d /\ nthN (rholder g) i None = Some t /\ i < rcap g /\
  (In (i, d) (rcompleted (ls t)) -> nthN (rdone g) i false = true) /\
  (forall t' d', In (i, d') (rowned (ls t')) -> ~ In d' (recovered g) -> t' = t /\ d' = d) /\
  (forall a b, rowned (ls t) = a ++ (i, d) :: b -> forall d', In (i, d') (a ++ b) -> In d' (recovered g)).
Proof. exact ruis_held_exclusive. Qed.
Print Assumptions c09_ruis_held_exclusive_partial.

(* in particular, as long as no recover CAS has succeeded, no index is held by two threads *)
Theorem c09_ruis_held_exclusive_no_recover : forall c dist progs g ls,
  reachable rstep (rinit c dist progs) (g, ls) -> recovered g = [] -> forall t t' i d d',
  In (i, d) (rowned (ls t)) -> In (i, d') (rowned (ls t')) -> t = t' /\ d = d' /\ i < rcap g.
Proof.
  intros c dist progs g ls Hr Hn t t' i d d' H1 H2.
  assert (Hx : forall x, ~ In x (recovered g)) by (intros x; rewrite Hn; intros []).
  destruct (ruis_held_exclusive _ _ _ _ _ Hr t i d H1 (Hx d)) as (_ & _ & Hi & _ & He & _).
  destruct (He t' d' H2 (Hx d')) as [-> ->]. auto.
Qed.
Print Assumptions c09_ruis_held_exclusive_no_recover.

(* The unconditional statement is false of the faithful model: recover applied to an owner that is
   still inside acquire clears the cell that acquire has just populated; another thread acquires
   it, and the first acquire still returns Ok with the same index (recover's contract -- the
   owner is dead -- is not checked by the code). *)
Definition c09_ruis_held_exclusive_full : Prop := ruis_held_exclusive_full.
Check (eq_refl : c09_ruis_held_exclusive_full =
  (forall c dist progs g ls t t' i d d',
    reachable rstep (rinit c dist progs) (g, ls) ->
    In (i, d) (rowned (ls t)) -> In (i, d') (rowned (ls t')) -> t = t')).
Theorem c09_ruis_held_exclusive_refuted : ~ c09_ruis_held_exclusive_full.
Proof. exact ruis_held_exclusive_refuted. Qed.
Print Assumptions c09_ruis_held_exclusive_refuted.
Theorem c09_ruis_held_exclusive_witness :
  let r := run rstep steal_sched (rinit 1 32 steal_progs) in
  rheld (snd (fst r) 0%nat) = [(0, 1)] /\ rheld (snd (fst r) 1%nat) = [(0, 2)] /\
  cells (fst (fst r)) = [2] /\ recovered (fst (fst r)) = [1] /\
  map snd (filter (fun x => match snd x with ERet _ => true | _ => false end) (snd r)) =
    [ERet (rc_recover false 1); ERet (rc_ok 0); ERet (rc_ok 0)].
Proof. exact steal_final. Qed.
Print Assumptions c09_ruis_held_exclusive_witness.

(* non-vacuity of the partial theorem: two threads hold two indices under unrecovered owners *)
Definition hex_progs (t : nat) : list rop :=
  match t with O => [RAcq 1] | S O => [RAcq 2] | _ => [] end.
Definition hex_sched : list nat := [0;0;0;0;0; 1;1;1;1;1;1]%nat.
Example c09_ruis_held_nonvacuous :
  let c := fst (run rstep hex_sched (rinit 2 32 hex_progs)) in
  reachable rstep (rinit 2 32 hex_progs) c /\
  rowned (snd c 0%nat) = [(0, 1)] /\ rowned (snd c 1%nat) = [(1, 2)] /\ recovered (fst c) = [] /\
  cells (fst c) = [1; 2] /\ rdone (fst c) = [true; true].
Proof. cbv zeta. split; [exists hex_sched; reflexivity|]. vm_compute. auto. Qed.
Print Assumptions c09_ruis_held_nonvacuous.

(* ---- the lock at thread level ---- *)
(* The step that locks the set finds no thread holding an index from a completed acquire (in its
   held list, or inside release before the clearing CAS) except under recovered owner ids; an
   acquire in flight at that instant answers IsLocked (c09_ruis_locked_forever).  Hypothesis:
   the generation counter is not one increment away from u64::MAX (an increment from MAX - 1
   would also "lock"; that needs 2^64 - 1 increments). *)
Definition c09_ruis_lock_no_holder_full : Prop :=
  forall c dist progs g ls t cfg' es,
    reachable rstep (rinit c dist progs) (g, ls) ->
    gen g <> MAX64 -> step1 rstep t (g, ls) = Some (cfg', es) -> gen (fst cfg') = MAX64 ->
    forall t' i d, In (i, d) (rcompleted (ls t')) -> In d (recovered g).
Theorem c09_ruis_lock_no_holder_partial : forall c dist progs g ls,
  reachable rstep (rinit c dist progs) (g, ls) -> forall t cfg' es,
  gen g <> MAX64 -> gen g + 1 <> MAX64 -> step1 rstep t (g, ls) = Some (cfg', es) -> gen (fst cfg') = MAX64 ->
  forall t' i d, In (i, d) (rcompleted (ls t')) -> In d (recovered g).
Proof. exact ruis_lock_no_holder. Qed.
Print Assumptions c09_ruis_lock_no_holder_partial.
(* non-vacuity: the state of c09_ruis_nonvacuous just before lock()'s CAS satisfies the hypotheses,
   and the step locks *)
Example c09_ruis_lock_nonvacuous :
  let c := fst (run rstep (firstn 18 rex_sched) (rinit 1 32 rex_progs)) in
  reachable rstep (rinit 1 32 rex_progs) c /\ gen (fst c) = 3 /\
  match step1 rstep 0%nat c with Some (c', _) => gen (fst c') = MAX64 | None => False end /\
  rcompleted (snd c 0%nat) = [] /\ rowned (snd c 1%nat) = [(0, 2)].
Proof. cbv zeta. split; [exists (firstn 18 rex_sched); reflexivity|]. vm_compute. auto. Qed.
Print Assumptions c09_ruis_lock_nonvacuous.

(* ---- recover: sound and complete ---- *)
(* soundness is c09_ruis_recover_clears_only_owner: a cell is cleared only by a CAS that found d
   in it, and exactly those indices are recorded.  Completeness (ghost: `acqs` counts successful
   acquire CASes, pop_stamp i is its value right after the CAS that populated cell i last, rstamp
   its value when the recover call started): wherever the scan stands, every cell below it that
   holds d now was populated after the call started; when recover(d) completes (RecEnd) that
   holds for every cell -- a cell that held d during the whole call has been cleared. *)
Theorem c09_ruis_recover_scan : forall c dist progs g ls,
  reachable rstep (rinit c dist progs) (g, ls) -> forall t n d,
  rec_pos g (rpc_of (ls t)) = Some (n, d) -> d <> EMPTY ->
  rstamp (ls t) <= acqs g /\
  forall i, i < n -> i < rcap g -> cellv g i = d -> rstamp (ls t) < nthN (pop_stamp g) i 0.
Proof. exact ruis_recover_scan. Qed.
Print Assumptions c09_ruis_recover_scan.

Theorem c09_ruis_recover_complete : forall c dist progs g ls,
  reachable rstep (rinit c dist progs) (g, ls) -> forall t d mask,
  rpc_of (ls t) = RecEnd d mask -> d <> EMPTY ->
  forall i, i < rcap g -> cellv g i = d -> rstamp (ls t) < nthN (pop_stamp g) i 0.
Proof. exact ruis_recover_complete. Qed.
Print Assumptions c09_ruis_recover_complete.

(* hence, if no acquire(d) CAS succeeded on a cell that still holds d since the call started,
   no cell holds d when recover(d) completes *)
Theorem c09_ruis_recover_leaves_none_partial : forall c dist progs g ls,
  reachable rstep (rinit c dist progs) (g, ls) -> forall t d mask,
  rpc_of (ls t) = RecEnd d mask -> d <> EMPTY ->
  (forall i, i < rcap g -> cellv g i = d -> nthN (pop_stamp g) i 0 <= rstamp (ls t)) ->
  forall i, i < rcap g -> cellv g i <> d.
Proof. exact ruis_recover_leaves_none. Qed.
Print Assumptions c09_ruis_recover_leaves_none_partial.

(* non-vacuity: owner 1 holds both cells of a capacity-2 set; recover(1) runs to RecEnd with
   mask 0b11: both cells are empty and the hypothesis above holds *)
Definition cex_progs (t : nat) : list rop :=
  match t with O => [RAcq 1; RAcq 1] | S O => [RRecover 1 MDefault] | _ => [] end.
Definition cex_sched : list nat := [0;0;0;0;0; 0;0;0;0;0;0; 1;1;1;1;1;1;1;1;1;1]%nat.
Example c09_ruis_recover_nonvacuous :
  let c := fst (run rstep cex_sched (rinit 2 32 cex_progs)) in
  reachable rstep (rinit 2 32 cex_progs) c /\
  rpc_of (snd c 1%nat) = RecEnd 1 3 /\ cells (fst c) = [EMPTY; EMPTY] /\ recovered (fst c) = [1; 1] /\
  rstamp (snd c 1%nat) = 2 /\ pop_stamp (fst c) = [1; 2] /\ rheld (snd c 0%nat) = [(0, 1); (1, 1)].
Proof. cbv zeta. split; [exists cex_sched; reflexivity|]. vm_compute. repeat split; reflexivity. Qed.
Print Assumptions c09_ruis_recover_nonvacuous.

(* ---------------- pool allocator: distinct indices -> disjoint in-segment buckets ---------------- *)
Import V.model.Alloc.
Theorem c09_pool_disjoint : forall bl ptr size p i j,
  lalign bl <> 0 -> pool_new bl ptr size = Val p -> i < p_nb p -> j < p_nb p -> i <> j ->
  (ptr <= bucket_addr p i /\ bucket_addr p i + p_bsize p <= ptr + size) /\
  (ptr <= bucket_addr p j /\ bucket_addr p j + p_bsize p <= ptr + size) /\
  (bucket_addr p i + p_bsize p <= bucket_addr p j \/ bucket_addr p j + p_bsize p <= bucket_addr p i).
Proof.
  intros bl ptr size p i j Ha Hn Hi Hj Hij.
  split; [eapply V.proofs.AllocProofs.pool_inbounds; eauto|].
  split; [eapply V.proofs.AllocProofs.pool_inbounds; eauto|].
  apply V.proofs.AllocProofs.pool_disjoint. assumption.
Qed.
Print Assumptions c09_pool_disjoint.
