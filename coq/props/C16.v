(* C16 -- fixed-capacity containers match reference models.  Statements only; every proof
   is `exact <lemma>` from proofs/, followed by Print Assumptions (checked by ./check). *)
From V Require Import model.Base model.RingQueue proofs.RingQueueProofs.
From V Require Import model.Obs model.Vec proofs.VecProofs.
From V Require Import model.SlotMap proofs.SlotMapProofs.
From V Require Import model.Str proofs.StrProofs proofs.StrRefine model.FlatMap proofs.FlatMapProofs proofs.FlatMapRefine.
From V Require Import model.RelocOption proofs.RelocOptionProofs.
From Coq Require Import Permutation.

(* queue.rs: for every capacity (0 included) and every operation sequence the ring buffer
   returns exactly what the unbounded FIFO with a capacity guard returns: push fails (false)
   and changes nothing when full, push_with_overflow evicts exactly the oldest, get panics
   exactly when out of range, clear/drop hands every remaining element to drop exactly once
   in FIFO order. *)
Theorem c16_queue_refines_fifo : forall (c : N) (ops : list qop),
  rq_run (rq_new c) ops = sq_run (sq_new c) ops.
Proof. exact rq_refines_fifo. Qed.
Check c16_queue_refines_fifo : forall (c : N) (ops : list qop), rq_run (rq_new c) ops = sq_run (sq_new c) ops.
Print Assumptions c16_queue_refines_fifo.

Theorem c16_queue_len_bounded : forall c ops q,
  q = fold_left (fun q o => fst (rq_step q o)) ops (rq_new c) -> (len q <= cap q)%N /\ cap q = c.
Proof. exact rq_len_bounded. Qed.
Print Assumptions c16_queue_len_bounded.

(* ------------------------------------------------------------------------------------------
   vector/mod.rs (trait Vector<T>; StaticVec, PolymorphicVec, RelocatableVec share this code).
   Each element of a run is (returned value, drop log of that call). *)

(* For every capacity (0 included) and every operation sequence over push / pop / insert /
   remove / clear / truncate / resize / extend_from_slice / len / as_slice, the (len, buffer)
   representation with its memmove shifts returns exactly what the list reference with a
   capacity guard returns, including the documented errors and the per-call drop logs
   (clear/truncate/container drop release in reverse index order; a rejected by-value
   argument is dropped by the call). *)
Theorem c16_vec_refines_list : forall (c : N) (ops : list vop),
  vec_run (vec_new c) ops = svec_run (svec_new c) ops.
Proof. exact vec_refines_list. Qed.
Check c16_vec_refines_list : forall (c : N) (ops : list vop), vec_run (vec_new c) ops = svec_run (svec_new c) ops.
Print Assumptions c16_vec_refines_list.

(* From every reachable state no call panics (all slice indexing is in range) and len <= capacity. *)
Theorem c16_vec_no_panic_bounded : forall c v s o, vreach c v s ->
  snd (fst (vec_step v o)) <> OP /\ (vlen v <= c)%N.
Proof. exact vec_no_panic_bounded. Qed.
Print Assumptions c16_vec_no_panic_bounded.
Example c16_vec_no_panic_bounded_nonvacuous : exists v s, vreach 2 v s /\ vlen v = 1%N.
Proof.
  exists (fst (fst (vec_step (vec_new 2) (VPush 7)))), (fst (fst (svec_step (svec_new 2) (VPush 7)))).
  split; [apply vreachS, vreach0|reflexivity].
Qed.
Print Assumptions c16_vec_no_panic_bounded_nonvacuous.

(* A call that fails with a documented error changes nothing, in the implementation model
   (the whole record, not only its abstraction) and in the reference. *)
Theorem c16_vec_error_unchanged : forall v o v' e d, vec_step v o = (v', OErr e, d) -> v' = v.
Proof. exact vec_error_unchanged. Qed.
Print Assumptions c16_vec_error_unchanged.
Example c16_vec_error_unchanged_nonvacuous :
  vec_step (vec_new 0) (VPush 7) = (vec_new 0, OErr EExceedsCapacity, [7%N]) /\
  vec_step (fst (fst (vec_step (vec_new 2) (VPush 7)))) (VInsert 2 8) =
    (fst (fst (vec_step (vec_new 2) (VPush 7))), OErr EOutOfBounds, [8%N]).
Proof. split; reflexivity. Qed.
Print Assumptions c16_vec_error_unchanged_nonvacuous.

(* Drop exactly once: over the whole life of a vector (any capacity, any operation sequence,
   then the container's Drop), the values that entered (moved in or cloned in, with
   multiplicity) are exactly the values handed back plus the values dropped -- as multisets --
   and the container's Drop releases exactly the still-stored elements, last index first. *)
Theorem c16_vec_drop_once : forall c ops,
  let '(ins, outs, sf) := svec_totals (svec_new c) ops in
  let '(_, _, dfinal) := svec_step sf VClear in
  Permutation ins (outs ++ dfinal) /\ dfinal = rev (sitems sf).
Proof. exact vec_drop_once. Qed.
Print Assumptions c16_vec_drop_once.

(* ------------------------------------------------------------------------------------------
   slotmap.rs (MetaSlotMap; SlotMap, FixedSizeSlotMap, RelocatableSlotMap share this code). *)

(* For every capacity (0 included) and every operation sequence over insert / insert_at /
   remove / get / contains / next_free_key / iteration / len / container drop (keys out of
   range included), the concrete representation (idx_to_data, doubly linked free list with head,
   data, data_next_free_index ring queue, len) returns exactly what the finite-map reference
   returns; drop logs agree as multisets (they are equal lists except at container drop, whose
   order the reference leaves open). *)
Theorem c16_slotmap_refines_map_full : forall (c : N) (ops : list mop),
  Forall2 obs_rel (sm_run (sm_new c) ops) (smap_run (smap_new c) ops).
Proof. exact sm_refines_map. Qed.
Check c16_slotmap_refines_map_full : forall (c : N) (ops : list mop),
  Forall2 obs_rel (sm_run (sm_new c) ops) (smap_run (smap_new c) ops).
Print Assumptions c16_slotmap_refines_map_full.

(* regression histories of the former deviations (capacity 0; keys >= capacity), fixed in /repo *)
Theorem c16_slotmap_regression_cap0 :
  map fst (sm_run (sm_new 0) [MInsert 1; MNextFree; MGet 0; MContains 0; MRemove 0; MInsertAt 0 2]) =
  [OO None; OO None; OO None; OB false; OO None; OB false].
Proof. exact sm_regression_cap0. Qed.
Print Assumptions c16_slotmap_regression_cap0.
Theorem c16_slotmap_regression_oob :
  map fst (sm_run (sm_new 1) [MGet 1; MContains 1; MGet 7]) = [OO None; OB false; OO None].
Proof. exact sm_regression_oob. Qed.
Print Assumptions c16_slotmap_regression_oob.

(* The representation invariant, for every reachable state of every capacity: the free list
   from the head is a duplicate-free doubly linked path covering exactly the keys whose
   idx_to_data is INVALID; occupied entries have both links INVALID; data_next_free_index holds
   exactly the unused data slots (no duplicates, as many as there are free keys); occupied keys
   point to pairwise distinct data slots holding the finite map's value; len = number of
   occupied keys. *)
Theorem c16_slotmap_invariant : forall c m s, mreach c m s ->
  path (flist m) None (fhead m) (mfree s) /\ NoDup (mfree s) /\
  (forall k, In k (mfree s) <-> (k < c)%N /\ geto (i2d m) k = None) /\
  (forall k, (k < c)%N -> geto (i2d m) k <> None -> nthf (flist m) k = fl0) /\
  NoDup (abs (dnf m)) /\
  (forall d, In d (abs (dnf m)) -> (d < c)%N /\ geto (sdata m) d = None /\ forall k, (k < c)%N -> geto (i2d m) k <> Some d) /\
  length (abs (dnf m)) = length (mfree s) /\
  (forall k, (k < c)%N -> match geto (i2d m) k with
                      | None => mget s k = None
                      | Some d => (d < c)%N /\ geto (sdata m) d = mget s k /\ mget s k <> None end) /\
  (forall k k' d, (k < c)%N -> (k' < c)%N -> geto (i2d m) k = Some d -> geto (i2d m) k' = Some d -> k = k') /\
  smlen m = lenN (filter is_some (mvals s)).
Proof. exact sm_invariant. Qed.
Print Assumptions c16_slotmap_invariant.
Example c16_slotmap_invariant_nonvacuous :
  mreach 2 (fst (fst (sm_step (sm_new 2) (MInsertAt 1 7)))) (fst (fst (smap_step (smap_new 2) (MInsertAt 1 7)))).
Proof. apply mreachS, mreach0. Qed.
Print Assumptions c16_slotmap_invariant_nonvacuous.

(* insert returns a key that was free (it never overwrites a live entry and drops nothing), sets
   exactly that key, and fails -- dropping exactly the rejected value, changing nothing -- only
   when every key is occupied. *)
Theorem c16_slotmap_insert_fresh : forall c m s v, mreach c m s ->
  let '(m', ob, d) := sm_step m (MInsert v) in
  let '(s', _, _) := smap_step s (MInsert v) in
  match ob with
  | OO (Some k) => (k < c)%N /\ mget s k = None /\ d = [] /\ mget s' k = Some v /\
                   (forall j, j <> k -> mget s' j = mget s j)
  | OO None => (forall j, (j < c)%N -> mget s j <> None) /\ d = [v] /\ s' = s
  | _ => False
  end.
Proof. exact sm_insert_fresh. Qed.
Print Assumptions c16_slotmap_insert_fresh.
Example c16_slotmap_insert_fresh_nonvacuous : mreach 0 (sm_new 0) (smap_new 0) /\ mreach 3 (sm_new 3) (smap_new 3).
Proof. split; constructor. Qed.
Print Assumptions c16_slotmap_insert_fresh_nonvacuous.

(* Drop exactly once: over any operation sequence on a slot map of any capacity (0 included), the
   values that entered are -- as multisets -- the values handed back by remove, plus the values
   dropped inside calls (overwritten by insert_at, rejected by a failing insert / insert_at),
   plus the drop log of the container's Drop taken on the concrete state reached by the same
   operations. *)
Theorem c16_slotmap_drop_once : forall c ops, Forall (fun o => o <> MDrop) ops ->
  let '(ins, outs, sf) := smap_totals (smap_new c) ops in
  Permutation ins (outs ++ sm_drop_log (sm_final (sm_new c) ops)).
Proof. exact sm_drop_once. Qed.
Print Assumptions c16_slotmap_drop_once.
Example c16_slotmap_drop_once_nonvacuous :
  Forall (fun o => o <> MDrop) [MInsert 5; MInsertAt 0 6; MRemove 1].
Proof. repeat constructor; discriminate. Qed.
Print Assumptions c16_slotmap_drop_once_nonvacuous.

(* ------------------------------------------------------------------------------------------
   string/mod.rs (trait String; StaticString, PolymorphicString, RelocatableString). *)

(* The clause as the property states it (reference: retain keeps the bytes for which the predicate
   holds) is false of the faithful model: known finding string:retain-inverted, pinned by the
   repository's own retain_works test. *)
Definition c16_str_refines_full : Prop := str_refines_full.
Theorem c16_str_refines_refuted : ~ c16_str_refines_full.
Proof. exact str_refines_refuted. Qed.
Print Assumptions c16_str_refines_refuted.
Theorem c16_str_retain_witness :
  str_run (str_new FPoly 1) [SPush 97; SRetain [97%N]; SBytes] = [OUnit; OUnit; OL []] /\
  sstr_run false (sstr_new FPoly 1) [SPush 97; SRetain [97%N]; SBytes] = [OUnit; OUnit; OL [97%N]].
Proof. exact str_retain_witness. Qed.
Print Assumptions c16_str_retain_witness.

(* Strongest true statement (partial): for every capacity, all three storage flavours (inline:
   positive capacity -- StaticString::<0>::new() panics and cannot be constructed) and every
   operation sequence over push / push_bytes / insert / insert_bytes / pop / remove /
   remove_range / retain / find / rfind / strip_prefix / strip_suffix / truncate / clear /
   as_bytes / the terminator byte / len, the (len, capacity, buffer) model with its memmove
   shifts, bounds-checked cell accesses and guarded terminator writes returns exactly what the
   byte-list reference returns -- including the documented errors, the panic of an insert beyond
   the end and the terminator byte 0 -- once the reference's retain removes instead of keeps. *)
Theorem c16_str_refines_bytes_partial : forall fl c ops, (fl = FStatic -> (0 < c)%N) ->
  str_run (str_new fl c) ops = sstr_run true (sstr_new fl c) ops.
Proof. exact str_refines_bytes. Qed.
Check c16_str_refines_bytes_partial : forall fl c ops, (fl = FStatic -> (0 < c)%N) ->
  str_run (str_new fl c) ops = sstr_run true (sstr_new fl c) ops.
Print Assumptions c16_str_refines_bytes_partial.
Example c16_str_refines_bytes_partial_nonvacuous :
  (FStatic = FStatic -> (0 < 3)%N) /\ (FPoly = FStatic -> (0 < 0)%N) /\ (FReloc = FStatic -> (0 < 0)%N).
Proof. repeat split; try reflexivity; discriminate. Qed.
Print Assumptions c16_str_refines_bytes_partial_nonvacuous.

(* ... and that reference IS the reference of the property on every call other than retain. *)
Theorem c16_str_dev_agree : forall s o, (forall l, o <> SRetain l) -> sstr_step true s o = sstr_step false s o.
Proof. exact sstr_dev_agree. Qed.
Print Assumptions c16_str_dev_agree.
Example c16_str_dev_agree_nonvacuous : forall l, SFind [97%N] <> SRetain l.
Proof. discriminate. Qed.
Print Assumptions c16_str_dev_agree_nonvacuous.

(* NUL-terminator invariant: in every reachable state data[len] = 0 (heap-backed and relocatable
   strings filled to capacity included; for the inline flavour the cell behind the array is the
   terminator field), len <= capacity, and the first len cells are the reference's content. *)
Theorem c16_str_terminator : forall fl c m s, (fl = FStatic -> (0 < c)%N) -> sreach fl c m s ->
  nthN (sbuf m) (slen m) 0%N = 0%N /\ (slen m <= scap m)%N /\ lenN (sbuf m) = (scap m + 1)%N /\
  firstn (N.to_nat (slen m)) (sbuf m) = sbytes s.
Proof. exact str_terminator. Qed.
Print Assumptions c16_str_terminator.
Example c16_str_terminator_nonvacuous :
  sreach FPoly 1 (fst (str_step (str_new FPoly 1) (SPush 97))) (fst (sstr_step true (sstr_new FPoly 1) (SPush 97))).
Proof. apply sreachS, sreach0. Qed.
Print Assumptions c16_str_terminator_nonvacuous.

(* a call failing with InsertWouldExceedCapacity / InvalidCharacter leaves the whole record (len,
   capacity, buffer) unchanged, for every state and every operation; likewise the reference *)
Theorem c16_str_error_unchanged : forall s o s' e, str_step s o = (s', OErr e) -> s' = s.
Proof. exact str_error_unchanged. Qed.
Print Assumptions c16_str_error_unchanged.
Example c16_str_error_unchanged_nonvacuous :
  str_step (str_new FPoly 1) (SPush 0) = (str_new FPoly 1, OErr EInvalidCharacter) /\
  str_step (str_new FPoly 0) (SPush 97) = (str_new FPoly 0, OErr EExceedsCapacity).
Proof. split; reflexivity. Qed.
Print Assumptions c16_str_error_unchanged_nonvacuous.
Theorem c16_str_reference_error_unchanged : forall dev s o s' e, sstr_step dev s o = (s', OErr e) -> s' = s.
Proof. exact sstr_error_unchanged. Qed.
Print Assumptions c16_str_reference_error_unchanged.
Example c16_str_reference_error_unchanged_nonvacuous :
  sstr_step false (sstr_new FPoly 0) (SPush 97) = (sstr_new FPoly 0, OErr EExceedsCapacity).
Proof. reflexivity. Qed.
Print Assumptions c16_str_reference_error_unchanged_nonvacuous.

(* byte rule: whenever insert_bytes accepts, the index was inside, the result fits and every byte
   is in 1..127; on the reference acceptance is equivalent to that, for all byte values *)
Theorem c16_str_bytes_accept_sound : forall s idx l s',
  str_insert_bytes s idx l = Val (s', OUnit) ->
  (idx <= slen s)%N /\ (slen s + lenN l <= scap s)%N /\ Forall (fun b => (1 <= b <= 127)%N) l /\ slen s' = (slen s + lenN l)%N.
Proof. exact str_insert_accept_sound. Qed.
Print Assumptions c16_str_bytes_accept_sound.
Example c16_str_bytes_accept_sound_nonvacuous :
  exists s', str_insert_bytes (str_new FStatic 3) 0 [97%N; 98%N] = Val (s', OUnit).
Proof. eexists. reflexivity. Qed.
Print Assumptions c16_str_bytes_accept_sound_nonvacuous.
Theorem c16_str_bytes_reference : forall s i l,
  snd (sins s i l) = OUnit <->
  (i <= lenN (sbytes s))%N /\ (lenN (sbytes s) + lenN l <= sscap s)%N /\ Forall (fun b => (1 <= b <= 127)%N) l.
Proof. exact sins_accept_iff. Qed.
Print Assumptions c16_str_bytes_reference.

(* regression histories of the former deviations (zero-length removal on a full StaticString;
   missing terminator), fixed in /repo by 8cf1846 / b417f55 *)
Theorem c16_str_regression_zero_len :
  str_run (str_new FStatic 1) [SPush 97; SStripPrefix []; SStripSuffix []; SRemoveRange 1 0; SBytes] =
  [OUnit; OB true; OB true; OB true; OL [97%N]].
Proof. exact str_regression_zero_len. Qed.
Print Assumptions c16_str_regression_zero_len.
Theorem c16_str_regression_nul :
  str_run (str_new FReloc 1) [SNul] = [ON 0%N] /\
  str_run (str_new FPoly 1) [SPush 97; SNul] = [OUnit; ON 0%N] /\
  str_run (str_new FReloc 1) [SPush 97; SNul] = [OUnit; ON 0%N].
Proof. exact str_regression_nul. Qed.
Print Assumptions c16_str_regression_nul.


(* ------------------------------------------------------------------------------------------
   flatmap.rs (MetaFlatMap over the slot map). *)

(* For every capacity (0 included) and every operation sequence over insert / get / get_ref /
   remove / contains / list_keys / len / container drop, the flat map (linear search by id over
   the slot map of entries) returns exactly what the association-list reference (finite map id ->
   value with a capacity guard) returns: a duplicate id fails with KeyAlreadyExists (checked
   first), insert into a full map with IsFull; list_keys and drop logs agree as multisets (the
   reference does not fix their order).  fop_ok: values below 2^32, because the model codes an
   entry (id, value) as the single number id * 2^32 + value. *)
Theorem c16_flatmap_refines_map : forall (c : N) (ops : list fop), Forall fop_ok ops ->
  Forall2 fobs_rel (fm_run (sm_new c) ops) (fmap_run (fmap_new c) ops).
Proof. exact fm_refines_map. Qed.
Check c16_flatmap_refines_map : forall (c : N) (ops : list fop), Forall fop_ok ops ->
  Forall2 fobs_rel (fm_run (sm_new c) ops) (fmap_run (fmap_new c) ops).
Print Assumptions c16_flatmap_refines_map.
Example c16_flatmap_refines_map_nonvacuous : Forall fop_ok [FInsert 3 8; FInsert 3 9; FRemove 3; FKeys; FDrop].
Proof. repeat constructor. Qed.
Print Assumptions c16_flatmap_refines_map_nonvacuous.

(* the reference's insert: present id -> KeyAlreadyExists, nothing changes; absent id and full ->
   IsFull, nothing changes; otherwise stored and found again *)
Theorem c16_flatmap_insert_cases : forall f id v,
  let '(f', ob, _) := fmap_step f (FInsert id v) in
  (alookup (fkv f) id <> None -> ob = OErr EKeyExists /\ f' = f) /\
  (alookup (fkv f) id = None -> ~ (lenN (fkv f) < fcap f)%N -> ob = OErr EIsFull /\ f' = f) /\
  (alookup (fkv f) id = None -> (lenN (fkv f) < fcap f)%N -> ob = OUnit /\ alookup (fkv f') id = Some v).
Proof. exact fmap_insert_cases. Qed.
Print Assumptions c16_flatmap_insert_cases.

(* KeyAlreadyExists and IsFull leave the whole concrete record unchanged (every state, every
   operation), and likewise the reference *)
Theorem c16_flatmap_error_unchanged : forall m o m' e d, fm_step m o = (m', OErr e, d) -> m' = m.
Proof. exact fm_error_unchanged. Qed.
Print Assumptions c16_flatmap_error_unchanged.
Example c16_flatmap_error_unchanged_nonvacuous :
  exists m d, fm_step m (FInsert 3 9) = (m, OErr EKeyExists, d).
Proof. exists (fst (fst (fm_step (sm_new 2) (FInsert 3 8)))). eexists. vm_compute. reflexivity. Qed.
Print Assumptions c16_flatmap_error_unchanged_nonvacuous.
Theorem c16_flatmap_reference_error_unchanged : forall s o s' e d, fmap_step s o = (s', OErr e, d) -> s' = s.
Proof. exact fmap_error_unchanged. Qed.
Print Assumptions c16_flatmap_reference_error_unchanged.
Example c16_flatmap_reference_error_unchanged_nonvacuous :
  fmap_step (fmap_new 0) (FInsert 3 9) = (fmap_new 0, OErr EIsFull, [(KTAG + 3)%N; 9%N]).
Proof. reflexivity. Qed.
Print Assumptions c16_flatmap_reference_error_unchanged_nonvacuous.

(* regression history: FlatMap::new(0).insert used to panic (fixed in /repo by 6ffc44e) *)
Theorem c16_flatmap_regression_cap0 :
  map fst (fm_run (sm_new 0) [FInsert 0 1; FGet 0; FRemove 0]) = [OErr EIsFull; OO None; OO None].
Proof. exact fm_regression_cap0. Qed.
Print Assumptions c16_flatmap_regression_cap0.


(* ------------------------------------------------------------------------------------------
   relocatable_option.rs: for every content and every operation sequence the cell returns (and
   drops) exactly what core::option::Option would. *)
Theorem c16_option_refines_option : forall (o : option N) (ops : list oop), ro_run o ops = so_run o ops.
Proof. exact ro_refines_option. Qed.
Print Assumptions c16_option_refines_option.
