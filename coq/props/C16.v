(* C16 -- fixed-capacity containers match reference models.  Statements only; every proof
   is `exact <lemma>` from proofs/, followed by Print Assumptions (checked by ./check). *)
From V Require Import model.Base model.RingQueue proofs.RingQueueProofs.

(* queue.rs: for every capacity (0 included) and every operation sequence the ring buffer
   returns exactly what the unbounded FIFO with a capacity guard returns: push fails (false)
   and changes nothing when full, push_with_overflow evicts exactly the oldest, get panics
   exactly when out of range, clear/drop hands every remaining element to drop exactly once
   in FIFO order. *)
Theorem c16_queue_refines_fifo : forall (c : N) (ops : list qop),
  rq_run (rq_new c) ops = sq_run (sq_new c) ops.
Proof. exact rq_refines_fifo. Qed.
Check c16_queue_refines_fifo : forall (c : N) (ops : list qop), rq_run (rq_new c) ops = sq_run (sq_new c) ops.
Print Assumptions c16_queue_refines_fifo.

Theorem c16_queue_len_bounded : forall c ops q,
  q = fold_left (fun q o => fst (rq_step q o)) ops (rq_new c) -> (len q <= cap q)%N /\ cap q = c.
Proof. exact rq_len_bounded. Qed.
Print Assumptions c16_queue_len_bounded.
