(* C11 -- lemmas about model/ReqRes.v, part 2: invariants of all reachable states,
   executable witnesses. *)
From V Require Import model.Base model.ReqRes proofs.ReqResProofs.
From Coq Require Import ZifyBool ZifyNat ZifyN.
Open Scope N_scope.

Inductive reach (g : cfg) : state -> Prop :=
| reach0 : reach g (init g)
| reachS : forall s ord o, reach g s -> reach g (fst (step g ord s o)).

(* generic: a fold preserves whatever each of its steps preserves *)
Lemma fold_left_inv : forall A B (P : A -> Prop) (f : A -> B -> A) l a,
  (forall a b, P a -> P (f a b)) -> P a -> P (fold_left f l a).
Proof. induction l as [|x l IH]; intros a Hf Ha; cbn [fold_left]; [exact Ha|]. apply IH; [exact Hf|apply Hf; exact Ha]. Qed.
Lemma fold_left_proj : forall A B C (pi : A -> C) (f : A -> B -> A) l a,
  (forall a b, pi (f a b) = pi a) -> pi (fold_left f l a) = pi a.
Proof. induction l as [|x l IH]; intros a Hf; cbn [fold_left]; [reflexivity|]. rewrite IH by exact Hf. apply Hf. Qed.

(* ---- frame: the ghost logs are written by Pr / Sr only -------------------------------- *)
Definition logs (s : state) := (s_rlog s, s_slog s).

Ltac lg := unfold logs; cbn [s_rlog s_slog st_conns st_clients st_servers st_next st_hid st_objs st_loans st_pends st_acts st_resps st_rloans st_reg st_logs upd_client upd_server upd_conn upd_conns_of_client]; try reflexivity.

Lemma logs_upd_client : forall s i f, logs (upd_client s i f) = logs s. Proof. intros; lg. Qed.
Lemma logs_upd_server : forall s i f, logs (upd_server s i f) = logs s. Proof. intros; lg. Qed.
Lemma logs_upd_conn : forall s a b f, logs (upd_conn s a b f) = logs s. Proof. intros; lg. Qed.
Lemma logs_st_conns : forall s c, logs (st_conns s c) = logs s. Proof. intros; lg. Qed.
Lemma logs_ensure_conn : forall g s a b, logs (ensure_conn g s a b) = logs s.
Proof. intros. unfold ensure_conn. destruct (get_conn s a b); lg. Qed.
Lemma logs_client_sync : forall g s cl, logs (client_sync g s cl) = logs s.
Proof.
  intros. unfold client_sync. rewrite fold_left_proj.
  - lg.
  - intros a b. rewrite logs_upd_conn. apply logs_ensure_conn.
Qed.
Lemma logs_server_sync_idx : forall g sv s ir, logs (server_sync_idx g sv s ir) = logs s.
Proof.
  intros g sv s [i reg]. unfold server_sync_idx.
  destruct (get_server s sv) as [srv|]; [|reflexivity].
  match goal with |- context [if ?b then _ else _] => destruct b end; [reflexivity|].
  rewrite logs_upd_server.
  assert (H1 : logs (match nthN (sv_conns srv) i None with
               | None => s
               | Some old => match get_conn s old sv with
                   | None => s
                   | Some k => upd_conn (upd_server s sv (fun c => sv_with_rc c (fold_left rc_dec (conn_rsp_used k) (sv_rc c)))) old sv
                                 (fun k0 => server_detach (k_with_ch k0 (map (fun x => mk_chan (c_state x) [] [] []) (k_ch k0))))
                   end end) = logs s).
  { destruct (nthN (sv_conns srv) i None); [|reflexivity]. destruct (get_conn s n sv); [|reflexivity]. lg. }
  destruct reg as [c|]; [|exact H1].
  rewrite logs_upd_conn, logs_ensure_conn. exact H1.
Qed.
Lemma logs_server_sync : forall g s sv, logs (server_sync g s sv) = logs s.
Proof. intros. unfold server_sync. apply fold_left_proj. intros; apply logs_server_sync_idx. Qed.
Lemma logs_gc : forall s, logs (gc s) = logs s.
Proof.
  intros. unfold gc. cbv zeta. rewrite logs_st_conns. rewrite fold_left_proj.
  - apply fold_left_proj. intros a c. unfold gc_client.
    destruct (cl_obj c || client_refs a (cl_inst c)); [reflexivity|].
    match goal with |- context [index_of ?x ?l ?i] => destruct (index_of x l i) end; lg.
  - intros a c. unfold gc_server. destruct (sv_obj c || server_refs a (sv_inst c)); lg.
Qed.

Ltac dm := repeat match goal with
  | |- context [match ?x with _ => _ end] => destruct x eqn:?
  end.
Lemma logs_st_next : forall s n, logs (st_next s n) = logs s. Proof. intros; lg. Qed.
Lemma logs_client_reclaim : forall s cl, logs (client_reclaim s cl) = logs s. Proof. intros; unfold client_reclaim; lg. Qed.
Lemma logs_server_reclaim : forall s sv, logs (server_reclaim s sv) = logs s. Proof. intros; unfold server_reclaim; lg. Qed.
Lemma logs_request_release : forall s m b, logs (request_release s m b) = logs s. Proof. intros; unfold request_release; lg. Qed.
Lemma logs_response_release : forall s a b c m, logs (response_release s a b c m) = logs s. Proof. intros; unfold response_release; lg. Qed.
Lemma logs_client_loan : forall g s cl hid, logs (fst (client_loan g s cl hid)) = logs s.
Proof.
  intros. unfold client_loan.
  destruct (get_client s cl); [|reflexivity].
  destruct (N.eqb (ML g) (cl_loans c)); [reflexivity|].
  destruct (get_client (client_reclaim s cl) cl); [|apply logs_client_reclaim].
  destruct (N.leb _ _); [apply logs_client_reclaim|].
  destruct (N.leb _ _); [apply logs_client_reclaim|].
  destruct (cl_avail c0); [apply logs_client_reclaim|].
  unfold fresh. cbn [fst snd]. rewrite logs_upd_client, logs_st_next. apply logs_client_reclaim.
Qed.
Lemma logs_deliver_request : forall g cl m acc k, logs (fst (deliver_request g cl m acc k)) = logs (fst acc).
Proof.
  intros g cl m [s n] k. unfold deliver_request. cbn [fst].
  destruct (get_conn s cl (k_sv k)); [|reflexivity].
  destruct (try_send _ _ _ _) as [[q ev]|]; [|reflexivity].
  cbn [fst]. destruct ev; repeat rewrite logs_upd_client; rewrite logs_upd_conn; reflexivity.
Qed.
Lemma logs_client_send : forall g s m, logs (fst (client_send g s m)) = logs s.
Proof.
  intros. unfold client_send.
  destruct (get_client s (q_cl m)); [|reflexivity].
  destruct (N.leb _ _); [apply logs_request_release|].
  unfold fresh. cbv zeta. cbn [fst snd].
  match goal with |- context [fold_left ?f ?l ?a0] =>
    pose proof (fold_left_proj _ _ _ (fun x => logs (fst x)) f l a0 (fun x y => logs_deliver_request g (q_cl m) _ x y)) as HF;
    destruct (fold_left f l a0) as [s2 n2] end.
  cbn [fst] in *. rewrite logs_upd_client. rewrite HF.
  rewrite logs_st_next, logs_client_reclaim, logs_upd_client, logs_st_conns. apply logs_client_sync.
Qed.
Lemma logs_pend_drop : forall s p, logs (pend_drop s p) = logs s.
Proof. intros. unfold pend_drop. rewrite logs_request_release, logs_st_conns, logs_upd_client. reflexivity. Qed.
Lemma logs_pend_hint : forall s p, logs (pend_hint s p) = logs s. Proof. intros. unfold pend_hint. apply logs_st_conns. Qed.
Lemma logs_poll_retained : forall g cl ch l s, logs (fst (poll_retained g s cl ch l)) = logs s.
Proof.
  induction l as [|k t IH]; intros s; cbn [poll_retained]; [reflexivity|].
  destruct (N.eqb _ _); [apply IH|].
  destruct (c_sub (k_chan k ch)); [|cbn [fst]; apply logs_upd_conn].
  rewrite IH. destruct (existsb _ _); [reflexivity|apply logs_upd_conn].
Qed.
Lemma logs_poll_all : forall g cl ch l s a b, logs (fst (poll_all g s cl ch l a b)) = logs s.
Proof.
  induction l as [|k t IH]; intros s a b; cbn [poll_all]; [reflexivity|].
  destruct (c_sub (k_chan k ch)); [apply IH|].
  destruct (N.leb _ _); [apply IH|cbn [fst]; apply logs_upd_conn].
Qed.
Lemma logs_client_rcv1 : forall g s cl ch ord, logs (fst (client_rcv1 g s cl ch ord)) = logs s.
Proof.
  intros. unfold client_rcv1.
  pose proof (logs_poll_retained g cl ch (conns_in_order s cl ord (fun k => view_retained (k_cv k))) s) as H.
  destruct (poll_retained _ _ _ _ _) as [s1 r]. cbn [fst] in H.
  destruct r; try exact H. rewrite logs_poll_all. exact H.
Qed.
Lemma logs_pend_receive : forall fuel g s p ord, logs (fst (pend_receive fuel g s p ord)) = logs s.
Proof.
  induction fuel as [|f IH]; intros; cbn [pend_receive]; [reflexivity|].
  pose proof (logs_client_rcv1 g (client_sync g s (pn_cl p)) (pn_cl p) (q_ch (pn_msg p)) ord) as H.
  destruct (client_rcv1 _ _ _ _ _) as [s1 r]. cbn [fst] in H. rewrite logs_client_sync in H.
  destruct r; try exact H.
  destruct (N.eqb _ _); [exact H|]. rewrite IH, logs_response_release. exact H.
Qed.

Lemma logs_act_drop : forall s a, logs (act_drop s a) = logs s.
Proof. intros. unfold act_drop. destruct (act_conn _ _ _); [rewrite logs_upd_conn|]; apply logs_upd_conn. Qed.
Lemma logs_spoll_retained : forall g sv l s, logs (fst (spoll_retained g s sv l)) = logs s.
Proof.
  induction l as [|k t IH]; intros s; cbn [spoll_retained]; [reflexivity|].
  destruct (N.eqb _ _); [apply IH|].
  destruct (k_rsub k); [|cbn [fst]; apply logs_upd_conn].
  rewrite IH. destruct (nonempty _); [reflexivity|apply logs_upd_conn].
Qed.
Lemma logs_spoll_all : forall g sv l s a b, logs (fst (spoll_all g s sv l a b)) = logs s.
Proof.
  induction l as [|k t IH]; intros s a b; cbn [spoll_all]; [reflexivity|].
  destruct (k_rsub k); [apply IH|].
  destruct (N.leb _ _); [apply IH|cbn [fst]; apply logs_upd_conn].
Qed.
Lemma logs_server_rcv1 : forall g s sv ord, logs (fst (server_rcv1 g s sv ord)) = logs s.
Proof.
  intros. unfold server_rcv1.
  pose proof (logs_spoll_retained g sv (sconns_in_order s sv ord (fun k => view_retained (k_svw k))) s) as H.
  destruct (spoll_retained _ _ _ _) as [s1 r]. cbn [fst] in H.
  destruct r; try exact H. rewrite logs_spoll_all. exact H.
Qed.
Lemma logs_server_receive : forall fuel g s sv slot ord, logs (fst (server_receive fuel g s sv slot ord)) = logs s.
Proof.
  induction fuel as [|f IH]; intros; cbn [server_receive]; [reflexivity|].
  pose proof (logs_server_rcv1 g (server_sync g s sv) sv ord) as H.
  destruct (server_rcv1 _ _ _ _) as [s1 r]. cbn [fst] in H. rewrite logs_server_sync in H.
  destruct r as [| |cl m]; try exact H.
  destruct (match get_server s1 sv with Some srv => index_of cl (sv_conns srv) 0 | None => None end).
  - unfold fresh. cbn [fst snd].
    match goal with |- context [if ?b then _ else _] => destruct b end.
    + rewrite IH, logs_act_drop, logs_st_next. exact H.
    + cbn [fst]. rewrite logs_st_next. exact H.
  - destruct (faf g).
    + unfold fresh. cbn [fst snd]. rewrite logs_st_next. exact H.
    + rewrite IH, logs_upd_conn. exact H.
Qed.
Lemma logs_set_act_loans : forall s u f, logs (set_act_loans s u f) = logs s. Proof. intros; unfold set_act_loans; lg. Qed.
Lemma logs_bump_act_seq : forall s u, logs (bump_act_seq s u) = logs s. Proof. intros; unfold bump_act_seq; lg. Qed.
Lemma logs_act_loan : forall g s a v, logs (fst (act_loan g s a v)) = logs s.
Proof.
  intros. unfold act_loan.
  destruct (N.leb _ _); [reflexivity|].
  destruct (get_server _ _); [|cbn [fst]; rewrite logs_server_reclaim; apply logs_set_act_loans].
  destruct (N.leb _ _); [cbn [fst]; rewrite logs_set_act_loans, logs_server_reclaim; apply logs_set_act_loans|].
  destruct (N.leb _ _); [cbn [fst]; rewrite logs_set_act_loans, logs_server_reclaim; apply logs_set_act_loans|].
  unfold fresh. cbn [fst snd]. rewrite logs_upd_server, logs_st_next, logs_server_reclaim. apply logs_set_act_loans.
Qed.
Lemma logs_rloan_release : forall s r, logs (rloan_release s r) = logs s.
Proof. intros. unfold rloan_release. rewrite logs_upd_server. apply logs_set_act_loans. Qed.
Lemma logs_rloan_send : forall g s r, logs (rloan_send g s r) = logs s.
Proof.
  intros. unfold rloan_send. rewrite logs_rloan_release.
  destruct (rl_idx r); [|apply logs_server_sync].
  destruct (act_conn _ _ _); [|rewrite logs_server_reclaim; apply logs_server_sync].
  unfold fresh. cbn [fst snd].
  destruct (try_send _ _ _ _) as [[q ev]|].
  - destruct ev; repeat rewrite logs_upd_server; rewrite logs_upd_conn, logs_st_next, logs_server_reclaim; apply logs_server_sync.
  - rewrite logs_st_next, logs_server_reclaim. apply logs_server_sync.
Qed.
Lemma logs_client_create : forall g s i, logs (fst (client_create g s i)) = logs s.
Proof.
  intros. unfold client_create. destruct (nthN _ _ _); [reflexivity|]. destruct (first_free _ _); [|reflexivity].
  unfold fresh. cbn [fst snd]. unfold logs at 1. cbn [s_rlog s_slog st_reg].
  change (logs (client_sync g (st_clients (st_next s (s_next s + 1)) (s_clients (st_next s (s_next s + 1)) ++
     [mk_client (s_next s) true (map N.of_nat (seq 0 (N.to_nat (nreq g)))) 0 0 0 0 []])) (s_next s)) = logs s).
  rewrite logs_client_sync. lg.
Qed.
Lemma logs_server_create : forall g s i, logs (fst (server_create g s i)) = logs s.
Proof.
  intros. unfold server_create. destruct (nthN _ _ _); [reflexivity|]. destruct (N.leb _ _); [reflexivity|].
  unfold fresh. cbn [fst snd]. unfold logs at 1. cbn [s_rlog s_slog st_reg].
  match goal with |- (s_rlog ?x, s_slog ?x) = _ => change (logs x = logs s) end.
  rewrite logs_server_sync. lg.
Qed.
Lemma logs_do_q : forall g s i b, logs (fst (do_q g s i b)) = logs s.
Proof.
  intros. unfold do_q. destruct (slot_inst _ _); [|reflexivity].
  pose proof (logs_client_loan g (st_hid s (s_hid s + 1)) n (s_hid s)) as H1.
  destruct (client_loan _ _ _ _) as [s1 r]. cbn [fst] in H1.
  assert (H0 : logs s1 = logs s) by (rewrite H1; lg).
  destruct r as [[e|m]|]; try exact H0.
  pose proof (logs_client_send g s1 m) as H2.
  destruct (client_send g s1 m) as [s2 [e|p]]; cbn [fst] in *; [congruence|].
  destruct b; cbn [fst]; [rewrite logs_pend_drop; congruence|]. unfold st_pends. lg. unfold logs in *. congruence.
Qed.

(* ---- the request-id filter as an invariant of the receive log ------------------------- *)
Definition rlog_ok (s : state) : Prop := forall p m, In (p, m) (s_rlog s) -> p_rid m = q_rid (pn_msg p).

Ltac same_logs E :=
  match type of E with ?f = (?s1, _) =>
    let H := fresh "H" in
    assert (H : logs (fst f) = logs _) by
      first [ apply logs_client_create | apply logs_server_create | apply logs_do_q ];
    rewrite E in H; cbn [fst] in H; unfold logs in H; left; congruence end.

Lemma step_rlog_cases : forall g ord s o,
  s_rlog (fst (step g ord s o)) = s_rlog s \/
  exists p0 s0 sv m0 fuel, pend_receive fuel g s p0 ord = (s0, PRSome sv m0) /\
    s_rlog (fst (step g ord s o)) = s_rlog s ++ [(p0, m0)].
Proof.
  intros g ord s o. unfold step.
  match goal with |- context [let '(a, b) := ?e in _] => destruct e as [s1 ob] eqn:E end.
  cbn [fst].
  assert (Hgc : s_rlog (gc s1) = s_rlog s1) by (pose proof (logs_gc s1) as H; unfold logs in H; congruence).
  rewrite Hgc. clear Hgc.
  destruct o.
    - same_logs E.
    - left. unfold client_drop in E. destruct (nthN _ _ _); inversion E; subst; lg.
    - same_logs E.
    - left. unfold server_drop in E. destruct (nthN _ _ _); inversion E; subst; lg.
    - left. destruct (slot_inst _ _); [|inversion E; reflexivity].
      pose proof (logs_client_loan g (st_hid s (s_hid s + 1)) n (s_hid s)) as H1.
      destruct (client_loan _ _ _ _) as [s2 r]. cbn [fst] in H1. unfold logs in H1. cbn [s_rlog s_slog st_hid] in H1.
      destruct r as [[e|m1]|]; inversion E; subst; try congruence. unfold st_loans. cbn [s_rlog st_objs]. congruence.
    - left. destruct (s_loans s) as [|l t]; [inversion E; reflexivity|].
      pose proof (logs_client_send g (st_loans s t) (ln_msg l)) as H1.
      destruct (client_send _ _ _) as [s2 [e|p1]]; cbn [fst] in H1; unfold logs in H1; cbn [s_rlog s_slog st_loans st_objs] in H1;
        inversion E; subst; [congruence|]. unfold st_pends. cbn [s_rlog st_objs]. congruence.
    - left. destruct (s_loans s) as [|l t]; inversion E; subst; [reflexivity|].
      pose proof (logs_request_release (st_loans s t) (ln_msg l) false) as H1. unfold logs in H1. cbn [s_rlog s_slog st_loans st_objs] in H1. congruence.
    - same_logs E.
    - same_logs E.
    - destruct (nth_opt (s_pends s) k) as [p0|]; [|left; inversion E; reflexivity].
      pose proof (logs_pend_receive (rcv_fuel s) g s p0 ord) as H1.
      destruct (pend_receive _ _ _ _ _) as [s2 r] eqn:EP. cbn [fst] in H1. unfold logs in H1.
      destruct r as [| |sv m0|]; inversion E; subst; try (left; congruence).
      right. exists p0, s2, sv, m0, (rcv_fuel s). split; [exact EP|].
      cbn [s_rlog st_logs st_resps st_objs]. congruence.
    - left. destruct (nth_opt _ _); inversion E; subst; [|reflexivity].
      match goal with |- s_rlog (pend_drop ?x ?y) = _ => pose proof (logs_pend_drop x y) as H1 end.
      unfold logs in H1. cbn [s_rlog s_slog st_pends st_objs] in H1. congruence.
    - left. destruct (nth_opt _ _); inversion E; subst; [|reflexivity].
      match goal with |- s_rlog (pend_hint ?x ?y) = _ => pose proof (logs_pend_hint x y) as H1 end. unfold logs in H1. congruence.
    - left. destruct (nth_opt _ _); inversion E; subst; [|reflexivity].
      match goal with |- s_rlog (response_release ?x ?a ?b ?c ?d) = _ => pose proof (logs_response_release x a b c d) as H1 end.
      unfold logs in H1. cbn [s_rlog s_slog st_resps st_objs] in H1. congruence.
    - left. destruct (slot_inst _ _); [|inversion E; reflexivity].
      pose proof (logs_server_receive (srv_fuel s) g s n j ord) as H1.
      destruct (server_receive _ _ _ _ _ _) as [s2 r]. cbn [fst] in H1. unfold logs in H1.
      destruct r; inversion E; subst; try congruence. cbn [s_rlog st_logs st_acts st_objs]. congruence.
    - left. destruct (slot_inst _ _); [|inversion E; reflexivity].
      unfold server_has_requests in E. inversion E; subst.
      pose proof (logs_server_sync g s n) as H1. unfold logs in H1. congruence.
    - left. destruct (nth_opt _ _) as [ar|]; [|inversion E; reflexivity].
      match type of E with context [act_loan g ?x ar ?v] => pose proof (logs_act_loan g x ar v) as H1; destruct (act_loan g x ar v) as [s2 [e|r]] end;
        cbn [fst] in H1; rewrite logs_bump_act_seq in H1; unfold logs in H1; inversion E; subst; [congruence|].
      pose proof (logs_rloan_send g s2 r) as H2. unfold logs in H2. congruence.
    - left. destruct (nth_opt _ _) as [ar|]; [|inversion E; reflexivity].
      match type of E with context [act_loan g ?x ar ?v] => pose proof (logs_act_loan g x ar v) as H1; destruct (act_loan g x ar v) as [s2 [e|r]] end;
        cbn [fst] in H1; rewrite logs_bump_act_seq in H1; unfold logs in H1; inversion E; subst; [congruence|].
      unfold st_rloans. cbn [s_rlog st_objs]. congruence.
    - left. destruct (s_rloans s) as [|r t]; inversion E; subst; [reflexivity|].
      match goal with |- s_rlog (rloan_send g ?x r) = _ => pose proof (logs_rloan_send g x r) as H2 end.
      unfold logs in H2. cbn [s_rlog s_slog st_rloans st_objs] in H2. congruence.
    - left. destruct (s_rloans s) as [|r t]; inversion E; subst; [reflexivity|].
      match goal with |- s_rlog (rloan_release ?x r) = _ => pose proof (logs_rloan_release x r) as H2 end.
      unfold logs in H2. cbn [s_rlog s_slog st_rloans st_objs] in H2. congruence.
    - left. destruct (nth_opt _ _); inversion E; subst; [|reflexivity].
      match goal with |- s_rlog (act_drop ?x ?y) = _ => pose proof (logs_act_drop x y) as H2 end.
      unfold logs in H2. cbn [s_rlog s_slog st_acts st_objs] in H2. congruence.
Qed.

Lemma step_rlog : forall g ord s o, rlog_ok s -> rlog_ok (fst (step g ord s o)).
Proof.
  intros g ord s o Hs. unfold rlog_ok. intros p m Hin.
  destruct (step_rlog_cases g ord s o) as [Hsame | [p0 [s0 [sv [m0 [fuel [HP Happ]]]]]]].
  - rewrite Hsame in Hin. apply Hs; exact Hin.
  - rewrite Happ in Hin. apply in_app_or in Hin. destruct Hin as [Hin | [Heq | []]].
    + apply Hs; exact Hin.
    + inversion Heq; subst. eapply pend_receive_filter; exact HP.
Qed.

Theorem rlog_ok_reach : forall g s, reach g s -> rlog_ok s.
Proof.
  intros g s H. induction H as [|s ord o Hr IH].
  - intros p m Hin. destruct Hin.
  - apply step_rlog; exact IH.
Qed.

(* ======================================================================================== *)
(* limits: buffered responses per channel <= RB, borrowed responses per channel <= MB,
   queued requests per connection <= MA, requests borrowed by the server per connection <= MA *)
Definition chan_ok (g : cfg) (x : chan) : Prop := lenN (c_sub x) <= RB g /\ lenN (c_bor x) <= MB g.
Definition conn_ok (g : cfg) (k : conn) : Prop :=
  Forall (chan_ok g) (k_ch k) /\ lenN (k_rsub k) <= MA g /\ lenN (k_rbor k) <= MA g.
Definition lim_ok (g : cfg) (s : state) : Prop := Forall (conn_ok g) (s_conns s).
Definition cfg_ok (g : cfg) : Prop := 1 <= RB g /\ 1 <= MA g.

Lemma chan_ok_dchan : forall g, chan_ok g dchan.
Proof. intros. unfold chan_ok, dchan, lenN. cbn. lia. Qed.
Lemma Forall_upd : forall A (P : A -> Prop) l n x, Forall P l -> P x -> Forall P (upd l n x).
Proof.
  induction l as [|h t IH]; intros n x Hl Hx; cbn [upd]; [constructor|].
  inversion Hl; subst. destruct n; constructor; auto.
Qed.
Lemma Forall_nth : forall A (P : A -> Prop) l n d, Forall P l -> P d -> P (nth n l d).
Proof. induction l as [|h t IH]; intros [|n] d Hl Hd; cbn [nth]; inversion Hl; subst; auto. Qed.
Lemma k_chan_ok : forall g k c, conn_ok g k -> chan_ok g (k_chan k c).
Proof. intros g k c [H _]. unfold k_chan, nthN. apply Forall_nth; [exact H|apply chan_ok_dchan]. Qed.
Lemma k_set_chan_ok : forall g k c x, conn_ok g k -> chan_ok g x -> conn_ok g (k_set_chan k c x).
Proof. intros g k c x [H1 H2] Hx. split; [|exact H2]. cbn [k_set_chan k_with_ch k_ch mk_conn]. unfold updN. apply Forall_upd; assumption. Qed.
Lemma k_map_state_ok : forall g k c f, conn_ok g k -> conn_ok g (k_map_state k c f).
Proof. intros. unfold k_map_state. apply k_set_chan_ok; [assumption|]. pose proof (k_chan_ok g k c H) as [A B]. split; assumption. Qed.
Lemma Forall_map_if : forall A (P : A -> Prop) (c : A -> bool) f l,
  Forall P l -> (forall k, P k -> P (f k)) -> Forall P (map (fun k => if c k then f k else k) l).
Proof. induction l as [|h t IH]; intros Hl Hf; cbn [map]; [constructor|]. inversion Hl; subst. constructor; [destruct (c h); auto|auto]. Qed.
Lemma lim_upd_conn : forall g s a b f, lim_ok g s -> (forall k, conn_ok g k -> conn_ok g (f k)) -> lim_ok g (upd_conn s a b f).
Proof. intros. unfold lim_ok, upd_conn. cbn [s_conns st_conns]. apply Forall_map_if; assumption. Qed.
Lemma lim_st_conns_map : forall g s s' (c : conn -> bool) (f : conn -> conn), lim_ok g s -> (forall k, conn_ok g k -> conn_ok g (f k)) ->
  lim_ok g (st_conns s' (map (fun k => if c k then f k else k) (s_conns s))).
Proof. intros. unfold lim_ok. cbn [s_conns st_conns]. apply Forall_map_if; assumption. Qed.
Lemma lim_same_conns : forall g s s', s_conns s' = s_conns s -> lim_ok g s -> lim_ok g s'.
Proof. intros. unfold lim_ok in *. congruence. Qed.
Lemma conn_ok_views : forall g k v, conn_ok g k -> conn_ok g (k_with_cv k v) /\ conn_ok g (k_with_svw k v).
Proof. intros g k v H. split; exact H. Qed.
Lemma conn_ok_new : forall g a b, conn_ok g (new_conn g a b).
Proof.
  intros. unfold new_conn, conn_ok. cbn [k_ch k_rsub k_rbor mk_conn]. split; [|unfold lenN; cbn; lia].
  apply Forall_forall. intros x Hx. apply repeat_spec in Hx. subst. apply chan_ok_dchan.
Qed.
Lemma lim_ensure_conn : forall g s a b, lim_ok g s -> lim_ok g (ensure_conn g s a b).
Proof.
  intros. unfold ensure_conn. destruct (get_conn s a b); [assumption|].
  unfold lim_ok. cbn [s_conns st_conns]. apply Forall_app. split; [assumption|]. constructor; [apply conn_ok_new|constructor].
Qed.
Lemma get_conn_ok : forall g s a b k, lim_ok g s -> get_conn s a b = Some k -> conn_ok g k.
Proof. intros g s a b k H Hg. unfold get_conn in Hg. apply find_some in Hg. destruct Hg as [Hin _]. unfold lim_ok in H. rewrite Forall_forall in H. auto. Qed.

Lemma lim_upd_server : forall g s i f, lim_ok g s -> lim_ok g (upd_server s i f). Proof. intros; assumption. Qed.
Lemma lim_upd_client : forall g s i f, lim_ok g s -> lim_ok g (upd_client s i f). Proof. intros; assumption. Qed.
Lemma lim_st_next : forall g s n, lim_ok g s -> lim_ok g (st_next s n). Proof. intros; assumption. Qed.
Ltac conns_same := apply lim_same_conns with (s := _); [reflexivity|].

Lemma lim_client_sync : forall g s cl, lim_ok g s -> lim_ok g (client_sync g s cl).
Proof.
  intros g s cl H. unfold client_sync. apply fold_left_inv.
  - intros a b Ha. apply lim_upd_conn; [apply lim_ensure_conn; exact Ha|]. intros k Hk. destruct (view_active (k_cv k)); [exact Hk|exact Hk].
  - apply lim_st_conns_map; [exact H|].
    intros k [H1 [H2 H3]]. unfold client_detach. split; [exact H1|]. cbn. unfold lenN. cbn. lia.
Qed.
Lemma conn_ok_clear_ch : forall g k, conn_ok g k -> conn_ok g (k_with_ch k (map (fun x => mk_chan (c_state x) [] [] []) (k_ch k))).
Proof.
  intros g k [H1 H2]. split; [|exact H2]. cbn [k_with_ch k_ch mk_conn].
  apply Forall_forall. intros x Hx. apply in_map_iff in Hx. destruct Hx as [y [<- _]]. unfold chan_ok, lenN. cbn. lia.
Qed.
Lemma lim_server_sync_idx : forall g sv s ir, lim_ok g s -> lim_ok g (server_sync_idx g sv s ir).
Proof.
  intros g sv s [i reg] H. unfold server_sync_idx.
  destruct (get_server s sv) as [srv|]; [|exact H].
  match goal with |- context [if ?b then _ else _] => destruct b end; [exact H|].
  apply lim_upd_server.
  match goal with |- lim_ok g (match reg with Some c => _ | None => ?x end) => set (s1 := x) end.
  assert (H1 : lim_ok g s1).
  { unfold s1. destruct (nthN (sv_conns srv) i None); [|exact H]. destruct (get_conn s n sv); [|exact H].
    apply lim_upd_conn; [apply lim_upd_server; exact H|]. intros k0 Hk. unfold server_detach. apply (conn_ok_clear_ch g k0 Hk). }
  destruct reg; [|exact H1]. apply lim_upd_conn; [apply lim_ensure_conn; exact H1|]. intros k Hk; exact Hk.
Qed.
Lemma lim_server_sync : forall g s sv, lim_ok g s -> lim_ok g (server_sync g s sv).
Proof. intros. unfold server_sync. apply fold_left_inv; [intros; apply lim_server_sync_idx; assumption|assumption]. Qed.
Lemma lim_gc : forall g s, lim_ok g s -> lim_ok g (gc s).
Proof.
  intros g s H. unfold gc. cbv zeta.
  match goal with |- lim_ok g (st_conns ?x (filter ?f (s_conns ?x))) => assert (H0 : lim_ok g x) end.
  2:{ unfold lim_ok in *. cbn [s_conns st_conns]. apply Forall_forall. intros k Hk. apply filter_In in Hk.
      rewrite Forall_forall in H0. apply H0. tauto. }
  apply fold_left_inv.
  - intros a c Ha. unfold gc_server. destruct (sv_obj c || server_refs a (sv_inst c)); [exact Ha|].
    unfold lim_ok. cbn [s_conns st_reg st_conns st_servers].
    apply (Forall_map_if _ (conn_ok g) (fun k => N.eqb (k_sv k) (sv_inst c)) (fun k => k_with_svw k VNone)); [exact Ha|]. intros k Hk; exact Hk.
  - apply fold_left_inv; [|exact H]. intros a c Ha. unfold gc_client.
    destruct (cl_obj c || client_refs a (cl_inst c)); [exact Ha|].
    assert (H1 : lim_ok g (upd_conns_of_client (st_clients a (filter (fun x => negb (cl_inst x =? cl_inst c)) (s_clients a))) (cl_inst c) (fun k => k_with_cv k VNone))).
    { unfold upd_conns_of_client, lim_ok. cbn [s_conns st_conns st_clients].
      apply (Forall_map_if _ (conn_ok g) (fun k => N.eqb (k_cl k) (cl_inst c)) (fun k => k_with_cv k VNone)); [exact Ha|]. intros k Hk; exact Hk. }
    match goal with |- context [index_of ?x ?l ?i] => destruct (index_of x l i) end; exact H1.
Qed.

Lemma lim_client_reclaim : forall g s cl, lim_ok g s -> lim_ok g (client_reclaim s cl).
Proof.
  intros g s cl H. unfold client_reclaim. apply lim_st_conns_map; [apply lim_upd_client; exact H|].
  intros k [H1 H2]. split; [exact H1|exact H2].
Qed.
Lemma lim_server_reclaim : forall g s sv, lim_ok g s -> lim_ok g (server_reclaim s sv).
Proof.
  intros g s sv H. unfold server_reclaim. apply lim_st_conns_map; [apply lim_upd_server; exact H|].
  intros k [H1 H2]. split; [|exact H2]. cbn [k_with_ch k_ch mk_conn].
  apply Forall_forall. intros x Hx. apply in_map_iff in Hx. destruct Hx as [y [<- Hy]].
  rewrite Forall_forall in H1. exact (H1 y Hy).
Qed.
Lemma lim_request_release : forall g s m b, lim_ok g s -> lim_ok g (request_release s m b). Proof. intros; assumption. Qed.
Lemma lim_client_loan : forall g s cl hid, lim_ok g s -> lim_ok g (fst (client_loan g s cl hid)).
Proof.
  intros g s cl hid H. unfold client_loan.
  destruct (get_client s cl); [|exact H].
  destruct (N.eqb (ML g) (cl_loans c)); [exact H|].
  pose proof (lim_client_reclaim g s cl H) as H1.
  destruct (get_client (client_reclaim s cl) cl); [|exact H1].
  destruct (N.leb _ _); [exact H1|]. destruct (N.leb _ _); [exact H1|]. destruct (cl_avail c0); [exact H1|].
  unfold fresh. cbn [fst snd]. exact H1.
Qed.
Lemma len_tl_le : forall A (x : A) q n, lenN (x :: q) <= n -> lenN q <= n.
Proof. intros. unfold lenN in *. cbn [length] in *. lia. Qed.
Lemma lim_deliver_request : forall g cl m acc k, cfg_ok g -> lim_ok g (fst acc) -> lim_ok g (fst (deliver_request g cl m acc k)).
Proof.
  intros g cl m [s n] k Hg H. unfold deliver_request. cbn [fst] in *.
  destruct (get_conn s cl (k_sv k)) as [k1|] eqn:Eg; [|exact H].
  pose proof (get_conn_ok g s cl (k_sv k) k1 H Eg) as [A [B C]].
  destruct (try_send _ _ _ _) as [[q ev]|] eqn:Et; [|exact H].
  pose proof (try_send_bound _ _ _ _ _ _ _ (proj2 Hg) B Et) as Hq.
  cbn [fst].
  assert (H1 : lim_ok g (upd_conn s cl (k_sv k1) (fun k0 => k_with_req k0 q (k_rbor k0) (k_rcomp k0)))).
  { apply lim_upd_conn; [exact H|]. intros k0 [A0 [B0 C0]]. split; [exact A0|]. split; [exact Hq|exact C0]. }
  destruct ev; exact H1.
Qed.
Lemma lim_client_send : forall g s m, cfg_ok g -> lim_ok g s -> lim_ok g (fst (client_send g s m)).
Proof.
  intros g s m Hg H. unfold client_send.
  destruct (get_client s (q_cl m)); [|exact H].
  destruct (N.leb _ _); [exact H|].
  unfold fresh. cbv zeta. cbn [fst snd].
  match goal with |- context [fold_left ?f ?l ?a0] =>
    assert (HF : lim_ok g (fst (fold_left f l a0))) end.
  { apply fold_left_inv; [intros a b Ha; apply lim_deliver_request; assumption|].
    cbn [fst]. apply lim_st_next. apply lim_client_reclaim. apply lim_upd_client.
    apply lim_st_conns_map; [apply lim_client_sync; exact H|]. intros k Hk. apply k_map_state_ok; exact Hk. }
  match goal with |- context [fold_left ?f ?l ?a0] => destruct (fold_left f l a0) as [s2 n2] end.
  cbn [fst] in *. exact HF.
Qed.
Lemma lim_pend_drop : forall g s p, lim_ok g s -> lim_ok g (pend_drop s p).
Proof.
  intros g s p H. unfold pend_drop. apply lim_request_release.
  apply lim_st_conns_map; [apply lim_upd_client; exact H|]. intros k Hk. apply k_map_state_ok; exact Hk.
Qed.
Lemma lim_pend_hint : forall g s p, lim_ok g s -> lim_ok g (pend_hint s p).
Proof. intros g s p H. unfold pend_hint. apply lim_st_conns_map; [exact H|]. intros k Hk. apply k_map_state_ok; exact Hk. Qed.
Lemma len_filter_le : forall A (f : A -> bool) l n, lenN l <= n -> lenN (filter f l) <= n.
Proof.
  intros A f l n H. unfold lenN in *. assert (length (filter f l) <= length l)%nat; [|lia].
  clear H. induction l as [|h t IH]; cbn [filter length]; [lia|]. destruct (f h); cbn [length]; lia.
Qed.
Lemma lim_response_release : forall g s a b c m, lim_ok g s -> lim_ok g (response_release s a b c m).
Proof.
  intros g s a b c m H. unfold response_release. apply lim_upd_conn; [exact H|].
  intros k Hk. destruct (view_on (k_cv k)); [|exact Hk].
  apply k_set_chan_ok; [exact Hk|]. pose proof (k_chan_ok g k c Hk) as [A B]. split; cbn [c_sub c_bor mk_chan]; [exact A|].
  apply len_filter_le; exact B.
Qed.
Lemma len_app1 : forall A (l : list A) x n, lenN l <= n -> lenN l <> n -> lenN (l ++ [x]) <= n.
Proof. intros. unfold lenN in *. rewrite app_length. cbn [length]. lia. Qed.
Lemma lim_poll_retained : forall g cl ch l s, lim_ok g s -> Forall (conn_ok g) l -> lim_ok g (fst (poll_retained g s cl ch l)).
Proof.
  induction l as [|k t IH]; intros s H Hl; cbn [poll_retained]; [exact H|].
  inversion Hl as [|? ? Hk Ht]; subst.
  destruct (N.eqb_spec (lenN (c_bor (k_chan k ch))) (MB g)) as [E|E]; [apply IH; assumption|].
  pose proof (k_chan_ok g k ch Hk) as [A B].
  destruct (c_sub (k_chan k ch)) as [|m q] eqn:Es.
  - apply IH; [|exact Ht]. destruct (existsb _ _); [exact H|]. apply lim_upd_conn; [exact H|]. intros k0 Hk0; exact Hk0.
  - cbn [fst]. apply lim_upd_conn; [exact H|]. intros k0 Hk0. apply k_set_chan_ok; [exact Hk0|].
    split; cbn [c_sub c_bor mk_chan]; [eapply len_tl_le; exact A|apply len_app1; assumption].
Qed.
Lemma lim_poll_all : forall g cl ch l s a b, lim_ok g s -> Forall (conn_ok g) l -> lim_ok g (fst (poll_all g s cl ch l a b)).
Proof.
  induction l as [|k t IH]; intros s a b H Hl; cbn [poll_all]; [exact H|].
  inversion Hl as [|? ? Hk Ht]; subst.
  pose proof (k_chan_ok g k ch Hk) as [A B].
  destruct (c_sub (k_chan k ch)) as [|m q] eqn:Es; [apply IH; assumption|].
  destruct (N.leb_spec (MB g) (lenN (c_bor (k_chan k ch)))) as [E|E]; [apply IH; assumption|].
  cbn [fst]. apply lim_upd_conn; [exact H|]. intros k0 Hk0. apply k_set_chan_ok; [exact Hk0|].
  split; cbn [c_sub c_bor mk_chan]; [eapply len_tl_le; exact A|apply len_app1; [exact B|lia]].
Qed.
Lemma conns_in_order_ok : forall g s cl ord p, lim_ok g s -> Forall (conn_ok g) (conns_in_order s cl ord p).
Proof.
  intros g s cl ord p H. unfold conns_in_order. apply Forall_forall. intros k Hk. apply in_flat_map in Hk.
  destruct Hk as [sv [_ Hk]]. destruct (get_conn s cl sv) as [k1|] eqn:E; [|destruct Hk].
  destruct (p k1); [|destruct Hk]. destruct Hk as [<- | []]. eapply get_conn_ok; eassumption.
Qed.
Lemma sconns_in_order_ok : forall g s sv ord p, lim_ok g s -> Forall (conn_ok g) (sconns_in_order s sv ord p).
Proof.
  intros g s sv ord p H. unfold sconns_in_order. apply Forall_forall. intros k Hk. apply in_flat_map in Hk.
  destruct Hk as [cl [_ Hk]]. destruct (get_conn s cl sv) as [k1|] eqn:E; [|destruct Hk].
  destruct (p k1); [|destruct Hk]. destruct Hk as [<- | []]. eapply get_conn_ok; eassumption.
Qed.
Lemma lim_client_rcv1 : forall g s cl ch ord, lim_ok g s -> lim_ok g (fst (client_rcv1 g s cl ch ord)).
Proof.
  intros g s cl ch ord H. unfold client_rcv1.
  pose proof (lim_poll_retained g cl ch (conns_in_order s cl ord (fun k => view_retained (k_cv k))) s H (conns_in_order_ok _ _ _ _ _ H)) as H1.
  destruct (poll_retained _ _ _ _ _) as [s1 r]. cbn [fst] in H1.
  destruct r; try exact H1. apply lim_poll_all; [exact H1|apply conns_in_order_ok; exact H1].
Qed.
Lemma lim_pend_receive : forall fuel g s p ord, lim_ok g s -> lim_ok g (fst (pend_receive fuel g s p ord)).
Proof.
  induction fuel as [|f IH]; intros g s p ord H; cbn [pend_receive]; [exact H|].
  pose proof (lim_client_rcv1 g (client_sync g s (pn_cl p)) (pn_cl p) (q_ch (pn_msg p)) ord (lim_client_sync _ _ _ H)) as H1.
  destruct (client_rcv1 _ _ _ _ _) as [s1 r]. cbn [fst] in H1.
  destruct r; try exact H1. destruct (N.eqb _ _); [exact H1|]. apply IH. apply lim_response_release; exact H1.
Qed.

Lemma conn_ok_rbor_filter : forall g k f c, conn_ok g k -> conn_ok g (k_with_req k (k_rsub k) (filter f (k_rbor k)) c).
Proof. intros g k f c [A [B C]]. split; [exact A|]. split; [exact B|]. cbn [k_with_req k_rbor mk_conn]. apply len_filter_le; exact C. Qed.
Lemma lim_act_drop : forall g s a, lim_ok g s -> lim_ok g (act_drop s a).
Proof.
  intros g s a H. unfold act_drop.
  match goal with |- context [act_conn ?x _ _] => assert (H1 : lim_ok g x) end.
  { apply lim_upd_conn; [exact H|]. intros k Hk. destruct (view_on (k_svw k)); [|exact Hk]. apply conn_ok_rbor_filter; exact Hk. }
  destruct (act_conn _ _ _); [|exact H1]. apply lim_upd_conn; [exact H1|]. intros k Hk. apply k_map_state_ok; exact Hk.
Qed.
Lemma lim_spoll_retained : forall g sv l s, lim_ok g s -> Forall (conn_ok g) l -> lim_ok g (fst (spoll_retained g s sv l)).
Proof.
  induction l as [|k t IH]; intros s H Hl; cbn [spoll_retained]; [exact H|].
  inversion Hl as [|? ? Hk Ht]; subst. destruct Hk as [A [B C]].
  destruct (N.eqb_spec (lenN (k_rbor k)) (MA g)) as [E|E]; [apply IH; assumption|].
  destruct (k_rsub k) as [|m q] eqn:Es.
  - apply IH; [|exact Ht]. destruct (nonempty _); [exact H|]. apply lim_upd_conn; [exact H|]. intros k0 Hk0; exact Hk0.
  - cbn [fst]. apply lim_upd_conn; [exact H|]. intros k0 [A0 [B0 C0]]. split; [exact A0|].
    split; cbn [k_with_req k_rsub k_rbor mk_conn]; [eapply len_tl_le; exact B|apply len_app1; assumption].
Qed.
Lemma lim_spoll_all : forall g sv l s a b, lim_ok g s -> Forall (conn_ok g) l -> lim_ok g (fst (spoll_all g s sv l a b)).
Proof.
  induction l as [|k t IH]; intros s a b H Hl; cbn [spoll_all]; [exact H|].
  inversion Hl as [|? ? Hk Ht]; subst. destruct Hk as [A [B C]].
  destruct (k_rsub k) as [|m q] eqn:Es; [apply IH; assumption|].
  destruct (N.leb_spec (MA g) (lenN (k_rbor k))) as [E|E]; [apply IH; assumption|].
  cbn [fst]. apply lim_upd_conn; [exact H|]. intros k0 [A0 [B0 C0]]. split; [exact A0|].
  split; cbn [k_with_req k_rsub k_rbor mk_conn]; [eapply len_tl_le; exact B|apply len_app1; [exact C|lia]].
Qed.
Lemma lim_server_rcv1 : forall g s sv ord, lim_ok g s -> lim_ok g (fst (server_rcv1 g s sv ord)).
Proof.
  intros g s sv ord H. unfold server_rcv1.
  pose proof (lim_spoll_retained g sv (sconns_in_order s sv ord (fun k => view_retained (k_svw k))) s H (sconns_in_order_ok _ _ _ _ _ H)) as H1.
  destruct (spoll_retained _ _ _ _) as [s1 r]. cbn [fst] in H1.
  destruct r; try exact H1. apply lim_spoll_all; [exact H1|apply sconns_in_order_ok; exact H1].
Qed.
Lemma lim_server_receive : forall fuel g s sv slot ord, lim_ok g s -> lim_ok g (fst (server_receive fuel g s sv slot ord)).
Proof.
  induction fuel as [|f IH]; intros g s sv slot ord H; cbn [server_receive]; [exact H|].
  pose proof (lim_server_rcv1 g (server_sync g s sv) sv ord (lim_server_sync _ _ _ H)) as H1.
  destruct (server_rcv1 _ _ _ _) as [s1 r]. cbn [fst] in H1.
  destruct r as [| |cl m]; try exact H1.
  destruct (match get_server s1 sv with Some srv => index_of cl (sv_conns srv) 0 | None => None end).
  - unfold fresh. cbn [fst snd].
    match goal with |- context [if ?b then _ else _] => destruct b end; [|exact H1].
    apply IH. apply lim_act_drop. exact H1.
  - destruct (faf g); [unfold fresh; cbn [fst snd]; exact H1|].
    apply IH. apply lim_upd_conn; [exact H1|]. intros k Hk. destruct (view_on (k_svw k)); [|exact Hk]. apply conn_ok_rbor_filter; exact Hk.
Qed.
Lemma lim_act_loan : forall g s a v, lim_ok g s -> lim_ok g (fst (act_loan g s a v)).
Proof.
  intros g s a v H. unfold act_loan.
  destruct (N.leb _ _); [exact H|].
  pose proof (lim_server_reclaim g (set_act_loans s (ac_uid a) (fun n => n + 1)) (ac_sv a) H) as H1.
  destruct (get_server _ _); [|exact H1].
  destruct (N.leb _ _); [exact H1|]. destruct (N.leb _ _); [exact H1|].
  unfold fresh. cbn [fst snd]. exact H1.
Qed.
Lemma lim_rloan_release : forall g s r, lim_ok g s -> lim_ok g (rloan_release s r). Proof. intros; assumption. Qed.
Lemma act_conn_ok : forall g s sv idx k, lim_ok g s -> act_conn s sv idx = Some k -> conn_ok g k.
Proof.
  intros g s sv idx k H E. unfold act_conn in E. destruct idx; [|discriminate]. destruct (get_server s sv); [|discriminate].
  destruct (nthN _ _ _); [|discriminate]. eapply get_conn_ok; eassumption.
Qed.
Lemma lim_rloan_send : forall g s r, cfg_ok g -> lim_ok g s -> lim_ok g (rloan_send g s r).
Proof.
  intros g s r Hg H. unfold rloan_send. apply lim_rloan_release.
  pose proof (lim_server_sync g s (rl_sv r) H) as H0.
  destruct (rl_idx r); [|exact H0].
  pose proof (lim_server_reclaim g _ (rl_sv r) H0) as H1.
  destruct (act_conn _ _ _) as [k|] eqn:Ea; [|exact H1].
  pose proof (act_conn_ok _ _ _ _ _ H1 Ea) as Hk.
  unfold fresh. cbn [fst snd].
  pose proof (k_chan_ok g k (rl_ch r) Hk) as [A B].
  destruct (try_send _ _ _ _) as [[q ev]|] eqn:Et; [|exact H1].
  pose proof (try_send_bound _ _ _ _ _ _ _ (proj1 Hg) A Et) as Hq.
  match goal with |- lim_ok g (match ev with Some _ => _ | None => ?x end) => assert (H2 : lim_ok g x) end.
  { apply lim_upd_server. apply lim_upd_conn; [exact H1|]. intros k0 Hk0. apply k_set_chan_ok; [exact Hk0|].
    pose proof (k_chan_ok g k0 (rl_ch r) Hk0) as [A0 B0]. split; cbn [c_sub c_bor mk_chan]; assumption. }
  destruct ev; exact H2.
Qed.
Lemma lim_client_create : forall g s i, lim_ok g s -> lim_ok g (fst (client_create g s i)).
Proof.
  intros g s i H. unfold client_create. destruct (nthN _ _ _); [exact H|]. destruct (first_free _ _); [|exact H].
  unfold fresh. cbn [fst snd].
  match goal with |- lim_ok g (st_reg ?x _ _ _ _ _) => change (lim_ok g x) end.
  apply lim_client_sync. exact H.
Qed.
Lemma lim_server_create : forall g s i, lim_ok g s -> lim_ok g (fst (server_create g s i)).
Proof.
  intros g s i H. unfold server_create. destruct (nthN _ _ _); [exact H|]. destruct (N.leb _ _); [exact H|].
  unfold fresh. cbn [fst snd].
  match goal with |- lim_ok g (st_reg ?x _ _ _ _ _) => change (lim_ok g x) end.
  apply lim_server_sync. exact H.
Qed.
Lemma lim_do_q : forall g s i b, cfg_ok g -> lim_ok g s -> lim_ok g (fst (do_q g s i b)).
Proof.
  intros g s i b Hg H. unfold do_q. destruct (slot_inst _ _); [|exact H].
  pose proof (lim_client_loan g (st_hid s (s_hid s + 1)) n (s_hid s) H) as H1.
  destruct (client_loan _ _ _ _) as [s1 r]. cbn [fst] in H1.
  destruct r as [[e|m]|]; try exact H1.
  pose proof (lim_client_send g s1 m Hg H1) as H2.
  destruct (client_send g s1 m) as [s2 [e|p]]; cbn [fst] in *; [exact H2|].
  destruct b; cbn [fst]; [apply lim_pend_drop; exact H2|exact H2].
Qed.

Lemma step_lim : forall g ord s o, cfg_ok g -> lim_ok g s -> lim_ok g (fst (step g ord s o)).
Proof.
  intros g ord s o Hg H. unfold step.
  match goal with |- context [let '(a, b) := ?e in _] => destruct e as [s1 ob] eqn:E end.
  cbn [fst]. apply lim_gc.
  destruct o.
  - pose proof (lim_client_create g s i H) as H1. rewrite E in H1. exact H1.
  - unfold client_drop in E. destruct (nthN _ _ _); inversion E; subst; exact H.
  - pose proof (lim_server_create g s i H) as H1. rewrite E in H1. exact H1.
  - unfold server_drop in E. destruct (nthN _ _ _); inversion E; subst; exact H.
  - destruct (slot_inst _ _); [|inversion E; subst; exact H].
    pose proof (lim_client_loan g (st_hid s (s_hid s + 1)) n (s_hid s) H) as H1.
    destruct (client_loan _ _ _ _) as [s2 r]. cbn [fst] in H1.
    destruct r as [[e|m1]|]; inversion E; subst; exact H1.
  - destruct (s_loans s) as [|l t]; [inversion E; subst; exact H|].
    pose proof (lim_client_send g (st_loans s t) (ln_msg l) Hg H) as H1.
    destruct (client_send _ _ _) as [s2 [e|p1]]; cbn [fst] in H1; inversion E; subst; exact H1.
  - destruct (s_loans s) as [|l t]; inversion E; subst; exact H.
  - pose proof (lim_do_q g s i false Hg H) as H1. rewrite E in H1. exact H1.
  - pose proof (lim_do_q g s i true Hg H) as H1. rewrite E in H1. exact H1.
  - destruct (nth_opt (s_pends s) k) as [p0|]; [|inversion E; subst; exact H].
    pose proof (lim_pend_receive (rcv_fuel s) g s p0 ord H) as H1.
    destruct (pend_receive _ _ _ _ _) as [s2 r]. cbn [fst] in H1.
    destruct r; inversion E; subst; exact H1.
  - destruct (nth_opt _ _); inversion E; subst; [|exact H]. apply lim_pend_drop. exact H.
  - destruct (nth_opt _ _); inversion E; subst; [|exact H]. apply lim_pend_hint. exact H.
  - destruct (nth_opt _ _); inversion E; subst; [|exact H]. apply lim_response_release. exact H.
  - destruct (slot_inst _ _); [|inversion E; subst; exact H].
    pose proof (lim_server_receive (srv_fuel s) g s n j ord H) as H1.
    destruct (server_receive _ _ _ _ _ _) as [s2 r]. cbn [fst] in H1.
    destruct r; inversion E; subst; exact H1.
  - destruct (slot_inst _ _); [|inversion E; subst; exact H].
    unfold server_has_requests in E. inversion E; subst. apply lim_server_sync. exact H.
  - destruct (nth_opt _ _) as [ar|]; [|inversion E; subst; exact H].
    match type of E with context [act_loan g ?x ar ?v] => pose proof (lim_act_loan g x ar v H) as H1; destruct (act_loan g x ar v) as [s2 [e|r]] end;
      cbn [fst] in H1; inversion E; subst; [exact H1|]. apply lim_rloan_send; assumption.
  - destruct (nth_opt _ _) as [ar|]; [|inversion E; subst; exact H].
    match type of E with context [act_loan g ?x ar ?v] => pose proof (lim_act_loan g x ar v H) as H1; destruct (act_loan g x ar v) as [s2 [e|r]] end;
      cbn [fst] in H1; inversion E; subst; exact H1.
  - destruct (s_rloans s) as [|r t]; inversion E; subst; [exact H|]. apply lim_rloan_send; assumption.
  - destruct (s_rloans s) as [|r t]; inversion E; subst; exact H.
  - destruct (nth_opt _ _); inversion E; subst; [|exact H]. apply lim_act_drop. exact H.
Qed.

Theorem lim_ok_reach : forall g s, cfg_ok g -> reach g s -> lim_ok g s.
Proof.
  intros g s Hg H. induction H as [|s ord o Hr IH].
  - constructor.
  - apply step_lim; assumption.
Qed.


(* ======================================================================================== *)
(* executable histories (witnesses of the refuted clauses, non-vacuity examples)            *)
Definition ord_all : list N := map N.of_nat (seq 0 64).
Definition run_from (g : cfg) (s : state) (ops : list op) : state := fold_left (fun s o => fst (step g ord_all s o)) ops s.
Definition run (g : cfg) (ops : list op) : state := run_from g (init g) ops.
Lemma reach_run_from : forall g ops s, reach g s -> reach g (run_from g s ops).
Proof. induction ops as [|o t IH]; intros s H; cbn [run_from fold_left]; [exact H|]. apply IH. apply reachS. exact H. Qed.
Lemma reach_run : forall g ops, reach g (run g ops).
Proof. intros. apply reach_run_from. constructor. Qed.

Definition cfg1 : cfg := mkCfg 1 1 1 1 1 1 1 false false false 0.
(* client A, server S; A sends; S receives (ActiveRequest a); A's PendingResponse and A are dropped;
   client B takes A's slot and sends; a answers; B's PendingResponse receives the answer *)
Definition w_routing : list op := [Cc 0; Sc 0; Q 0; Sr 0; Pd 0; Cd 0; Cc 0; Q 0; As 0; Pr 0].
Lemma w_routing_spec :
  existsb (fun pm => negb (N.eqb (pn_cl (fst pm)) (p_ocl (snd pm)))) (s_rlog (run cfg1 w_routing)) = true.
Proof. vm_compute. reflexivity. Qed.
(* the server holds request 0 as an ActiveRequest and request 1 in its queue, both of dropped
   PendingResponses; request 2 is accepted by no server; nothing is loaned; the next loan fails *)
Definition w_client_oom : list op := [Cc 0; Sc 0; Q 0; Sr 0; Pd 0; Qd 0; Q 0].
Lemma w_client_oom_spec : snd (step cfg1 ord_all (run cfg1 w_client_oom) (L 0)) = OErr EOom.
Proof. vm_compute. reflexivity. Qed.
(* max_servers = 2, one server, response buffer 2: four request cycles with two unread responses each *)
Definition cfg2 : cfg := mkCfg 1 1 2 1 1 2 1 false false false 0.
Definition w_cycle : list op := [Q 0; Sr 0; As 0; As 0; Pd 0; Ad 0].
Definition w_server_oom : list op := [Cc 0; Sc 0] ++ w_cycle ++ w_cycle ++ w_cycle ++ w_cycle ++ [Q 0; Sr 0].
Lemma w_server_oom_spec : snd (step cfg2 ord_all (run cfg2 w_server_oom) (As 0)) = OErr EOom.
Proof. vm_compute. reflexivity. Qed.
(* a stale response in a recycled channel: discarded by the filter, the genuine one is delivered *)
Definition cfg3 : cfg := mkCfg 1 1 2 1 2 1 1 true false false 0.
Definition w_reuse : list op := [Cc 0; Sc 0; Q 0; Sr 0; As 0; Pd 0; Ad 0; Qd 0; Qd 0; Q 0; Sr 0; As 0].
Lemma w_reuse_spec :
  let s := run cfg3 w_reuse in
  map (fun p => (q_ch (pn_msg p), q_rid (pn_msg p))) (s_pends s) = [(0, 3)] /\
  digest_p s = [(3, true, true)] /\
  snd (step cfg3 ord_all s (Pr 0)) = OResp 30000 /\
  map (fun pm => (q_rid (pn_msg (fst pm)), p_rid (snd pm))) (s_rlog (fst (step cfg3 ord_all s (Pr 0)))) = [(3, 3)].
Proof. vm_compute. repeat split; reflexivity. Qed.

(* a loan fails with OutOfMemory only when every chunk of the segment is referenced *)
Lemma client_loan_oom_exact : forall g s cl hid s',
  client_loan g s cl hid = (s', Val (inl EOom)) ->
  exists c, get_client s' cl = Some c /\ nreq g <= rc_used (cl_rc c).
Proof.
  intros g s cl hid s' H. unfold client_loan in H.
  destruct (get_client s cl); [|discriminate].
  destruct (N.eqb _ _); [discriminate|].
  destruct (get_client (client_reclaim s cl) cl) as [c0|] eqn:E; [|discriminate].
  destruct (N.leb _ _); [discriminate|].
  destruct (N.leb_spec (nreq g) (rc_used (cl_rc c0))) as [Hle|Hgt].
  - inversion H; subst. exists c0. split; assumption.
  - destruct (cl_avail c0); [discriminate|]. unfold fresh in H. cbn [fst snd] in H. discriminate.
Qed.

(* drop of the PendingResponse: the channel is closed on every connection of the receiver *)
Lemma k_chan_map_state : forall k c f, N.ltb c (lenN (k_ch k)) = true -> c_state (k_chan (k_map_state k c f) c) = f (c_state (k_chan k c)).
Proof.
  intros k c f Hlt. unfold k_map_state, k_set_chan, k_chan, k_with_ch, nthN, updN. cbn [k_ch mk_conn].
  assert (Hn : (N.to_nat c < length (k_ch k))%nat) by (unfold lenN in Hlt; lia).
  generalize dependent (N.to_nat c). generalize (k_ch k).
  induction l as [|h t IH]; intros [|n] Hl; cbn [upd nth length] in *; try lia; [reflexivity|apply IH; lia].
Qed.
Lemma pend_drop_closes : forall s p k,
  In k (s_conns s) -> k_cl k = pn_cl p -> view_on (k_cv k) = true ->
  N.ltb (q_ch (pn_msg p)) (lenN (k_ch k)) = true ->
  chw (c_state (k_chan k (q_ch (pn_msg p)))) -> rid_ok (q_rid (pn_msg p)) ->
  exists k', In k' (s_conns (pend_drop s p)) /\ k_cl k' = k_cl k /\ k_sv k' = k_sv k /\
             ch_has_state (c_state (k_chan k' (q_ch (pn_msg p)))) (q_rid (pn_msg p)) = false.
Proof.
  intros s p k Hin Hcl Hv Hlt Hw Hr.
  exists (k_map_state k (q_ch (pn_msg p)) (fun v => ch_close v (q_rid (pn_msg p)))).
  split; [|split; [reflexivity|split; [reflexivity|]]].
  - unfold pend_drop, request_release. cbn [s_conns upd_client st_clients st_conns].
    apply in_map_iff. exists k. split; [|exact Hin]. rewrite Hcl, N.eqb_refl, Hv. reflexivity.
  - rewrite k_chan_map_state by exact Hlt. apply close_not_state; assumption.
Qed.

(* an ActiveRequest of client A's request reports is_connected = true although A's pending response is gone *)
Definition disc_bad (s : state) : bool :=
  existsb (fun a => act_connected s a &&
                    negb (existsb (fun p => N.eqb (pn_cl p) (q_cl (ac_msg a)) && N.eqb (q_rid (pn_msg p)) (q_rid (ac_msg a))) (s_pends s))) (s_acts s).
Definition w_disc : list op := [Cc 0; Sc 0; Q 0; Sr 0; Pd 0; Cd 0; Cc 0; Q 0; As 0].
Lemma w_disc_spec : disc_bad (run cfg1 w_disc) = true.
Proof. vm_compute. reflexivity. Qed.

(* fix 9915d96: a poll on an empty channel never releases an expired (to-be-removed) connection
   that still has data or borrows on ANY channel; it is released exactly when nothing is left *)
Lemma retained_kept : forall g s cl ch k,
  c_sub (k_chan k ch) = [] -> lenN (c_bor (k_chan k ch)) <> MB g ->
  existsb chan_has_data_or_borrows (k_ch k) = true ->
  poll_retained g s cl ch [k] = (s, R1None).
Proof.
  intros g s cl ch k Hs Hb He. cbn [poll_retained].
  destruct (N.eqb_spec (lenN (c_bor (k_chan k ch))) (MB g)); [contradiction|].
  rewrite Hs, He. reflexivity.
Qed.
Lemma retained_released : forall g s cl ch k,
  c_sub (k_chan k ch) = [] -> lenN (c_bor (k_chan k ch)) <> MB g ->
  existsb chan_has_data_or_borrows (k_ch k) = false ->
  poll_retained g s cl ch [k] = (upd_conn s cl (k_sv k) (fun k => k_with_cv k VNone), R1None).
Proof.
  intros g s cl ch k Hs Hb He. cbn [poll_retained].
  destruct (N.eqb_spec (lenN (c_bor (k_chan k ch))) (MB g)); [contradiction|].
  rewrite Hs, He. reflexivity.
Qed.
(* two requests in flight, the server answers request a, drops both active requests and itself;
   pending_b polls first (nothing), pending_a still receives its response *)
Definition cfg4 : cfg := mkCfg 2 1 1 1 1 1 1 false false false 0.
Definition w_sibling : list op := [Cc 0; Sc 0; Q 0; Q 0; Sr 0; Sr 0; As 0; Ad 0; Ad 0; Sd 0].
Lemma w_sibling_spec :
  let s := run cfg4 w_sibling in
  s_sreg s = [] /\ digest_p s = [(0, false, true); (1, false, false)] /\
  snd (step cfg4 ord_all s (Pr 1)) = ORecvNone /\
  digest_p (fst (step cfg4 ord_all s (Pr 1))) = [(0, false, true); (1, false, false)] /\
  snd (step cfg4 ord_all (fst (step cfg4 ord_all s (Pr 1))) (Pr 0)) = OResp 0.
Proof. vm_compute. repeat split; reflexivity. Qed.

(* the scripted backpressure handler (stepx / XQh): two servers, request buffer 1, no overflow;
   request 0 stays in the buffer of server slot 1; while the delivery of request 1 to slot 1 stalls,
   the handler lets slot 0 poll: has_requests = true and receive hands out request 1 as a
   CONNECTED ActiveRequest, because send_request opens the response channel before it delivers *)
Definition cfg5 : cfg := mkCfg 1 1 1 1 1 2 1 false false false 0.
Definition w_bph_pre : list op := [Cc 0; Sc 0; Sc 1; Q 0; Sr 0; Ad 0; Pd 0].
Lemma w_bph_spec :
  let s := run cfg5 w_bph_pre in
  let r := stepx cfg5 ord_all ord_all s (XQh 0 0) in
  snd r = OQh (OOkN 1) (Some (Some (true, OAct 1 1 1))) /\
  digest_p (fst r) = [(1, true, false)] /\ digest_a (fst r) = [(1, 0, true, false)].
Proof. vm_compute. repeat split; reflexivity. Qed.
