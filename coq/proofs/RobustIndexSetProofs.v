(* C09: invariants of the RobustUniqueIndexSet step model: all schedules, any number of threads,
   any capacity. *)
From V Require Import model.Base model.Conc model.Events model.UniqueIndexSet model.RobustIndexSet proofs.ListLemmas.
From Coq Require Import ZifyBool ZifyNat ZifyN.
Open Scope N_scope.

Definition cellv (g : rgst) (i : N) : N := nthN (cells g) i 0.

Definition GInvR (g : rgst) : Prop :=
  gen g <= MAX64 /\
  lenN (cells g) = rcap g /\ lenN (rholder g) = rcap g /\ lenN (rdone g) = rcap g /\ lenN (cleared_at g) = rcap g /\
  (forall i, i < rcap g -> (cellv g i = EMPTY <-> nthN (rholder g) i None = None)) /\
  (forall i, i < rcap g -> nthN (rdone g) i false = true -> cellv g i <> EMPTY).

(* acquire's scan: while the generation counter still has the value `cur` loaded at the start,
   every cell below n that is empty now was cleared at generation `cur` (its clearing has not
   been published by an increment yet) *)
Definition scan_seen (g : rgst) (cur n : N) : Prop :=
  gen g = cur -> forall i, i < n -> i < rcap g -> cellv g i = EMPTY -> nthN (cleared_at g) i None = Some cur.
(* the counting scan: while the generation counter still has the value `init`, a cell below n
   that is now held by a completed acquire has been counted *)
Definition count_seen (g : rgst) (init n count : N) : Prop :=
  gen g = init -> (exists i, i < n /\ i < rcap g /\ cellv g i <> EMPTY /\ nthN (rdone g) i false = true) -> 0 < count.
Definition no_completed_owner (g : rgst) : Prop :=
  forall i, i < rcap g -> cellv g i <> EMPTY -> nthN (rdone g) i false = false.

Definition KlInv (g : rgst) (kl : klock) : Prop :=
  match kl with KLRel => True | KLRec n _ _ _ => n < rcap g end.
Definition KsInv (g : rgst) (k : kscan) : Prop :=
  match k with KBorrowed => True | KLock kl => KlInv g kl end.
Definition KcInv (g : rgst) (k : kinc) : Prop :=
  match k with
  | KAcq d n => d <> EMPTY /\ n < rcap g
  | KRel i _ => i < rcap g
  | KRec n _ _ _ => n < rcap g
  | KScan init count k => init <> MAX64 /\ init <= gen g /\ count_seen g init (rcap g) count /\ KsInv g k
  end.

Definition PcInvR (g : rgst) (pc : rpc) : Prop :=
  match pc with
  | RIdle | RecEnd _ _ | RecDist _ _ => True
  | AStart d => d <> EMPTY
  | RelCell i _ _ => i < rcap g
  | ScanDist k | ScanStart k => KsInv g k
  | AScan d cur n => d <> EMPTY /\ n < rcap g /\ cur <> MAX64 /\ cur <= gen g /\ scan_seen g cur n
  | AFinal d cur => d <> EMPTY /\ cur <> MAX64 /\ cur <= gen g /\ scan_seen g cur (rcap g)
  | IncLoad k => KcInv g k
  | IncCas c k => c <> MAX64 /\ KcInv g k
  | LockCheck kl => KlInv g kl
  | ScanCell init n count k => n < rcap g /\ init <> MAX64 /\ init <= gen g /\ count_seen g init n count /\ KsInv g k
  | LockCas gn kl => gn <= gen g /\ (gen g = gn -> gn <> MAX64 -> no_completed_owner g) /\ KlInv g kl
  | RecLoad n _ _ _ | RecCas n _ _ _ => n < rcap g
  end.

Definition LInvR (g : rgst) (l : rlst) : Prop :=
  PcInvR g (rpc_of l) /\ Forall (fun e => fst e < rcap g) (rheld l).

Definition InvR (c : cfg rgst rlst) : Prop := GInvR (fst c) /\ forall t, LInvR (fst c) (snd c t).

Lemma nth_repeat {A} (x d : A) n i : nth i (repeat x n) d = x \/ nth i (repeat x n) d = d.
Proof.
  destruct (nth_in_or_default i (repeat x n) d) as [H|H]; [left; eapply repeat_spec; eauto|right; exact H].
Qed.

Lemma invr_init c dist progs : InvR (rinit c dist progs).
Proof.
  split.
  - unfold GInvR, rinit, rg_init, cellv; cbn [fst rcap cells gen rholder rdone cleared_at].
    unfold lenN. rewrite !repeat_length. unfold MAX64.
    repeat split; try lia.
    + intros _. unfold nthN. destruct (nth_repeat (@None Datatypes.nat) None (N.to_nat c) (N.to_nat i)); assumption.
    + intros _. unfold nthN. assert (Hl : (N.to_nat i < length (repeat EMPTY (N.to_nat c)))%nat) by (rewrite repeat_length; lia).
      eapply repeat_spec. apply nth_In. exact Hl.
    + intros i Hi H. exfalso. unfold nthN in H.
      destruct (nth_repeat false false (N.to_nat c) (N.to_nat i)) as [E|E]; rewrite E in H; discriminate.
  - intros t. split; cbn; [exact I|constructor].
Qed.

(* ---------------- frame: what a step of anybody does to everybody's pc invariant ---------------- *)
Definition frame_ok (g g' : rgst) : Prop :=
  rcap g' = rcap g /\ gen g <= gen g' /\
  (gen g' = gen g ->
     (forall i, i < rcap g -> cellv g' i = EMPTY ->
        (cellv g i = EMPTY /\ nthN (cleared_at g') i None = nthN (cleared_at g) i None) \/
        nthN (cleared_at g') i None = Some (gen g)) /\
     (forall i, i < rcap g -> cellv g' i <> EMPTY -> nthN (rdone g') i false = true ->
        cellv g i <> EMPTY /\ nthN (rdone g) i false = true)).

Lemma frame_refl g : frame_ok g g.
Proof. unfold frame_ok. repeat split; auto; try lia. Qed.

Lemma scan_seen_frame g g' cur n : frame_ok g g' -> cur <= gen g -> scan_seen g cur n -> scan_seen g' cur n.
Proof.
  intros (Hc & Hg & Hf) Hle Hs E i Hi Hic He. rewrite Hc in Hic.
  assert (Eg : gen g' = gen g) by lia. destruct (Hf Eg) as (F1 & _).
  assert (Eg' : gen g = cur) by lia.
  destruct (F1 i Hic He) as [[He0 Hca]|Hca].
  - rewrite Hca. apply Hs; auto.
  - rewrite Hca, Eg'. reflexivity.
Qed.

Lemma count_seen_frame g g' init n count : frame_ok g g' -> init <= gen g -> count_seen g init n count -> count_seen g' init n count.
Proof.
  intros (Hc & Hg & Hf) Hle Hs E (i & Hi & Hic & Hne & Hd). rewrite Hc in Hic.
  assert (Eg : gen g' = gen g) by lia. destruct (Hf Eg) as (_ & F2).
  destruct (F2 i Hic Hne Hd) as (Hne0 & Hd0). apply Hs; [lia|]. exists i. auto.
Qed.

Lemma pc_frame g g' pc : frame_ok g g' -> PcInvR g pc -> PcInvR g' pc.
Proof.
  intros Hf Hp. pose proof Hf as (Hc & Hg & Hff).
  assert (HKl : forall kl, KlInv g kl -> KlInv g' kl) by (intros [|n d m mask]; cbn; auto; rewrite Hc; auto).
  assert (HKs : forall k, KsInv g k -> KsInv g' k) by (intros [|kl]; cbn; auto).
  assert (HKc : forall k, KcInv g k -> KcInv g' k).
  { intros [d n|i m|n d m mask|init count k]; cbn [KcInv]; rewrite ?Hc; auto.
    intros (H1 & H2 & H3 & H4). split; [assumption|]. split; [lia|]. split; [|auto].
    eapply count_seen_frame; eauto. }
  destruct pc as [|d|i d m|k|d m|d cur n|d cur|k|c k|kl|k|init n count k|gn kl|n d m mask|n d m mask|dd mask]; cbn [PcInvR] in *; rewrite ?Hc; auto.
  - destruct Hp as (H1 & H2 & H3 & H4 & H5). repeat split; auto; [lia|]. eapply scan_seen_frame; eauto.
  - destruct Hp as (H1 & H3 & H4 & H5). repeat split; auto; [lia|]. eapply scan_seen_frame; eauto.
  - destruct Hp as (H1 & H2). split; auto.
  - destruct Hp as (H1 & H2 & H3 & H4 & H5). repeat split; auto; [lia|]. eapply count_seen_frame; eauto.
  - destruct Hp as (H1 & H2 & H3). split; [lia|]. split; [|auto].
    intros E Hnm i Hi Hne. rewrite Hc in Hi.
    assert (Eg : gen g' = gen g) by lia. destruct (Hff Eg) as (_ & F2).
    destruct (nthN (rdone g') i false) eqn:Ed; [|reflexivity].
    destruct (F2 i Hi Hne Ed) as (Hne0 & Hd0).
    assert (Eg' : gen g = gn) by lia. rewrite (H2 Eg' Hnm i Hi Hne0) in Hd0. discriminate.
Qed.

Lemma linv_frame g g' l : frame_ok g g' -> LInvR g l -> LInvR g' l.
Proof.
  intros Hf [Hp Hh]. split; [eapply pc_frame; eauto|]. destruct Hf as (Hc & _). rewrite Hc. exact Hh.
Qed.

(* the four kinds of state change *)
Lemma frame_populate g n d ho ca rc : GInvR g -> n < rcap g -> d <> EMPTY -> ca = nthN (cleared_at g) n None ->
  frame_ok g (set_cell g n d ho ca rc).
Proof.
  intros (_ & Hl1 & Hl2 & Hl3 & Hl4 & _) Hn Hd ->. unfold frame_ok, cellv. cbn [set_cell rcap gen cells rdone cleared_at].
  split; [reflexivity|]. split; [lia|]. intros _. split.
  - intros i Hi He. left. destruct (N.eq_dec n i) as [->|Hne].
    + rewrite nthN_updN_same in He by lia. contradiction.
    + rewrite nthN_updN_other in He by assumption. split; [assumption|]. apply nthN_updN_other; assumption.
  - intros i Hi Hne Hdn. destruct (N.eq_dec n i) as [->|Hni].
    + rewrite nthN_updN_same in Hdn by lia. discriminate.
    + rewrite nthN_updN_other in Hne by assumption. rewrite nthN_updN_other in Hdn by assumption. auto.
Qed.

Lemma frame_clear g n ho rc : GInvR g -> n < rcap g -> frame_ok g (set_cell g n EMPTY ho (Some (gen g)) rc).
Proof.
  intros (_ & Hl1 & Hl2 & Hl3 & Hl4 & _) Hn. unfold frame_ok, cellv. cbn [set_cell rcap gen cells rdone cleared_at].
  split; [reflexivity|]. split; [lia|]. intros _. split.
  - intros i Hi He. destruct (N.eq_dec n i) as [->|Hne].
    + right. apply nthN_updN_same. lia.
    + left. rewrite nthN_updN_other in He by assumption. split; [assumption|]. apply nthN_updN_other; assumption.
  - intros i Hi Hne Hdn. destruct (N.eq_dec n i) as [->|Hni].
    + rewrite nthN_updN_same in Hdn by lia. discriminate.
    + rewrite nthN_updN_other in Hne by assumption. rewrite nthN_updN_other in Hdn by assumption. auto.
Qed.

Lemma frame_gen_up g v dn : gen g < v -> frame_ok g (set_gen g v dn).
Proof. intros H. unfold frame_ok. cbn [set_gen rcap gen]. split; [reflexivity|]. split; [lia|]. intros E. lia. Qed.

Lemma frame_gen_same g : frame_ok g (set_gen g (gen g) (rdone g)).
Proof. unfold frame_ok, cellv. cbn [set_gen rcap gen cells rdone cleared_at]. repeat split; auto; lia. Qed.

Lemma ginv_populate g n d t ca rc : GInvR g -> n < rcap g -> d <> EMPTY -> GInvR (set_cell g n d (Some t) ca rc).
Proof.
  intros (H0 & Hl1 & Hl2 & Hl3 & Hl4 & Hch & Hdn) Hn Hd. unfold GInvR, cellv in *. cbn [set_cell rcap gen cells rholder rdone cleared_at].
  rewrite !lenN_updN. repeat (split; [assumption|]). split.
  - intros i Hi. destruct (N.eq_dec n i) as [->|Hne].
    + rewrite !nthN_updN_same by lia. split; [contradiction|discriminate].
    + rewrite !nthN_updN_other by assumption. auto.
  - intros i Hi. destruct (N.eq_dec n i) as [->|Hne].
    + rewrite nthN_updN_same by lia. discriminate.
    + rewrite !nthN_updN_other by assumption. auto.
Qed.

Lemma ginv_clear g n ca rc : GInvR g -> n < rcap g -> GInvR (set_cell g n EMPTY None ca rc).
Proof.
  intros (H0 & Hl1 & Hl2 & Hl3 & Hl4 & Hch & Hdn) Hn. unfold GInvR, cellv in *. cbn [set_cell rcap gen cells rholder rdone cleared_at].
  rewrite !lenN_updN. repeat (split; [assumption|]). split.
  - intros i Hi. destruct (N.eq_dec n i) as [->|Hne].
    + rewrite !nthN_updN_same by lia. split; reflexivity.
    + rewrite !nthN_updN_other by assumption. auto.
  - intros i Hi. destruct (N.eq_dec n i) as [->|Hne].
    + rewrite nthN_updN_same by lia. discriminate.
    + rewrite !nthN_updN_other by assumption. auto.
Qed.

Lemma ginv_gen g v t r k : GInvR g -> v <= MAX64 -> GInvR (set_gen g v (inc_done_ghost g t r k)).
Proof.
  intros (H0 & Hl1 & Hl2 & Hl3 & Hl4 & Hch & Hdn) Hv. unfold GInvR, cellv in *. cbn [set_gen rcap gen cells rholder rdone cleared_at].
  assert (Hlen : lenN (inc_done_ghost g t r k) = rcap g).
  { unfold inc_done_ghost. destruct k; auto. destruct (N.eqb r MAX64); auto.
    destruct (nthN (rholder g) n None); auto. destruct (Nat.eqb t n0); auto. rewrite lenN_updN. auto. }
  repeat (split; [assumption|]).
  intros i Hi. unfold inc_done_ghost. destruct k as [d n| | |]; auto. destruct (N.eqb r MAX64); auto.
  destruct (nthN (rholder g) n None) as [t'|] eqn:Eh; auto. destruct (Nat.eqb t t'); auto.
  destruct (N.eq_dec n i) as [->|Hne]; [|rewrite nthN_updN_other by assumption; auto].
  intros _ He. apply (Hch i Hi) in He. congruence.
Qed.

Lemma ginv_lock g : GInvR g -> GInvR (set_gen g MAX64 (rdone g)).
Proof.
  intros (H0 & H). unfold GInvR, cellv in *. cbn [set_gen rcap gen cells rholder rdone cleared_at]. split; [lia|exact H].
Qed.

Lemma ginv_pop g n : GInvR g -> GInvR (set_pop g n).
Proof. intros H. exact H. Qed.
Lemma frame_pop g g1 n : frame_ok g g1 -> frame_ok g (set_pop g1 n).
Proof. intros H. exact H. Qed.

Lemma invr_build g' ls t l' :
  GInvR g' -> LInvR g' l' -> (forall t', LInvR g' (ls t')) -> InvR (g', upd_l ls t l').
Proof.
  intros HG Ht Ho. split; [exact HG|]. intros t'. cbn [fst snd].
  destruct (Nat.eq_dec t' t) as [->|Hne]; [rewrite upd_l_same; exact Ht|rewrite upd_l_other by assumption; auto].
Qed.

(* ---------------- continuations (g: the state the step started from, g2: the state it ends in) ---------------- *)
Lemma rec_next_inv g g2 n d m mask : rcap g2 = rcap g -> PcInvR g2 (rec_next g n d m mask).
Proof. intros Hc. unfold rec_next. destruct (N.ltb_spec n (rcap g)); cbn; auto. rewrite Hc. assumption. Qed.

Lemma k_lock_ret_inv g g2 h b kl pc es h' : rcap g2 = rcap g -> k_lock_ret g h b kl = (pc, es, h') -> PcInvR g2 pc /\ h' = h.
Proof.
  intros Hc. unfold k_lock_ret. destruct kl; intros E; inversion E; subst; split; auto; [exact I|apply rec_next_inv; assumption].
Qed.

Lemma k_scan_ret_inv g g2 h gn count k pc es h' :
  rcap g2 = rcap g -> KsInv g2 k -> gn <= gen g2 -> (count = 0 -> gen g2 = gn -> gn <> MAX64 -> no_completed_owner g2) ->
  k_scan_ret g h gn count k = (pc, es, h') -> PcInvR g2 pc /\ h' = h.
Proof.
  unfold k_scan_ret. intros Hc Hk Hle Hn. destruct k as [|kl].
  - intros E; inversion E; subst; split; auto; exact I.
  - destruct (N.eqb_spec count 0) as [E0|E0].
    + intros E; inversion E; subst; split; auto. cbn. repeat split; auto.
    + apply k_lock_ret_inv. assumption.
Qed.

Lemma k_inc_ret_inv g g2 h r k pc es h' :
  rcap g2 = rcap g -> KcInv g2 k -> Forall (fun e => fst e < rcap g) h -> r <= gen g2 ->
  (forall init count k0, k = KScan init count k0 -> init + 1 = r -> count = 0 -> gen g2 = r -> r <> MAX64 -> no_completed_owner g2) ->
  k_inc_ret g h r k = (pc, es, h') -> PcInvR g2 pc /\ Forall (fun e => fst e < rcap g) h'.
Proof.
  intros Hc Hk Hh Hle Hn. unfold k_inc_ret. destruct k as [d n|i m|n d m mask|init count k0]; cbn [KcInv] in Hk.
  - destruct (N.eqb r MAX64); intros E; inversion E; subst; split; auto; try exact I.
    apply Forall_app. split; [assumption|]. constructor; [|constructor]. cbn. rewrite <- Hc. apply Hk.
  - destruct m; intros E; inversion E; subst; split; auto; exact I.
  - destruct (N.eqb r MAX64); [intros E; inversion E; subst; split; auto; exact I|].
    destruct m; intros E; inversion E; subst; split; auto; try (apply rec_next_inv; assumption); try (cbn; assumption).
  - destruct Hk as (H1 & H2 & H3 & H4). destruct (N.eqb_spec (init + 1) r) as [E1|E1].
    + intros E. destruct (k_scan_ret_inv g g2 h r count k0 pc es h' Hc H4 Hle) as [Hp ->]; auto.
      intros; eapply Hn; eauto.
    + intros E; inversion E; subst; split; auto.
Qed.

(* ---------------- the step ---------------- *)
Ltac fin_inv Est := unfold fin in Est; cbn beta iota in Est.

Theorem rstep_inv t c c' e : InvR c -> step1 rstep t c = Some (c', e) -> InvR c'.
Proof.
  destruct c as [g ls]. intros HI Hs. pose proof HI as [HG HL]. unfold step1 in Hs. cbn [fst snd] in *.
  destruct (rstep t g (ls t)) as [[[g' l'] e']|] eqn:Est; [|discriminate].
  inversion Hs; subst c' e; clear Hs.
  pose proof (HL t) as (HtPc & HtH).
  pose proof HG as (Hgm & Hl1 & Hl2 & Hl3 & Hl4 & Hch & Hdn).
  assert (Hsame : forall pc' h', PcInvR g pc' -> Forall (fun e => fst e < rcap g) h' ->
                  InvR (g, upd_l ls t (set_r (ls t) (rprog (ls t)) pc' h'))).
  { intros pc' h' Hp Hh. apply invr_build; auto. split; assumption. }
  assert (Hsamep : forall p pc' h' s', PcInvR g pc' -> Forall (fun e => fst e < rcap g) h' ->
                  InvR (g, upd_l ls t {| rprog := p; rpc_of := pc'; rheld := h'; rstamp := s' |})).
  { intros p pc' h' s' Hp Hh. apply invr_build; auto. split; assumption. }
  assert (Hchg : forall g2 p pc' h', GInvR g2 -> frame_ok g g2 -> PcInvR g2 pc' -> Forall (fun e => fst e < rcap g) h' ->
                  InvR (g2, upd_l ls t (set_r (ls t) p pc' h'))).
  { intros g2 p pc' h' HG2 Hf Hp Hh. apply invr_build; auto.
    - split; [assumption|]. destruct Hf as (Hc & _). cbn [set_r rheld]. rewrite Hc. assumption.
    - intros t'. eapply linv_frame; eauto. }
  unfold rstep in Est.
  destruct (rpc_of (ls t)) as [|d|i d m|k|d m|d cur n|d cur|k|c k|kl|k|init n count k|gn kl|n d m mask|n d m mask|dd mask] eqn:Epc;
    cbn [PcInvR] in HtPc.
  - (* RIdle *)
    destruct (rprog (ls t)) as [|o p] eqn:Eprog; [discriminate|].
    destruct o as [d|m front| | |d m].
    + destruct (N.eqb_spec d EMPTY); inversion Est; subst g' l' e'; apply Hsamep; cbn; auto.
    + destruct (if front then rheld (ls t) else rev (rheld (ls t))) as [|[i d] r] eqn:Eh.
      * inversion Est; subst g' l' e'. apply Hsamep; cbn; auto.
      * inversion Est; subst g' l' e'; clear Est.
        assert (Hin : In (i, d) (rheld (ls t))).
        { destruct front; [rewrite Eh; left; reflexivity|]. apply in_rev. rewrite Eh. left. reflexivity. }
        assert (Hi : i < rcap g) by (rewrite Forall_forall in HtH; apply (HtH (i, d) Hin)).
        apply Hsamep; [cbn; assumption|].
        rewrite Forall_forall in *. intros x Hx. apply HtH.
        destruct front.
        -- destruct (rheld (ls t)); [destruct Hx|right; exact Hx].
        -- assert (E : rheld (ls t) = rev r ++ [(i, d)]) by (rewrite <- (rev_involutive (rheld (ls t))), Eh; reflexivity).
           rewrite E in Hx |- *. rewrite removelast_last in Hx. apply in_or_app. left. exact Hx.
    + inversion Est; subst g' l' e'. apply Hsamep; cbn; auto.
    + inversion Est; subst g' l' e'. apply Hsamep; cbn; auto.
    + destruct (N.eqb_spec (gen g) MAX64); inversion Est; subst g' l' e'; apply Hsamep; cbn; auto.
  - (* AStart *)
    destruct (N.eqb_spec (gen g) MAX64) as [E|E]; inversion Est; subst g' l' e'; apply Hsame; cbn; auto.
    unfold acq_next. destruct (N.ltb_spec 0 (rcap g)); cbn; repeat split; auto; try lia; intros _ i Hi; lia.
  - (* RelCell *)
    destruct (N.eqb_spec (nthN (cells g) i 0) d) as [E|E]; inversion Est; subst g' l' e'; [|apply Hsame; cbn; auto].
    apply Hchg; [apply ginv_clear; assumption|apply frame_clear; assumption|cbn; assumption|assumption].
  - (* ScanDist *) inversion Est; subst g' l' e'. apply Hsame; cbn; auto.
  - (* RecDist *) inversion Est; subst g' l' e'. apply Hsame; auto. apply rec_next_inv; reflexivity.
  - (* AScan *)
    destruct HtPc as (Hd & Hn & Hcm & Hcg & Hss).
    destruct (N.eqb_spec (nthN (cells g) n 0) EMPTY) as [E|E]; inversion Est; subst g' l' e'; clear Est.
    + apply Hchg; [apply ginv_pop, ginv_populate; assumption|apply frame_pop, frame_populate; auto|cbn; auto|assumption].
    + apply Hsame; [|assumption]. unfold acq_next. destruct (N.ltb_spec (n + 1) (rcap g)) as [Hlt|Hge]; cbn.
      * repeat split; auto. intros Eg i Hi Hic He. destruct (N.eq_dec i n) as [->|Hne]; [contradiction|]. apply Hss; auto; lia.
      * repeat split; auto. intros Eg i Hi Hic He. destruct (N.eq_dec i n) as [->|Hne]; [contradiction|]. apply Hss; auto; lia.
  - (* AFinal *)
    destruct HtPc as (Hd & Hcm & Hcg & Hss).
    destruct (N.eqb_spec (gen g) cur) as [E|E]; [inversion Est; subst g' l' e'; apply Hsame; cbn; auto|].
    destruct (N.eqb_spec (gen g) MAX64) as [E2|E2]; inversion Est; subst g' l' e'; apply Hsame; cbn; auto.
    unfold acq_next. destruct (N.ltb_spec 0 (rcap g)); cbn; repeat split; auto; try lia; intros _ i Hi; lia.
  - (* IncLoad *)
    destruct (N.eqb_spec (gen g) MAX64) as [E|E]; [|inversion Est; subst g' l' e'; apply Hsame; cbn; auto].
    fin_inv Est. destruct (k_inc_ret g (rheld (ls t)) MAX64 k) as [[pc' evs] h'] eqn:Ek. inversion Est; subst g' l' e'; clear Est.
    destruct (k_inc_ret_inv g g (rheld (ls t)) MAX64 k pc' evs h' eq_refl HtPc HtH ltac:(lia) ltac:(intros; congruence) Ek) as [Hp Hh].
    apply Hsame; assumption.
  - (* IncCas *)
    destruct HtPc as (Hcm & Hk).
    destruct (N.eqb_spec (gen g) c) as [E|E].
    + fin_inv Est. destruct (k_inc_ret g (rheld (ls t)) (c + 1) k) as [[pc' evs] h'] eqn:Ek. inversion Est; subst g' l' e'; clear Est.
      set (g2 := set_gen g (c + 1) (inc_done_ghost g t (c + 1) k)).
      assert (Hf : frame_ok g g2) by (apply frame_gen_up; lia).
      assert (HG2 : GInvR g2) by (apply ginv_gen; [assumption|unfold MAX64 in *; lia]).
      assert (Hk2 : KcInv g2 k) by (apply (pc_frame g g2 (IncLoad k) Hf Hk)).
      destruct (k_inc_ret_inv g g2 (rheld (ls t)) (c + 1) k pc' evs h' eq_refl Hk2 HtH ltac:(cbn; lia)) as [Hp Hh]; [|exact Ek|].
      { intros init count k0 -> E1 E2 _ _. cbn [KcInv] in Hk. destruct Hk as (_ & _ & Hcs & _).
        intros i Hi Hne. cbn [g2 set_gen rcap cells rdone inc_done_ghost cellv] in *.
        destruct (nthN (rdone g) i false) eqn:Ed; [|reflexivity].
        assert (H0 : 0 < count) by (apply Hcs; [lia|exists i; auto]). lia. }
      apply Hchg; assumption.
    + destruct (N.eqb_spec (gen g) MAX64) as [E2|E2]; [|inversion Est; subst g' l' e'; apply Hsame; cbn; auto].
      fin_inv Est. destruct (k_inc_ret g (rheld (ls t)) MAX64 k) as [[pc' evs] h'] eqn:Ek. inversion Est; subst g' l' e'; clear Est.
      destruct (k_inc_ret_inv g g (rheld (ls t)) MAX64 k pc' evs h' eq_refl Hk HtH ltac:(lia) ltac:(intros; congruence) Ek) as [Hp Hh].
      apply Hsame; assumption.
  - (* LockCheck *)
    destruct (N.eqb_spec (gen g) MAX64) as [E|E]; [|inversion Est; subst g' l' e'; apply Hsame; cbn; auto].
    fin_inv Est. destruct (k_lock_ret g (rheld (ls t)) true kl) as [[pc' evs] h'] eqn:Ek. inversion Est; subst g' l' e'; clear Est.
    destruct (k_lock_ret_inv g g _ _ _ _ _ _ eq_refl Ek) as [Hp ->]. apply Hsame; assumption.
  - (* ScanStart *)
    unfold scan_start in Est. destruct (N.eqb_spec (gen g) MAX64) as [E|E].
    + fin_inv Est. destruct (k_scan_ret g (rheld (ls t)) MAX64 0 k) as [[pc' evs] h'] eqn:Ek. inversion Est; subst g' l' e'; clear Est.
      destruct (k_scan_ret_inv g g (rheld (ls t)) MAX64 0 k pc' evs h' eq_refl HtPc ltac:(lia) ltac:(intros; congruence) Ek) as [Hp ->]. apply Hsame; assumption.
    + inversion Est; subst g' l' e'; clear Est. apply Hsame; [|assumption].
      unfold scan_next. destruct (N.ltb_spec 0 (rcap g)); cbn; repeat split; auto; try lia; intros _ (i & Hi & Hic & _); lia.
  - (* ScanCell *)
    destruct HtPc as (Hn & Him & Hig & Hcs & Hks).
    inversion Est; subst g' l' e'; clear Est. apply Hsame; [|assumption].
    set (count' := if nthN (cells g) n 0 =? EMPTY then count else count + 1).
    assert (Hcs' : forall m, (forall i, i < m -> i < rcap g -> i < n + 1) -> count_seen g init m count').
    { intros m Hm Eg (i & Hi & Hic & Hne & Hd). specialize (Hm i Hi Hic). destruct (N.eq_dec i n) as [->|Hni].
      - unfold count', cellv in *. destruct (N.eqb_spec (nthN (cells g) n 0) EMPTY); [contradiction|lia].
      - assert (0 < count) by (apply Hcs; [assumption|exists i; repeat split; auto; lia]).
        unfold count'. destruct (nthN (cells g) n 0 =? EMPTY); lia. }
    unfold scan_next. fold count'. destruct (N.ltb_spec (n + 1) (rcap g)); cbn; repeat split; auto; apply Hcs'; intros; lia.
  - (* LockCas *)
    destruct HtPc as (Hle & Hnc & Hkl).
    destruct (N.eqb_spec (gen g) gn) as [E|E]; [|inversion Est; subst g' l' e'; apply Hsame; cbn; auto].
    fin_inv Est. destruct (k_lock_ret g (rheld (ls t)) true kl) as [[pc' evs] h'] eqn:Ek. inversion Est; subst g' l' e'; clear Est.
    set (g2 := set_gen g MAX64 (rdone g)).
    destruct (k_lock_ret_inv g g2 _ _ _ _ _ _ eq_refl Ek) as [Hp ->].
    apply Hchg; [apply ginv_lock; assumption| |assumption|assumption].
    destruct (N.eq_dec (gen g) MAX64) as [Em|Em].
    + unfold g2. rewrite <- Em. apply frame_gen_same.
    + apply frame_gen_up. lia.
  - (* RecLoad *)
    destruct (N.eqb_spec (nthN (cells g) n 0) EMPTY); [|destruct (N.eqb_spec (nthN (cells g) n 0) d)];
      inversion Est; subst g' l' e'; apply Hsame; auto; try (apply rec_next_inv; reflexivity).
  - (* RecCas *)
    destruct (N.eqb_spec (nthN (cells g) n 0) d); inversion Est; subst g' l' e'; clear Est.
    + apply Hchg; [apply ginv_clear; assumption|apply frame_clear; assumption|cbn; assumption|assumption].
    + apply Hsame; auto. apply rec_next_inv; reflexivity.
  - (* RecEnd *) inversion Est; subst g' l' e'. apply Hsame; cbn; auto.
Qed.

Theorem ruis_inv_reachable c dist progs cfg0 : reachable rstep (rinit c dist progs) cfg0 -> InvR cfg0.
Proof.
  apply (inv_reachable rgst rlst ev rstep InvR).
  - apply invr_init.
  - intros t c0 c' e HI Hs. eapply rstep_inv; eauto.
Qed.

(* ---------------- facts about the step function alone ---------------- *)
Ltac rcases H :=
  unfold rstep, scan_start, fin, k_inc_ret, k_scan_ret, k_lock_ret in H;
  repeat match type of H with
  | context [match ?x with _ => _ end] =>
    lazymatch x with
    | context [match _ with _ => _ end] => fail
    | _ => let E := fresh "E" in destruct x eqn:E
    end
  end.

Ltac in_cases Hin :=
  cbn [In] in Hin;
  repeat match goal with Hin : _ \/ _ |- _ => destruct Hin as [Hin|Hin] | Hin : False |- _ => destruct Hin end.

Ltac code_neq Hin :=
  injection Hin as Hin;
  unfold rc_recover, rc_is_locked, RC_OUT_OF_INDICES, rc_ok, RC_UNLOCKED, RC_LOCKED, RC_NOT_OWNED, RC_IS_LOCKED, rc_borrowed, RC_PANIC, rc, bool_code in Hin;
  repeat match type of Hin with context [match ?b with _ => _ end] => destruct b end; lia.

(* the generation counter only moves by a successful increment CAS or by the lock CAS *)
Lemma rstep_gen t g l g' l' es : rstep t g l = Some (g', l', es) ->
  gen g' = gen g \/
  (exists k, rpc_of l = IncCas (gen g) k /\ gen g' = gen g + 1) \/
  (exists kl, rpc_of l = LockCas (gen g) kl /\ gen g' = MAX64).
Proof.
  intros H. rcases H; inversion H; subst; clear H; cbn [set_gen set_cell set_pop gen]; auto.
  all: repeat match goal with E : (_ =? _) = true |- _ => apply N.eqb_eq in E end.
  all: subst.
  all: try (right; left; eexists; split; reflexivity).
  all: try (right; right; eexists; split; reflexivity).
Qed.

Lemma r_ret_ok_source t g l g' l' es n :
  rstep t g l = Some (g', l', es) -> In (ERet (rc_ok n)) es ->
  exists d, rpc_of l = IncCas (gen g) (KAcq d n) /\ gen g' = gen g + 1.
Proof.
  intros H Hin. rcases H; inversion H; subst; clear H; in_cases Hin; try discriminate; try (exfalso; code_neq Hin).
  all: injection Hin as Hin; unfold rc_ok, rc in Hin.
  all: repeat match goal with E : (_ =? _) = true |- _ => apply N.eqb_eq in E end.
  all: match goal with |- exists d, IncCas _ (KAcq ?d0 ?n0) = _ /\ _ => exists d0; assert (n0 = n) by lia; subst; split; reflexivity end.
Qed.

Lemma r_ret_ooi_source t g l g' l' es :
  rstep t g l = Some (g', l', es) -> In (ERet RC_OUT_OF_INDICES) es -> exists d, rpc_of l = AFinal d (gen g) /\ g' = g.
Proof.
  intros H Hin. rcases H; inversion H; subst; clear H; in_cases Hin; try discriminate; try (exfalso; code_neq Hin).
  all: repeat match goal with E : (_ =? _) = true |- _ => apply N.eqb_eq in E end.
  all: subst; eauto.
Qed.

(* ---------------- theorems about every reachable state ---------------- *)
Section Reach.
Variables (c dist : N) (progs : nat -> list rop) (g : rgst) (ls : nat -> rlst).
Hypothesis Hr : reachable rstep (rinit c dist progs) (g, ls).

(* exclusivity comes from the cell CAS: a cell is non-empty exactly while the thread recorded at
   its populating CAS holds it *)
Theorem ruis_cell_holder i : i < rcap g -> (cellv g i = EMPTY <-> nthN (rholder g) i None = None).
Proof. destruct (ruis_inv_reachable _ _ _ _ Hr) as [(_ & _ & _ & _ & _ & H & _) _]. apply H. Qed.

Theorem ruis_held_in_range t i d : In (i, d) (rheld (ls t)) -> i < rcap g.
Proof.
  destruct (ruis_inv_reachable _ _ _ _ Hr) as [_ HL]. destruct (HL t) as [_ Hh]. cbn [fst snd] in *.
  rewrite Forall_forall in Hh. intros Hin. apply (Hh (i, d) Hin).
Qed.

(* once the generation counter is MAX it stays MAX and no acquire returns an index *)
Theorem ruis_locked_forever t cfg' es : gen g = MAX64 -> step1 rstep t (g, ls) = Some (cfg', es) ->
  gen (fst cfg') = MAX64 /\ forall n, ~ In (ERet (rc_ok n)) es.
Proof.
  intros Hm Hs. destruct (ruis_inv_reachable _ _ _ _ Hr) as [HG HL]. unfold step1 in Hs. cbn [fst snd] in *.
  destruct (rstep t g (ls t)) as [[[g' l'] e']|] eqn:Est; [|discriminate]. inversion Hs; subst cfg' es; clear Hs. cbn [fst].
  destruct (HL t) as [Hp _].
  assert (Hnc : forall k, rpc_of (ls t) <> IncCas (gen g) k).
  { intros k E. rewrite E in Hp. cbn in Hp. destruct Hp as [Hp _]. congruence. }
  split.
  - destruct (rstep_gen _ _ _ _ _ _ Est) as [E|[(k & E & _)|(kl & _ & E)]]; [congruence|exfalso; eapply Hnc; eauto|assumption].
  - intros n Hin. destruct (r_ret_ok_source _ _ _ _ _ _ _ Est Hin) as (d & E & _). eapply Hnc; eauto.
Qed.

(* acquire answers OutOfIndices only if its scan, bracketed by an unchanged generation counter,
   found every cell taken: at the instant of the validating CAS every cell is owned or was
   cleared by a release/recover that no generation increment has followed yet *)
Theorem ruis_out_of_indices_bracket t cfg' es : step1 rstep t (g, ls) = Some (cfg', es) -> In (ERet RC_OUT_OF_INDICES) es ->
  forall i, i < rcap g -> cellv g i <> EMPTY \/ nthN (cleared_at g) i None = Some (gen g).
Proof.
  intros Hs Hin i Hi. destruct (ruis_inv_reachable _ _ _ _ Hr) as [HG HL]. unfold step1 in Hs. cbn [fst snd] in *.
  destruct (rstep t g (ls t)) as [[[g' l'] e']|] eqn:Est; [|discriminate]. inversion Hs; subst cfg' es; clear Hs.
  destruct (r_ret_ooi_source _ _ _ _ _ _ Est Hin) as (d & E & _). destruct (HL t) as [Hp _]. rewrite E in Hp. cbn in Hp.
  destruct Hp as (_ & _ & _ & Hss). destruct (N.eq_dec (cellv g i) EMPTY) as [He|He]; [right|left; assumption].
  apply Hss; auto.
Qed.

(* the set gets locked only by lock()'s CAS, and only when a scan bracketed by an unchanged
   generation counter counted zero: no cell is held by a completed acquire at that instant
   (a populated cell belongs to an acquire still in flight, which will answer IsLocked) *)
Theorem ruis_lock_only_without_completed_owner t cfg' es :
  gen g <> MAX64 -> gen g + 1 <> MAX64 -> step1 rstep t (g, ls) = Some (cfg', es) -> gen (fst cfg') = MAX64 ->
  (exists kl, rpc_of (ls t) = LockCas (gen g) kl) /\ no_completed_owner g.
Proof.
  intros Hn1 Hn2 Hs Hm. destruct (ruis_inv_reachable _ _ _ _ Hr) as [HG HL]. unfold step1 in Hs. cbn [fst snd] in *.
  destruct (rstep t g (ls t)) as [[[g' l'] e']|] eqn:Est; [|discriminate]. inversion Hs; subst cfg' es; clear Hs. cbn [fst] in Hm.
  destruct (rstep_gen _ _ _ _ _ _ Est) as [E|[(k & _ & E)|(kl & E & _)]]; [congruence|congruence|].
  split; [eauto|]. destruct (HL t) as [Hp _]. rewrite E in Hp. cbn in Hp. destruct Hp as (_ & Hp & _). auto.
Qed.
End Reach.

(* an index is handed to a thread only by its own CAS on an empty cell *)
Theorem ruis_acquire_cas_on_empty t g l g' l' es i t' :
  rstep t g l = Some (g', l', es) -> i < lenN (rholder g) ->
  nthN (rholder g') i None = Some t' -> nthN (rholder g) i None <> Some t' ->
  t' = t /\ cellv g i = EMPTY /\ exists d cur, rpc_of l = AScan d cur i.
Proof.
  intros H Hi Hh' Hh. unfold cellv.
  rcases H; try discriminate; injection H as Hg Hl He; subst g' l' es; cbn [set_gen set_cell set_pop rholder cells] in *; try contradiction;
    match type of Hh' with
    | nthN (updN _ ?n _) _ None = _ =>
      destruct (N.eq_dec n i) as [->|Hne]; [rewrite nthN_updN_same in Hh' by assumption|rewrite nthN_updN_other in Hh' by assumption; contradiction]
    end; try discriminate.
  injection Hh' as <-. match goal with E : (_ =? _) = true |- _ => apply N.eqb_eq in E end.
  split; [reflexivity|]. split; [assumption|]. eauto.
Qed.

(* recover(d) clears a cell only by a CAS that found d in it *)
Theorem ruis_recover_clears_only_owner t g l g' l' es n d m mask :
  rpc_of l = RecCas n d m mask -> rstep t g l = Some (g', l', es) ->
  (cellv g n = d /\ cells g' = updN (cells g) n EMPTY /\ recovered g' = d :: recovered g /\
   rpc_of l' = IncLoad (KRec n d m (mask + 2 ^ n))) \/
  (cellv g n <> d /\ g' = g /\ rpc_of l' = rec_next g (n + 1) d m mask).
Proof.
  intros E H. unfold rstep in H. rewrite E in H. unfold cellv.
  destruct (N.eqb_spec (nthN (cells g) n 0) d) as [Ed|Ed]; inversion H; subst; clear H; [left|right]; cbn; auto.
Qed.
