(* C09: thread-level ownership and recover completeness of the RobustUniqueIndexSet step model,
   on top of the cell-level invariant InvR (all schedules, any number of threads, any capacity). *)
From V Require Import model.Base model.Conc model.Events model.UniqueIndexSet model.RobustIndexSet proofs.ListLemmas proofs.RobustIndexSetProofs.
From Coq Require Import ZifyBool ZifyNat ZifyN Permutation.
Open Scope N_scope.

(* ---------------- what a thread holds ---------------- *)
(* the (index, owner) pair in flight: inside acquire after its cell CAS, inside release before its cell CAS *)
Definition inflight_pc (pc : rpc) : list (N * N) :=
  match pc with
  | IncLoad (KAcq d n) | IncCas _ (KAcq d n) => [(n, d)]
  | RelCell i d _ => [(i, d)]
  | _ => []
  end.
Definition relflight_pc (pc : rpc) : list (N * N) := match pc with RelCell i d _ => [(i, d)] | _ => [] end.
Definition rowned (l : rlst) : list (N * N) := rheld l ++ inflight_pc (rpc_of l).
(* those whose acquire has returned Ok *)
Definition rcompleted (l : rlst) : list (N * N) := rheld l ++ relflight_pc (rpc_of l).

Definition unrecb (g : rgst) (d : N) : bool := negb (existsb (N.eqb d) (recovered g)).
Lemma unrecb_spec g d : unrecb g d = true <-> ~ In d (recovered g).
Proof.
  unfold unrecb. rewrite negb_true_iff. split.
  - intros H Hin. assert (E : existsb (N.eqb d) (recovered g) = true); [|congruence].
    apply existsb_exists. exists d. split; [assumption|apply N.eqb_refl].
  - intros H. destruct (existsb (N.eqb d) (recovered g)) eqn:E; [|reflexivity].
    apply existsb_exists in E. destruct E as (x & Hx & Ex). apply N.eqb_eq in Ex. subst x. contradiction.
Qed.
Lemma in_recovered_dec g d : {In d (recovered g)} + {~ In d (recovered g)}.
Proof. apply in_dec. apply N.eq_dec. Qed.

(* number of entries for index i whose owner has not been recovered *)
Definition ucount (g : rgst) (i : N) (es : list (N * N)) : nat :=
  length (filter (fun e => N.eqb (fst e) i && unrecb g (snd e)) es).

Lemma ucount_app g i a b : ucount g i (a ++ b) = (ucount g i a + ucount g i b)%nat.
Proof. unfold ucount. now rewrite filter_app, app_length. Qed.
Lemma ucount_perm g i a b : Permutation a b -> ucount g i a = ucount g i b.
Proof.
  unfold ucount. induction 1; cbn [filter]; auto.
  - destruct (_ && _); cbn [length]; congruence.
  - destruct (_ && _); destruct (_ && _); cbn [length]; reflexivity.
  - congruence.
Qed.
Lemma ucount_single g i j d : ucount g i [(j, d)] = if N.eqb j i && unrecb g d then 1%nat else 0%nat.
Proof. unfold ucount. cbn. destruct (_ && _); reflexivity. Qed.
Lemma ucount_zero g i es : (forall d, In (i, d) es -> In d (recovered g)) -> ucount g i es = 0%nat.
Proof.
  unfold ucount. induction es as [|[j d] r IH]; intros H; cbn [filter]; [reflexivity|].
  cbn [fst snd]. destruct (N.eqb j i) eqn:Ej; cbn [andb].
  - apply N.eqb_eq in Ej. subst j. destruct (unrecb g d) eqn:E.
    + exfalso. apply unrecb_spec in E. apply E. apply H. left. reflexivity.
    + apply IH. intros d' Hd'. apply H. right. assumption.
  - apply IH. intros d' Hd'. apply H. right. assumption.
Qed.
Lemma ucount_pos g i es d : In (i, d) es -> ~ In d (recovered g) -> (1 <= ucount g i es)%nat.
Proof.
  unfold ucount. intros Hin Hn.
  assert (H : In (i, d) (filter (fun e => N.eqb (fst e) i && unrecb g (snd e)) es)).
  { apply filter_In. split; [assumption|]. cbn. rewrite N.eqb_refl. apply unrecb_spec in Hn. now rewrite Hn. }
  destruct (filter _ es); [destruct H|cbn; lia].
Qed.
(* two different positions with the same index and both unrecovered count twice *)
Lemma ucount_two g i a b d d' : ~ In d (recovered g) -> ~ In d' (recovered g) -> In (i, d') (a ++ b) ->
  (2 <= ucount g i (a ++ (i, d) :: b))%nat.
Proof.
  intros Hd Hd' Hin. rewrite ucount_app. change ((i, d) :: b) with ([(i, d)] ++ b). rewrite ucount_app, ucount_single.
  rewrite N.eqb_refl. apply unrecb_spec in Hd. rewrite Hd. cbn [andb].
  apply in_app_or in Hin. destruct Hin as [H|H]; pose proof (ucount_pos g i _ d' H Hd'); lia.
Qed.
Lemma ucount_mono_rec g g' i es : (forall d, ~ In d (recovered g') -> ~ In d (recovered g)) ->
  (ucount g' i es <= ucount g i es)%nat.
Proof.
  intros H. unfold ucount. induction es as [|[j d] r IH]; cbn [filter]; [lia|].
  cbn [fst snd]. destruct (N.eqb j i); cbn [andb]; [|exact IH].
  destruct (unrecb g' d) eqn:E'.
  - apply unrecb_spec in E'. apply H in E'. apply unrecb_spec in E'. rewrite E'. cbn [length]. lia.
  - destruct (unrecb g d); cbn [length]; lia.
Qed.
Lemma ucount_incl_prefix g i a b : (ucount g i a <= ucount g i (a ++ b))%nat.
Proof. rewrite ucount_app. lia. Qed.

(* ---------------- the thread-level invariant ---------------- *)
Definition HeldInv (g : rgst) (t : nat) (own comp : list (N * N)) : Prop :=
  (forall i d, In (i, d) own -> ~ In d (recovered g) -> cellv g i = d /\ nthN (rholder g) i None = Some t) /\
  (forall i d, In (i, d) comp -> ~ In d (recovered g) -> nthN (rdone g) i false = true) /\
  (forall i, (ucount g i own <= 1)%nat).

(* recover's scan: a cell below the scan position that holds d now was populated after the
   recover call started *)
Definition rec_seen (g : rgst) (s n d : N) : Prop :=
  d <> EMPTY -> forall i, i < n -> i < rcap g -> cellv g i = d -> s < nthN (pop_stamp g) i 0.

Definition kl_pos (kl : klock) : option (N * N) := match kl with KLRec n d _ _ => Some (n + 1, d) | KLRel => None end.
Definition ks_pos (k : kscan) : option (N * N) := match k with KLock kl => kl_pos kl | KBorrowed => None end.
Definition kc_pos (k : kinc) : option (N * N) :=
  match k with KRec n d _ _ => Some (n + 1, d) | KScan _ _ k => ks_pos k | _ => None end.
Definition rec_pos (g : rgst) (pc : rpc) : option (N * N) :=
  match pc with
  | RecDist d _ => Some (0, d)
  | RecLoad n d _ _ | RecCas n d _ _ => Some (n, d)
  | RecEnd d _ => Some (rcap g, d)
  | IncLoad k | IncCas _ k => kc_pos k
  | LockCheck kl | LockCas _ kl => kl_pos kl
  | ScanDist k | ScanStart k | ScanCell _ _ _ k => ks_pos k
  | _ => None
  end.
Definition PosInv (g : rgst) (s : N) (o : option (N * N)) : Prop :=
  match o with Some (n, d) => s <= acqs g /\ rec_seen g s n d | None => True end.

Definition LInvH (g : rgst) (t : nat) (l : rlst) : Prop :=
  HeldInv g t (rowned l) (rcompleted l) /\ PosInv g (rstamp l) (rec_pos g (rpc_of l)).

Definition InvH (c : cfg rgst rlst) : Prop :=
  lenN (pop_stamp (fst c)) = rcap (fst c) /\ forall t, LInvH (fst c) t (snd c t).

Lemma invh_init c dist progs : InvH (rinit c dist progs).
Proof.
  split.
  - cbn. unfold lenN. rewrite repeat_length. lia.
  - intros t. split; [|exact I]. unfold HeldInv, rowned, rcompleted, inflight_pc, relflight_pc. cbn.
    split; [intros i d []|]. split; [intros i d []|]. intros i. unfold ucount. cbn. lia.
Qed.

(* ---------------- HeldInv under list changes and under state changes ---------------- *)
Lemma heldinv_sub g t own comp own' comp' :
  HeldInv g t own comp -> incl own' own -> incl comp' comp -> (forall i, (ucount g i own' <= ucount g i own)%nat) ->
  HeldInv g t own' comp'.
Proof.
  intros (HA & HB & HC) Ho Hc Hu. split; [|split].
  - intros i d Hin Hn. apply HA; auto.
  - intros i d Hin Hn. apply (HB i d); auto.
  - intros i. specialize (Hu i). specialize (HC i). lia.
Qed.

Definition untouched (g g' : rgst) (t : nat) (own : list (N * N)) : Prop :=
  forall i d, In (i, d) own -> ~ In d (recovered g') -> cellv g i = d -> nthN (rholder g) i None = Some t ->
    cellv g' i = d /\ nthN (rholder g') i None = Some t /\ (nthN (rdone g) i false = true -> nthN (rdone g') i false = true).

Lemma heldinv_frame g g' t own comp :
  HeldInv g t own comp -> incl comp own -> (forall d, ~ In d (recovered g') -> ~ In d (recovered g)) ->
  untouched g g' t own -> HeldInv g' t own comp.
Proof.
  intros (HA & HB & HC) Hco Hrec Hu. split; [|split].
  - intros i d Hin Hn. destruct (HA i d Hin (Hrec d Hn)) as (H1 & H2). destruct (Hu i d Hin Hn H1 H2) as (U1 & U2 & _). auto.
  - intros i d Hin Hn. pose proof (Hco _ Hin) as Hin'. destruct (HA i d Hin' (Hrec d Hn)) as (H1 & H2).
    destruct (Hu i d Hin' Hn H1 H2) as (_ & _ & U3). apply U3. apply (HB i d); auto.
  - intros i. pose proof (ucount_mono_rec g g' i own Hrec). specialize (HC i). lia.
Qed.

Lemma heldinv_add g t own comp n d :
  HeldInv g t own comp -> cellv g n = d -> nthN (rholder g) n None = Some t ->
  (forall d', In (n, d') own -> In d' (recovered g)) -> HeldInv g t (own ++ [(n, d)]) comp.
Proof.
  intros (HA & HB & HC) Hc Hh Hz. split; [|split].
  - intros i d0 Hin Hn. apply in_app_or in Hin. destruct Hin as [H|[H|[]]]; [apply HA; auto|]. inversion H; subst. auto.
  - exact HB.
  - intros i. rewrite ucount_app, ucount_single. destruct (N.eqb n i) eqn:En; cbn [andb].
    + apply N.eqb_eq in En. subst i. rewrite (ucount_zero g n own Hz). destruct (unrecb g d); lia.
    + specialize (HC i). lia.
Qed.

Lemma heldinv_complete g t own comp n d :
  HeldInv g t own comp -> (~ In d (recovered g) -> nthN (rdone g) n false = true) -> HeldInv g t own (comp ++ [(n, d)]).
Proof.
  intros (HA & HB & HC) Hd. split; [exact HA|]. split; [|exact HC].
  intros i d' Hin Hn. apply in_app_or in Hin. destruct Hin as [H|[H|[]]]; [apply (HB i d'); auto|]. inversion H; subst. auto.
Qed.

(* ---------------- the kinds of global change ---------------- *)
Definition chg_ok (g g' : rgst) : Prop :=
  rcap g' = rcap g /\ acqs g <= acqs g' /\ lenN (pop_stamp g') = lenN (pop_stamp g) /\
  (forall d, ~ In d (recovered g') -> ~ In d (recovered g)) /\
  (forall i d, d <> EMPTY -> i < rcap g -> cellv g' i = d ->
     (cellv g i = d /\ nthN (pop_stamp g') i 0 = nthN (pop_stamp g) i 0) \/ acqs g < nthN (pop_stamp g') i 0).

Lemma posinv_frame g g' s o : chg_ok g g' -> PosInv g s o -> PosInv g' s o.
Proof.
  intros (Hc & Ha & _ & _ & Hs) H. destruct o as [[n d]|]; [|exact I]. destruct H as (H1 & H2). split; [lia|].
  intros Hd i Hi Hic He. rewrite Hc in Hic. destruct (Hs i d Hd Hic He) as [[He0 Hp]|Hp].
  - rewrite Hp. apply H2; auto.
  - lia.
Qed.

Lemma chg_refl g : chg_ok g g.
Proof. unfold chg_ok. repeat split; auto; try lia. Qed.

Lemma chg_gen g v dn : chg_ok g (set_gen g v dn).
Proof. unfold chg_ok, cellv. cbn [set_gen rcap acqs pop_stamp recovered cells]. repeat split; auto; try lia. Qed.

Lemma untouched_gen g v dn t own :
  (forall i, nthN (rdone g) i false = true -> nthN dn i false = true) -> untouched g (set_gen g v dn) t own.
Proof. intros Hm i d Hin Hn Hc Hh. unfold cellv in *. cbn [set_gen cells rholder rdone]. auto. Qed.

Lemma chg_populate g n d ho ca : lenN (pop_stamp g) = rcap g -> lenN (cells g) = rcap g -> n < rcap g ->
  chg_ok g (set_pop (set_cell g n d ho ca (recovered g)) n).
Proof.
  intros Hl Hlc Hn. unfold chg_ok, cellv. cbn [set_pop set_cell rcap acqs pop_stamp recovered cells].
  rewrite lenN_updN. repeat split; auto; try lia.
  intros i d0 Hd Hi He. destruct (N.eq_dec n i) as [->|Hne].
  - right. rewrite nthN_updN_same by lia. lia.
  - left. rewrite nthN_updN_other in He by assumption. split; [assumption|]. apply nthN_updN_other. assumption.
Qed.

Lemma untouched_populate g n d t0 ca t own : lenN (rholder g) = rcap g ->
  nthN (rholder g) n None = None -> untouched g (set_pop (set_cell g n d (Some t0) ca (recovered g)) n) t own.
Proof.
  intros Hl Hn i d0 Hin Hnr Hc Hh. unfold cellv in *. cbn [set_pop set_cell cells rholder rdone].
  destruct (N.eq_dec n i) as [->|Hne]; [congruence|]. rewrite !nthN_updN_other by assumption. auto.
Qed.

Lemma chg_clear g n ho ca rc : lenN (cells g) = rcap g -> n < rcap g -> (forall d, ~ In d rc -> ~ In d (recovered g)) ->
  chg_ok g (set_cell g n EMPTY ho ca rc).
Proof.
  intros Hlc Hn Hr. unfold chg_ok, cellv. cbn [set_cell rcap acqs pop_stamp recovered cells].
  repeat split; auto; try lia.
  intros i d0 Hd Hi He. destruct (N.eq_dec n i) as [->|Hne].
  - rewrite nthN_updN_same in He by lia. congruence.
  - left. rewrite nthN_updN_other in He by assumption. auto.
Qed.

(* a clear of cell n leaves untouched every entry list that has no unrecovered entry for n *)
Lemma untouched_clear g n ho ca rc t own :
  (forall d, In (n, d) own -> ~ In d rc -> cellv g n = d -> nthN (rholder g) n None = Some t -> False) ->
  untouched g (set_cell g n EMPTY ho ca rc) t own.
Proof.
  intros Hz i d0 Hin Hnr Hc Hh. unfold cellv in *. cbn [set_cell cells rholder rdone recovered] in *.
  destruct (N.eq_dec n i) as [->|Hne]; [exfalso; eapply Hz; eauto|]. rewrite !nthN_updN_other by assumption. auto.
Qed.

(* ---------------- continuations and the scan position ---------------- *)
Lemma rec_seen_weaken g s n n' d : rec_seen g s n d -> (forall i, i < n' -> i < rcap g -> i < n) -> rec_seen g s n' d.
Proof. intros H Hn Hd i Hi Hic He. apply H; auto. Qed.

Lemma rec_seen_next g s n d : rec_seen g s n d -> (d <> EMPTY -> cellv g n <> d) -> rec_seen g s (n + 1) d.
Proof.
  intros H Hne Hd i Hi Hic He. destruct (N.eq_dec i n) as [->|Hni]; [exfalso; apply (Hne Hd); assumption|].
  apply H; auto. lia.
Qed.

Lemma rec_next_pos g g2 s n d m mask : rcap g2 = rcap g -> s <= acqs g2 -> rec_seen g2 s n d ->
  PosInv g2 s (rec_pos g2 (rec_next g n d m mask)).
Proof.
  intros Hc Hs H. unfold rec_next. destruct (N.ltb_spec n (rcap g)); cbn [rec_pos PosInv]; split; auto.
  eapply rec_seen_weaken; eauto. intros i Hi Hic. lia.
Qed.

Definition quiet_pc (pc : rpc) : Prop := inflight_pc pc = [] /\ relflight_pc pc = [].

Lemma rec_next_quiet g n d m mask : quiet_pc (rec_next g n d m mask).
Proof. unfold rec_next. destruct (N.ltb n (rcap g)); split; reflexivity. Qed.

Lemma k_lock_ret_pos g g2 s h b kl pc es h' : rcap g2 = rcap g -> PosInv g2 s (kl_pos kl) ->
  k_lock_ret g h b kl = (pc, es, h') -> PosInv g2 s (rec_pos g2 pc) /\ h' = h /\ quiet_pc pc.
Proof.
  intros Hc Hp. unfold k_lock_ret. destruct kl as [|n d m mask]; intros E; inversion E; subst.
  - repeat split; exact I.
  - cbn [kl_pos PosInv] in Hp. destruct Hp as [H1 H2]. split; [apply rec_next_pos; assumption|]. split; [reflexivity|apply rec_next_quiet].
Qed.

Lemma k_scan_ret_pos g g2 s h gn count k pc es h' : rcap g2 = rcap g -> PosInv g2 s (ks_pos k) ->
  k_scan_ret g h gn count k = (pc, es, h') -> PosInv g2 s (rec_pos g2 pc) /\ h' = h /\ quiet_pc pc.
Proof.
  intros Hc Hp. unfold k_scan_ret. destruct k as [|kl].
  - intros E; inversion E; subst. repeat split; exact I.
  - destruct (N.eqb count 0).
    + intros E; inversion E; subst. repeat split; auto.
    + apply k_lock_ret_pos; assumption.
Qed.

Lemma k_inc_ret_pos g g2 s h r k pc es h' : rcap g2 = rcap g -> PosInv g2 s (kc_pos k) ->
  (forall d n, k <> KAcq d n) ->
  k_inc_ret g h r k = (pc, es, h') -> PosInv g2 s (rec_pos g2 pc) /\ h' = h /\ quiet_pc pc.
Proof.
  intros Hc Hp Hk. unfold k_inc_ret. destruct k as [d n|i m|n d m mask|init count k0].
  - exfalso. eapply Hk; reflexivity.
  - destruct m; intros E; inversion E; subst; repeat split; exact I.
  - cbn [kc_pos PosInv] in Hp. destruct Hp as [H1 H2].
    destruct (N.eqb r MAX64); [intros E; inversion E; subst; repeat split; exact I|].
    destruct m; intros E; inversion E; subst.
    + split; [apply rec_next_pos; assumption|]. split; [reflexivity|apply rec_next_quiet].
    + split; [cbn; split; assumption|]. repeat split; reflexivity.
  - cbn [kc_pos] in Hp. destruct (N.eqb (init + 1) r).
    + apply k_scan_ret_pos; assumption.
    + intros E; inversion E; subst. repeat split; auto.
Qed.

Lemma rcompleted_incl l : incl (rcompleted l) (rowned l).
Proof.
  unfold rcompleted, rowned. intros e He. apply in_app_or in He. apply in_or_app. destruct He as [H|H]; [left; assumption|right].
  destruct (rpc_of l); cbn in *; try contradiction; assumption.
Qed.

Lemma untouched_refl g t own : untouched g g t own.
Proof. intros i d _ _ H1 H2. auto. Qed.

Lemma inflight_inc c k : inflight_pc (IncCas c k) = inflight_pc (IncLoad k) /\ relflight_pc (IncCas c k) = relflight_pc (IncLoad k).
Proof. destruct k; split; reflexivity. Qed.

Lemma acq_next_quiet g d cur n : quiet_pc (acq_next g d cur n) /\ rec_pos g (acq_next g d cur n) = None.
Proof. unfold acq_next. destruct (N.ltb n (rcap g)); repeat split; reflexivity. Qed.

Lemma scan_next_quiet g g2 init n count k : quiet_pc (scan_next g init n count k) /\ rec_pos g2 (scan_next g init n count k) = ks_pos k.
Proof. unfold scan_next. destruct (N.ltb n (rcap g)); repeat split; reflexivity. Qed.

Lemma rec_pos_cap g g2 pc : rcap g2 = rcap g -> rec_pos g2 pc = rec_pos g pc.
Proof. intros H. destruct pc; cbn; rewrite ?H; reflexivity. Qed.

Lemma app_nil_incl {A} (a : list A) b : incl (a ++ []) (a ++ b).
Proof. intros x Hx. rewrite app_nil_r in Hx. apply in_or_app. left. assumption. Qed.

Lemma kacq_dec k : (exists d n, k = KAcq d n) \/ (forall d n, k <> KAcq d n).
Proof. destruct k; [left; eauto|right; discriminate|right; discriminate|right; discriminate]. Qed.

Lemma nthN_updN_true l n i : nthN l i false = true -> nthN (updN l n true) i false = true.
Proof.
  intros H. destruct (N.eq_dec n i) as [->|Hne]; [|rewrite nthN_updN_other by assumption; exact H].
  apply nthN_updN_same. unfold nthN, lenN in *.
  destruct (Nat.lt_ge_cases (N.to_nat i) (length l)) as [Hl|Hl]; [lia|]. rewrite nth_overflow in H by assumption. discriminate.
Qed.

Lemma inc_done_mono g t r k i : nthN (rdone g) i false = true -> nthN (inc_done_ghost g t r k) i false = true.
Proof.
  intros H. unfold inc_done_ghost. destruct k; auto. destruct (N.eqb r MAX64); auto.
  destruct (nthN (rholder g) n None); auto. destruct (Nat.eqb t n0); auto. apply nthN_updN_true. exact H.
Qed.

Theorem rstep_invh t c c' e : InvR c -> InvH c -> step1 rstep t c = Some (c', e) -> InvH c'.
Proof.
  destruct c as [g ls]. intros HR HH Hs. pose proof HR as [HG HLR]. pose proof HH as [Hlen HL].
  unfold step1 in Hs. cbn [fst snd] in *.
  destruct (rstep t g (ls t)) as [[[g' l'] e']|] eqn:Est; [|discriminate].
  inversion Hs; subst c' e; clear Hs.
  pose proof (HL t) as (HtHeld & HtPos). pose proof (HLR t) as (HtPc & HtH).
  pose proof HG as (Hgm & Hl1 & Hl2 & Hl3 & Hl4 & Hch & Hdn).
  set (l := ls t) in *.
  (* the generic way to conclude *)
  assert (Hgeneral : forall g2 p pc' h' s',
            chg_ok g g2 -> (forall t', t' <> t -> untouched g g2 t' (rowned (ls t'))) ->
            untouched g g2 t (h' ++ inflight_pc pc') ->
            incl (h' ++ inflight_pc pc') (rowned l) -> incl (h' ++ relflight_pc pc') (rcompleted l) ->
            (forall i, (ucount g i (h' ++ inflight_pc pc') <= ucount g i (rowned l))%nat) ->
            PosInv g2 s' (rec_pos g2 pc') ->
            InvH (g2, upd_l ls t {| rprog := p; rpc_of := pc'; rheld := h'; rstamp := s' |})).
  { intros g2 p pc' h' s' Hchg Hoth Hown Hi1 Hi2 Hu Hp. pose proof Hchg as (Hc & _ & Hlp & Hrec & _).
    split; [cbn [fst]; lia|]. intros t'. cbn [fst snd].
    destruct (Nat.eq_dec t' t) as [->|Hne].
    - rewrite upd_l_same. split; [|exact Hp]. unfold rowned, rcompleted. cbn [rheld rpc_of].
      assert (H1 : HeldInv g t (h' ++ inflight_pc pc') (h' ++ relflight_pc pc')) by (eapply heldinv_sub; eauto).
      apply (heldinv_frame g g2 t _ _ H1); auto.
      intros x Hx. apply in_app_or in Hx. apply in_or_app. destruct Hx as [Hx|Hx]; [left; assumption|right].
      destruct pc'; cbn in *; try contradiction; assumption.
    - rewrite upd_l_other by assumption. destruct (HL t') as (Hh' & Hp'). split.
      + apply (heldinv_frame g g2 t' _ _ Hh' (rcompleted_incl _) Hrec (Hoth t' Hne)).
      + rewrite (rec_pos_cap g g2 _ Hc). eapply posinv_frame; eauto. }
  (* same global state, same lists *)
  assert (Hquiet : forall p pc', inflight_pc pc' = inflight_pc (rpc_of l) -> relflight_pc pc' = relflight_pc (rpc_of l) ->
            PosInv g (rstamp l) (rec_pos g pc') -> InvH (g, upd_l ls t (set_r l p pc' (rheld l)))).
  { intros p pc' E1 E2 Hp. unfold set_r. apply Hgeneral; auto using chg_refl, untouched_refl.
    - rewrite E1. apply incl_refl.
    - rewrite E2. apply incl_refl.
    - intros i. rewrite E1. unfold rowned. lia. }
  (* same global state, the in-flight pair dropped *)
  assert (Hdrop : forall p pc', quiet_pc pc' -> PosInv g (rstamp l) (rec_pos g pc') -> InvH (g, upd_l ls t (set_r l p pc' (rheld l)))).
  { intros p pc' [E1 E2] Hp. unfold set_r. apply Hgeneral; auto using chg_refl, untouched_refl; rewrite ?E1, ?E2.
    - apply app_nil_incl.
    - apply app_nil_incl.
    - intros i. unfold rowned. rewrite !ucount_app. cbn. lia. }
  (* increment_generation_counter answered MAX *)
  assert (Hmaxret : forall k pc' evs h', PosInv g (rstamp l) (kc_pos k) ->
            k_inc_ret g (rheld l) MAX64 k = (pc', evs, h') -> InvH (g, upd_l ls t (set_r l (rprog l) pc' h'))).
  { intros k pc' evs h' Hp Ek. destruct (kacq_dec k) as [(d & n & ->)|Hk].
    - unfold k_inc_ret in Ek. rewrite N.eqb_refl in Ek. inversion Ek; subst. apply Hdrop; [split; reflexivity|exact I].
    - destruct (k_inc_ret_pos g g (rstamp l) _ _ _ _ _ _ eq_refl Hp Hk Ek) as (Hp' & -> & Hq). apply Hdrop; auto. }
  unfold rstep in Est. fold l in Est.
  destruct (rpc_of l) as [|d|i d m|k|d m|d cur n|d cur|k|c k|kl|k|init n count k|gn kl|n d m mask|n d m mask|dd mask] eqn:Epc;
    cbn [PcInvR] in HtPc; cbn [rec_pos] in HtPos.
  - (* RIdle *)
    destruct (rprog l) as [|o p] eqn:Eprog; [discriminate|].
    destruct o as [d|m front| | |d m].
    + destruct (N.eqb d EMPTY); inversion Est; subst g' l' e'; apply Hquiet; auto; exact I.
    + destruct (if front then rheld l else rev (rheld l)) as [|[i d] r] eqn:Eh.
      * inversion Est; subst g' l' e'. apply Hquiet; auto; exact I.
      * inversion Est; subst g' l' e'; clear Est. unfold set_r.
        assert (Hperm : Permutation (rheld l) ((if front then tl (rheld l) else removelast (rheld l)) ++ [(i, d)])).
        { destruct front.
          - rewrite Eh. cbn [tl]. apply Permutation_cons_append.
          - assert (E : rheld l = rev r ++ [(i, d)]) by (rewrite <- (rev_involutive (rheld l)), Eh; reflexivity).
            rewrite E, removelast_last. apply Permutation_refl. }
        apply Hgeneral; auto using chg_refl, untouched_refl; cbn [inflight_pc relflight_pc]; unfold rowned, rcompleted; rewrite Epc; cbn [inflight_pc relflight_pc]; rewrite ?app_nil_r.
        -- intros x Hx. eapply Permutation_in; [apply Permutation_sym; exact Hperm|exact Hx].
        -- intros x Hx. eapply Permutation_in; [apply Permutation_sym; exact Hperm|exact Hx].
        -- intros j. rewrite (ucount_perm g j _ _ Hperm). lia.
    + inversion Est; subst g' l' e'. apply Hquiet; auto; exact I.
    + inversion Est; subst g' l' e'. apply Hquiet; auto; exact I.
    + destruct (N.eqb (gen g) MAX64); inversion Est; subst g' l' e'; [apply Hquiet; auto; exact I|].
      apply Hgeneral; auto using chg_refl, untouched_refl; cbn [inflight_pc relflight_pc rec_pos PosInv]; unfold rowned, rcompleted; rewrite ?Epc; cbn [inflight_pc relflight_pc].
      * apply incl_refl.
      * apply incl_refl.
      * intros j. lia.
      * split; [lia|]. intros _ j Hj. lia.
  - (* AStart *)
    destruct (N.eqb (gen g) MAX64); inversion Est; subst g' l' e'; [apply Hquiet; auto; exact I|].
    destruct (acq_next_quiet g d (gen g) 0) as [[Q1 Q2] Q3]. apply Hquiet; auto. rewrite Q3. exact I.
  - (* RelCell *)
    destruct (N.eqb_spec (nthN (cells g) i 0) d) as [E|E]; inversion Est; subst g' l' e'; clear Est;
      [|apply Hdrop; [split; reflexivity|exact I]].
    assert (Hin : In (i, d) (rowned l)) by (unfold rowned; rewrite Epc; apply in_or_app; right; left; reflexivity).
    destruct HtHeld as (HA & HB & HC).
    unfold set_r. apply Hgeneral.
    + apply chg_clear; auto.
    + intros t' Hne. apply untouched_clear. intros d' Hin' Hn' Hc' Hh'.
      destruct (in_recovered_dec g d) as [Hr|Hr].
      * apply Hn'. unfold cellv in Hc'. rewrite E in Hc'. subst d'. exact Hr.
      * destruct (HA i d Hin Hr) as (_ & Hh). congruence.
    + cbn [inflight_pc]. rewrite app_nil_r. apply untouched_clear. intros d' Hin' Hn' Hc' Hh'.
      destruct (in_recovered_dec g d) as [Hr|Hr].
      * apply Hn'. unfold cellv in Hc'. rewrite E in Hc'. subst d'. exact Hr.
      * specialize (HC i). unfold rowned in HC. rewrite Epc in HC. cbn [inflight_pc] in HC.
        assert (Hin'' : In (i, d') (rheld l ++ [])) by (rewrite app_nil_r; exact Hin').
        pose proof (ucount_two g i (rheld l) [] d d' Hr Hn' Hin''). lia.
    + cbn [inflight_pc]. apply app_nil_incl.
    + cbn [relflight_pc]. apply app_nil_incl.
    + intros j. cbn [inflight_pc]. unfold rowned. rewrite !ucount_app. cbn. lia.
    + exact I.
  - (* ScanDist *) inversion Est; subst g' l' e'. apply Hdrop; [split; reflexivity|exact HtPos].
  - (* RecDist *)
    inversion Est; subst g' l' e'. apply Hdrop; [apply rec_next_quiet|].
    destruct HtPos as [H1 H2]. apply rec_next_pos; auto.
  - (* AScan *)
    destruct HtPc as (Hd & Hn & _).
    destruct (N.eqb_spec (nthN (cells g) n 0) EMPTY) as [E|E]; inversion Est; subst g' l' e'; clear Est.
    + assert (Hnone : nthN (rholder g) n None = None) by (apply Hch; assumption).
      set (g2 := set_pop (set_cell g n d (Some t) (nthN (cleared_at g) n None) (recovered g)) n).
      assert (Hchg : chg_ok g g2) by (apply chg_populate; auto).
      pose proof Hchg as (Hc & _ & Hlp & Hrec & _).
      split; [cbn [fst]; lia|]. intros t'. cbn [fst snd].
      destruct (Nat.eq_dec t' t) as [->|Hne].
      * rewrite upd_l_same. unfold set_r. split; [|exact I].
        unfold rowned, rcompleted. cbn [rheld rpc_of inflight_pc relflight_pc]. rewrite app_nil_r.
        assert (H0 : HeldInv g t (rheld l) (rheld l)).
        { eapply heldinv_sub; [exact HtHeld| | |]; unfold rowned, rcompleted; rewrite Epc; cbn [inflight_pc relflight_pc]; rewrite ?app_nil_r;
            auto using incl_refl. }
        assert (H1 : HeldInv g2 t (rheld l) (rheld l)).
        { apply (heldinv_frame g g2 t (rheld l) (rheld l) H0); auto using incl_refl. apply untouched_populate; assumption. }
        apply heldinv_add; auto.
        -- unfold cellv, g2. cbn [set_pop set_cell cells]. apply nthN_updN_same. lia.
        -- unfold g2. cbn [set_pop set_cell rholder]. apply nthN_updN_same. lia.
        -- intros d' Hin'. unfold g2. cbn [set_pop set_cell recovered].
           destruct (in_recovered_dec g d') as [Hr|Hr]; [exact Hr|exfalso].
           destruct H0 as (HA & _). destruct (HA n d' Hin' Hr) as (_ & Hh). congruence.
      * rewrite upd_l_other by assumption. destruct (HL t') as (Hh' & Hp'). split.
        -- apply (heldinv_frame g g2 t' _ _ Hh' (rcompleted_incl _) Hrec). apply untouched_populate; assumption.
        -- rewrite (rec_pos_cap g g2 _ Hc). eapply posinv_frame; eauto.
    + destruct (acq_next_quiet g d cur (n + 1)) as [Q1 Q3]. apply Hdrop; auto. rewrite Q3. exact I.
  - (* AFinal *)
    destruct (N.eqb (gen g) cur); [inversion Est; subst g' l' e'; apply Hdrop; [split; reflexivity|exact I]|].
    destruct (N.eqb (gen g) MAX64); inversion Est; subst g' l' e'; [apply Hdrop; [split; reflexivity|exact I]|].
    destruct (acq_next_quiet g d (gen g) 0) as [Q1 Q3]. apply Hdrop; auto. rewrite Q3. exact I.
  - (* IncLoad *)
    destruct (N.eqb (gen g) MAX64) eqn:Eg.
    + unfold fin in Est. destruct (k_inc_ret g (rheld l) MAX64 k) as [[pc' evs] h'] eqn:Ek. inversion Est; subst g' l' e'; clear Est.
      apply (Hmaxret k pc' evs h' HtPos Ek).
    + inversion Est; subst g' l' e'. apply Hquiet; [apply inflight_inc|apply inflight_inc|exact HtPos].
  - (* IncCas *)
    destruct HtPc as (Hcm & Hk0).
    destruct (N.eqb_spec (gen g) c) as [E|E].
    + unfold fin in Est. destruct (k_inc_ret g (rheld l) (c + 1) k) as [[pc' evs] h'] eqn:Ek. inversion Est; subst g' l' e'; clear Est.
      set (g2 := set_gen g (c + 1) (inc_done_ghost g t (c + 1) k)).
      assert (Hchg : chg_ok g g2) by apply chg_gen.
      assert (Hunt : forall t' own, untouched g g2 t' own) by (intros; apply untouched_gen; intros; apply inc_done_mono; assumption).
      pose proof Hchg as (Hc & _ & Hlp & Hrec & _).
      destruct (kacq_dec k) as [(d & n & ->)|Hk].
      * unfold k_inc_ret in Ek. destruct (N.eqb_spec (c + 1) MAX64) as [Em|Em]; inversion Ek; subst pc' evs h'; clear Ek.
        -- unfold set_r. apply Hgeneral; auto; cbn [inflight_pc relflight_pc]; try apply app_nil_incl; try exact I.
           intros j. unfold rowned. rewrite !ucount_app. cbn. lia.
        -- split; [cbn [fst]; lia|]. intros t'. cbn [fst snd].
           destruct (Nat.eq_dec t' t) as [->|Hne].
           ++ rewrite upd_l_same. unfold set_r. split; [|exact I].
              unfold rowned, rcompleted. cbn [rheld rpc_of inflight_pc relflight_pc]. rewrite !app_nil_r.
              assert (H1 : HeldInv g2 t (rowned l) (rcompleted l)).
              { apply (heldinv_frame g g2 t _ _ HtHeld (rcompleted_incl _) Hrec). apply Hunt. }
              unfold rowned, rcompleted in H1. rewrite Epc in H1. cbn [inflight_pc relflight_pc] in H1. rewrite app_nil_r in H1.
              apply heldinv_complete; [exact H1|]. intros Hr. unfold g2 in Hr |- *. cbn [set_gen recovered rdone inc_done_ghost] in Hr |- *.
              destruct HtHeld as (HA & _). destruct (HA n d) as (_ & Hh); auto.
              { unfold rowned. rewrite Epc. apply in_or_app. right. left. reflexivity. }
              destruct (N.eqb_spec (c + 1) MAX64); [contradiction|]. rewrite Hh, Nat.eqb_refl.
              apply nthN_updN_same. cbn [KcInv] in Hk0. lia.
           ++ rewrite upd_l_other by assumption. destruct (HL t') as (Hh' & Hp'). split.
              ** apply (heldinv_frame g g2 t' _ _ Hh' (rcompleted_incl _) Hrec). apply Hunt.
              ** rewrite (rec_pos_cap g g2 _ Hc). eapply posinv_frame; eauto.
      * assert (Hp2 : PosInv g2 (rstamp l) (kc_pos k)) by (eapply posinv_frame; eauto).
        destruct (k_inc_ret_pos g g2 (rstamp l) (rheld l) (c + 1) k pc' evs h' eq_refl Hp2 Hk Ek) as (Hp & -> & [Q1 Q2]).
        unfold set_r. apply Hgeneral; auto; rewrite ?Q1, ?Q2; try apply app_nil_incl.
        intros j. unfold rowned. rewrite !ucount_app. cbn. lia.
    + destruct (N.eqb (gen g) MAX64) eqn:Eg.
      * unfold fin in Est. destruct (k_inc_ret g (rheld l) MAX64 k) as [[pc' evs] h'] eqn:Ek. inversion Est; subst g' l' e'; clear Est.
        apply (Hmaxret k pc' evs h' HtPos Ek).
      * inversion Est; subst g' l' e'. apply Hquiet; [destruct k; reflexivity|destruct k; reflexivity|exact HtPos].
  - (* LockCheck *)
    destruct (N.eqb (gen g) MAX64).
    + unfold fin in Est. destruct (k_lock_ret g (rheld l) true kl) as [[pc' evs] h'] eqn:Ek. inversion Est; subst g' l' e'; clear Est.
      destruct (k_lock_ret_pos g g (rstamp l) _ _ _ _ _ _ eq_refl HtPos Ek) as (Hp & -> & Hq). apply Hdrop; auto.
    + inversion Est; subst g' l' e'. apply Hdrop; [split; reflexivity|exact HtPos].
  - (* ScanStart *)
    unfold scan_start in Est. destruct (N.eqb (gen g) MAX64).
    + unfold fin in Est. destruct (k_scan_ret g (rheld l) MAX64 0 k) as [[pc' evs] h'] eqn:Ek. inversion Est; subst g' l' e'; clear Est.
      destruct (k_scan_ret_pos g g (rstamp l) _ _ _ _ _ _ _ eq_refl HtPos Ek) as (Hp & -> & Hq). apply Hdrop; auto.
    + inversion Est; subst g' l' e'. destruct (scan_next_quiet g g (gen g) 0 0 k) as [Q1 Q3]. apply Hdrop; auto. rewrite Q3. exact HtPos.
  - (* ScanCell *)
    inversion Est; subst g' l' e'.
    destruct (scan_next_quiet g g init (n + 1) (if nthN (cells g) n 0 =? EMPTY then count else count + 1) k) as [Q1 Q3].
    apply Hdrop; auto. rewrite Q3. exact HtPos.
  - (* LockCas *)
    destruct (N.eqb (gen g) gn).
    + unfold fin in Est. destruct (k_lock_ret g (rheld l) true kl) as [[pc' evs] h'] eqn:Ek. inversion Est; subst g' l' e'; clear Est.
      set (g2 := set_gen g MAX64 (rdone g)).
      assert (Hchg : chg_ok g g2) by apply chg_gen.
      assert (Hunt : forall t' own, untouched g g2 t' own) by (intros; apply untouched_gen; auto).
      assert (Hp2 : PosInv g2 (rstamp l) (kl_pos kl)) by (eapply posinv_frame; eauto).
      destruct (k_lock_ret_pos g g2 (rstamp l) _ _ _ _ _ _ eq_refl Hp2 Ek) as (Hp & -> & [Q1 Q2]).
      unfold set_r. apply Hgeneral; auto; rewrite ?Q1, ?Q2; try apply app_nil_incl.
      intros j. unfold rowned. rewrite !ucount_app. cbn. lia.
    + inversion Est; subst g' l' e'. apply Hdrop; [split; reflexivity|exact HtPos].
  - (* RecLoad *)
    destruct HtPos as [H1 H2].
    destruct (N.eqb_spec (nthN (cells g) n 0) EMPTY) as [E|E]; [|destruct (N.eqb_spec (nthN (cells g) n 0) d) as [E2|E2]];
      inversion Est; subst g' l' e'.
    + apply Hdrop; [apply rec_next_quiet|]. apply rec_next_pos; auto. apply rec_seen_next; auto.
      intros Hd Hc. apply Hd. unfold cellv in Hc. congruence.
    + apply Hdrop; [split; reflexivity|]. cbn. auto.
    + apply Hdrop; [apply rec_next_quiet|]. apply rec_next_pos; auto. apply rec_seen_next; auto.
  - (* RecCas *)
    destruct HtPos as [H1 H2].
    destruct (N.eqb_spec (nthN (cells g) n 0) d) as [E|E]; inversion Est; subst g' l' e'; clear Est.
    + set (g2 := set_cell g n EMPTY None (Some (gen g)) (d :: recovered g)).
      assert (Hchg : chg_ok g g2) by (apply chg_clear; auto; intros d0 Hn0 Hin0; apply Hn0; right; exact Hin0).
      assert (Hunt : forall t' own, untouched g g2 t' own).
      { intros t' own. apply untouched_clear. intros d' Hin' Hn' Hc' _. apply Hn'. left. unfold cellv in Hc'. congruence. }
      unfold set_r. apply Hgeneral; auto; cbn [inflight_pc relflight_pc]; try apply app_nil_incl.
      * intros j. unfold rowned. rewrite !ucount_app. cbn. lia.
      * assert (Hp2 : PosInv g2 (rstamp l) (Some (n, d))) by (eapply posinv_frame; [exact Hchg|split; assumption]).
        destruct Hp2 as [P1 P2]. cbn [rec_pos kc_pos PosInv]. split; [exact P1|]. apply rec_seen_next; auto.
        intros Hd Hc. unfold cellv, g2 in Hc. cbn [set_cell cells] in Hc. rewrite nthN_updN_same in Hc by lia. congruence.
    + apply Hdrop; [apply rec_next_quiet|]. apply rec_next_pos; auto. apply rec_seen_next; auto.
  - (* RecEnd *) inversion Est; subst g' l' e'. apply Hdrop; [split; reflexivity|exact I].
Qed.

Lemma nthN_some_ltR {A} (l : list (option A)) i x : nthN l i None = Some x -> i < lenN l.
Proof.
  unfold nthN, lenN. intros H. destruct (Nat.lt_ge_cases (N.to_nat i) (length l)) as [Hl|Hl]; [lia|].
  rewrite nth_overflow in H by assumption. discriminate.
Qed.

Theorem ruis_invh_reachable c dist progs cfg0 : reachable rstep (rinit c dist progs) cfg0 -> InvR cfg0 /\ InvH cfg0.
Proof.
  apply (inv_reachable rgst rlst ev rstep (fun c0 => InvR c0 /\ InvH c0)).
  - split; [apply invr_init|apply invh_init].
  - intros t c0 c' e [HR HH] Hs. split; [eapply rstep_inv; eauto|eapply rstep_invh; eauto].
Qed.

Section ReachH.
Variables (c dist : N) (progs : nat -> list rop) (g : rgst) (ls : nat -> rlst).
Hypothesis Hr : reachable rstep (rinit c dist progs) (g, ls).

(* thread-level ownership: a pair (index, owner) a thread holds -- in its held list, in flight
   inside acquire after the cell CAS, or inside release before the clearing CAS -- whose owner id
   no recover has taken, is what the cell contains, the thread is the cell's holder, the index
   is in range, a completed acquire is marked completed, and nobody else (and no other entry of
   the same thread) holds that index under an owner id that was not recovered *)
Theorem ruis_held_exclusive t i d :
  In (i, d) (rowned (ls t)) -> ~ In d (recovered g) ->
  cellv g i = d /\ nthN (rholder g) i None = Some t /\ i < rcap g /\
  (In (i, d) (rcompleted (ls t)) -> nthN (rdone g) i false = true) /\
  (forall t' d', In (i, d') (rowned (ls t')) -> ~ In d' (recovered g) -> t' = t /\ d' = d) /\
  (forall a b, rowned (ls t) = a ++ (i, d) :: b -> forall d', In (i, d') (a ++ b) -> In d' (recovered g)).
Proof.
  intros Hin Hn. destruct (ruis_invh_reachable _ _ _ _ Hr) as [[HG _] [_ HL]]. cbn [fst snd] in *.
  destruct (HL t) as ((HA & HB & HC) & _). destruct (HA i d Hin Hn) as (H1 & H2).
  destruct HG as (_ & _ & Hl2 & _).
  split; [assumption|]. split; [assumption|]. split; [rewrite <- Hl2; eapply nthN_some_ltR; eauto|].
  split; [intros Hc; apply (HB i d); assumption|]. split.
  - intros t' d' Hin' Hn'. destruct (HL t') as ((HA' & _) & _). destruct (HA' i d' Hin' Hn') as (H1' & H2'). split; congruence.
  - intros a b E d' Hin'. destruct (in_recovered_dec g d') as [Hr'|Hr']; [assumption|exfalso].
    specialize (HC i). rewrite E in HC. pose proof (ucount_two g i a b d d' Hn Hr' Hin'). lia.
Qed.

(* recover's scan: every cell below the scan position that holds d now was populated (by an
   acquire CAS) after the recover call started; at RecEnd the position is the capacity *)
Theorem ruis_recover_scan t n d :
  rec_pos g (rpc_of (ls t)) = Some (n, d) -> d <> EMPTY ->
  rstamp (ls t) <= acqs g /\
  forall i, i < n -> i < rcap g -> cellv g i = d -> rstamp (ls t) < nthN (pop_stamp g) i 0.
Proof.
  intros E Hd. destruct (ruis_invh_reachable _ _ _ _ Hr) as [_ [_ HL]]. cbn [fst snd] in *.
  destruct (HL t) as (_ & Hp). rewrite E in Hp. destruct Hp as [H1 H2]. split; [assumption|]. intros i Hi Hic He. apply H2; auto.
Qed.

Theorem ruis_recover_complete t d mask :
  rpc_of (ls t) = RecEnd d mask -> d <> EMPTY ->
  forall i, i < rcap g -> cellv g i = d -> rstamp (ls t) < nthN (pop_stamp g) i 0.
Proof.
  intros E Hd i Hi He. destruct (ruis_recover_scan t (rcap g) d) as [_ H]; auto. rewrite E. reflexivity.
Qed.

(* if no cell that holds d now was populated after the call started (no concurrent acquire(d)
   succeeded), no cell holds d when recover completes *)
Theorem ruis_recover_leaves_none t d mask :
  rpc_of (ls t) = RecEnd d mask -> d <> EMPTY ->
  (forall i, i < rcap g -> cellv g i = d -> nthN (pop_stamp g) i 0 <= rstamp (ls t)) ->
  forall i, i < rcap g -> cellv g i <> d.
Proof.
  intros E Hd Hno i Hi He. pose proof (ruis_recover_complete t d mask E Hd i Hi He). specialize (Hno i Hi He). lia.
Qed.

(* the lock at thread level: the step that locks the set finds no thread holding an index from a
   completed acquire (in its held list or inside release before the clearing CAS), except under
   owner ids a recover has taken *)
Theorem ruis_lock_no_holder t cfg' es :
  gen g <> MAX64 -> gen g + 1 <> MAX64 -> step1 rstep t (g, ls) = Some (cfg', es) -> gen (fst cfg') = MAX64 ->
  forall t' i d, In (i, d) (rcompleted (ls t')) -> In d (recovered g).
Proof.
  intros Hn1 Hn2 Hs Hm t' i d Hin. destruct (in_recovered_dec g d) as [Hr'|Hr']; [assumption|exfalso].
  destruct (ruis_lock_only_without_completed_owner _ _ _ _ _ Hr t cfg' es Hn1 Hn2 Hs Hm) as [_ Hnc].
  destruct (ruis_held_exclusive t' i d (rcompleted_incl _ _ Hin) Hr') as (H1 & H2 & H3 & H4 & _).
  destruct (ruis_inv_reachable _ _ _ _ Hr) as [(_ & _ & _ & _ & _ & Hch & _) _]. cbn [fst] in Hch.
  assert (Hne : cellv g i <> EMPTY) by (intro E; apply (Hch i H3) in E; congruence).
  rewrite (Hnc i H3 Hne) in H4. specialize (H4 Hin). discriminate.
Qed.
End ReachH.

(* ---------------- without the recovered-owner hypothesis exclusivity is false ---------------- *)
(* recover applied to an owner that is still inside acquire: capacity 1; thread 0's acquire(1) has
   populated cell 0 and not yet incremented the generation; thread 1 recovers owner 1 (clears the
   cell) and acquires with owner 2: it holds index 0; thread 0's acquire then returns Ok(0) *)
Definition ruis_held_exclusive_full : Prop :=
  forall c dist progs g ls t t' i d d',
    reachable rstep (rinit c dist progs) (g, ls) ->
    In (i, d) (rowned (ls t)) -> In (i, d') (rowned (ls t')) -> t = t'.

Definition steal_progs (t : nat) : list rop :=
  match t with
  | O => [RAcq 1]
  | S O => [RRecover 1 MDefault; RAcq 2]
  | _ => []
  end.
Definition steal_sched : list nat := [0;0;0; 1;1;1;1;1;1;1; 1;1;1;1;1; 0;0]%nat.

Lemma steal_final :
  let r := run rstep steal_sched (rinit 1 32 steal_progs) in
  rheld (snd (fst r) 0%nat) = [(0, 1)] /\ rheld (snd (fst r) 1%nat) = [(0, 2)] /\
  cells (fst (fst r)) = [2] /\ recovered (fst (fst r)) = [1] /\
  map snd (filter (fun x => match snd x with ERet _ => true | _ => false end) (snd r)) =
    [ERet (rc_recover false 1); ERet (rc_ok 0); ERet (rc_ok 0)].
Proof. vm_compute. auto. Qed.

Theorem ruis_held_exclusive_refuted : ~ ruis_held_exclusive_full.
Proof.
  intros H. pose proof steal_final as W. cbv zeta in W.
  set (r := run rstep steal_sched (rinit 1 32 steal_progs)) in *.
  destruct W as (W0 & W1 & _).
  assert (E : 0%nat = 1%nat); [|discriminate].
  apply (H 1 32 steal_progs (fst (fst r)) (snd (fst r)) 0%nat 1%nat 0 1 2).
  - exists steal_sched. fold r. destruct (fst r); reflexivity.
  - unfold rowned. rewrite W0. left. reflexivity.
  - unfold rowned. rewrite W1. left. reflexivity.
Qed.
