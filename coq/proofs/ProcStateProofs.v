(* C07: instance theorems of the process_state.rs step model, by verified reachability closure
   (proofs/ProcStateClosure.v: all schedules of a fixed finite instance; the closure computations
   live in ProcStateSafeU/P.v and ProcStateSweep1-3.v so that they build in parallel), finite
   crash-point tables and concrete refuting schedules (ProcStateTables.v). *)
From V Require Import model.Base model.Conc model.Fs model.ProcState proofs.ProcStateClosure proofs.ProcStateDefs
  proofs.ProcStateSafeU proofs.ProcStateSafeP proofs.ProcStateSweep1 proofs.ProcStateSweep2 proofs.ProcStateSweep3.
From V Require Export proofs.ProcStateDefs proofs.ProcStateTables.
Open Scope N_scope.

Theorem alive_never_dead_or_reclaimed : forall priv ps sched t c' es,
  ps = inst_mon None \/ ps = inst_cln None ->
  step1 (step priv true) t (fst (run (step priv true) sched (init (progs_of ps) (kills_of ps)))) = Some (c', es) ->
  In (ERet OP_STATE VDead) es \/ In (ERet OP_CLEAN 0) es ->
  crashed (snd (fst (run (step priv true) sched (init (progs_of ps) (kills_of ps)))) 0%nat) = true.
Proof.
  intros priv ps sched t c' es Hps. eapply safe_conclusion.
  destruct priv, Hps as [-> | ->]; [apply mon_safe_p | apply cln_safe_p | apply mon_safe_u | apply cln_safe_u].
Qed.

Theorem dead_lock_never_seen : forall priv ps sched t c' es,
  ps = inst_mon_exit \/ (priv = false /\ exists k, (k <= 20)%nat /\ ps = inst_mon (Some k)) ->
  step1 (step priv true) t (fst (run (step priv true) sched (init (progs_of ps) (kills_of ps)))) = Some (c', es) ->
  crashed (snd (fst (run (step priv true) sched (init (progs_of ps) (kills_of ps)))) 0%nat) = true ->
  sees_state_lock es = false.
Proof.
  intros priv ps sched t c' es Hps. apply nolock_conclusion.
  destruct Hps as [-> | [-> [k [Hk ->]]]].
  - destruct priv; [apply mon_exit_nolock_p | apply mon_exit_nolock_u].
  - pose proof sweep_nolock_1 as H1. pose proof sweep_nolock_2 as H2. pose proof sweep_nolock_3 as H3.
    rewrite forallb_forall in H1, H2, H3.
    destruct (Nat.le_gt_cases k 6); [apply H1; apply in_seq; lia|].
    destruct (Nat.le_gt_cases k 13); [apply H2; apply in_seq; lia|].
    apply H3; apply in_seq; lia.
Qed.
