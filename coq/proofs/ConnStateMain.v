(* step_inv / reachable states of the connection lifecycle model satisfy Inv. *)
From V Require Import model.Base model.Conc model.Events model.ConnState proofs.ListLemmas
  proofs.ConnStateProofs proofs.ConnStateInv proofs.ConnStateStep.
From Coq Require Import ZifyBool ZifyNat ZifyN.
Open Scope N_scope.

Ltac vac7 := let i := fresh in let Hs := fresh in let E := fresh in
  intros i Hs E; cbn in E; try discriminate.

Lemma flag_marked_vac g i : mkP (flag_marked g) i.
Proof. intros H. cbn in H. discriminate. Qed.

Ltac ksame := apply k_same;
  [assumption | reflexivity | reflexivity | reflexivity | solve [auto] | first [solve [auto] | (cbn; discriminate)] | | ].
Ltac inr_tac := let h' := fresh "h'" in let E := fresh "E" in
  intros h' E; inversion E; subst; cbn [set_own h_inc]; auto.

Theorem step_inv t c c' e : Inv c -> step1 step t c = Some (c', e) -> Inv c'.
Proof.
  destruct c as [g ls]. intros HI Hst. unfold step1 in Hst; cbn [fst snd] in Hst.
  destruct (step t g (ls t)) as [[[g' l'] es]|] eqn:Es; [|discriminate].
  inversion Hst; subst c' e; clear Hst.
  apply (k_assemble g g' t ls l' HI).
  destruct HI as (HG & HL & HMU). cbn [fst snd] in *.
  pose proof (HL t) as HLt. destruct HLt as (L1 & L2 & L3 & L4 & L5).
  change (forall k h, nth k (hs (ls t)) None = Some h ->
     (h_inc h < length (incs g))%nat /\ h_own h = false /\ h_id h = k /\ att g t h) with (HsOk g t (hs (ls t))) in L2.
  pose proof HG as (G1 & G2 & G3 & G4 & G5).
  unfold step in Es. unfold pc_ok in L4.
  destruct (at_pc (ls t)) eqn:Epc.
  - (* Idle *)
    destruct (prog (ls t)) as [|o pr] eqn:Epr; [discriminate|]. destruct o as [r p|k|k|r|k].
    + (* OCreate *)
      destruct (cur g) as [i|] eqn:Ec; inversion Es; subst g' l' es; clear Es.
      * ksame; [|vac7].
        apply linv_goto; [exact L1 | exact L2 | | cbn; reflexivity | vac7].
        intros h E; inversion E; subst; cbn. apply G1; reflexivity.
      * set (x := {| i_st := 0; i_par := p; i_hs := None; i_hr := None |}).
        set (g' := {| cur := Some (length (incs g)); incs := incs g ++ [x]; unl := unl g; saw_marked := saw_marked g; stolen := stolen g |}).
        assert (Hlen : (length (incs g) <= length (incs g'))%nat) by (cbn; rewrite app_length; lia).
        unfold Kprop. split; [apply ginv_create; auto|]. split.
        { apply linv_goto; [exact L1 | | | cbn; reflexivity | vac7].
          - eapply hsok_keep; [exact L2 | exact Hlen |]. intros k h E A. destruct (L2 k h E) as (R & _).
            eapply att_create with (g := g); eauto; reflexivity.
          - intros h E; inversion E; subst; cbn. rewrite app_length; cbn; lia. }
        split; [exact Hlen|]. split.
        { intros t' h Ne R A. eapply att_create with (g := g); eauto; reflexivity. }
        split. { intros t' i Ne E P. eapply mk_create; eauto. }
        split; [auto|vac7].
    + (* ODrop *)
      destruct (nth k (hs (ls t)) None) as [h|] eqn:Eh.
      * destruct (L2 k h Eh) as (R & O & Id & A). pose proof (nth_some_lt _ _ _ Eh) as Hk.
        assert (HS : HsOk g t (hs (clear_h (ls t) k))) by (cbn; apply hsok_clear; auto).
        assert (HL1 : length (hs (clear_h (ls t) k)) = opi (clear_h (ls t) k)) by (cbn; rewrite upd_length; auto).
        assert (SF : nth (h_id h) (upd (hs (ls t)) k None) None = None).
        { rewrite Id. apply nth_upd_same; auto. }
        unfold rs_load in Es. destruct (st_of g (h_inc h) =? MARKED) eqn:Em; inversion Es; subst g' l' es; clear Es.
        -- ksame; [|intros i Hs; cbn in Hs; discriminate].
           apply linv_goto; [exact HL1 | | inr_tac | cbn; exact I | intros i E; apply flag_marked_vac].
           eapply hsok_keep; [exact HS | cbn; lia |]. intros; eapply att_same; eauto.
        -- ksame; [|vac7].
           apply linv_goto; [exact HL1 | exact HS | inr_tac | | vac7].
           cbn. split; [exact O|]. split; [exact SF|]. intros _. exact A.
      * inversion Es; subst g' l' es; clear Es. ksame; [|vac7].
        apply linv_finish; [exact L1 | exact L2 | intros h E; discriminate].
    + (* OLeak *)
      inversion Es; subst g' l' es; clear Es. ksame; [|vac7]. apply linv_finish.
      * cbn. rewrite upd_length; auto.
      * cbn. apply hsok_clear; auto.
      * intros h E; discriminate.
    + (* OForce *)
      destruct (cur g) as [i|] eqn:Ec; inversion Es; subst g' l' es; clear Es.
      * ksame; [|vac7].
        apply linv_goto; [exact L1 | exact L2 | | | vac7].
        -- intros h E; inversion E; subst; cbn. apply G1; reflexivity.
        -- cbn. split; [reflexivity|]. split; [|intros W; congruence].
           unfold slot_free; cbn. apply nth_overflow. lia.
      * ksame; [|vac7]. apply linv_finish; [exact L1 | exact L2 | intros h E; discriminate].
    + (* OIsConn *)
      destruct (nth k (hs (ls t)) None) as [h|]; inversion Es; subst g' l' es; clear Es;
        (ksame; [|vac7]; apply linv_finish; [exact L1 | exact L2 | intros h' E; discriminate]).
  - (* CrLoad *)
    assert (R : (h_inc h < length (incs g))%nat) by (apply L3; reflexivity).
    inversion Es as [Es']; clear Es. unfold reserve_next in Es'.
    destruct (reserve_check (st_of g (h_inc h)) (h_role h)) eqn:Er; inversion Es'; subst g' l' es; clear Es';
      (ksame; [|vac7]; apply linv_goto; [exact L1 | exact L2 | inr_tac | | vac7]).
    + cbn. exact L4.
    + cbn. exact L4.
    + cbn. split; [exact L4|]. eapply reserve_try; eauto.
  - (* CrCas *)
    assert (R : (h_inc h < length (incs g))%nat) by (apply L3; reflexivity).
    destruct L4 as (Id & Hb & Hm).
    destruct (N.eqb_spec (i_st (get_inc g (h_inc h))) c) as [Eq|Ne].
    + inversion Es; subst g' l' es; clear Es.
      set (x' := set_holder (get_inc g (h_inc h)) (h_role h) (N.lor c (rbit (h_role h))) (Some (t, h_id h))).
      assert (MK : forall i, mkP g i -> mkP (set_inc g (h_inc h) x') i).
      { intros i P. eapply mk_upd with (i0 := h_inc h) (x' := x'); eauto; try reflexivity.
        intros E _. exfalso. unfold st_of in E. rewrite Eq in E. rewrite E in Hm. vm_compute in Hm. discriminate. }
      unfold Kprop. split; [apply ginv_attach; auto|]. split.
      { apply linv_goto; [exact L1 | | | | vac7].
        - eapply hsok_keep; [exact L2 | rewrite set_inc_len; lia |].
          intros k h' E A. apply att_attach; auto.
        - intros h' E; inversion E; subst. rewrite set_inc_len. exact R.
        - cbn. split; [exact Id|]. left. rewrite get_set_same by auto. apply holder_set_same. }
      split; [rewrite set_inc_len; lia|]. split.
      { intros t' h' Ne' R' A. apply att_attach; auto. }
      split. { intros t' i Ne' E P. apply MK; auto. }
      split; [auto|vac7].
    + inversion Es as [Es']; clear Es. unfold reserve_next in Es'.
      destruct (reserve_check (i_st (get_inc g (h_inc h))) (h_role h)) eqn:Er; inversion Es'; subst g' l' es; clear Es';
        (ksame; [|vac7]; apply linv_goto; [exact L1 | exact L2 | inr_tac | | vac7]).
      * cbn. exact Id.
      * cbn. exact Id.
      * cbn. split; [exact Id|]. eapply reserve_try; eauto.
  - (* CrFail *)
    assert (R : (h_inc h < length (incs g))%nat) by (apply L3; reflexivity).
    inversion Es; subst g' l' es; clear Es. ksame; [|vac7].
    apply linv_goto; [exact L1 | exact L2 | inr_tac | cbn; exact I | vac7].
  - (* CrOwn *)
    assert (R : (h_inc h < length (incs g))%nat) by (apply L3; reflexivity).
    destruct L4 as (Id & A).
    destruct (h_own h) eqn:Eo.
    + inversion Es; subst g' l' es; clear Es. ksame; [|vac7].
      apply linv_goto; [exact L1 | exact L2 | inr_tac | cbn; auto | vac7].
    + destruct (mismatch p (i_par (get_inc g (h_inc h)))) as [code|] eqn:Em; inversion Es; subst g' l' es; clear Es.
      * ksame; [|vac7].
        apply linv_goto; [exact L1 | exact L2 | inr_tac | | vac7].
        cbn. split; [exact Eo|]. split; [|intros _; exact A].
        unfold slot_free; cbn. apply nth_overflow. lia.
      * ksame; [|vac7]. apply linv_finish; [exact L1 | exact L2 |].
        intros h' E; inversion E; subst. auto.
  - (* CrRel *)
    assert (R : (h_inc h < length (incs g))%nat) by (apply L3; reflexivity).
    destruct L4 as (Id & A).
    inversion Es; subst g' l' es; clear Es. ksame; [|vac7]. apply linv_finish; [exact L1 | exact L2 |].
    intros h' E; inversion E; subst. cbn [set_own h_inc h_own h_id]. split; [exact R|]. split; [reflexivity|]. split; [exact Id|].
    apply att_set_own. exact A.
  - (* RsLoad *)
    assert (R : (h_inc h < length (incs g))%nat) by (apply L3; reflexivity).
    unfold rs_load in Es. destruct (st_of g (h_inc h) =? MARKED) eqn:Em; inversion Es; subst g' l' es; clear Es.
    + ksame; [|intros i Hs; cbn in Hs; discriminate].
      apply linv_goto; [exact L1 | | inr_tac | cbn; exact I | intros i E; apply flag_marked_vac].
      eapply hsok_keep; [exact L2 | cbn; lia |]. intros; eapply att_same; eauto.
    + ksame; [|vac7].
      apply linv_goto; [exact L1 | exact L2 | inr_tac | cbn; exact L4 | vac7].
  - (* RsCas *)
    assert (R : (h_inc h < length (incs g))%nat) by (apply L3; reflexivity).
    destruct L4 as (Ho & SF & A).
    destruct (N.eqb_spec (i_st (get_inc g (h_inc h))) c) as [Eq|Ne].
    + pose proof (detach_facts g (h_inc h) (h_role h) c (t, h_id h) R Eq HG) as DF. cbv zeta in DF.
      set (x' := if N.land c (rbit (h_role h)) =? 0
                 then set_holder (get_inc g (h_inc h)) (h_role h) (remove_new c (h_role h)) (holder (get_inc g (h_inc h)) (h_role h))
                 else set_holder (get_inc g (h_inc h)) (h_role h) (remove_new c (h_role h)) None) in *.
      set (g1 := if N.land c (rbit (h_role h)) =? 0 then set_inc g (h_inc h) x'
                 else steal (set_inc g (h_inc h) x') (holder (get_inc g (h_inc h)) (h_role h)) (t, h_id h)) in *.
      destruct DF as (D1 & D2 & D3 & D4 & D5 & D6 & D7).
      assert (Hlen1 : length (incs g1) = length (incs g)) by (rewrite D3; apply upd_length).
      assert (HS1 : HsOk g1 t (hs (ls t))).
      { eapply hsok_keep; [exact L2 | lia |]. intros k h' E A'. apply D7; auto.
        destruct (L2 k h' E) as (_ & _ & Id' & _). intros X. inversion X as [X']. unfold slot_free in SF.
        rewrite <- X', Id' in SF. congruence. }
      assert (OA : forall t' h', t' <> t -> att g t' h' -> att g1 t' h').
      { intros t' h' Ne' A'. apply D7; auto. intros X. inversion X. congruence. }
      assert (MK1 : forall i, mkP g i -> mkP g1 i).
      { intros i P. apply (mk_upd g g1 (h_inc h) x' i R D2 D3); [rewrite D5; auto | | exact P].
        intros E _. rewrite D6. unfold st_of in E. rewrite Eq in E. rewrite E. apply remove_new_marked. }
      destruct (N.eqb_spec (remove_new c (h_role h)) MARKED) as [Enew|Enew].
      * (* marks (or finds it marked) *)
        destruct (N.eqb_spec c MARKED) as [Ecm|Ecm]; inversion Es; subst g' l' es; clear Es.
        -- (* found marked: flag *)
           unfold Kprop. split; [eapply ginv_same with (g := g1); [reflexivity | reflexivity | reflexivity | cbn; discriminate | exact D1]|]. split.
           { apply linv_goto; [exact L1 | | | cbn; exact I | intros i E; apply flag_marked_vac].
             - eapply hsok_keep; [exact HS1 | cbn; lia |]. intros; eapply att_same; eauto.
             - intros h' E; inversion E; subst. cbn. rewrite Hlen1. exact R. }
           split; [cbn; lia|]. split.
           { intros t' h' Ne' R' A'. eapply att_same with (g := g1); auto. }
           split. { intros t' i Ne' E P. apply flag_marked_vac. }
           split; [cbn; discriminate|intros i Hs; cbn in Hs; discriminate].
        -- (* the marking transition *)
           assert (STG : saw_marked g1 = false -> st_of g1 (h_inc h) = MARKED /\ cur g1 = Some (h_inc h)).
           { intros Hs. rewrite D5 in Hs. split.
             - unfold st_of, get_inc. rewrite D3. rewrite nth_upd_same by auto. rewrite D6. exact Enew.
             - rewrite D2. apply G4; auto. unfold st_of. rewrite Eq. exact Ecm. }
           unfold Kprop. split; [exact D1|]. split.
           { apply linv_goto; [exact L1 | exact HS1 | | cbn; exact I |].
             - intros h' E; inversion E; subst. rewrite Hlen1. exact R.
             - intros i E. cbn in E. inversion E; subst i. exact STG. }
           split; [lia|]. split; [intros; apply OA; auto|]. split; [intros; apply MK1; auto|].
           split; [rewrite D5; auto|].
           intros i Hs E. cbn in E. inversion E; subst i. right. intros t2 N2 E2.
           destruct (HL t2) as (_ & _ & _ & _ & M5). rewrite D5 in Hs. destruct (M5 _ E2 Hs) as (X & _).
           unfold st_of in X. rewrite Eq in X. contradiction.
      * inversion Es; subst g' l' es; clear Es.
        unfold Kprop. split; [exact D1|]. split.
        { apply linv_goto; [exact L1 | exact HS1 | | cbn; exact I |].
          - intros h' E; inversion E; subst. rewrite Hlen1. exact R.
          - intros i E. cbn in E. rewrite Ho in E. discriminate. }
        split; [lia|]. split; [intros; apply OA; auto|]. split; [intros; apply MK1; auto|].
        split; [rewrite D5; auto|].
        intros i Hs E. cbn in E. rewrite Ho in E. discriminate.
    + inversion Es; subst g' l' es; clear Es. ksame; [|vac7].
      apply linv_goto; [exact L1 | exact L2 | inr_tac | cbn; auto | vac7].
  - (* Acq *)
    assert (R : (h_inc h < length (incs g))%nat) by (apply L3; reflexivity).
    inversion Es; subst g' l' es; clear Es. ksame.
    + apply linv_goto; [exact L1 | exact L2 | inr_tac | cbn; exact I |].
      intros i E. cbn in E. inversion E; subst i. apply L5. unfold marker. rewrite Epc. reflexivity.
    + intros i Hs E. cbn in E. inversion E; subst i. left. unfold marker. rewrite Epc. reflexivity.
  - (* DrOwn *)
    assert (R : (h_inc h < length (incs g))%nat) by (apply L3; reflexivity).
    destruct (h_own h) eqn:Eo; inversion Es; subst g' l' es; clear Es.
    + ksame.
      * apply linv_goto; [exact L1 | exact L2 | inr_tac | cbn; exact I |].
        intros i E. cbn in E. inversion E; subst i. apply L5. unfold marker. rewrite Epc, Eo. reflexivity.
      * intros i Hs E. cbn in E. inversion E; subst i. left. unfold marker. rewrite Epc, Eo. reflexivity.
    + ksame; [|vac7]. apply linv_finish; [exact L1 | exact L2 | intros h' E; discriminate].
  - (* DrRm *)
    assert (R : (h_inc h < length (incs g))%nat) by (apply L3; reflexivity).
    assert (P : mkP g (h_inc h)) by (apply L5; unfold marker; rewrite Epc; reflexivity).
    inversion Es; subst g' l' es; clear Es.
    unfold Kprop. split; [apply ginv_unlink; auto|]. split.
    { apply linv_finish; [exact L1 | | intros h' E; discriminate].
      eapply hsok_keep; [exact L2 | cbn; lia |]. intros; eapply att_same; eauto. }
    split; [cbn; lia|]. split.
    { intros; eapply att_same; eauto. }
    split.
    { intros t' i Ne' E Pi Hs. cbn in Hs. exfalso. destruct (Pi Hs) as (_ & B1). destruct (P Hs) as (_ & B2).
      rewrite B1 in B2. inversion B2; subst i. apply Ne'. apply (HMU Hs t' t (h_inc h)); auto.
      unfold marker. rewrite Epc. reflexivity. }
    split; [cbn; auto|vac7].
Qed.

Lemma inv_init progs : Inv (init progs).
Proof.
  unfold Inv, init; cbn [fst snd]. split; [|split].
  - unfold GInv, g_init, removed; cbn [cur incs unl saw_marked length flat_map].
    split; [intros i E; discriminate|]. split; [intros i E; lia|].
    split; [split; [constructor|intros i []]|]. split; [intros _ i E; lia|intros _ u []].
  - intros t. unfold LInv, l_init, pc_ok, marker; cbn [hs opi at_pc inflight length].
    split; [reflexivity|]. split; [intros k h E; destruct k; discriminate|].
    split; [intros h E; discriminate|]. split; [exact I|intros i E; discriminate].
  - intros _ t t' i E. unfold marker, l_init in E; cbn in E. discriminate.
Qed.

Theorem inv_reach progs c : reachable step (init progs) c -> Inv c.
Proof. apply inv_reachable; [apply inv_init|]. intros t c0 c' e. apply step_inv. Qed.
