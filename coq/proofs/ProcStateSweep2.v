(* C07: closure checks, guard killed before its k-th call, k = 7..13 *)
From V Require Import model.Base model.Conc model.Fs model.ProcState proofs.ProcStateClosure proofs.ProcStateDefs.
Open Scope N_scope.
Lemma sweep_nolock_2 : forallb (fun k => check false true P_nolock (inst_mon (Some k))) (seq 7 7) = true. Proof. vm_compute. reflexivity. Qed.
