(* relocatable_option.rs behaves exactly like core::option::Option, for every content and every
   operation (hence every operation sequence); a value is dropped only by a rejected
   alternative or when the cell itself is dropped. *)
From V Require Import model.Base model.Obs model.RelocOption.
Open Scope N_scope.

Theorem ro_step_eq o op : ro_step o op = so_step o op.
Proof. destruct op, o as [x|]; cbn; try reflexivity; destruct (memo l x); reflexivity. Qed.

Fixpoint ro_run (o : option N) (ops : list oop) : list (obs * list N) :=
  match ops with [] => [] | op :: t => let '(o', ob, d) := ro_step o op in (ob, d) :: ro_run o' t end.
Fixpoint so_run (o : option N) (ops : list oop) : list (obs * list N) :=
  match ops with [] => [] | op :: t => let '(o', ob, d) := so_step o op in (ob, d) :: so_run o' t end.

Theorem ro_refines_option : forall (o : option N) (ops : list oop), ro_run o ops = so_run o ops.
Proof.
  intros o ops. revert o. induction ops as [|op t IH]; intros o; cbn [ro_run so_run]; auto.
  rewrite ro_step_eq. destruct (so_step o op) as [[o' ob] d]. f_equal. apply IH.
Qed.
