(* C10 proofs, part 3: the invariant holds in every reachable state of a program in which every
   abandoned call is followed by the recover of its owner; the property theorems. *)
From V Require Import model.Base model.Conc model.Events model.Container proofs.ContainerBase proofs.ContainerInv proofs.ContainerStep proofs.ContainerDirty.
From Coq Require Import ZifyBool ZifyNat ZifyN.
Open Scope N_scope.

Lemma crash_free_is_ok progs : crash_free progs -> crash_ok progs.
Proof. intros H t. apply crash_free_ok. apply H. Qed.

Lemma inv_init c d0 d1 d2 progs : crash_ok progs -> Inv (init c d0 d1 d2 progs).
Proof.
  intros Hcf. split.
  - constructor; cbn; intros; try contradiction; try discriminate.
  - intros t. left. constructor; unfold PcInv, L0P; cbn; auto; try lia; intros; try contradiction; try discriminate; try lia;
      try (exfalso; eapply owner_not_empty; symmetry; eassumption).
    all: try (destruct j; discriminate).
    split; [apply Hcf|]. split; [reflexivity|]. intros Hz. exfalso. apply Hz. reflexivity.
Qed.

Theorem step_inv t c c' e : Inv c -> step1 step t c = Some (c', e) -> Inv c'.
Proof.
  destruct c as [g ls]. intros [HG HLs] Hs. unfold step1 in Hs. cbn [fst snd] in *.
  destruct (step t g (ls t)) as [[[g' l'] e']|] eqn:Est; [|discriminate].
  inversion Hs; subst c' e; clear Hs.
  destruct (step_okC t g (ls t) g' l' e' HG (HLs t) Est) as (HGu & HL' & HG').
  split; cbn [fst snd]; [exact HG'|].
  intros t'. destruct (Nat.eq_dec t' t) as [->|Hne].
  - rewrite upd_l_same. exact HL'.
  - rewrite upd_l_other by auto. eapply linvc_stable; eauto.
Qed.

Theorem inv_reach c d0 d1 d2 progs cf : crash_ok progs ->
  reachable step (init c d0 d1 d2 progs) cf -> Inv cf.
Proof.
  intros Hcf. apply (inv_reachable cgst clst ev step Inv).
  - apply inv_init; auto.
  - intros t c0 c' e HI Hs. eapply step_inv; eauto.
Qed.

(* what both modes of a thread guarantee *)
Section Both.
  Variables (g : cgst) (t : nat) (l : clst).
  Hypothesis H : LInvC g t l.
  Lemma c_L1 : rchange l <= change g /\ ustart l <= clock g.
  Proof. destruct H as [A|A]; [apply (L1 _ _ _ A)|apply (D1 _ _ _ A)]. Qed.
  Lemma c_L2 i : rgen l i <= gens g i.
  Proof. destruct H as [A|A]; [apply (L2 _ _ _ A)|apply (D2 _ _ _ A)]. Qed.
  Lemma c_L6 n e : cells g n = owner_of t e -> e <= epoch l.
  Proof. destruct H as [A|A]; [apply (L6 _ _ _ A)|apply (D6 _ _ _ A)]. Qed.
  Lemma c_L8 i : refreshing (pc l) i = false -> odd (rgen l i) = true -> In (rgen l i, rdata l i) (published g i).
  Proof. destruct H as [A|A]; [apply (L8 _ _ _ A)|intros _; apply (D8 _ _ _ A)]. Qed.
  Lemma c_L9 i gm c e : In (i, gm, c, e) (oplog g) -> c <= rchange l -> scanned (pc l) i = true -> gm <= rgen l i.
  Proof. destruct H as [A|A]; [apply (L9 _ _ _ A)|intros H1 H2 _; eapply (D9 _ _ _ A); eauto]. Qed.
  Lemma c_L10 i gm c e : In (i, gm, c, e) (oplog g) -> e < ustart l -> c <= rchange l.
  Proof. destruct H as [A|A]; [apply (L10 _ _ _ A)|apply (D10 _ _ _ A)]. Qed.
  Lemma c_L11 : in_upd (pc l) = false -> ulast l = false -> forall i, uprev l i = rgen l i.
  Proof. destruct H as [A|A]; [apply (L11 _ _ _ A)|intros _; apply (D11 _ _ _ A)]. Qed.
  Lemma c_dirty_where : dirty l = true -> (pc l = Idle /\ next_rec (prog l)) \/ rec_true (pc l) = true.
  Proof.
    destruct H as [A|A].
    - destruct (L0 _ _ _ A) as (_ & E & _). congruence.
    - intros _. apply (D0 _ _ _ A).
  Qed.
  Lemma c_clean : dirty l = false -> LInv g t l.
  Proof. destruct H as [A|A]; auto. destruct (D0 _ _ _ A) as (_ & E & _). congruence. Qed.
End Both.

Section Props.
  Variables (c d0 d1 d2 : N) (progs : nat -> list cop) (g : cgst) (ls : nat -> clst).
  Hypothesis Hcf : crash_ok progs.
  Hypothesis Hr : reachable step (init c d0 d1 d2 progs) (g, ls).

  Let HI : Inv (g, ls) := inv_reach c d0 d1 d2 progs (g, ls) Hcf Hr.

  (* every entry a snapshot holds (outside the copy window of that very slot) was published by an add *)
  Theorem no_torn t i :
    refreshing (pc (ls t)) i = false -> odd (rgen (ls t) i) = true ->
    In (rgen (ls t) i, rdata (ls t) i) (published g i).
  Proof. destruct HI as [_ HL]; cbn [fst snd] in HL. apply (c_L8 _ _ _ (HL t)). Qed.

  (* a generation is published at most once per slot, is odd, and is not ahead of the slot *)
  Theorem published_exact i a b b' :
    In (a, b) (published g i) -> In (a, b') (published g i) -> b = b' /\ odd a = true /\ a <= gens g i.
  Proof.
    destruct HI as [HG _]; cbn [fst snd] in HG. intros H1 H2. split; [eapply (GC _ HG); eauto|]. eapply (GA _ HG); eauto.
  Qed.

  (* the data of a slot is only written while its generation is even *)
  Theorem write_only_when_even t v n : pc (ls t) = AddWrite v n -> odd (gens g n) = false.
  Proof.
    destruct HI as [_ HL]; cbn [fst snd] in HL. intros E. destruct (HL t) as [A|A].
    - pose proof (L7 _ _ _ A) as H. unfold PcInv in H. rewrite E in H. destruct H as (_ & _ & _ & H). exact H.
    - destruct (D0 _ _ _ A) as (_ & _ & _ & [[E' _]|E']); rewrite E in E'; discriminate.
  Qed.

  (* completed operation (slot i has reached generation gm, completion time e) before the start
     of thread t's latest update_state; once that call has scanned slot i its snapshot has it *)
  Theorem noticed t i gm ch e :
    In (i, gm, ch, e) (oplog g) -> e < ustart (ls t) -> scanned (pc (ls t)) i = true -> gm <= rgen (ls t) i.
  Proof.
    destruct HI as [_ HL]; cbn [fst snd] in HL. intros Hin He Hs. eapply (c_L9 _ _ _ (HL t)); eauto. eapply (c_L10 _ _ _ (HL t)); eauto.
  Qed.

  (* a call that returned false left the snapshot as it was *)
  Theorem unchanged_when_false t i : in_upd (pc (ls t)) = false -> ulast (ls t) = false -> uprev (ls t) i = rgen (ls t) i.
  Proof. destruct HI as [_ HL]; cbn [fst snd] in HL. intros H1 H2. apply (c_L11 _ _ _ (HL t)); auto. Qed.

  (* a snapshot never runs ahead of the container *)
  Theorem snapshot_not_ahead t i : rgen (ls t) i <= gens g i.
  Proof. destruct HI as [_ HL]; cbn [fst snd] in HL. apply (c_L2 _ _ _ (HL t)). Qed.

  (* log entries are sound: the slot really has reached the logged generation *)
  Theorem log_sound i gm ch e : In (i, gm, ch, e) (oplog g) -> i < cap g /\ gm <= gens g i /\ ch <= change g /\ e < clock g.
  Proof. destruct HI as [HG _]; cbn [fst snd] in HG. apply (GD _ HG). Qed.
End Props.
