(* C09: inductive invariant of the UniqueIndexSet step model (any number of threads, any
   schedule whose pending head-CASes span fewer than 2^16 head updates, any capacity < 2^24-1). *)
From V Require Import model.Base model.Conc model.Events model.UniqueIndexSet proofs.ListLemmas proofs.UniqueIndexSetCodec.
From Coq Require Import ZifyBool ZifyNat ZifyN Permutation.
Ltac Zify.zify_post_hook ::= Z.div_mod_to_equations.
Open Scope N_scope.

(* ---------------- list facts ---------------- *)
Lemma nthN_some_lt {A} (l : list (option A)) i x : nthN l i None = Some x -> i < lenN l.
Proof.
  unfold nthN, lenN. intros H. destruct (Nat.lt_ge_cases (N.to_nat i) (length l)) as [Hl|Hl]; [lia|].
  rewrite nth_overflow in H by assumption. discriminate.
Qed.

Lemma fpath_lt nx cap x fl : fpath nx cap x fl -> forall y, In y fl -> y < cap.
Proof.
  revert x; induction fl as [|z r IH]; intros x H y Hy; [destruct Hy|].
  destruct H as (-> & Hz & H). destruct Hy as [<-|Hy]; [assumption|]. eapply IH; eauto.
Qed.

Lemma fpath_upd_other nx cap x fl j v : ~ In j fl -> fpath nx cap x fl -> fpath (updN nx j v) cap x fl.
Proof.
  revert x; induction fl as [|z r IH]; intros x Hj H; [exact H|].
  destruct H as (-> & Hz & H). cbn [fpath]. split; [reflexivity|]. split; [assumption|].
  rewrite nthN_updN_other by (intro E; apply Hj; left; auto). apply IH; [|assumption].
  intro E; apply Hj; right; assumption.
Qed.

Lemma fpath_head nx cap x fl : fpath nx cap x fl -> x < cap -> exists r, fl = x :: r /\ fpath nx cap (nthN nx x 0) r.
Proof.
  destruct fl as [|z r]; cbn [fpath].
  - intros -> H. lia.
  - intros (-> & Hz & H) _. eauto.
Qed.

Lemma fpath_le nx cap x fl : fpath nx cap x fl -> x <= cap.
Proof. destruct fl as [|z r]; cbn [fpath]; [intros ->; lia|intros (-> & Hz & _); lia]. Qed.

Definition below (n : N) : list N := map N.of_nat (seq 0 (N.to_nat n)).
Lemma in_below n x : In x (below n) <-> x < n.
Proof.
  unfold below. rewrite in_map_iff. split.
  - intros (k & <- & Hk). apply in_seq in Hk. lia.
  - intros H. exists (N.to_nat x). split; [lia|]. apply in_seq. lia.
Qed.
Lemma below_length n : length (below n) = N.to_nat n.
Proof. unfold below. now rewrite map_length, seq_length. Qed.

Lemma bounded_nodup_len fl cap : NoDup fl -> (forall y, In y fl -> y < cap) -> lenN fl <= cap.
Proof.
  intros Hnd Hlt. assert (H : (length fl <= length (below cap))%nat).
  { apply NoDup_incl_length; [assumption|]. intros y Hy. apply in_below. auto. }
  rewrite below_length in H. unfold lenN. lia.
Qed.

Lemma bounded_nodup_len_strict fl cap i : NoDup fl -> (forall y, In y fl -> y < cap) -> i < cap -> ~ In i fl -> lenN fl < cap.
Proof.
  intros Hnd Hlt Hi Hni.
  assert (H : lenN (i :: fl) <= cap).
  { apply bounded_nodup_len; [constructor; assumption|]. intros y [<-|Hy]; auto. }
  unfold lenN in *. cbn [length] in H. lia.
Qed.

Lemma nth_nseqN s n i d : (i < n)%nat -> nth i (nseqN s n) d = s + N.of_nat i.
Proof.
  revert s i; induction n as [|n IH]; intros s i H; [lia|].
  destruct i as [|i]; cbn [nseqN nth]; [lia|]. rewrite IH by lia. lia.
Qed.
Lemma nseqN_length s n : length (nseqN s n) = n.
Proof. revert s; induction n as [|n IH]; intros s; cbn [nseqN length]; auto. Qed.
Lemma in_nseqN s n x : In x (nseqN s n) <-> s <= x /\ x < s + N.of_nat n.
Proof.
  revert s; induction n as [|n IH]; intros s; cbn [nseqN In]; [lia|].
  rewrite IH. lia.
Qed.
Lemma nodup_nseqN s n : NoDup (nseqN s n).
Proof.
  revert s; induction n as [|n IH]; intros s; cbn [nseqN]; constructor; [|apply IH].
  rewrite in_nseqN. lia.
Qed.

Lemma nodup_app_single {A} (l : list A) x : NoDup (l ++ [x]) <-> NoDup l /\ ~ In x l.
Proof.
  split.
  - intros H. apply NoDup_remove in H. rewrite app_nil_r in H. exact H.
  - intros [H1 H2]. eapply Permutation_NoDup; [apply Permutation_cons_append|]. constructor; assumption.
Qed.

(* ---------------- the invariant ---------------- *)
Definition seen_ok (g : ugst) (ov u0 : N) : Prop :=
  hd_aba ov = u0 mod 65536 /\ u0 <= updates g /\ (u0 = updates g -> ov = uhead g).
Definition acq_ok (g : ugst) (ov : N) : Prop := hd_head ov < ucap g /\ hd_borrowed ov <> LOCK_ACQUIRE.
Definition rel_ok (ov : N) : Prop := 1 <= hd_borrowed ov /\ hd_borrowed ov <> LOCK_ACQUIRE.

Definition PcInv (g : ugst) (pc : upc) : Prop :=
  match pc with
  | UIdle | UDead | AcqWDist _ | AcqWrite _ => True
  | AcqDist ov u0 | AcqRead ov u0 => seen_ok g ov u0 /\ acq_ok g ov
  | AcqCas ov nx u0 => seen_ok g ov u0 /\ acq_ok g ov /\ (u0 = updates g -> nx = nthN (unext g) (hd_head ov) 0)
  | RelDist i m ov u0 | RelWrite i m ov u0 => seen_ok g ov u0 /\ rel_ok ov
  | RelCas i m ov u0 => seen_ok g ov u0 /\ rel_ok ov /\ nthN (unext g) i 0 = hd_head ov
  end.

Definition LInv (g : ugst) (t : nat) (l : ulst) : Prop :=
  NoDup (owned_by l) /\ (forall i, In i (owned_by l) -> nthN (uown g) i None = Some t) /\ PcInv g (upc_of l).

Definition GInv (g : ugst) : Prop :=
  ucap g < 16777215 /\ uhead g < P64 /\
  lenN (unext g) = ucap g + 1 /\ lenN (uown g) = ucap g /\
  fpath (unext g) (ucap g) (hd_head (uhead g)) (gfree g) /\ NoDup (gfree g) /\
  (forall i, i < ucap g -> (In i (gfree g) <-> nthN (uown g) i None = None)) /\
  hd_aba (uhead g) = updates g mod 65536 /\
  ((hd_borrowed (uhead g) = LOCK_ACQUIRE /\ lenN (gfree g) = ucap g) \/
   hd_borrowed (uhead g) + lenN (gfree g) = ucap g).

Definition Inv (c : cfg ugst ulst) : Prop := GInv (fst c) /\ forall t, LInv (fst c) t (snd c t).

Lemma inv_init c dist progs : c < 16777215 -> Inv (uinit c dist progs).
Proof.
  intros Hc. split.
  - unfold GInv, uinit, ug_init; cbn [fst ucap uhead unext uown gfree updates].
    assert (E0 : hd_head 0 = 0 /\ hd_aba 0 = 0 /\ hd_borrowed 0 = 0) by (vm_compute; auto).
    destruct E0 as (-> & -> & ->).
    split; [assumption|]. split; [reflexivity|].
    split; [unfold lenN; rewrite nseqN_length; lia|].
    split; [unfold lenN; rewrite repeat_length; lia|].
    split.
    { assert (H : forall m k, k + N.of_nat m = c -> fpath (nseqN 1 (N.to_nat (c + 1))) c k (nseqN k m)).
      { induction m as [|m IH]; intros k Hk; cbn [nseqN fpath]; [lia|].
        split; [reflexivity|]. split; [lia|].
        unfold nthN. rewrite nth_nseqN by lia. replace (1 + N.of_nat (N.to_nat k)) with (k + 1) by lia.
        apply IH. lia. }
      apply H. lia. }
    split; [apply nodup_nseqN|].
    split.
    { intros i Hi. rewrite in_nseqN. unfold nthN.
      assert (E : nth (N.to_nat i) (repeat (@None Datatypes.nat) (N.to_nat c)) None = None).
      { destruct (nth_in_or_default (N.to_nat i) (repeat (@None Datatypes.nat) (N.to_nat c)) None) as [H|H]; [|exact H].
        apply repeat_spec in H. exact H. }
      rewrite E. split; [reflexivity|lia]. }
    split; [reflexivity|].
    right. unfold lenN. rewrite nseqN_length. lia.
  - intros t. unfold LInv, uinit, ul_init, owned_by, inflight; cbn.
    split; [constructor|]. split; [intros i []|exact I].
Qed.

(* ---------------- consequences of the invariant used by the step proof ---------------- *)
Lemma ginv_owned_facts g i t : GInv g -> nthN (uown g) i None = Some t ->
  i < ucap g /\ ~ In i (gfree g) /\ 1 <= hd_borrowed (uhead g) /\ hd_borrowed (uhead g) <> LOCK_ACQUIRE /\
  hd_borrowed (uhead g) + lenN (gfree g) = ucap g.
Proof.
  intros (Hc & Hw & Hln & Hlo & Hfp & Hnd & Hpart & Haba & Hb) Ho.
  assert (Hi : i < ucap g) by (rewrite <- Hlo; eapply nthN_some_lt; eauto).
  assert (Hni : ~ In i (gfree g)) by (intro Hin; apply Hpart in Hin; [congruence|assumption]).
  assert (Hlen : lenN (gfree g) < ucap g).
  { eapply bounded_nodup_len_strict; eauto. eapply fpath_lt; eauto. }
  unfold LOCK_ACQUIRE in *. repeat split; auto; destruct Hb as [[Hb1 Hb2]|Hb]; lia.
Qed.

Lemma ginv_head_free g : GInv g -> hd_head (uhead g) < ucap g ->
  exists r, gfree g = hd_head (uhead g) :: r /\ fpath (unext g) (ucap g) (nthN (unext g) (hd_head (uhead g)) 0) r /\
            nthN (uown g) (hd_head (uhead g)) None = None.
Proof.
  intros (Hc & Hw & Hln & Hlo & Hfp & Hnd & Hpart & Haba & Hb) Hh.
  destruct (fpath_head _ _ _ _ Hfp Hh) as (r & Er & Hr). exists r. split; [assumption|]. split; [assumption|].
  apply Hpart; [assumption|]. rewrite Er. left. reflexivity.
Qed.

(* a cell write by the owner of cell j does not disturb anybody else *)
Lemma frame_next g t t' l j v :
  GInv g -> LInv g t' l -> nthN (uown g) j None = Some t -> t' <> t -> LInv (upd_next g j v) t' l.
Proof.
  intros HG (Hnd & Hown & Hpc) Hj Hne. unfold LInv. cbn [upd_next uown].
  split; [assumption|]. split; [assumption|].
  unfold PcInv, seen_ok, acq_ok in *. cbn [upd_next uhead updates ucap unext].
  destruct (upc_of l) as [|ov u0|ov u0|ov nx u0|idx|idx|i m ov u0|i m ov u0|i m ov u0|] eqn:Epc; auto.
  - destruct Hpc as (Hs & Ha & Hn). split; [assumption|]. split; [assumption|].
    intros E. rewrite (Hn E). symmetry. apply nthN_updN_other.
    destruct Hs as (_ & _ & Hs). specialize (Hs E). subst ov.
    destruct (ginv_head_free g HG (proj1 Ha)) as (r & _ & _ & Hnone). intro E'. subst j. congruence.
  - destruct Hpc as (Hs & Hr & Hn). split; [assumption|]. split; [assumption|].
    rewrite nthN_updN_other; [assumption|].
    assert (Hi : nthN (uown g) i None = Some t').
    { apply Hown. unfold owned_by, inflight. rewrite Epc. apply in_or_app. right. left. reflexivity. }
    intro E'. subst j. congruence.
Qed.

(* a successful head CAS does not disturb anybody whose indices keep their owner *)
Lemma frame_head g t' l w own' fr' :
  LInv g t' l -> (forall i, In i (owned_by l) -> nthN own' i None = Some t') -> LInv (upd_head g w own' fr') t' l.
Proof.
  intros (Hnd & Hown & Hpc) Hown'. unfold LInv. cbn [upd_head uown].
  split; [assumption|]. split; [assumption|].
  unfold PcInv, seen_ok, acq_ok in *. cbn [upd_head uhead updates ucap unext].
  destruct (upc_of l) as [|ov u0|ov u0|ov nx u0|idx|idx|i m ov u0|i m ov u0|i m ov u0|]; auto;
    repeat match goal with H : _ /\ _ |- _ => destruct H end; repeat split; auto; try lia; try (intros; lia); unfold rel_ok in *; tauto.
Qed.

Lemma inv_build g' ls t l' :
  GInv g' -> LInv g' t l' -> (forall t', t' <> t -> LInv g' t' (ls t')) -> Inv (g', upd_l ls t l').
Proof.
  intros HG Ht Ho. split; [exact HG|]. intros t'. cbn [fst snd].
  destruct (Nat.eq_dec t' t) as [->|Hne]; [rewrite upd_l_same; exact Ht|rewrite upd_l_other by assumption; auto].
Qed.

Lemma seen_now g : GInv g -> seen_ok g (uhead g) (updates g).
Proof. intros (_ & _ & _ & _ & _ & _ & _ & Haba & _). unfold seen_ok. repeat split; auto; lia. Qed.

(* acquire's loop head, entered with the current head word *)
Lemma dispatch_inv g ls t p e0 g' l' es :
  Inv (g, ls) -> inflight (ls t) = [] ->
  acq_dispatch g (ls t) p (uhead g) e0 = (g', l', es) -> Inv (g', upd_l ls t l').
Proof.
  intros [HG HL] Hif Hd. cbn [fst snd] in *. unfold acq_dispatch in Hd.
  pose proof (HL t) as (Hnd & Hown & _). unfold owned_by in Hnd, Hown. rewrite Hif in Hnd, Hown.
  destruct (N.leb_spec (ucap g) (hd_head (uhead g))) as [Hle|Hlt].
  { inversion Hd; subst. apply inv_build; auto. unfold LInv, owned_by, inflight; cbn. auto. }
  destruct (N.eqb_spec (hd_borrowed (uhead g)) LOCK_ACQUIRE) as [Hlk|Hnl].
  { inversion Hd; subst. apply inv_build; auto. unfold LInv, owned_by, inflight; cbn. auto. }
  inversion Hd; subst. apply inv_build; auto. unfold LInv, owned_by, inflight; cbn [set_u upc_of uheld PcInv].
  split; [assumption|]. split; [assumption|]. split; [apply seen_now; assumption|]. split; assumption.
Qed.

(* release's loop head, entered with the current head word, for an index the thread owns *)
Lemma rel_entry_ok g i t : GInv g -> nthN (uown g) i None = Some t -> seen_ok g (uhead g) (updates g) /\ rel_ok (uhead g).
Proof.
  intros HG Ho. split; [apply seen_now; assumption|].
  destruct (ginv_owned_facts g i t HG Ho) as (_ & _ & H1 & H2 & _). split; assumption.
Qed.

Lemma rel_borrowed_val m b : 1 <= b -> b <> LOCK_ACQUIRE ->
  exists b', rel_borrowed m b = Val b' /\
             ((m = MLockIfLast /\ b = 1 /\ b' = LOCK_ACQUIRE) \/ ((m = MDefault \/ b <> 1) /\ b' = b - 1)).
Proof.
  intros H1 H2. unfold rel_borrowed. destruct m.
  - destruct (N.eqb_spec b 0); [lia|]. eexists; split; [reflexivity|]. right. auto.
  - destruct (N.eqb_spec b 1); [eexists; split; [reflexivity|]; left; auto|].
    destruct (N.eqb_spec b 0); [lia|]. eexists; split; [reflexivity|]. right. auto.
Qed.

Theorem step_inv t c c' e :
  Inv c -> tag_window_ok (fst c) (snd c t) -> step1 ustep t c = Some (c', e) -> Inv c'.
Proof.
  destruct c as [g ls]. intros HI Hbt Hs. pose proof HI as [HG HL]. unfold step1 in Hs. cbn [fst snd] in *.
  destruct (ustep t g (ls t)) as [[[g' l'] e']|] eqn:Est; [|discriminate].
  inversion Hs; subst c' e; clear Hs.
  pose proof (HL t) as (HtND & HtOwn & HtPc).
  unfold ustep in Est. unfold tag_window_ok in Hbt. unfold owned_by, inflight in HtND, HtOwn.
  destruct (upc_of (ls t)) as [|ov u0|ov u0|ov nx u0|idx|idx|i m ov u0|i m ov u0|i m ov u0|] eqn:Epc;
    cbn [PcInv] in HtPc.
  - (* UIdle *)
    rewrite app_nil_r in HtND, HtOwn.
    destruct (uprog (ls t)) as [|o p] eqn:Eprog; [discriminate|].
    destruct o as [|m front| |].
    + (* UAcq *) inversion Est as [Hd]. eapply dispatch_inv; eauto. unfold inflight. now rewrite Epc.
    + (* URel *)
      destruct (if front then uheld (ls t) else rev (uheld (ls t))) as [|i r] eqn:Eh.
      * inversion Est; subst g' l' e'. apply inv_build; auto. unfold LInv, owned_by, inflight; cbn. rewrite app_nil_r. auto.
      * inversion Est; subst g' l' e'; clear Est.
        assert (Hperm : Permutation (uheld (ls t)) ((if front then tl (uheld (ls t)) else removelast (uheld (ls t))) ++ [i])).
        { destruct front.
          - rewrite Eh. cbn [tl]. apply Permutation_cons_append.
          - assert (E : uheld (ls t) = rev r ++ [i]) by (rewrite <- (rev_involutive (uheld (ls t))), Eh; reflexivity).
            rewrite E, removelast_last. apply Permutation_refl. }
        assert (Hi : nthN (uown g) i None = Some t).
        { apply HtOwn. eapply Permutation_in; [apply Permutation_sym; exact Hperm|]. apply in_or_app. right. left. reflexivity. }
        apply inv_build; auto. unfold LInv, owned_by, inflight; cbn [set_u upc_of uheld PcInv].
        split; [eapply Permutation_NoDup; eauto|].
        split; [intros j Hj; apply HtOwn; eapply Permutation_in; [apply Permutation_sym; exact Hperm|exact Hj]|].
        eapply rel_entry_ok; eauto.
    + inversion Est; subst g' l' e'. apply inv_build; auto. unfold LInv, owned_by, inflight; cbn. rewrite app_nil_r. auto.
    + inversion Est; subst g' l' e'. apply inv_build; auto. unfold LInv, owned_by, inflight; cbn. rewrite app_nil_r. auto.
  - (* AcqDist *) inversion Est; subst g' l' e'. apply inv_build; auto. unfold LInv, owned_by, inflight; cbn. auto.
  - (* AcqRead *)
    inversion Est; subst g' l' e'. apply inv_build; auto. unfold LInv, owned_by, inflight; cbn [set_u upc_of uheld PcInv].
    destruct HtPc as (Hs & Ha). do 4 (split; [assumption|]). intros _. reflexivity.
  - (* AcqCas *)
    destruct HtPc as (Hs & Ha & Hn). rewrite app_nil_r in HtND, HtOwn.
    destruct (N.eqb_spec (uhead g) ov) as [Eeq|Ene].
    + (* success *)
      inversion Est; subst g' l' e'; clear Est.
      pose proof HG as (Hc & Hw & Hln & Hlo & Hfp & Hnd & Hpart & Haba & Hb).
      destruct Hs as (Hs1 & Hs2 & Hs3).
      assert (Eu : u0 = updates g).
      { apply tag_window_eq; auto. rewrite <- Hs1, <- Haba. now rewrite Eeq. }
      specialize (Hn Eu). destruct Ha as (Hh & Hnl). rewrite <- Eeq in *.
      destruct (ginv_head_free g HG Hh) as (r & Er & Hr & Hnone).
      set (h := hd_head (uhead g)) in *.
      assert (Hnx : nx <= ucap g) by (rewrite Hn; eapply fpath_le; eauto).
      assert (Hbb : hd_borrowed (uhead g) + lenN (gfree g) = ucap g) by (destruct Hb as [[Hb1 _]|Hb]; [congruence|assumption]).
      assert (Hlr : lenN (gfree g) = lenN r + 1) by (rewrite Er; unfold lenN; cbn [length]; lia).
      destruct (hd_from_value nx (aba_succ (hd_aba (uhead g))) (hd_borrowed (uhead g) + 1)) as (F1 & F2 & F3 & F4);
        [unfold P24; lia|apply aba_succ_lt|unfold P24; lia|].
      assert (Hhr : ~ In h r) by (rewrite Er in Hnd; inversion Hnd; assumption).
      apply inv_build.
      * unfold GInv. cbn [upd_head ucap uhead unext uown gfree updates]. rewrite F1, F2, F3, Er. cbn [tl].
        split; [assumption|]. split; [assumption|]. split; [assumption|].
        split; [rewrite lenN_updN; assumption|].
        split; [rewrite Hn; assumption|].
        split; [rewrite Er in Hnd; inversion Hnd; assumption|].
        split.
        { intros j Hj. destruct (N.eq_dec j h) as [->|Hjh].
          - rewrite nthN_updN_same by lia. split; [intro; contradiction|discriminate].
          - rewrite nthN_updN_other by auto. rewrite <- (Hpart j Hj), Er. cbn [In]. intuition congruence. }
        split; [apply aba_succ_mod; assumption|].
        right. lia.
      * unfold LInv, owned_by, inflight; cbn [set_u upc_of uheld PcInv upd_head uown].
        split; [apply nodup_app_single; split; [assumption|]; intro Hin; apply HtOwn in Hin; congruence|].
        split; [|exact I].
        intros j Hj. apply in_app_or in Hj. destruct Hj as [Hj|[<-|[]]].
        -- rewrite nthN_updN_other; [auto|]. intro E. subst j. apply HtOwn in Hj. congruence.
        -- apply nthN_updN_same. lia.
      * intros t' Hne. apply frame_head; [apply HL|].
        intros j Hj. destruct (HL t') as (_ & Ho' & _). specialize (Ho' j Hj).
        rewrite nthN_updN_other; [assumption|]. intro E. subst j. congruence.
    + (* failure: loop with the value read *)
      inversion Est as [Hd]. eapply dispatch_inv; eauto. unfold inflight. now rewrite Epc.
  - (* AcqWDist *) inversion Est; subst g' l' e'. apply inv_build; auto. unfold LInv, owned_by, inflight; cbn. auto.
  - (* AcqWrite *)
    inversion Est; subst g' l' e'; clear Est.
    assert (Hi : nthN (uown g) idx None = Some t) by (apply HtOwn; apply in_or_app; right; left; reflexivity).
    destruct (ginv_owned_facts g idx t HG Hi) as (Hlt & Hni & _).
    pose proof HG as (Hc & Hw & Hln & Hlo & Hfp & Hnd & Hpart & Haba & Hb).
    apply inv_build.
    + unfold GInv. cbn [upd_next ucap uhead unext uown gfree updates]. rewrite lenN_updN.
      repeat (split; [assumption|]). split; [apply fpath_upd_other; assumption|]. auto.
    + unfold LInv, owned_by, inflight; cbn [set_u upc_of uheld PcInv upd_next uown]. rewrite app_nil_r. auto.
    + intros t' Hne. eapply frame_next; eauto.
  - (* RelDist *) inversion Est; subst g' l' e'. apply inv_build; auto. unfold LInv, owned_by, inflight; cbn. auto.
  - (* RelWrite *)
    destruct HtPc as (Hs & Hr).
    destruct (rel_borrowed_val m (hd_borrowed ov) (proj1 Hr) (proj2 Hr)) as (b' & Eb & _). rewrite Eb in Est.
    inversion Est; subst g' l' e'; clear Est.
    assert (Hi : nthN (uown g) i None = Some t) by (apply HtOwn; apply in_or_app; right; left; reflexivity).
    destruct (ginv_owned_facts g i t HG Hi) as (Hlt & Hni & _).
    pose proof HG as (Hc & Hw & Hln & Hlo & Hfp & Hnd & Hpart & Haba & Hb).
    apply inv_build.
    + unfold GInv. cbn [upd_next ucap uhead unext uown gfree updates]. rewrite lenN_updN.
      repeat (split; [assumption|]). split; [apply fpath_upd_other; assumption|]. auto.
    + unfold LInv, owned_by, inflight; cbn [set_u upc_of uheld PcInv upd_next uown unext].
      split; [assumption|]. split; [assumption|]. unfold seen_ok in *. cbn [upd_next updates uhead].
      split; [assumption|]. split; [assumption|]. apply nthN_updN_same. lia.
    + intros t' Hne. eapply frame_next; eauto.
  - (* RelCas *)
    destruct HtPc as (Hs & Hr & Hn).
    destruct (rel_borrowed_val m (hd_borrowed ov) (proj1 Hr) (proj2 Hr)) as (b' & Eb & Hb'). rewrite Eb in Est.
    assert (Hi : nthN (uown g) i None = Some t) by (apply HtOwn; apply in_or_app; right; left; reflexivity).
    destruct (N.eqb_spec (uhead g) ov) as [Eeq|Ene].
    + inversion Est; subst g' l' e'; clear Est.
      pose proof HG as (Hc & Hw & Hln & Hlo & Hfp & Hnd & Hpart & Haba & Hb).
      destruct (ginv_owned_facts g i t HG Hi) as (Hlt & Hni & Hb1 & Hbl & Hbb).
      rewrite <- Eeq in *.
      assert (Hb'lt : b' < P24) by (unfold P24, LOCK_ACQUIRE in *; destruct Hb' as [(_ & _ & ->)|(_ & ->)]; lia).
      destruct (hd_from_value i (aba_succ (hd_aba (uhead g))) b') as (F1 & F2 & F3 & F4);
        [unfold P24; lia|apply aba_succ_lt|assumption|].
      apply nodup_app_single in HtND. destruct HtND as (HtND & Hnih).
      apply inv_build.
      * unfold GInv. cbn [upd_head ucap uhead unext uown gfree updates]. rewrite F1, F2, F3.
        split; [assumption|]. split; [assumption|]. split; [assumption|].
        split; [rewrite lenN_updN; assumption|].
        split; [cbn [fpath]; rewrite Hn; auto|].
        split; [constructor; assumption|].
        split.
        { intros j Hj. destruct (N.eq_dec j i) as [->|Hji].
          - rewrite nthN_updN_same by lia. split; auto. intros _. left. reflexivity.
          - rewrite nthN_updN_other by auto. rewrite <- (Hpart j Hj). cbn [In]. intuition congruence. }
        split; [apply aba_succ_mod; assumption|].
        assert (Hl : lenN (i :: gfree g) = lenN (gfree g) + 1) by (unfold lenN; cbn [length]; lia).
        rewrite Hl. destruct Hb' as [(_ & E1 & ->)|(_ & ->)]; [left; split; [reflexivity|lia]|right; lia].
      * unfold LInv, owned_by, inflight; cbn [set_u upc_of uheld PcInv upd_head uown]. rewrite app_nil_r.
        split; [assumption|]. split; [|exact I].
        intros j Hj. rewrite nthN_updN_other; [apply HtOwn; apply in_or_app; left; assumption|].
        intro E. subst j. contradiction.
      * intros t' Hne. apply frame_head; [apply HL|].
        intros j Hj. destruct (HL t') as (_ & Ho' & _). specialize (Ho' j Hj).
        rewrite nthN_updN_other; [assumption|]. intro E. subst j. congruence.
    + inversion Est; subst g' l' e'; clear Est.
      apply inv_build; auto. unfold LInv, owned_by, inflight; cbn [set_u upc_of uheld PcInv].
      split; [assumption|]. split; [assumption|]. eapply rel_entry_ok; eauto.
  - discriminate.
Qed.

(* ---------------- every configuration reached through tag-bounded states ---------------- *)
Lemma reach_via_P {G L E} (step : nat -> G -> L -> option (G * L * list E)) P init c :
  reach_via step P init c -> P c.
Proof. induction 1; assumption. Qed.

Theorem uis_inv_reach c dist progs cfg0 :
  c < 16777215 -> reach_via ustep bounded_tag (uinit c dist progs) cfg0 -> Inv cfg0.
Proof.
  intros Hc Hr. induction Hr as [H0|t c0 c' e Hr IH Hs HP].
  - apply inv_init. assumption.
  - eapply step_inv; eauto. apply (reach_via_P _ _ _ _ Hr).
Qed.

Lemma ustep_cap t g l g' l' e : ustep t g l = Some (g', l', e) -> ucap g' = ucap g.
Proof.
  unfold ustep, acq_dispatch. intros H.
  repeat match type of H with
  | context [match ?x with _ => _ end] => destruct x
  end; inversion H; subst; reflexivity.
Qed.

Lemma reach_cap c dist progs cfg0 :
  reach_via ustep bounded_tag (uinit c dist progs) cfg0 -> ucap (fst cfg0) = c.
Proof.
  induction 1 as [H0|t [g ls] c' e Hr IH Hs HP]; [reflexivity|].
  unfold step1 in Hs. cbn [fst snd] in *.
  destruct (ustep t g (ls t)) as [[[g' l'] e']|] eqn:Est; [|discriminate].
  inversion Hs; subst c' e. cbn [fst]. rewrite (ustep_cap _ _ _ _ _ _ Est). exact IH.
Qed.

(* the free list from head is a duplicate-free path through next ending at capacity; it and
   the owned indices partition [0, capacity); the borrowed field counts the owned ones (or is
   the lock marker with nothing owned) *)
Theorem uis_structure c dist progs g ls :
  c < 16777215 -> reach_via ustep bounded_tag (uinit c dist progs) (g, ls) ->
  fpath (unext g) c (hd_head (uhead g)) (gfree g) /\ NoDup (gfree g) /\
  (forall i, i < c -> (In i (gfree g) <-> nthN (uown g) i None = None)) /\
  ((hd_borrowed (uhead g) = LOCK_ACQUIRE /\ lenN (gfree g) = c) \/ hd_borrowed (uhead g) + lenN (gfree g) = c) /\
  hd_aba (uhead g) = updates g mod 65536 /\ uhead g < P64.
Proof.
  intros Hc Hr. pose proof (uis_inv_reach _ _ _ _ Hc Hr) as [HG _]. pose proof (reach_cap _ _ _ _ Hr) as Ec.
  cbn [fst] in *. destruct HG as (_ & Hw & _ & _ & Hfp & Hnd & Hpart & Haba & Hb). rewrite Ec in *. auto 10.
Qed.

(* no index is owned twice: neither by two threads nor twice by one; every owned index is
   below the capacity and is not on the free list *)
Theorem uis_exclusive c dist progs g ls t t' i :
  c < 16777215 -> reach_via ustep bounded_tag (uinit c dist progs) (g, ls) ->
  In i (owned_by (ls t)) ->
  i < c /\ ~ In i (gfree g) /\ NoDup (owned_by (ls t)) /\ (In i (owned_by (ls t')) -> t = t').
Proof.
  intros Hc Hr Hi. pose proof (uis_inv_reach _ _ _ _ Hc Hr) as [HG HL]. pose proof (reach_cap _ _ _ _ Hr) as Ec.
  cbn [fst snd] in *. destruct (HL t) as (Hnd & Hown & _). pose proof (Hown i Hi) as Ho.
  destruct (ginv_owned_facts g i t HG Ho) as (Hlt & Hni & _). rewrite Ec in Hlt.
  repeat split; auto. intros Hi'. destruct (HL t') as (_ & Hown' & _). specialize (Hown' i Hi'). congruence.
Qed.

(* number of owned indices = borrowed field (unless locked) *)
Theorem uis_borrowed_counts c dist progs g ls :
  c < 16777215 -> reach_via ustep bounded_tag (uinit c dist progs) (g, ls) ->
  hd_borrowed (uhead g) <> LOCK_ACQUIRE -> hd_borrowed (uhead g) = c - lenN (gfree g).
Proof.
  intros Hc Hr Hnl. destruct (uis_structure _ _ _ _ _ Hc Hr) as (_ & _ & _ & [[H _]|H] & _); [congruence|lia].
Qed.

(* ---------------- where return codes come from (facts about the step function alone) ---------------- *)
Ltac ret_cases H Hin :=
  unfold ustep, acq_dispatch in H;
  repeat match type of H with
  | context [match ?x with _ => _ end] => let E := fresh "E" in destruct x eqn:E
  end; inversion H; subst; clear H; cbn [In] in Hin;
  repeat match goal with Hin : _ \/ _ |- _ => destruct Hin as [Hin|Hin] | Hin : False |- _ => destruct Hin end;
  try discriminate.

Lemma rc_inj tag p tag' p' : tag < 8 -> tag' < 8 -> rc tag p = rc tag' p' -> tag = tag' /\ p = p'.
Proof. unfold rc. intros. lia. Qed.

Lemma ret_out_of_indices_source t g l g' l' es :
  ustep t g l = Some (g', l', es) -> In (ERet RC_OUT_OF_INDICES) es ->
  ucap g <= hd_head (uhead g) /\ (upc_of l = UIdle \/ exists ov nx u0, upc_of l = AcqCas ov nx u0).
Proof.
  intros H Hin. ret_cases H Hin;
    try (injection Hin as Hin; unfold rel_state, rc_is_locked, RC_OUT_OF_INDICES, rc_ok, RC_UNLOCKED, RC_LOCKED, RC_IS_LOCKED, rc_borrowed, RC_PANIC, rc in Hin;
         repeat match type of Hin with context [match ?b with _ => _ end] => destruct b end; lia);
    (split; [apply N.leb_le; assumption|eauto 6]).
Qed.

Lemma ret_is_locked_source t g l g' l' es :
  ustep t g l = Some (g', l', es) -> In (ERet RC_IS_LOCKED) es -> hd_borrowed (uhead g) = LOCK_ACQUIRE.
Proof.
  intros H Hin. ret_cases H Hin;
    try (injection Hin as Hin; unfold rel_state, rc_is_locked, RC_OUT_OF_INDICES, rc_ok, RC_UNLOCKED, RC_LOCKED, RC_IS_LOCKED, rc_borrowed, RC_PANIC, rc, bool_code in Hin;
         repeat match type of Hin with context [match ?b with _ => _ end] => destruct b end; lia);
    apply N.eqb_eq; assumption.
Qed.

Lemma ret_ok_source t g l g' l' es i :
  ustep t g l = Some (g', l', es) -> In (ERet (rc_ok i)) es -> upc_of l = AcqWrite i.
Proof.
  intros H Hin. ret_cases H Hin;
    try (injection Hin as Hin; unfold rel_state, rc_is_locked, RC_OUT_OF_INDICES, rc_ok, RC_UNLOCKED, RC_LOCKED, RC_IS_LOCKED, rc_borrowed, RC_PANIC, rc, bool_code in Hin;
         repeat match type of Hin with context [match ?b with _ => _ end] => destruct b end; try lia).
  assert (i = idx) by lia. subst. reflexivity.
Qed.

(* acquire fails with OutOfIndices only at an instant at which every index is owned *)
Theorem uis_out_of_indices_only_when_all_owned c dist progs g ls t cfg' es :
  c < 16777215 -> reach_via ustep bounded_tag (uinit c dist progs) (g, ls) ->
  step1 ustep t (g, ls) = Some (cfg', es) -> In (ERet RC_OUT_OF_INDICES) es ->
  gfree g = [] /\ forall i, i < c -> exists t', nthN (uown g) i None = Some t'.
Proof.
  intros Hc Hr Hs Hin. pose proof (uis_inv_reach _ _ _ _ Hc Hr) as [HG HL]. pose proof (reach_cap _ _ _ _ Hr) as Ec.
  unfold step1 in Hs. cbn [fst snd] in *.
  destruct (ustep t g (ls t)) as [[[g' l'] e']|] eqn:Est; [|discriminate]. inversion Hs; subst cfg' es.
  destruct (ret_out_of_indices_source _ _ _ _ _ _ Est Hin) as (Hfull & _).
  destruct HG as (_ & _ & _ & _ & Hfp & _ & Hpart & _). rewrite Ec in *.
  assert (Hnil : gfree g = []).
  { destruct (gfree g) as [|y r]; [reflexivity|]. cbn [fpath] in Hfp. lia. }
  split; [assumption|]. intros i Hi. destruct (nthN (uown g) i None) as [t'|] eqn:E; [eauto|].
  apply (Hpart i Hi) in E. rewrite Hnil in E. destruct E.
Qed.

(* ---------------- locking ---------------- *)
Definition is_locked (g : ugst) : Prop := hd_borrowed (uhead g) = LOCK_ACQUIRE.

(* a locked set has no owner and nobody inside acquire past its CAS or inside release *)
Lemma locked_nobody_owns g ls t : Inv (g, ls) -> is_locked g -> owned_by (ls t) = [].
Proof.
  intros [HG HL] Hlk. cbn [fst snd] in *. destruct (HL t) as (_ & Hown & _).
  destruct (owned_by (ls t)) as [|i r]; [reflexivity|].
  assert (Ho : nthN (uown g) i None = Some t) by (apply Hown; left; reflexivity).
  destruct (ginv_owned_facts g i t HG Ho) as (_ & _ & _ & Hnl & _). contradiction.
Qed.

(* the lock is permanent, and while it holds the head word never changes *)
Theorem locked_stable t c c' e :
  Inv c -> is_locked (fst c) -> step1 ustep t c = Some (c', e) -> uhead (fst c') = uhead (fst c).
Proof.
  destruct c as [g ls]. intros HI Hlk Hs. pose proof HI as [HG HL]. unfold step1 in Hs. cbn [fst snd] in *.
  destruct (ustep t g (ls t)) as [[[g' l'] e']|] eqn:Est; [|discriminate]. inversion Hs; subst c' e; clear Hs. cbn [fst].
  pose proof (locked_nobody_owns g ls t HI Hlk) as Hno.
  destruct (HL t) as (_ & _ & Hpc). unfold is_locked in Hlk.
  unfold ustep, acq_dispatch in Est. unfold owned_by, inflight in Hno.
  destruct (upc_of (ls t)) as [|ov u0|ov u0|ov nx u0|idx|idx|i m ov u0|i m ov u0|i m ov u0|] eqn:Epc; cbn [PcInv] in Hpc;
    try (apply app_eq_nil in Hno; destruct Hno as [_ Hno]; discriminate).
  - repeat match type of Est with context [match ?x with _ => _ end] => destruct x end; inversion Est; subst; reflexivity.
  - inversion Est; subst; reflexivity.
  - inversion Est; subst; reflexivity.
  - destruct Hpc as (_ & (_ & Hnl) & _). destruct (N.eqb_spec (uhead g) ov) as [E|E]; [subst ov; contradiction|].
    repeat match type of Est with context [match ?x with _ => _ end] => destruct x end; inversion Est; subst; reflexivity.
Qed.

(* the only step that locks the set is the successful CAS of a release(LockIfLastIndex) that
   saw borrowed = 1 *)
Theorem lock_origin t c c' e :
  Inv c -> ~ is_locked (fst c) -> step1 ustep t c = Some (c', e) -> is_locked (fst c') ->
  exists i u0, upc_of (snd c t) = RelCas i MLockIfLast (uhead (fst c)) u0 /\ hd_borrowed (uhead (fst c)) = 1.
Proof.
  destruct c as [g ls]. intros HI Hnl Hs Hlk. pose proof HI as [HG HL]. unfold step1 in Hs. cbn [fst snd] in *.
  destruct (ustep t g (ls t)) as [[[g' l'] e']|] eqn:Est; [|discriminate]. inversion Hs; subst c' e; clear Hs. cbn [fst] in *.
  destruct (HL t) as (_ & Hown & Hpc). unfold is_locked in *.
  pose proof HG as (Hc & Hw & Hln & Hlo & Hfp & Hnd & Hpart & Haba & Hb).
  unfold ustep, acq_dispatch in Est.
  destruct (upc_of (ls t)) as [|ov u0|ov u0|ov nx u0|idx|idx|i m ov u0|i m ov u0|i m ov u0|] eqn:Epc; cbn [PcInv] in Hpc.
  - repeat match type of Est with context [match ?x with _ => _ end] => destruct x end; inversion Est; subst; contradiction.
  - inversion Est; subst; contradiction.
  - inversion Est; subst; contradiction.
  - destruct Hpc as (_ & (Hh & Hnl') & _). destruct (N.eqb_spec (uhead g) ov) as [E|E].
    + inversion Est; subst g' l' e'; clear Est. cbn [upd_head uhead] in Hlk. subst ov.
      assert (Hbb : hd_borrowed (uhead g) + lenN (gfree g) = ucap g) by (destruct Hb as [[Hb1 _]|Hb]; [congruence|assumption]).
      destruct (fpath_head _ _ _ _ Hfp Hh) as (r & Er & Hr).
      assert (Hlr : lenN (gfree g) = lenN r + 1) by (rewrite Er; unfold lenN; cbn [length]; lia).
      exfalso. revert Hlk.
      rewrite hd_borrowed_arith, hd_value_arith by apply aba_succ_lt.
      pose proof (aba_succ_lt (hd_aba (uhead g))) as Hal.
      unfold LOCK_ACQUIRE, P16, P24, P40 in *.
      assert (Hx : (hd_borrowed (uhead g) + 1) mod 16777216 = hd_borrowed (uhead g) + 1) by (apply N.mod_small; lia).
      rewrite Hx.
      generalize dependent (aba_succ (hd_aba (uhead g))). generalize (nx mod 16777216).
      intros X Y HY Hlk. lia.
    + repeat match type of Est with context [match ?x with _ => _ end] => destruct x end; inversion Est; subst; contradiction.
  - inversion Est; subst; contradiction.
  - inversion Est; subst; contradiction.
  - inversion Est; subst; contradiction.
  - destruct (rel_borrowed m (hd_borrowed ov)); inversion Est; subst; contradiction.
  - destruct Hpc as (Hs & Hr & Hn).
    destruct (rel_borrowed_val m (hd_borrowed ov) (proj1 Hr) (proj2 Hr)) as (b' & Eb & Hb'). rewrite Eb in Est.
    destruct (N.eqb_spec (uhead g) ov) as [E|E].
    + inversion Est; subst g' l' e'; clear Est. cbn [upd_head uhead] in Hlk. subst ov.
      assert (Hi : nthN (uown g) i None = Some t).
      { apply Hown. unfold owned_by, inflight. rewrite Epc. apply in_or_app. right. left. reflexivity. }
      destruct (ginv_owned_facts g i t HG Hi) as (Hlt & Hni & Hb1 & Hbl & Hbb).
      assert (Hb'lt : b' < P24) by (unfold P24, LOCK_ACQUIRE in *; destruct Hb' as [(_ & _ & ->)|(_ & ->)]; lia).
      destruct (hd_from_value i (aba_succ (hd_aba (uhead g))) b') as (_ & _ & F3 & _); [unfold P24; lia|apply aba_succ_lt|assumption|].
      rewrite F3 in Hlk. destruct Hb' as [(-> & E1 & _)|(_ & ->)].
      * exists i, u0. split; [reflexivity|assumption].
      * exfalso. unfold LOCK_ACQUIRE in *. lia.
    + inversion Est; subst; contradiction.
  - discriminate.
Qed.

(* a locked set never hands out an index and answers IsLocked; IsLocked is answered only by a locked set *)
Theorem locked_no_acquire t c c' e i :
  Inv c -> is_locked (fst c) -> step1 ustep t c = Some (c', e) -> ~ In (ERet (rc_ok i)) e.
Proof.
  destruct c as [g ls]. intros HI Hlk Hs Hin. unfold step1 in Hs. cbn [fst snd] in *.
  destruct (ustep t g (ls t)) as [[[g' l'] e']|] eqn:Est; [|discriminate]. inversion Hs; subst c' e; clear Hs.
  pose proof (ret_ok_source _ _ _ _ _ _ _ Est Hin) as Epc.
  pose proof (locked_nobody_owns g ls t HI Hlk) as Hno. unfold owned_by, inflight in Hno. rewrite Epc in Hno.
  apply app_eq_nil in Hno. destruct Hno as [_ Hno]. discriminate.
Qed.

Theorem is_locked_only_when_locked t c c' e :
  step1 ustep t c = Some (c', e) -> In (ERet RC_IS_LOCKED) e -> is_locked (fst c).
Proof.
  destruct c as [g ls]. intros Hs Hin. unfold step1 in Hs. cbn [fst snd] in *.
  destruct (ustep t g (ls t)) as [[[g' l'] e']|] eqn:Est; [|discriminate]. inversion Hs; subst c' e; clear Hs.
  eapply ret_is_locked_source; eauto.
Qed.

(* no arithmetic-overflow panic in release: the borrowed count a release sees is >= 1 *)
Lemma uis_no_panic_cfg c dist progs cfg0 :
  c < 16777215 -> reach_via ustep bounded_tag (uinit c dist progs) cfg0 -> forall t, upc_of (snd cfg0 t) <> UDead.
Proof.
  intros Hc Hr. induction Hr as [H0|t0 c0 c' e Hr IH Hs HP]; intros t.
  - cbn. discriminate.
  - destruct c0 as [g0 ls0]. pose proof (uis_inv_reach _ _ _ _ Hc Hr) as [HG HL]. cbn [fst snd] in *.
    unfold step1 in Hs. cbn [fst snd] in Hs.
    destruct (ustep t0 g0 (ls0 t0)) as [[[g' l'] e']|] eqn:Est; [|discriminate]. inversion Hs; subst c' e; clear Hs.
    cbn [snd].
    destruct (Nat.eq_dec t t0) as [->|Hne]; [rewrite upd_l_same|rewrite upd_l_other by assumption; apply IH].
    destruct (HL t0) as (_ & _ & Hpc). unfold ustep, acq_dispatch in Est.
    destruct (upc_of (ls0 t0)) as [|ov u0|ov u0|ov nx u0|idx|idx|i m ov u0|i m ov u0|i m ov u0|] eqn:Epc; cbn [PcInv] in Hpc;
      try (repeat match type of Est with context [match ?x with _ => _ end] => destruct x end; inversion Est; subst; cbn; discriminate).
    destruct Hpc as (_ & Hr').
    destruct (rel_borrowed_val m (hd_borrowed ov) (proj1 Hr') (proj2 Hr')) as (b' & Eb & _). rewrite Eb in Est.
    inversion Est; subst; cbn; discriminate.
Qed.

Theorem uis_no_panic c dist progs g ls t :
  c < 16777215 -> reach_via ustep bounded_tag (uinit c dist progs) (g, ls) -> upc_of (ls t) <> UDead.
Proof. intros Hc Hr. exact (uis_no_panic_cfg _ _ _ _ Hc Hr t). Qed.

(* ---------------- a released index is acquirable again ---------------- *)
(* the successful CAS of release pushes the index on the free list: it is the new head *)
Theorem uis_release_pushes t g ls c' e i m ov u0 :
  Inv (g, ls) -> upc_of (ls t) = RelCas i m ov u0 -> uhead g = ov -> step1 ustep t (g, ls) = Some (c', e) ->
  gfree (fst c') = i :: gfree g /\ hd_head (uhead (fst c')) = i /\ nthN (uown (fst c')) i None = None /\
  ~ In i (owned_by (snd c' t)).
Proof.
  intros HI Epc Eov Hs. pose proof HI as [HG HL]. cbn [fst snd] in *.
  unfold step1 in Hs. cbn [fst snd] in Hs. unfold ustep in Hs. rewrite Epc in Hs.
  destruct (HL t) as (HtND & HtOwn & HtPc). rewrite Epc in HtPc. cbn [PcInv] in HtPc. destruct HtPc as (Hs' & Hr & Hn).
  destruct (rel_borrowed_val m (hd_borrowed ov) (proj1 Hr) (proj2 Hr)) as (b' & Eb & Hb'). rewrite Eb in Hs.
  destruct (N.eqb_spec (uhead g) ov) as [_|Ene]; [|contradiction]. inversion Hs; subst c' e; clear Hs.
  cbn [fst snd upd_head gfree uhead uown].
  assert (Hi : nthN (uown g) i None = Some t).
  { apply HtOwn. unfold owned_by, inflight. rewrite Epc. apply in_or_app. right. left. reflexivity. }
  destruct (ginv_owned_facts g i t HG Hi) as (Hlt & Hni & Hb1 & Hbl & Hbb).
  destruct HG as (Hc & Hw & Hln & Hlo & _).
  assert (Hb'lt : b' < P24) by (subst ov; unfold P24, LOCK_ACQUIRE in *; destruct Hb' as [(_ & _ & ->)|(_ & ->)]; lia).
  destruct (hd_from_value i (aba_succ (hd_aba ov)) b') as (F1 & _); [unfold P24; lia|apply aba_succ_lt|assumption|].
  split; [reflexivity|]. split; [assumption|]. split; [apply nthN_updN_same; lia|].
  rewrite upd_l_same. unfold owned_by, inflight in *. rewrite Epc in HtND. cbn [set_u upc_of uheld]. rewrite app_nil_r.
  apply nodup_app_single in HtND. apply HtND.
Qed.

(* the successful CAS of acquire pops the head of the free list: that is the index handed out *)
Theorem uis_acquire_pops t g ls c' e ov nx u0 :
  Inv (g, ls) -> tag_window_ok g (ls t) -> upc_of (ls t) = AcqCas ov nx u0 -> uhead g = ov ->
  step1 ustep t (g, ls) = Some (c', e) ->
  exists h, gfree g = h :: gfree (fst c') /\ upc_of (snd c' t) = AcqWDist h /\ nthN (uown (fst c')) h None = Some t.
Proof.
  intros HI Hbt Epc Eov Hs. pose proof HI as [HG HL]. cbn [fst snd] in *.
  unfold step1 in Hs. cbn [fst snd] in Hs. unfold ustep in Hs. rewrite Epc in Hs.
  destruct (HL t) as (_ & _ & HtPc). rewrite Epc in HtPc. cbn [PcInv] in HtPc. destruct HtPc as (Hs' & (Hh & Hnl) & Hn).
  destruct (N.eqb_spec (uhead g) ov) as [_|Ene]; [|contradiction]. inversion Hs; subst c' e; clear Hs.
  cbn [fst snd upd_head gfree uown]. rewrite upd_l_same. cbn [set_u upc_of].
  subst ov. destruct (ginv_head_free g HG Hh) as (r & Er & _ & _).
  exists (hd_head (uhead g)). rewrite Er. cbn [tl]. split; [reflexivity|]. split; [reflexivity|].
  destruct HG as (_ & _ & _ & Hlo & _). apply nthN_updN_same. lia.
Qed.

(* ---------------- building reach_via witnesses by computation ---------------- *)
Definition tag_ok_b (g : ugst) (l : ulst) : bool :=
  match upc_of l with
  | AcqDist _ u0 | AcqRead _ u0 | AcqCas _ _ u0 | RelDist _ _ _ u0 | RelWrite _ _ _ u0 | RelCas _ _ _ u0 => N.ltb (updates g - u0) 65536
  | _ => true
  end.
Definition quiet_above (nt : nat) (c : cfg ugst ulst) : Prop :=
  forall t, (nt <= t)%nat -> upc_of (snd c t) = UIdle /\ uprog (snd c t) = [].
Definition bounded_tag_b (nt : nat) (c : cfg ugst ulst) : bool :=
  forallb (fun t => tag_ok_b (fst c) (snd c t)) (seq 0 nt).

Lemma bounded_tag_b_ok nt c : quiet_above nt c -> bounded_tag_b nt c = true -> bounded_tag c.
Proof.
  intros Hq Hb t. destruct (Nat.lt_ge_cases t nt) as [Hlt|Hge].
  - unfold bounded_tag_b in Hb. rewrite forallb_forall in Hb. specialize (Hb t).
    assert (Hin : In t (seq 0 nt)) by (apply in_seq; lia). specialize (Hb Hin).
    unfold tag_ok_b in Hb. unfold tag_window_ok. destruct (upc_of (snd c t)); auto; apply N.ltb_lt; exact Hb.
  - destruct (Hq t Hge) as [E _]. unfold tag_window_ok. rewrite E. exact I.
Qed.

Lemma quiet_step nt t c c' e : quiet_above nt c -> step1 ustep t c = Some (c', e) -> quiet_above nt c'.
Proof.
  destruct c as [g ls]. intros Hq Hs. unfold step1 in Hs. cbn [fst snd] in *.
  destruct (ustep t g (ls t)) as [[[g' l'] e']|] eqn:Est; [|discriminate]. inversion Hs; subst c' e; clear Hs.
  intros t' Ht'. cbn [snd]. destruct (Nat.eq_dec t' t) as [->|Hne]; [|rewrite upd_l_other by assumption; apply Hq; assumption].
  exfalso. destruct (Hq t Ht') as [E1 E2]. cbn [snd] in *. unfold ustep in Est. rewrite E1, E2 in Est. discriminate.
Qed.

Fixpoint run_chk (nt : nat) (s : list nat) (c : cfg ugst ulst) : option (cfg ugst ulst) :=
  match s with
  | [] => Some c
  | t :: s' =>
    match step1 ustep t c with
    | None => None
    | Some (c', _) => if bounded_tag_b nt c' then run_chk nt s' c' else None
    end
  end.

Lemma run_chk_reach nt init s c c' :
  reach_via ustep bounded_tag init c -> quiet_above nt c -> run_chk nt s c = Some c' ->
  reach_via ustep bounded_tag init c' /\ quiet_above nt c'.
Proof.
  revert c; induction s as [|t s IH]; intros c Hr Hq H; cbn [run_chk] in H.
  - inversion H; subst; auto.
  - destruct (step1 ustep t c) as [[c1 e]|] eqn:Est; [|discriminate].
    destruct (bounded_tag_b nt c1) eqn:Eb; [|discriminate].
    pose proof (quiet_step _ _ _ _ _ Hq Est) as Hq1.
    apply (IH c1); auto. eapply rv_step; eauto. eapply bounded_tag_b_ok; eauto.
Qed.

(* The statement "a pending plain read and a pending plain write never address the same next
   cell" is FALSE: thread 0 has loaded the head word (free-list head 0) and is about to read
   next[0] when thread 1 acquires index 0 and is about to write next[0] := capacity + 1.  Both
   plain accesses are enabled in the same state of a sequentially consistent execution: a data
   race on the UnsafeCell<u32>.  The value thread 0 reads is discarded (its CAS fails: the
   head word changed). *)
Definition specread_progs (t : nat) : list uop :=
  match t with O => [UAcq] | S O => [UAcq] | _ => [] end.
Definition specread_sched : list nat := [0;0; 1;1;1;1;1]%nat.
Example uis_no_cell_conflict_refuted :
  let c := fst (run ustep specread_sched (uinit 2 32 specread_progs)) in
  reachable ustep (uinit 2 32 specread_progs) c /\
  upc_of (snd c 0%nat) = AcqRead 0 0 /\ upc_of (snd c 1%nat) = AcqWrite 0 /\ hd_head 0 = 0.
Proof. cbv zeta. split; [exists specread_sched; reflexivity|]. vm_compute. auto. Qed.
