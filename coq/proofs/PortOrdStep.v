(* Every operation preserves the order invariant; c01_order_once for every reachable world. *)
From V Require Import model.Base model.Conn model.Port proofs.ListLemmas proofs.ConnProofs proofs.PortProofs proofs.PortView proofs.PortInv
  proofs.PortInvPub proofs.PortInvSub proofs.PortInvLife proofs.PortInvStep proofs.PortOrd proofs.PortOrdSub proofs.PortOrdPub.
From Coq Require Import Lia.
Local Open Scope nat_scope.

Lemma pub_create_ord w l retry h w' r : InvR w -> Ord w -> pub_create w l retry h = Val (w', r) -> Ord w'.
Proof.
  intros IR O Hv. pose proof IR as (I & RP & RS & TB). unfold pub_create in Hv. cbn zeta in Hv.
  destruct (reg_add (w_preg w) {| pd_id := length (w_pubs w); pd_n := required_samples (w_cfg w) l |}) as [[reg slot]|] eqn:Er;
    [|inversion Hv; subst; exact O].
  set (p := length (w_pubs w)) in *.
  match type of Hv with context [w_set_pubs w (w_pubs w ++ [?x0])] => set (x := x0) in * end.
  set (w1 := w_set_pubs w (w_pubs w ++ [x])) in *.
  assert (I1 : Inv w1) by (apply (Inv_add_pub _ w x I); reflexivity).
  assert (Gn : getp w1 p = x).
  { unfold getp, w1, p. cbn [w_pubs w_set_pubs]. rewrite app_nth2 by lia. now rewrite Nat.sub_diag. }
  assert (Hp1 : pact w1 p) by (unfold pact; rewrite Gn; reflexivity).
  destruct (pub_force_update w1 p) as [w2|] eqn:E2; [|discriminate]. cbn [rbind] in Hv. inversion Hv; subst w' r. clear Hv.
  assert (RS1 : RegS w1) by exact RS.
  assert (O1 : Ord w1) by (eapply Ord_neutral; [exact O|apply N_add_pub; reflexivity]).
  assert (Hsn : sn_slots (p_snap (getp w1 p)) = r_slots (w_sreg w1)) by (rewrite Gn; reflexivity).
  pose proof (pub_force_update_ord _ w1 p w2 I1 RS1 Hp1 Hsn O1 E2) as O2.
  eapply Ord_neutral; [exact O2|apply N_same; reflexivity].
Qed.

Lemma sub_create_ord w buf hreq w' r : InvR w -> Ord w -> sub_create w buf hreq = Val (w', r) -> Ord w'.
Proof.
  intros (I & _) O Hv.
  assert (Hr : forall p s c, getc w p s = Some c -> s < length (w_subs w)) by (intros p s c Hc; destruct (iv_conn_range _ _ I _ _ _ Hc); assumption).
  destruct (N_sub_create w buf hreq w' r Hr Hv) as [N _]. eapply Ord_neutral; eauto.
Qed.

(* the handler's actions *)
Lemma run_hacts_ord : HxOrd run_hacts.
Proof.
  unfold HxOrd. intros w s acts. revert w. induction acts as [|a t IH]; intros w w' tr O Hv; cbn [run_hacts] in Hv.
  - inversion Hv; subst. split; [exact O|split; [apply SubMove_refl|reflexivity]].
  - destruct a.
    + destruct (find (fun x => Nat.eqb (x_sub x) s) (w_samples w)) as [x|] eqn:Ef.
      * destruct (sample_drop w x) as [w1|] eqn:E1; [|discriminate]. cbn [rbind] in Hv.
        destruct (run_hacts w1 s t) as [[w2 tr2]|] eqn:E2; [|discriminate]. cbn [rbind fst snd] in Hv. inversion Hv; subst w' tr.
        destruct (N_sample_drop w x w1 E1) as [N1 P1].
        destruct (IH w1 w2 tr2 (Ord_neutral _ _ O N1) E2) as (O2 & M2 & P2).
        split; [exact O2|split; [eapply SubMove_trans; [apply Neutral_SubMove; exact N1|exact M2]|congruence]].
      * destruct (run_hacts w s t) as [[w2 tr2]|] eqn:E2; [|discriminate]. cbn [rbind fst snd] in Hv. inversion Hv; subst w' tr.
        eapply IH; eauto.
    + destruct (sub_live w s) eqn:El.
      * destruct (sub_receive w s) as [[w1 rx]|] eqn:E1; [|discriminate]. cbn [rbind] in Hv.
        destruct (run_hacts w1 s t) as [[w2 tr2]|] eqn:E2; [|discriminate]. cbn [rbind fst snd] in Hv. inversion Hv; subst w' tr.
        assert (Ls : s < length (w_subs w)) by (unfold sub_live in El; apply Bool.andb_true_iff in El as [El _]; now apply Nat.ltb_lt in El).
        destruct (sub_receive_ord w s w1 rx Ls O E1) as (O1 & M1 & _ & P1).
        destruct (IH w1 w2 tr2 O1 E2) as (O2 & M2 & P2).
        split; [exact O2|split; [eapply SubMove_trans; eauto|congruence]].
      * destruct (run_hacts w s t) as [[w2 tr2]|] eqn:E2; [|discriminate]. cbn [rbind fst snd] in Hv. inversion Hv; subst w' tr.
        eapply IH; eauto.
Qed.

Lemma sub_live_lt w s : sub_live w s = true -> s < length (w_subs w).
Proof. unfold sub_live. intros H. apply Bool.andb_true_iff in H as [H _]. now apply Nat.ltb_lt in H. Qed.

Lemma do_send_ord w l w' ob : InvR w -> Ord w -> do_send w l = Val (w', ob) -> Ord w'.
Proof.
  intros IR O Hv. unfold do_send in Hv.
  destruct (pub_send_sample run_hacts w (l_pub l) (l_off l)) as [[[w1 sr] tr]|] eqn:Es; [|discriminate]. cbn [rbind] in Hv.
  pose proof (pub_send_sample_ord _ _ _ _ _ _ _ run_hacts_ord IR O Es) as O1.
  destruct sr; inversion Hv; subst; auto; (eapply Ord_neutral; [exact O1|apply N_loan_drop]).
Qed.

Lemma do_loan_neutral w p w' ob : do_loan w p = Val (w', ob) -> Neutral w w'.
Proof.
  unfold do_loan. intros Hv. destruct (pub_allocate w p) as [[w1 r]|] eqn:Ea; [|discriminate]. cbn [rbind] in Hv.
  pose proof (N_allocate _ _ _ _ Ea) as N1. destruct r as [o|e]; inversion Hv; subst; [|exact N1].
  eapply Neutral_trans; [exact N1|]. eapply Neutral_trans; [apply N_write|apply N_same; reflexivity].
Qed.

Lemma exhaust_loans_neutral p : forall fuel w acc w' ls e, exhaust_loans fuel w p acc = Val (w', ls, e) -> Neutral w w'.
Proof.
  induction fuel as [|f IH]; intros w acc w' ls e Hv; cbn [exhaust_loans] in Hv.
  - inversion Hv; subst. apply Neutral_refl.
  - destruct (pub_allocate w p) as [[w1 r]|] eqn:Ea; [|discriminate]. cbn [rbind] in Hv.
    pose proof (N_allocate _ _ _ _ Ea) as N1. destruct r as [o|e0]; [|inversion Hv; subst; exact N1].
    eapply Neutral_trans; [exact N1|]. eapply Neutral_trans; [|eapply IH; exact Hv]. apply N_same; reflexivity.
Qed.

Theorem step_ord w o w' ob : InvR w -> Ord w -> step w o = Val (w', ob) -> Ord w'.
Proof.
  intros IR O Hv. pose proof IR as (I & RP & RS & TB).
  assert (NE : forall w1, Neutral w w1 -> Ord w1) by (intros w1 N; eapply Ord_neutral; eauto).
  destruct o; cbn [step] in Hv.
  - destruct (pub_create w l retry h) as [[w1 r]|] eqn:E; [|discriminate]. cbn [rbind fst] in Hv. inversion Hv; subst.
    eapply pub_create_ord; eauto.
  - destruct (pub_live w p); inversion Hv; subst; [|exact O]. apply NE, N_pub_drop.
  - destruct (sub_create w buf hreq) as [[w1 r]|] eqn:E; [|discriminate]. cbn [rbind fst] in Hv. inversion Hv; subst.
    eapply sub_create_ord; eauto.
  - destruct (sub_live w s); inversion Hv; subst; [|exact O]. apply NE. apply N_sub_drop.
  - destruct (pub_live w p); [|inversion Hv; subst; exact O]. apply NE. eapply do_loan_neutral; eauto.
  - destruct (find_loan w l) as [ln|]; inversion Hv; subst; [|exact O]. apply NE, N_write.
  - destruct (find_loan w l) as [ln|]; [|inversion Hv; subst; exact O]. eapply do_send_ord; eauto.
  - destruct (find_loan w l) as [ln|]; inversion Hv; subst; [|exact O]. apply NE, N_loan_drop.
  - destruct (pub_live w p) eqn:El; [|inversion Hv; subst; exact O].
    destruct (do_loan w p) as [[w1 ob1]|] eqn:E1; [|discriminate]. cbn [rbind] in Hv.
    pose proof (do_loan_ok w p w1 ob1 IR (pub_live_pact _ _ El) E1) as IR1.
    pose proof (NE _ (do_loan_neutral _ _ _ _ E1)) as O1.
    destruct ob1; try (inversion Hv; subst; exact O1).
    destruct (find_loan w1 id) as [ln|]; [|inversion Hv; subst; exact O1].
    eapply do_send_ord; eauto.
  - destruct (sub_live w s) eqn:El; [|inversion Hv; subst; exact O].
    destruct (sub_receive w s) as [[w1 rx]|] eqn:E1; [|discriminate]. cbn [rbind] in Hv.
    destruct (sub_receive_ord w s w1 rx (sub_live_lt _ _ El) O E1) as (O1 & _).
    destruct rx; inversion Hv; subst; exact O1.
  - destruct (find (fun y => Nat.eqb (x_id y) x) (w_samples w)) as [sm|]; [|inversion Hv; subst; exact O].
    destruct (sample_drop w sm) as [w1|] eqn:E1; [|discriminate]. cbn [rbind] in Hv. inversion Hv; subst.
    apply NE. apply (N_sample_drop _ _ _ E1).
  - destruct (sub_live w s); [|inversion Hv; subst; exact O].
    destruct (sub_has_samples w s) as [[w1 b]|] eqn:E1; [|discriminate]. cbn [rbind fst] in Hv. inversion Hv; subst.
    unfold sub_has_samples in E1. destruct (sub_update_connections w s) as [w2|] eqn:E2; [|discriminate]. cbn [rbind] in E1. inversion E1; subst.
    apply NE. apply (N_sub_update_connections _ _ _ E2).
  - destruct (pub_live w p) eqn:El; [|inversion Hv; subst; exact O].
    destruct (pub_update_connections w p) as [w1|] eqn:E1; [|discriminate]. cbn [rbind] in Hv. inversion Hv; subst.
    eapply pub_update_connections_ord; eauto. now apply pub_live_pact.
  - destruct (sub_live w s); [|inversion Hv; subst; exact O].
    destruct (sub_update_connections w s) as [w1|] eqn:E1; [|discriminate]. cbn [rbind] in Hv. inversion Hv; subst.
    apply NE. apply (N_sub_update_connections _ _ _ E1).
  - destruct (pub_live w p); [|inversion Hv; subst; exact O].
    destruct (exhaust_loans (S (p_n (getp w p))) w p []) as [[[w1 ls] e]|] eqn:E1; [|discriminate]. cbn [rbind] in Hv. inversion Hv; subst.
    apply NE. eapply Neutral_trans; [eapply exhaust_loans_neutral; eauto|apply N_drop_all].
  - inversion Hv; subst; exact O.
Qed.

Lemma world_new_ord c : Ord (world_new c).
Proof.
  assert (Dp : forall q, getp (world_new c) q = pub_dead) by (intros [|q]; reflexivity).
  assert (Ds : forall q, gets (world_new c) q = sub_dead) by (intros [|q]; reflexivity).
  constructor.
  - intros p s c0 Hc. discriminate.
  - intros p s. unfold recvidx. rewrite Ds. apply IncB_nil.
  - intros p. unfold histidx. rewrite Dp. apply IncB_nil.
  - intros p s Hp. unfold pact in Hp. rewrite Dp in Hp. discriminate.
Qed.

Lemma run_ord : forall h w w' obs, InvR w -> Ord w -> run w h = Val (w', obs) -> Ord w'.
Proof.
  induction h as [|o h IH]; intros w w' obs IR O Hv; cbn [run] in Hv.
  - inversion Hv; subst. exact O.
  - destruct (step w o) as [[w1 ob]|] eqn:Es; [|discriminate].
    destruct (run w1 h) as [[w2 obs2]|] eqn:Er; [|discriminate]. inversion Hv; subst.
    eapply IH; [eapply step_ok; eauto|eapply step_ord; eauto|exact Er].
Qed.

Theorem reachable_Ord c w : cfg_fits c -> reachable c w -> Ord w.
Proof. intros Hf (h & obs & Hr). eapply run_ord; [apply world_new_ok; exact Hf|apply world_new_ord|exact Hr]. Qed.

Theorem reachable_order_once c h w obs s p :
  cfg_fits c -> run (world_new c) h = Val (w, obs) ->
  increasing (map rl_idx (filter (fun r => Nat.eqb (rl_pub r) p) (s_recv (gets w s)))).
Proof.
  intros Hf Hr. assert (O : Ord w) by (apply (reachable_Ord c w Hf); now exists h, obs).
  apply (od_recv _ O p s).
Qed.
