(* C19 -- lemmas about model/Names.v.  Part 1: list / byte facts, the String layer, the
   generic semantic-string layer against the generic spec (gspec_apply). *)
From V Require Import model.Base model.Names.
From Coq Require Import ZifyBool ZifyNat ZifyN.

(* ---------------------------------------------------------------------------------- *)
(* basic list facts *)
Lemma str_eqb_eq a b : str_eqb a b = true <-> a = b.
Proof.
  revert b; induction a as [|x a IH]; intros [|y b]; cbn; split; intro H; try congruence; auto.
  - apply andb_true_iff in H as [H1 H2]. apply N.eqb_eq in H1. apply IH in H2. congruence.
  - inversion H; subst. rewrite N.eqb_refl. cbn. now apply IH.
Qed.
Lemma str_eqb_refl a : str_eqb a a = true.
Proof. now apply str_eqb_eq. Qed.
Lemma str_eqb_neq a b : str_eqb a b = false <-> a <> b.
Proof.
  split; intro H.
  - intro E. apply str_eqb_eq in E. congruence.
  - destruct (str_eqb a b) eqn:E; auto. apply str_eqb_eq in E. contradiction.
Qed.

Lemma starts_with_iff b t : starts_with b t = true <-> exists r, t = b ++ r.
Proof.
  revert t; induction b as [|x b IH]; intros t; cbn.
  - split; eauto.
  - destruct t as [|y t]; cbn.
    + split; [discriminate | intros [r Hr]; discriminate].
    + rewrite andb_true_iff, N.eqb_eq, IH. split.
      * intros [-> [r ->]]. eauto.
      * intros [r Hr]. inversion Hr; subst. eauto.
Qed.
Lemma starts_with_app b r : starts_with b (b ++ r) = true.
Proof. apply starts_with_iff; eauto. Qed.
Lemma starts_with_nil t : starts_with [] t = true.
Proof. reflexivity. Qed.
Lemma starts_with_length b t : starts_with b t = true -> length b <= length t.
Proof. intros H; apply starts_with_iff in H as [r ->]. rewrite app_length. lia. Qed.
Lemma starts_with_same_length b t : length t = length b -> starts_with b t = true -> t = b.
Proof.
  intros L H. apply starts_with_iff in H as [r ->]. rewrite app_length in L.
  destruct r; [now rewrite app_nil_r | cbn in L; lia].
Qed.

Lemma firstn_skipn_mid {A} (s b : list A) i : i <= length s ->
  firstn i (firstn i s ++ b ++ skipn i s) ++ skipn (i + length b) (firstn i s ++ b ++ skipn i s) = s.
Proof.
  intros Hi.
  assert (L : length (firstn i s) = i) by (rewrite firstn_length; lia).
  rewrite firstn_app, L, Nat.sub_diag, firstn_O, app_nil_r.
  rewrite firstn_all2 by lia.
  rewrite skipn_app, L.
  replace (i + length b - i) with (length b) by lia.
  rewrite (skipn_all2 (firstn i s)) by lia. cbn [app].
  rewrite skipn_app, skipn_all, Nat.sub_diag. cbn [app skipn].
  apply firstn_skipn.
Qed.

Lemma firstn_S_nth {A} (s : list A) i d : i < length s -> firstn (S i) s = firstn i s ++ [nth i s d].
Proof.
  revert i; induction s as [|x s IH]; intros [|i] H; cbn in *; try lia; auto.
  f_equal. apply IH. lia.
Qed.
Lemma skipn_nth_cons {A} (s : list A) i d : i < length s -> skipn i s = nth i s d :: skipn (S i) s.
Proof.
  revert i; induction s as [|x s IH]; intros [|i] H; cbn in *; try lia; auto.
  apply IH. lia.
Qed.

Lemma forallb_app' {A} (f : A -> bool) l1 l2 : forallb f (l1 ++ l2) = forallb f l1 && forallb f l2.
Proof. apply forallb_app. Qed.
Lemma forallb_firstn {A} (f : A -> bool) n l : forallb f l = true -> forallb f (firstn n l) = true.
Proof.
  revert n; induction l as [|x l IH]; intros [|n] H; cbn in *; auto.
  apply andb_true_iff in H as [H1 H2]. rewrite H1. cbn. auto.
Qed.
Lemma forallb_skipn {A} (f : A -> bool) n l : forallb f l = true -> forallb f (skipn n l) = true.
Proof.
  revert n; induction l as [|x l IH]; intros [|n] H; cbn in *; auto.
  apply andb_true_iff in H as [H1 H2]. auto.
Qed.
Lemma forallb_filter {A} (f g : A -> bool) l : forallb f l = true -> forallb f (filter g l) = true.
Proof.
  induction l as [|x l IH]; cbn; auto. intros H. apply andb_true_iff in H as [H1 H2].
  destruct (g x); cbn; auto. rewrite H1; cbn; auto.
Qed.
Lemma forallb_negb_existsb {A} (f g : A -> bool) l :
  (forall x, f x = negb (g x)) -> forallb f l = negb (existsb g l).
Proof.
  intros E; induction l as [|x l IH]; cbn; auto. rewrite E, IH. now destruct (g x), (existsb g l).
Qed.
Lemma forallb_and {A} (f g h : A -> bool) l :
  (forall x, f x = g x && h x) -> forallb f l = forallb g l && forallb h l.
Proof.
  intros E; induction l as [|x l IH]; cbn; auto. rewrite E, IH.
  destruct (g x), (h x), (forallb g l), (forallb h l); reflexivity.
Qed.
Lemma filter_len_le {A} (f : A -> bool) l : length (filter f l) <= length l.
Proof. induction l as [|x l IH]; cbn; auto. destruct (f x); cbn; lia. Qed.
Lemma existsb_app' {A} (f : A -> bool) l1 l2 : existsb f (l1 ++ l2) = existsb f l1 || existsb f l2.
Proof. apply existsb_app. Qed.

(* ---------------------------------------------------------------------------------- *)
(* bytes *)
Lemma bad_byte_ascii c : bad_byte c = negb (ascii_nonnul c).
Proof. unfold bad_byte, ascii_nonnul. lia. Qed.

Lemma utf8_valid_ascii s : forallb ascii_nonnul s = true -> utf8_valid s = true.
Proof.
  induction s as [|c s IH]; cbn [forallb utf8_valid]; auto.
  intros H. apply andb_true_iff in H as [H1 H2].
  assert (N.ltb c 128 = true) as -> by (unfold ascii_nonnul in H1; lia). auto.
Qed.

(* ---------------------------------------------------------------------------------- *)
(* find / rfind *)
Lemma find_loop_ge s b i k j : find_loop s b i k = Some j -> i <= j.
Proof.
  revert i; induction k as [|k IH]; intros i; cbn; [discriminate|].
  destruct (starts_with b (skipn i s)); [intros [= <-]; lia | intros H; apply IH in H; lia].
Qed.
Lemma str_find_zero s b : (str_find s b = Some 0) <-> starts_with b s = true.
Proof.
  unfold str_find. destruct (Nat.ltb (length s) (length b)) eqn:L.
  - split; [discriminate|]. intros H. apply starts_with_length in H. lia.
  - replace (length s - length b + 1) with (S (length s - length b)) by lia.
    cbn [find_loop skipn]. destruct (starts_with b s); [tauto|].
    split; [|discriminate]. intros H. apply find_loop_ge in H. lia.
Qed.
Lemma str_find_not_zero s b : starts_with b s = false -> match str_find s b with Some 0 => False | _ => True end.
Proof.
  intros H. destruct (str_find s b) as [[|n]|] eqn:E; auto.
  apply str_find_zero in E. congruence.
Qed.

Lemma rfind_loop_lt s b k j : rfind_loop s b k = Some j -> j < k.
Proof.
  induction k as [|k IH]; cbn; [discriminate|].
  destruct (starts_with b (skipn k s)); [intros [= <-]; lia | intros H; apply IH in H; lia].
Qed.
Lemma is_suffix_iff b s : is_suffix b s = true <-> exists p, s = p ++ b.
Proof.
  unfold is_suffix. rewrite andb_true_iff, str_eqb_eq. split.
  - intros [L E]. exists (firstn (length s - length b) s).
    pose proof (firstn_skipn (length s - length b) s) as FS. rewrite E in FS. auto.
  - intros [p ->]. rewrite app_length. split; [lia|].
    replace (length p + length b - length b) with (length p) by lia.
    rewrite skipn_app, skipn_all, Nat.sub_diag. reflexivity.
Qed.
(* str_rfind finds the match at the last possible position first *)
Lemma str_rfind_pos s b : length b <= length s ->
  (exists v, str_rfind s b = Some v /\ Nat.eqb v (length s - length b) = true) <-> is_suffix b s = true.
Proof.
  intros L. unfold str_rfind. assert (Nat.ltb (length s) (length b) = false) as -> by lia.
  replace (length s - length b + 1) with (S (length s - length b)) by lia.
  cbn [rfind_loop]. set (pos := length s - length b).
  assert (LS : length (skipn pos s) = length b) by (rewrite skipn_length; lia).
  destruct (starts_with b (skipn pos s)) eqn:E.
  - split; intros _.
    + unfold is_suffix. apply starts_with_same_length in E; auto. fold pos. rewrite E, str_eqb_refl. lia.
    + exists pos. split; auto. lia.
  - split.
    + intros [v [H1 H2]]. apply rfind_loop_lt in H1. lia.
    + intros H. unfold is_suffix in H. fold pos in H. apply andb_true_iff in H as [_ H].
      apply str_eqb_eq in H. rewrite H in E. rewrite <- (app_nil_r b) in E at 2. rewrite starts_with_app in E. discriminate.
Qed.

(* ---------------------------------------------------------------------------------- *)
(* ---------------------------------------------------------------------------------- *)
(* String layer *)
Lemma str_remove_range_ok s i n : i + n <= length s ->
  str_remove_range s i n = (firstn i s ++ skipn (i + n) s, true).
Proof. intros H. unfold str_remove_range. assert (Nat.ltb (length s) (i + n) = false) as -> by lia. reflexivity. Qed.
Lemma str_remove_range_oob s i n : length s < i + n -> str_remove_range s i n = (s, false).
Proof. intros H. unfold str_remove_range. assert (Nat.ltb (length s) (i + n) = true) as -> by lia. reflexivity. Qed.

Lemma str_remove_ok s i : i < length s -> str_remove s i = (firstn i s ++ skipn (S i) s, Some (nth i s 0%N)).
Proof.
  intros Hi. unfold str_remove. assert (Nat.leb (length s) i = false) as -> by lia.
  rewrite str_remove_range_ok by lia. cbn [fst]. now rewrite Nat.add_1_r.
Qed.
Lemma str_remove_oob s i : length s <= i -> str_remove s i = (s, None).
Proof. intros Hi. unfold str_remove. assert (Nat.leb (length s) i = true) as -> by lia. reflexivity. Qed.

Lemma retain_loop_eq f k s : k <= length s ->
  retain_loop f k s = filter (fun x => negb (f x)) (firstn k s) ++ skipn k s.
Proof.
  revert s; induction k as [|k IH]; intros s Hk; cbn [retain_loop].
  - reflexivity.
  - rewrite (firstn_S_nth s k 0%N) by lia. rewrite filter_app. cbn [filter].
    destruct (f (nth k s 0%N)) eqn:F; cbn [negb].
    + rewrite str_remove_ok by lia. cbn [fst].
      assert (L1 : length (firstn k s) = k) by (rewrite firstn_length; lia).
      rewrite IH.
      * rewrite firstn_app, L1, Nat.sub_diag, firstn_O, app_nil_r, firstn_firstn, Nat.min_id.
        rewrite skipn_app, L1, Nat.sub_diag, (skipn_all2 (firstn k s)) by lia.
        cbn [skipn app]. now rewrite app_nil_r.
      * rewrite app_length, firstn_length, skipn_length. lia.
    + rewrite IH by lia. rewrite <- app_assoc. cbn [app].
      now rewrite <- (skipn_nth_cons s k 0%N) by lia.
Qed.
Lemma str_retain_eq f s : str_retain f s = filter (fun x => negb (f x)) s.
Proof. unfold str_retain. rewrite retain_loop_eq by lia. now rewrite firstn_all, skipn_all, app_nil_r. Qed.

Lemma str_strip_prefix_no s b : starts_with b s = false -> str_strip_prefix s b = (s, false).
Proof.
  intros H. unfold str_strip_prefix. pose proof (str_find_not_zero s b H) as Hn.
  destruct (str_find s b) as [[|n]|]; tauto.
Qed.
Lemma str_strip_prefix_yes s b : starts_with b s = true -> str_strip_prefix s b = (skipn (length b) s, true).
Proof.
  intros H. unfold str_strip_prefix. apply str_find_zero in H as F. rewrite F.
  apply starts_with_length in H. rewrite str_remove_range_ok by lia. reflexivity.
Qed.

Lemma str_strip_suffix_no s b : is_suffix b s = false -> str_strip_suffix s b = (s, false).
Proof.
  intros H. unfold str_strip_suffix. destruct (Nat.ltb (length s) (length b)) eqn:L; auto.
  destruct (str_rfind s b) as [v|] eqn:R; auto.
  destruct (Nat.eqb v (length s - length b)) eqn:E; cbn [negb]; auto.
  assert (is_suffix b s = true); [|congruence].
  apply str_rfind_pos; [lia|]. eauto.
Qed.
Lemma str_strip_suffix_yes s b : is_suffix b s = true ->
  str_strip_suffix s b = (firstn (length s - length b) s, true).
Proof.
  intros H. unfold str_strip_suffix.
  assert (L : length b <= length s) by (unfold is_suffix in H; lia).
  assert (Nat.ltb (length s) (length b) = false) as -> by lia.
  apply str_rfind_pos in H as [v [R E]]; auto. rewrite R, E. cbn [negb].
  rewrite str_remove_range_ok by lia.
  replace (length s - length b + length b) with (length s) by lia.
  now rewrite skipn_all, app_nil_r.
Qed.

(* the generic characterisation of a semantic type: what new() accepts *)
Definition gen_rules (T : sty) (s : str) : bool :=
  Nat.leb (length s) (cap T) && forallb ascii_nonnul s && negb (inv_chars T s) && negb (inv_content T s).

Lemma gen_rules_len T s : gen_rules T s = true -> length s <= cap T.
Proof. unfold gen_rules. intros H. repeat (apply andb_true_iff in H as [H ?]). lia. Qed.
Lemma gen_rules_ascii T s : gen_rules T s = true -> forallb ascii_nonnul s = true.
Proof. unfold gen_rules. intros H. repeat (apply andb_true_iff in H as [H ?]). auto. Qed.

Lemma is_invalid_content_gen T s : length s <= cap T -> forallb ascii_nonnul s = true ->
  is_invalid_content T s = negb (gen_rules T s).
Proof.
  intros L A. unfold is_invalid_content, has_invalid_chars, gen_rules.
  rewrite (utf8_valid_ascii s A), A. assert (Nat.leb (length s) (cap T) = true) as -> by lia.
  cbn [negb orb andb]. now destruct (inv_chars T s), (inv_content T s).
Qed.

Lemma forallb_ascii_bad b : forallb ascii_nonnul b = negb (existsb bad_byte b).
Proof. apply forallb_negb_existsb. intros x. rewrite bad_byte_ascii. now destruct (ascii_nonnul x). Qed.

Ltac inv_val := let E := fresh "E" in intros E; inversion E; subst; clear E.
Ltac killK K := cbn in K; rewrite ?orb_true_r, ?orb_true_l in K; cbn in K; try discriminate K; rewrite ?orb_true_r, ?orb_true_l in K; discriminate K.

Section Generic.
Variable T : sty.
Variable R : str -> bool.
Hypothesis HR : forall s, R s = gen_rules T s.

Lemma R_len s : R s = true -> length s <= cap T.
Proof. rewrite HR. apply gen_rules_len. Qed.
Lemma R_ascii s : R s = true -> forallb ascii_nonnul s = true.
Proof. rewrite HR. apply gen_rules_ascii. Qed.
Lemma R_too_long s : cap T < length s -> R s = false.
Proof. intros H. rewrite HR. unfold gen_rules. assert (Nat.leb (length s) (cap T) = false) as -> by lia. reflexivity. Qed.
Lemma R_not_ascii s : forallb ascii_nonnul s = false -> R s = false.
Proof. intros H. rewrite HR. unfold gen_rules. rewrite H. now destruct (Nat.leb (length s) (cap T)). Qed.
Lemma invalid_R s : length s <= cap T -> forallb ascii_nonnul s = true -> is_invalid_content T s = negb (R s).
Proof. intros. rewrite HR. now apply is_invalid_content_gen. Qed.
(* a sub-list of a valid value (anything shorter made of its bytes) *)
Lemma invalid_R_sub s t : R s = true -> length t <= length s -> forallb ascii_nonnul t = true ->
  is_invalid_content T t = negb (R t).
Proof. intros V L A. apply invalid_R; auto. apply R_len in V. lia. Qed.

Ltac caseR := match goal with |- context[if R ?x then _ else _] => let Rc := fresh "Rc" in destruct (R x) eqn:Rc end.

Lemma sem_insert_bytes_oob s i b : length s < i -> sem_insert_bytes T s i b = Panic.
Proof.
  intros H. unfold sem_insert_bytes, str_insert_bytes.
  assert (Nat.ltb (length s) i = true) as -> by lia. reflexivity.
Qed.

(* error kind: too long => ExceedsMaximumLength, otherwise InvalidContent = spec_err *)
Lemma sem_insert_bytes_eq s i b : R s = true -> i <= length s ->
  sem_insert_bytes T s i b =
    if R (firstn i s ++ b ++ skipn i s) then Val (firstn i s ++ b ++ skipn i s, inl tt)
    else Val (s, inr (spec_err (cap T) (firstn i s ++ b ++ skipn i s))).
Proof.
  intros V Hi. pose proof (R_len s V) as Ls. pose proof (R_ascii s V) as As.
  set (cand := firstn i s ++ b ++ skipn i s).
  assert (Lc : length cand = length s + length b).
  { unfold cand. rewrite !app_length, firstn_length, skipn_length. lia. }
  unfold sem_insert_bytes, str_insert_bytes, spec_err. rewrite Lc.
  assert (Nat.ltb (length s) i = false) as -> by lia.
  destruct (Nat.ltb (cap T) (length s + length b)) eqn:Lcap.
  - rewrite R_too_long by lia. reflexivity.
  - destruct (existsb bad_byte b) eqn:Bad.
    + rewrite R_not_ascii; [reflexivity|].
      unfold cand. rewrite !forallb_app, (forallb_ascii_bad b), Bad. cbn.
      now destruct (forallb ascii_nonnul (firstn i s)).
    + fold cand.
      assert (Ac : forallb ascii_nonnul cand = true).
      { unfold cand. rewrite !forallb_app, (forallb_ascii_bad b), Bad, forallb_firstn, forallb_skipn; auto. }
      rewrite invalid_R by (auto; lia).
      destruct (R cand) eqn:Rc; cbn [negb]; [reflexivity|].
      rewrite str_remove_range_ok by (rewrite Lc; lia). cbn [fst].
      unfold cand. now rewrite firstn_skipn_mid.
Qed.

Lemma sem_remove_eq s i : R s = true ->
  sem_remove T s i =
    if Nat.leb (length s) i then Val (s, inl None)
    else if R (firstn i s ++ skipn (S i) s) then Val (firstn i s ++ skipn (S i) s, inl (Some (nth i s 0%N)))
    else Val (s, inr InvalidContent).
Proof.
  intros V. pose proof (R_len s V) as Ls. pose proof (R_ascii s V) as As.
  unfold sem_remove. destruct (Nat.leb (length s) i) eqn:Li.
  - rewrite str_remove_oob by lia. rewrite invalid_R by auto. rewrite V. reflexivity.
  - rewrite str_remove_ok by lia.
    rewrite (invalid_R_sub s); auto.
    + now destruct (R (firstn i s ++ skipn (S i) s)).
    + rewrite app_length, firstn_length, skipn_length. lia.
    + rewrite forallb_app, forallb_firstn, forallb_skipn; auto.
Qed.

Lemma sem_pop_eq s :
  sem_pop T s = match s with [] => Val (s, inl None) | _ => sem_remove T s (length s - 1) end.
Proof. unfold sem_pop. destruct s; reflexivity. Qed.

Lemma sem_remove_range_eq s i n : R s = true ->
  sem_remove_range T s i n =
    if Nat.ltb (length s) (i + n) then Val (s, inl tt)
    else if R (firstn i s ++ skipn (i + n) s) then Val (firstn i s ++ skipn (i + n) s, inl tt)
    else Val (s, inr InvalidContent).
Proof.
  intros V. pose proof (R_len s V) as Ls. pose proof (R_ascii s V) as As.
  unfold sem_remove_range. destruct (Nat.ltb (length s) (i + n)) eqn:Li.
  - rewrite str_remove_range_oob by lia. cbn [fst]. rewrite invalid_R by auto. rewrite V. reflexivity.
  - rewrite str_remove_range_ok by lia. cbn [fst].
    rewrite (invalid_R_sub s); auto.
    + now destruct (R (firstn i s ++ skipn (i + n) s)).
    + rewrite app_length, firstn_length, skipn_length. lia.
    + rewrite forallb_app, forallb_firstn, forallb_skipn; auto.
Qed.

Lemma sem_retain_eq s f : R s = true ->
  sem_retain T s f =
    if R (filter (fun x => negb (f x)) s) then Val (filter (fun x => negb (f x)) s, inl tt)
    else Val (s, inr InvalidContent).
Proof.
  intros V. pose proof (R_len s V) as Ls. pose proof (R_ascii s V) as As.
  unfold sem_retain. rewrite str_retain_eq.
  rewrite (invalid_R_sub s); auto.
  - now destruct (R (filter (fun x => negb (f x)) s)).
  - apply filter_len_le.
  - now apply forallb_filter.
Qed.

Lemma sem_strip_prefix_eq s b : R s = true ->
  sem_strip_prefix T s b =
    if starts_with b s then
      if R (skipn (length b) s) then Val (skipn (length b) s, inl true) else Val (s, inr InvalidContent)
    else Val (s, inl false).
Proof.
  intros V. pose proof (R_len s V) as Ls. pose proof (R_ascii s V) as As.
  unfold sem_strip_prefix. destruct (starts_with b s) eqn:P.
  - rewrite str_strip_prefix_yes by auto. cbn [fst].
    rewrite (invalid_R_sub s); auto.
    + now destruct (R (skipn (length b) s)).
    + rewrite skipn_length. lia.
    + now apply forallb_skipn.
  - rewrite str_strip_prefix_no by auto. reflexivity.
Qed.

Lemma sem_strip_suffix_eq s b : R s = true ->
  sem_strip_suffix T s b =
    if is_suffix b s then
      if R (firstn (length s - length b) s) then Val (firstn (length s - length b) s, inl true)
      else Val (s, inr InvalidContent)
    else Val (s, inl false).
Proof.
  intros V. pose proof (R_len s V) as Ls. pose proof (R_ascii s V) as As.
  unfold sem_strip_suffix. destruct (is_suffix b s) eqn:P.
  - rewrite str_strip_suffix_yes by auto. cbn [fst].
    rewrite (invalid_R_sub s); auto.
    + now destruct (R (firstn (length s - length b) s)).
    + rewrite firstn_length. lia.
    + now apply forallb_firstn.
  - rewrite str_strip_suffix_no by auto. reflexivity.
Qed.

Lemma sem_truncate_eq s n : R s = true ->
  sem_truncate T s n =
    if Nat.ltb (length s) n then Val (s, inl tt)
    else if R (firstn n s) then Val (firstn n s, inl tt) else Val (s, inr InvalidContent).
Proof.
  intros V. pose proof (R_len s V) as Ls. pose proof (R_ascii s V) as As.
  unfold sem_truncate, str_truncate. destruct (Nat.ltb (length s) n) eqn:L.
  - rewrite invalid_R by auto. rewrite V. reflexivity.
  - rewrite (invalid_R_sub s); auto.
    + now destruct (R (firstn n s)).
    + rewrite firstn_length. lia.
    + now apply forallb_firstn.
Qed.

(* new(): accepted exactly when the rules hold, the value is the input; never a panic *)
Lemma sem_new_eq b :
  sem_new T b = if R b then Val (inl b) else Val (inr (spec_err (cap T) b)).
Proof.
  unfold sem_new, sem_push_bytes, sem_insert_bytes, str_insert_bytes, spec_err.
  cbn [length firstn skipn app]. rewrite !Nat.add_0_l. change (Nat.ltb 0 0) with false. cbn iota.
  destruct (Nat.ltb (cap T) (length b)) eqn:Lcap.
  - rewrite R_too_long by lia. reflexivity.
  - destruct (existsb bad_byte b) eqn:Bad.
    + rewrite R_not_ascii; [reflexivity|]. now rewrite forallb_ascii_bad, Bad.
    + rewrite app_nil_r.
      assert (Ab : forallb ascii_nonnul b = true) by now rewrite forallb_ascii_bad, Bad.
      rewrite invalid_R by (auto; lia).
      destruct (R b) eqn:Rb; cbn [negb]; reflexivity.
Qed.

Lemma refine_insert s i b : R s = true ->
  lift (fun _ : unit => ObUnit) (sem_insert_bytes T s i b) =
  (if Nat.ltb (length s) i then Panic else gcommit (cap T) R s (firstn i s ++ b ++ skipn i s) ObUnit).
Proof.
  intros V. destruct (Nat.ltb (length s) i) eqn:Li.
  - rewrite sem_insert_bytes_oob by lia. reflexivity.
  - rewrite sem_insert_bytes_eq by (auto; lia). unfold gcommit.
    destruct (R (firstn i s ++ b ++ skipn i s)) eqn:Rc; cbn [lift]; auto.
Qed.

Lemma spec_err_short c (t : str) : length t <= c -> spec_err c t = InvalidContent.
Proof. intros H. unfold spec_err. assert (Nat.ltb c (length t) = false) as -> by lia. reflexivity. Qed.

(* the refinement: the code does what the spec says, for every mutator and every argument *)
Theorem sem_apply_refines s o : R s = true -> sem_apply T s o = gspec_apply (cap T) R s o.
Proof.
  intros V. pose proof (R_len s V) as Ls.
  destruct o as [x|b|i x|i b| |i|i n|p|b|b|n]; cbn [sem_apply gspec_apply].
  - unfold sem_push, sem_insert. now apply refine_insert.
  - unfold sem_push_bytes. now apply refine_insert.
  - unfold sem_insert. now apply refine_insert.
  - now apply refine_insert.
  - rewrite sem_pop_eq. destruct s as [|c s']; [reflexivity|].
    rewrite sem_remove_eq by auto. unfold gcommit.
    destruct (Nat.leb (length (c :: s')) (length (c :: s') - 1)); [reflexivity|].
    caseR; cbn [lift]; auto. rewrite spec_err_short; auto.
    rewrite app_length, firstn_length, skipn_length. lia.
  - rewrite sem_remove_eq by auto. unfold gcommit.
    destruct (Nat.leb (length s) i) eqn:Li; [reflexivity|].
    caseR; cbn [lift]; auto. rewrite spec_err_short; auto.
    rewrite app_length, firstn_length, skipn_length. lia.
  - rewrite sem_remove_range_eq by auto. unfold gcommit.
    destruct (Nat.ltb (length s) (i + n)) eqn:Li; [reflexivity|].
    caseR; cbn [lift]; auto. rewrite spec_err_short; auto.
    rewrite app_length, firstn_length, skipn_length. lia.
  - rewrite sem_retain_eq by auto. unfold gcommit.
    caseR; cbn [lift]; auto. rewrite spec_err_short; auto.
    pose proof (filter_len_le (fun x => negb (retpred_fn p x)) s). lia.
  - rewrite sem_strip_prefix_eq by auto. unfold gcommit, is_prefix.
    destruct (starts_with b s) eqn:P; [|reflexivity].
    caseR; cbn [lift]; auto. rewrite spec_err_short; auto. rewrite skipn_length. lia.
  - rewrite sem_strip_suffix_eq by auto. unfold gcommit.
    destruct (is_suffix b s) eqn:P; [|reflexivity].
    caseR; cbn [lift]; auto. rewrite spec_err_short; auto. rewrite firstn_length. lia.
  - rewrite sem_truncate_eq by auto. unfold gcommit.
    destruct (Nat.ltb (length s) n) eqn:Ln; [reflexivity|].
    caseR; cbn [lift]; auto. rewrite spec_err_short; auto. rewrite firstn_length. lia.
Qed.

(* the spec itself keeps a valid value valid, and leaves it unchanged on an error *)
Lemma gcommit_preserves c s cand ok s' r : R s = true -> (forall e, ok <> ObErr e) ->
  gcommit c R s cand ok = Val (s', r) -> match r with ObErr _ => s' = s | _ => R s' = true end.
Proof.
  intros V Hok. unfold gcommit. destruct (R cand) eqn:Rc; intros E; inversion E; subst; auto.
  destruct r; auto. exfalso. eapply Hok. reflexivity.
Qed.

Theorem sem_apply_preserves s o s' r : R s = true -> sem_apply T s o = Val (s', r) ->
  match r with ObErr _ => s' = s | _ => R s' = true end.
Proof.
  intros V. rewrite sem_apply_refines by auto.
  assert (U : forall e, ObUnit <> ObErr e) by (intros; discriminate).
  assert (B : forall b e, ObBool b <> ObErr e) by (intros; discriminate).
  assert (O : forall o e, ObOptByte o <> ObErr e) by (intros; discriminate).
  assert (ID : forall ok, (forall e, ok <> ObErr e) -> Val (s, ok) = Val (s', r) ->
               match r with ObErr _ => s' = s | _ => R s' = true end).
  { intros ok Hok E. inversion E; subst. destruct r; auto. }
  destruct o as [x|b|i x|i b| |i|i n|p|b|b|n]; cbn [gspec_apply]; intros E;
    repeat match type of E with
           | context[if ?c then _ else _] => destruct c
           | context[match ?l with [] => _ | _ :: _ => _ end] => destruct l
           end;
    try discriminate E;
    first [ eapply gcommit_preserves in E; [exact E | exact V | intros; discriminate]
          | eapply ID; [|exact E]; intros; discriminate ].
Qed.

(* a mutator panics exactly for an insert index beyond the end *)
Theorem sem_apply_panics s o : R s = true ->
  (sem_apply T s o = Panic <->
   match inserted_bytes s o with Some (i, _) => length s < i | None => False end).
Proof.
  intros V. rewrite sem_apply_refines by auto.
  assert (G : forall cand ok, gcommit (cap T) R s cand ok <> Panic).
  { intros cand ok. unfold gcommit. destruct (R cand); discriminate. }
  destruct o as [x|b|i x|i b| |i|i n|p|b|b|n]; cbn [gspec_apply inserted_bytes].
  1-4: match goal with |- context[Nat.ltb ?a ?b] => destruct (Nat.ltb a b) eqn:L end;
       split; intros H; try lia; try reflexivity; try (exfalso; eapply G; eassumption).
  all: split; [|tauto]; intros H; exfalso;
       repeat match goal with
              | H : context[if ?c then _ else _] |- _ => destruct c
              | H : context[match ?s with [] => _ | _ => _ end] |- _ => destruct s
              end; try discriminate; try (eapply G; eassumption).
Qed.

End Generic.

(* ---------------------------------------------------------------------------------- *)
(* Part 2: the concrete types: rules_of t = gen_rules (sty_of t) *)
Lemma fn_allowed_eq c : fn_allowed c = ascii_nonnul c && negb (fn_bad_char c).
Proof.
  unfold fn_allowed, printable, ascii_nonnul, fn_bad_char, mem, FILE_FORBIDDEN, PATH_FORBIDDEN, in_rng.
  cbn [existsb]. lia.
Qed.
Lemma path_allowed_eq c : path_allowed c = ascii_nonnul c && negb (path_bad_char c).
Proof.
  unfold path_allowed, printable, ascii_nonnul, path_bad_char, mem, PATH_FORBIDDEN, in_rng.
  cbn [existsb]. lia.
Qed.
Lemma word_char_eq c : word_char c = ascii_nonnul c && negb (b64_bad_char c).
Proof. unfold word_char, alnum, b64_bad_char, ascii_nonnul, is_lower, is_upper, is_digit, in_rng. lia. Qed.

Lemma forallb_split (f g : N -> bool) (h : N -> bool) s :
  (forall c, f c = g c && negb (h c)) -> forallb f s = forallb g s && negb (existsb h s).
Proof.
  intros E. rewrite (forallb_and f g (fun c => negb (h c))) by auto.
  f_equal. apply forallb_negb_existsb. auto.
Qed.

Lemma str_eqb_len a b : length a <> length b -> str_eqb a b = false.
Proof. intros H. apply str_eqb_neq. intros ->. contradiction. Qed.

Lemma component_ok_fn s : component_ok s = negb (fn_inv_content s).
Proof.
  unfold component_ok, is_dot_or_dotdot, fn_inv_content, DOT.
  destruct s as [|a [|b [|c r]]]; cbn [nonempty str_eqb andb orb negb]; try reflexivity.
  - destruct (N.eqb a 46); reflexivity.
  - destruct (N.eqb a 46), (N.eqb b 46); reflexivity.
  - destruct (N.eqb a 46), (N.eqb b 46); reflexivity.
Qed.

Definition nosep (f : str) : bool := forallb (fun c => negb (N.eqb c SEP)) f.

Lemma sep_decomp s : nosep s = true \/ exists p f, s = p ++ SEP :: f /\ nosep f = true.
Proof.
  induction s as [|x t IH]; [left; reflexivity|].
  destruct IH as [IH|[p [f [-> Hf]]]].
  - destruct (N.eqb x SEP) eqn:E.
    + apply N.eqb_eq in E; subst. right. exists [], t. auto.
    + left. unfold nosep in *. cbn [forallb]. rewrite E, IH. reflexivity.
  - right. exists (x :: p), f. auto.
Qed.

Lemma split_sep_nonnil s : split_sep s <> [].
Proof.
  induction s as [|x t IH]; cbn [split_sep]; [discriminate|].
  destruct (N.eqb x SEP); [discriminate|]. destruct (split_sep t); discriminate.
Qed.
Lemma split_sep_nosep f : nosep f = true -> split_sep f = [f].
Proof.
  induction f as [|x t IH]; intros H; [reflexivity|].
  unfold nosep in *. cbn [forallb] in H. apply andb_true_iff in H as [H1 H2].
  cbn [split_sep]. destruct (N.eqb x SEP); [discriminate|]. now rewrite IH.
Qed.
Lemma split_sep_app_sep p f : split_sep (p ++ SEP :: f) = split_sep p ++ split_sep f.
Proof.
  induction p as [|x p IH]; cbn [app split_sep].
  - rewrite N.eqb_refl. reflexivity.
  - destruct (N.eqb x SEP); [now rewrite IH|].
    rewrite IH. pose proof (split_sep_nonnil p). destruct (split_sep p); [contradiction|reflexivity].
Qed.
Lemma last_component_nosep f : nosep f = true -> last_component f = f.
Proof. intros H. unfold last_component. now rewrite split_sep_nosep. Qed.
Lemma last_component_decomp p f : nosep f = true -> last_component (p ++ SEP :: f) = f.
Proof.
  intros H. unfold last_component. rewrite split_sep_app_sep, (split_sep_nosep f H). apply last_last.
Qed.

Lemma split_last_nosep f : nosep f = true -> split_last f = (None, f).
Proof.
  induction f as [|x t IH]; intros H; [reflexivity|].
  unfold nosep in *. cbn [forallb] in H. apply andb_true_iff in H as [H1 H2].
  cbn [split_last]. rewrite IH by auto. destruct (N.eqb x SEP); [discriminate|reflexivity].
Qed.
Lemma split_last_decomp p f : nosep f = true -> split_last (p ++ SEP :: f) = (Some p, f).
Proof.
  intros H. induction p as [|x p IH]; cbn [app split_last].
  - rewrite split_last_nosep by auto. now rewrite N.eqb_refl.
  - now rewrite IH.
Qed.

Lemma nosep_neq_sep t u : nosep t = true -> str_eqb t (SEP :: u) = false.
Proof.
  intros H. destruct t as [|x t]; [reflexivity|]. unfold nosep in H. cbn [forallb] in H.
  apply andb_true_iff in H as [H1 _]. cbn [str_eqb]. destruct (N.eqb x SEP); [discriminate|reflexivity].
Qed.
Lemma nosep_last s : nosep s = true -> s <> [] -> N.eqb (last s 0%N) SEP = false.
Proof.
  induction s as [|x t IH]; intros H Hn; [contradiction|].
  unfold nosep in *. cbn [forallb] in H. apply andb_true_iff in H as [H1 H2].
  destruct t as [|y t]; cbn [last]; [now destruct (N.eqb x SEP)|]. apply IH; auto. discriminate.
Qed.
Lemma fp_inv_nosep s : nosep s = true -> fp_inv_content s = fn_inv_content s.
Proof.
  intros H. unfold fp_inv_content. destruct (fn_inv_content s) eqn:E; [reflexivity|].
  assert (s <> []) by (intros ->; discriminate).
  rewrite nosep_last by auto.
  rewrite !nosep_neq_sep by (apply forallb_skipn; exact H).
  rewrite !andb_false_r. reflexivity.
Qed.

Lemma skipn_suffix {A} (a b : list A) : skipn (length (a ++ b) - length b) (a ++ b) = b.
Proof.
  rewrite app_length. replace (length a + length b - length b) with (length a) by lia.
  rewrite skipn_app, skipn_all, Nat.sub_diag. reflexivity.
Qed.
Lemma last_app_ne {A} (a b : list A) d : b <> [] -> last (a ++ b) d = last b d.
Proof.
  intros Hb. induction a as [|x a IH]; [reflexivity|].
  cbn [app]. destruct (a ++ b) eqn:E.
  - destruct a; [cbn in E; contradiction | discriminate].
  - cbn [last]. exact IH.
Qed.
Lemma fn_inv_nosep s : fn_inv_content s = true -> nosep s = true.
Proof.
  unfold fn_inv_content, nosep. destruct s as [|a [|b [|c r]]]; intros H; try discriminate; try reflexivity.
  - apply N.eqb_eq in H; subst. reflexivity.
  - apply andb_true_iff in H as [H1 H2]. apply N.eqb_eq in H1, H2; subst. reflexivity.
Qed.
Lemma fn_inv_with_sep p f : fn_inv_content (p ++ SEP :: f) = false.
Proof.
  destruct (fn_inv_content (p ++ SEP :: f)) eqn:E; [|reflexivity].
  apply fn_inv_nosep in E. unfold nosep in E. rewrite forallb_app in E. cbn [forallb] in E.
  rewrite N.eqb_refl in E. cbn [negb andb] in E. rewrite andb_false_r in E. discriminate.
Qed.

Lemma fp_inv_decomp p f : nosep f = true -> fp_inv_content (p ++ SEP :: f) = negb (component_ok f).
Proof.
  intros Hf. unfold fp_inv_content. rewrite fn_inv_with_sep.
  rewrite <- (rev_involutive f) in *. destruct (rev f) as [|c [|b [|a g]]]; cbn [rev app] in *.
  - (* f = [] *)
    replace (p ++ [SEP]) with (p ++ [SEP]) by reflexivity. rewrite last_last, N.eqb_refl. reflexivity.
  - (* f = [c] *)
    unfold nosep in Hf. cbn [forallb] in Hf. rewrite andb_true_r in Hf.
    replace (p ++ [SEP; c]) with ((p ++ [SEP]) ++ [c]) by now rewrite <- app_assoc.
    rewrite last_last. destruct (N.eqb c SEP) eqn:E; [discriminate|].
    rewrite <- app_assoc. cbn [app].
    assert (L2 : Nat.leb 2 (length (p ++ [SEP; c])) = true) by (rewrite app_length; cbn [length]; lia).
    rewrite L2. change 2 with (length [SEP; c]) at 1. rewrite skipn_suffix.
    unfold component_ok, is_dot_or_dotdot, DOT. cbn [str_eqb nonempty andb orb].
    rewrite N.eqb_refl. cbn [andb]. rewrite !andb_true_r, andb_false_r, orb_false_r.
    destruct (N.eqb c 46) eqn:C; cbn [negb]; [reflexivity|].
    destruct p as [|z p] using rev_ind; [reflexivity|].
    rewrite <- app_assoc. cbn [app].
    assert (L3 : Nat.leb 3 (length (p ++ [z; SEP; c])) = true) by (rewrite app_length; cbn [length]; lia).
    rewrite L3. change 3 with (length [z; SEP; c]) at 1. rewrite skipn_suffix.
    cbn [str_eqb andb]. unfold SEP. change (N.eqb 47 46) with false. rewrite !andb_false_r. reflexivity.
  - (* f = [b; c] *)
    unfold nosep in Hf. cbn [forallb] in Hf. rewrite andb_true_r in Hf. apply andb_true_iff in Hf as [Hb Hc].
    replace (p ++ [SEP; b; c]) with ((p ++ [SEP; b]) ++ [c]) by now rewrite <- app_assoc.
    rewrite last_last. destruct (N.eqb c SEP) eqn:E; [discriminate|]. rewrite <- app_assoc. cbn [app].
    replace (p ++ [SEP; b; c]) with ((p ++ [SEP]) ++ [b; c]) at 2 3 by now rewrite <- app_assoc.
    change 2 with (length [b; c]) at 2. rewrite skipn_suffix.
    cbn [str_eqb]. destruct (N.eqb b SEP) eqn:B; [discriminate|]. cbn [andb]. rewrite andb_false_r.
    assert (L3 : Nat.leb 3 (length (p ++ [SEP; b; c])) = true) by (rewrite app_length; cbn [length]; lia).
    rewrite L3. change 3 with (length [SEP; b; c]) at 1. rewrite skipn_suffix.
    unfold component_ok, is_dot_or_dotdot, DOT. cbn [str_eqb nonempty andb orb].
    rewrite N.eqb_refl. cbn [andb]. rewrite !andb_true_r.
    destruct (N.eqb b 46), (N.eqb c 46); reflexivity.
  - (* f = rev g ++ [a; b; c] *)
    rewrite <- !app_assoc in *. cbn [app] in *.
    unfold nosep in Hf. rewrite forallb_app in Hf. apply andb_true_iff in Hf as [_ Hf].
    cbn [forallb] in Hf. rewrite andb_true_r in Hf.
    apply andb_true_iff in Hf as [Ha Hf]. apply andb_true_iff in Hf as [Hb Hc].
    destruct (N.eqb a SEP) eqn:A; [discriminate|]. destruct (N.eqb b SEP) eqn:B; [discriminate|].
    destruct (N.eqb c SEP) eqn:C; [discriminate|].
    replace (p ++ SEP :: rev g ++ [a; b; c]) with ((p ++ SEP :: rev g ++ [a; b]) ++ [c])
      by (rewrite <- !app_assoc; cbn [app]; rewrite <- !app_assoc; reflexivity).
    rewrite last_last, C.
    replace ((p ++ SEP :: rev g ++ [a; b]) ++ [c]) with ((p ++ SEP :: rev g ++ [a]) ++ [b; c])
      by (rewrite <- !app_assoc; cbn [app]; rewrite <- !app_assoc; reflexivity).
    change 2 with (length [b; c]) at 2. rewrite skipn_suffix. cbn [str_eqb]. rewrite B. cbn [andb]. rewrite andb_false_r.
    replace ((p ++ SEP :: rev g ++ [a]) ++ [b; c]) with ((p ++ SEP :: rev g) ++ [a; b; c])
      by (rewrite <- !app_assoc; cbn [app]; rewrite <- !app_assoc; reflexivity).
    change 3 with (length [a; b; c]) at 2. rewrite skipn_suffix. cbn [str_eqb]. rewrite A. cbn [andb]. rewrite andb_false_r.
    unfold component_ok, is_dot_or_dotdot.
    rewrite !str_eqb_len by (rewrite app_length; cbn [length]; lia).
    destruct (rev g ++ [a; b; c]) eqn:E; [destruct (rev g); discriminate|]. reflexivity.
Qed.

Lemma component_ok_last s : component_ok (last_component s) = negb (fp_inv_content s).
Proof.
  destruct (sep_decomp s) as [H|[p [f [-> H]]]].
  - rewrite last_component_nosep, fp_inv_nosep by auto. apply component_ok_fn.
  - rewrite last_component_decomp, fp_inv_decomp by auto. now rewrite negb_involutive.
Qed.

Lemma gen_rules_restricted c s : restricted_filename_rules c s = gen_rules (RestrictedFileNameT c) s.
Proof.
  unfold restricted_filename_rules, gen_rules. cbn [cap inv_chars inv_content RestrictedFileNameT].
  rewrite (forallb_split fn_allowed ascii_nonnul fn_bad_char s fn_allowed_eq), component_ok_fn.
  now rewrite !andb_assoc.
Qed.
Lemma gen_rules_filename s : filename_rules s = gen_rules FileNameT s.
Proof. apply gen_rules_restricted. Qed.
Lemma gen_rules_path s : path_rules s = gen_rules PathT s.
Proof.
  unfold path_rules, gen_rules. cbn [cap inv_chars inv_content PathT].
  rewrite (forallb_split path_allowed ascii_nonnul path_bad_char s path_allowed_eq).
  cbn [negb]. now rewrite andb_true_r, !andb_assoc.
Qed.
Lemma gen_rules_filepath s : filepath_rules s = gen_rules FilePathT s.
Proof.
  unfold filepath_rules, gen_rules. cbn [cap inv_chars inv_content FilePathT].
  rewrite (forallb_split path_allowed ascii_nonnul path_bad_char s path_allowed_eq), component_ok_last.
  now rewrite !andb_assoc.
Qed.
Lemma gen_rules_base64 s : base64url_rules s = gen_rules Base64UrlT s.
Proof.
  unfold base64url_rules, gen_rules. cbn [cap inv_chars inv_content Base64UrlT].
  rewrite (forallb_split word_char ascii_nonnul b64_bad_char s word_char_eq).
  rewrite !andb_assoc. f_equal. now destruct s.
Qed.
Lemma gen_rules_posix c s : posix_name_rules c s = gen_rules {| cap := c; inv_chars := existsb ug_bad_char; inv_content := ug_inv_content |} s.
Proof.
  unfold posix_name_rules, gen_rules. cbn [cap inv_chars inv_content].
  rewrite (forallb_split word_char ascii_nonnul ug_bad_char s word_char_eq).
  rewrite !andb_assoc. f_equal. now destruct s.
Qed.

Theorem rules_of_gen t s : rules_of t s = gen_rules (sty_of t) s.
Proof.
  destruct t; cbn [rules_of sty_of].
  - apply gen_rules_filename.
  - apply gen_rules_path.
  - apply gen_rules_filepath.
  - apply gen_rules_base64.
  - apply (gen_rules_posix 255).
  - apply (gen_rules_posix 31).
  - apply gen_rules_restricted.
Qed.

(* ---------------------------------------------------------------------------------- *)

(* ---------------------------------------------------------------------------------- *)
(* Part 3: the property-level statements for the concrete types *)
Theorem new_eq t b :
  sem_new (sty_of t) b = if rules_of t b then Val (inl b) else Val (inr (spec_err (cap_of t) b)).
Proof. apply (sem_new_eq (sty_of t) (rules_of t) (rules_of_gen t)). Qed.

Theorem accept_iff t b :
  (sem_new (sty_of t) b = Val (inl b) <-> rules_of t b = true) /\
  (forall s, sem_new (sty_of t) b = Val (inl s) -> s = b) /\
  sem_new (sty_of t) b <> Panic.
Proof.
  rewrite (new_eq t b). destruct (rules_of t b); repeat split; try congruence; try discriminate.
  all: try (intros s [= ->]; reflexivity).
Qed.

(* the constructor is the spec constructor, error kind included *)
Theorem new_matches_spec t b : sem_new (sty_of t) b = spec_new t b.
Proof. rewrite new_eq. reflexivity. Qed.

Theorem mutators_refine t s o : rules_of t s = true -> sem_apply (sty_of t) s o = spec_apply t s o.
Proof. intros V. apply (sem_apply_refines (sty_of t) (rules_of t) (rules_of_gen t)); auto. Qed.

Theorem mutators_preserve t s o s' r : rules_of t s = true -> sem_apply (sty_of t) s o = Val (s', r) ->
  match r with ObErr _ => s' = s | _ => rules_of t s' = true end.
Proof. apply (sem_apply_preserves (sty_of t) (rules_of t) (rules_of_gen t)). Qed.

Theorem mutators_panic_iff t s o : rules_of t s = true ->
  (sem_apply (sty_of t) s o = Panic <->
   match inserted_bytes s o with Some (i, _) => length s < i | None => False end).
Proof. apply (sem_apply_panics (sty_of t) (rules_of t) (rules_of_gen t)). Qed.

(* ---- file names are safe path components ---- *)
Lemma fn_allowed_path c : fn_allowed c = true -> path_allowed c = true.
Proof. unfold fn_allowed, path_allowed, mem, FILE_FORBIDDEN. cbn [existsb]. lia. Qed.
Lemma fn_allowed_nosep c : fn_allowed c = true -> negb (N.eqb c SEP) = true.
Proof. unfold fn_allowed, mem, FILE_FORBIDDEN, SEP. cbn [existsb]. lia. Qed.
Lemma fn_allowed_nonnul c : fn_allowed c = true -> c <> 0%N.
Proof. unfold fn_allowed, printable. lia. Qed.

Lemma forallb_impl {A} (f g : A -> bool) l : (forall x, f x = true -> g x = true) -> forallb f l = true -> forallb g l = true.
Proof. intros I. induction l as [|x l IH]; cbn; auto. intros H. apply andb_true_iff in H as [H1 H2]. rewrite I, IH; auto. Qed.

Record fn_facts (s : str) : Prop := {
  ff_len : length s <= 255;
  ff_chars : forallb fn_allowed s = true;
  ff_pchars : forallb path_allowed s = true;
  ff_nosep : nosep s = true;
  ff_comp : component_ok s = true;
  ff_ne : s <> [] }.
Lemma filename_facts s : filename_rules s = true -> fn_facts s.
Proof.
  unfold filename_rules, restricted_filename_rules. intros H.
  apply andb_true_iff in H as [H H3]. apply andb_true_iff in H as [H1 H2].
  constructor; auto.
  - lia.
  - eapply forallb_impl; [apply fn_allowed_path | exact H2].
  - unfold nosep. eapply forallb_impl; [apply fn_allowed_nosep | exact H2].
  - intros ->. discriminate.
Qed.

Theorem filename_safe s : filename_rules s = true ->
  ~ In SEP s /\ ~ In 0%N s /\ s <> [] /\ s <> [DOT] /\ s <> [DOT; DOT].
Proof.
  intros H. destruct (filename_facts s H) as [L C _ NS CO NE].
  rewrite forallb_forall in C. repeat split; auto.
  - intros I. apply C in I. discriminate.
  - intros I. apply C in I. discriminate.
  - intros ->. discriminate.
  - intros ->. discriminate.
Qed.

(* ---- ServiceName / NodeName ---- *)
Lemma str_try_from_eq c b :
  str_try_from c b = if Nat.ltb c (length b) then Val (inr InsertWouldExceedCapacity)
                     else if existsb bad_byte b then Val (inr InvalidCharacter) else Val (inl b).
Proof.
  unfold str_try_from, str_insert_bytes. destruct (Nat.ltb c (length b)) eqn:L; [reflexivity|].
  cbn [length firstn skipn app]. rewrite Nat.add_0_l, L. change (Nat.ltb 0 0) with false. cbn iota.
  now rewrite app_nil_r.
Qed.
Theorem service_name_accept b : utf8_valid b = true ->
  exists r, service_name_new b = Some r /\ r <> Panic /\
            (r = Val (inl b) <-> service_name_rules b = true) /\ (forall s, r = Val (inl s) -> s = b).
Proof.
  intros U. unfold service_name_new, service_name_rules. rewrite U. cbn [negb].
  destruct (starts_with IOX2_PREFIX b) eqn:P.
  - eexists; split; [reflexivity|]. rewrite !andb_false_r. repeat split; try discriminate.
  - destruct b as [|x b'] eqn:Eb.
    + eexists; split; [reflexivity|]. cbn [nonempty andb]. repeat split; try discriminate.
    + rewrite <- Eb in *. rewrite str_try_from_eq. rewrite forallb_ascii_bad.
      assert (nonempty b = true) as -> by (subst; reflexivity). cbn [negb andb].
      unfold MAX_SERVICE_NAME_LENGTH.
      destruct (Nat.ltb 255 (length b)) eqn:L.
      * assert (Nat.leb (length b) 255 = false) as -> by lia. cbn [andb].
        eexists; split; [reflexivity|]. repeat split; try discriminate.
      * assert (Nat.leb (length b) 255 = true) as -> by lia. cbn [andb].
        destruct (existsb bad_byte b); cbn [negb andb].
        -- eexists; split; [reflexivity|]. repeat split; try discriminate.
        -- eexists; split; [reflexivity|]. repeat split; try discriminate; auto. intros s [= <-]. reflexivity.
Qed.
Theorem node_name_accept b : utf8_valid b = true ->
  exists r, node_name_new b = Some r /\ r <> Panic /\
            (r = Val (inl b) <-> node_name_rules b = true) /\ (forall s, r = Val (inl s) -> s = b).
Proof.
  intros U. unfold node_name_new, node_name_rules. rewrite U. cbn [negb].
  rewrite str_try_from_eq, forallb_ascii_bad. unfold MAX_NODE_NAME_LENGTH.
  destruct (Nat.ltb 128 (length b)) eqn:L.
  - assert (Nat.leb (length b) 128 = false) as -> by lia. cbn [andb].
    eexists; split; [reflexivity|]. repeat split; try discriminate.
  - assert (Nat.leb (length b) 128 = true) as -> by lia. cbn [andb].
    destruct (existsb bad_byte b); cbn [negb].
    + eexists; split; [reflexivity|]. repeat split; try discriminate.
    + eexists; split; [reflexivity|]. repeat split; try discriminate; auto. intros s [= <-]. reflexivity.
Qed.

(* ---------------------------------------------------------------------------------- *)
(* Part 4: NamedConceptConfiguration: path_for / extract_name_from_file / isolation *)
Definition valid_cfg (c : ncfg) : Prop :=
  filename_rules (prefix c) = true /\ filename_rules (suffix c) = true /\ path_rules (path_hint c) = true.

Lemma path_rules_app s b :
  path_rules (s ++ b) = Nat.leb (length s + length b) 255 && forallb path_allowed s && forallb path_allowed b.
Proof. unfold path_rules. rewrite app_length, forallb_app. now rewrite andb_assoc. Qed.
Lemma path_rules_facts s : path_rules s = true -> length s <= 255 /\ forallb path_allowed s = true.
Proof. unfold path_rules. intros H. apply andb_true_iff in H as [H1 H2]. split; [lia|auto]. Qed.

Lemma push_chain s b : path_rules s = true -> forallb path_allowed b = true ->
  (length s + length b <= 255 -> sem_push_bytes PathT s b = Val (s ++ b, inl tt) /\ path_rules (s ++ b) = true) /\
  (255 < length s + length b -> sem_push_bytes PathT s b = Val (s, inr ExceedsMaximumLength)).
Proof.
  intros V Cb. destruct (path_rules_facts s V) as [Ls Cs].
  unfold sem_push_bytes. rewrite (sem_insert_bytes_eq PathT path_rules gen_rules_path) by auto.
  rewrite firstn_all, skipn_all, app_nil_r, path_rules_app, Cs, Cb, !andb_true_r.
  split; intros H.
  - assert (Nat.leb (length s + length b) 255 = true) as -> by lia. auto.
  - assert (Nat.leb (length s + length b) 255 = false) as -> by lia.
    unfold spec_err. rewrite app_length. cbn [cap PathT]. unfold PATH_LENGTH.
    assert (Nat.ltb 255 (length s + length b) = true) as -> by lia. reflexivity.
Qed.

Definition with_sep (hint : str) : str :=
  if (nonempty hint && negb (N.eqb (last hint 0%N) SEP))%bool then hint ++ [SEP] else hint.
Lemma spec_join_with_sep hint e : spec_join hint e = with_sep hint ++ e.
Proof.
  unfold spec_join, with_sep. destruct hint as [|x h]; [reflexivity|].
  cbn [nonempty andb]. destruct (N.eqb (last (x :: h) 0%N) SEP); cbn [negb]; [reflexivity|].
  now rewrite <- app_assoc.
Qed.
Lemma with_sep_shape h : (h = [] /\ with_sep h = []) \/ exists h0, with_sep h = h0 ++ [SEP].
Proof.
  unfold with_sep. destruct h as [|x h]; [left; auto|right].
  cbn [nonempty andb]. destruct (N.eqb (last (x :: h) 0%N) SEP) eqn:E; cbn [negb].
  - apply N.eqb_eq in E. exists (removelast (x :: h)). rewrite <- E. apply app_removelast_last. discriminate.
  - eauto.
Qed.
Lemma with_sep_length h : length h <= length (with_sep h) <= length h + 1.
Proof. unfold with_sep. destruct (_ && _)%bool; rewrite ?app_length; cbn [length]; lia. Qed.
Lemma with_sep_chars h : forallb path_allowed h = true -> forallb path_allowed (with_sep h) = true.
Proof. intros H. unfold with_sep. destruct (_ && _)%bool; auto. rewrite forallb_app, H. reflexivity. Qed.

Lemma add_entry_eq hint e : path_rules hint = true -> forallb path_allowed e = true ->
  (length (with_sep hint) + length e <= 255 ->
     path_add_path_entry hint e = Val (with_sep hint ++ e, inl tt) /\ path_rules (with_sep hint ++ e) = true) /\
  (255 < length (with_sep hint) + length e -> path_add_path_entry hint e = Val (hint, inr ExceedsMaximumLength)).
Proof.
  intros V Ce. unfold path_add_path_entry, with_sep.
  destruct (nonempty hint && negb (N.eqb (last hint 0%N) SEP))%bool.
  - change (sem_push PathT hint SEP) with (sem_push_bytes PathT hint [SEP]).
    destruct (push_chain hint [SEP] V eq_refl) as [A1 A2]. cbn [length] in A1, A2.
    rewrite app_length. cbn [length].
    destruct (le_lt_dec (length hint + 1) 255) as [F1|F1].
    + destruct (A1 F1) as [-> V1].
      destruct (push_chain (hint ++ [SEP]) e V1 Ce) as [B1 B2]. rewrite app_length in B1, B2. cbn [length] in B1, B2.
      split; intros H.
      * destruct (B1 ltac:(lia)) as [-> V2]. auto.
      * rewrite (B2 H). reflexivity.
    + rewrite (A2 F1). split; intros H; [lia|reflexivity].
  - destruct (push_chain hint e V Ce) as [B1 B2].
    split; intros H.
    + destruct (B1 ltac:(lia)) as [-> V2]. auto.
    + rewrite (B2 H). reflexivity.
Qed.

(* Path::add_path_entry is all or nothing (fix a263455) *)
Theorem add_path_entry_spec s e : path_rules s = true -> path_rules e = true ->
  lift (fun _ : unit => ObUnit) (path_add_path_entry s e) = spec_add_path_entry s e.
Proof.
  intros V Ve. destruct (path_rules_facts e Ve) as [Le Ce]. destruct (path_rules_facts s V) as [Ls Cs].
  destruct (add_entry_eq s e V Ce) as [A1 A2].
  unfold spec_add_path_entry. rewrite spec_join_with_sep.
  destruct (le_lt_dec (length (with_sep s) + length e) 255) as [F|F].
  - destruct (A1 F) as [-> V2]. rewrite V2. reflexivity.
  - rewrite (A2 F). cbn [lift].
    assert (path_rules (with_sep s ++ e) = false) as ->.
    { unfold path_rules. rewrite app_length. assert (Nat.leb (length (with_sep s) + length e) 255 = false) as -> by lia. reflexivity. }
    unfold spec_err. rewrite app_length. assert (Nat.ltb 255 (length (with_sep s) + length e) = true) as -> by lia. reflexivity.
Qed.

(* FilePath::from_path_and_file: the concatenation whenever it fits, never a panic *)
Lemma match_ne {A B} (l : list A) (a b : B) : l <> [] -> match l with [] => a | _ :: _ => b end = b.
Proof. destruct l; [contradiction|reflexivity]. Qed.
Lemma nonempty_ne (l : str) : l <> [] -> nonempty l = true.
Proof. destruct l; [contradiction|reflexivity]. Qed.
Theorem from_path_and_file_spec p f : fp_from_path_and_file p f = spec_from_path_and_file p f.
Proof.
  unfold fp_from_path_and_file, spec_from_path_and_file, PATH_LENGTH.
  destruct (list_eq_dec N.eq_dec p []) as [->|NE].
  - cbn [nonempty andb app length Nat.add]. rewrite Nat.add_0_r.
    destruct (Nat.ltb 255 (length f)) eqn:L.
    + assert (Nat.leb (length f) 255 = false) as -> by lia. reflexivity.
    + assert (Nat.leb (length f) 255 = true) as -> by lia. reflexivity.
  - rewrite match_ne, nonempty_ne by auto. cbn [andb].
    destruct (N.eqb (last p 0%N) SEP); cbn [negb].
    + rewrite Nat.add_0_r, app_length. cbn [app].
      destruct (Nat.ltb 255 (length p + length f)) eqn:L.
      * assert (Nat.leb (length p + length f) 255 = false) as -> by lia. reflexivity.
      * assert (Nat.leb (length p + length f) 255 = true) as -> by lia. reflexivity.
    + rewrite app_length. cbn [length app].
      destruct (Nat.ltb 255 (length p + length f + 1)) eqn:L.
      * assert (Nat.leb (length p + S (length f)) 255 = false) as -> by lia. reflexivity.
      * assert (Nat.leb (length p + S (length f)) 255 = true) as -> by lia. reflexivity.
Qed.

Lemma two_pushes p1 n suf : path_rules p1 = true -> forallb path_allowed n = true -> forallb path_allowed suf = true ->
  match sem_push_bytes PathT p1 n with
  | Val (p2, inl _) => match sem_push_bytes PathT p2 suf with Val (p3, inl _) => Val p3 | _ => Panic end
  | _ => Panic
  end = if Nat.leb (length p1 + length n + length suf) 255 then Val (p1 ++ n ++ suf) else Panic.
Proof.
  intros V Cn Cs. destruct (push_chain p1 n V Cn) as [A1 A2].
  destruct (le_lt_dec (length p1 + length n) 255) as [F1|F1].
  - destruct (A1 F1) as [-> V1].
    destruct (push_chain (p1 ++ n) suf V1 Cs) as [B1 B2]. rewrite app_length in B1, B2.
    destruct (le_lt_dec (length p1 + length n + length suf) 255) as [F2|F2].
    + destruct (B1 F2) as [-> _]. assert (Nat.leb (length p1 + length n + length suf) 255 = true) as -> by lia.
      now rewrite <- app_assoc.
    + rewrite (B2 F2). assert (Nat.leb (length p1 + length n + length suf) 255 = false) as -> by lia. reflexivity.
  - rewrite (A2 F1). assert (Nat.leb (length p1 + length n + length suf) 255 = false) as -> by lia. reflexivity.
Qed.

(* what FilePath::file_name() / Path::entries() can hand out through FileName::new_unchecked:
   non-empty, separator-free, made of path characters -- but possibly ".", ".." or with
   bytes a FileName forbids (backslash) *)
Definition unchecked_fn (s : str) : Prop := s <> [] /\ nosep s = true /\ forallb path_allowed s = true.
Definition unchecked_cfg (c : ncfg) : Prop :=
  unchecked_fn (prefix c) /\ unchecked_fn (suffix c) /\ path_rules (path_hint c) = true.

Theorem nc_path_for_eq_unchecked c n : unchecked_cfg c -> unchecked_fn n -> nc_path_for c n = spec_path_for c n.
Proof.
  intros [[_ [_ Cp]] [[_ [_ Cs]] Vh]] [_ [_ Cn]].
  unfold spec_path_for. rewrite spec_join_with_sep. unfold nc_path_for.
  destruct (add_entry_eq (path_hint c) (prefix c) Vh Cp) as [A1 A2].
  rewrite !app_length.
  destruct (le_lt_dec (length (with_sep (path_hint c)) + length (prefix c)) 255) as [F1|F1].
  - destruct (A1 F1) as [-> V1]. rewrite two_pushes by auto. rewrite app_length.
    replace (length (with_sep (path_hint c)) + length (prefix c) + length n + length (suffix c))
      with (length (with_sep (path_hint c)) + (length (prefix c) + (length n + length (suffix c)))) by lia.
    destruct (Nat.leb _ 255); [|reflexivity]. now rewrite <- app_assoc.
  - rewrite (A2 F1).
    assert (Nat.leb (length (with_sep (path_hint c)) + (length (prefix c) + (length n + length (suffix c)))) 255 = false) as -> by lia.
    reflexivity.
Qed.

Lemma filename_unchecked s : filename_rules s = true -> unchecked_fn s.
Proof. intros H. destruct (filename_facts s H). repeat split; auto. Qed.
Lemma valid_cfg_unchecked c : valid_cfg c -> unchecked_cfg c.
Proof. intros [Vp [Vs Vh]]. repeat split; auto; apply filename_unchecked; auto. Qed.

Theorem nc_path_for_eq c n : valid_cfg c -> filename_rules n = true -> nc_path_for c n = spec_path_for c n.
Proof. intros V Vn. apply nc_path_for_eq_unchecked; [apply valid_cfg_unchecked | apply filename_unchecked]; auto. Qed.

Lemma component_ok_app a b : a <> [] -> b <> [] -> (component_ok a = true \/ component_ok b = true) ->
  component_ok (a ++ b) = true.
Proof.
  unfold component_ok, is_dot_or_dotdot, DOT.
  destruct a as [|x [|y [|z a]]], b as [|u [|v [|w b]]]; intros Ha Hb H; try contradiction; cbn [app nonempty str_eqb andb orb negb] in *;
    try reflexivity; rewrite ?andb_false_r, ?andb_true_r, ?orb_false_r in *.
  all: repeat match goal with
       | H : context[N.eqb ?v 46] |- _ => destruct (N.eqb v 46)
       | |- context[N.eqb ?v 46] => destruct (N.eqb v 46)
       end; cbn in *; try reflexivity; intuition (try discriminate).
Qed.

Lemma nosep_app a b : nosep a = true -> nosep b = true -> nosep (a ++ b) = true.
Proof. unfold nosep. intros Ha Hb. now rewrite forallb_app, Ha, Hb. Qed.

(* prefix ++ name ++ suffix is a valid file name as soon as it is short enough *)
Lemma comp_valid pre n suf : filename_rules pre = true -> filename_rules n = true -> filename_rules suf = true ->
  length (pre ++ n ++ suf) <= 255 -> filename_rules (pre ++ n ++ suf) = true.
Proof.
  intros Vp Vn Vs L.
  destruct (filename_facts _ Vp) as [_ Cp _ _ COp NEp]. destruct (filename_facts _ Vs) as [_ Cs _ _ COs NEs].
  destruct (filename_facts _ Vn) as [_ Cn _ _ COn NEn].
  unfold filename_rules, restricted_filename_rules.
  assert (Nat.leb (length (pre ++ n ++ suf)) 255 = true) as -> by lia.
  rewrite !forallb_app, Cp, Cn, Cs. cbn [andb].
  apply component_ok_app; auto. intros E. apply app_eq_nil in E as [E _]. contradiction.
Qed.
Lemma tail_valid n suf : filename_rules n = true -> filename_rules suf = true ->
  length (n ++ suf) <= 255 -> filename_rules (n ++ suf) = true.
Proof.
  intros Vn Vs L.
  destruct (filename_facts _ Vs) as [_ Cs _ _ COs NEs]. destruct (filename_facts _ Vn) as [_ Cn _ _ COn NEn].
  unfold filename_rules, restricted_filename_rules.
  assert (Nat.leb (length (n ++ suf)) 255 = true) as -> by lia.
  rewrite !forallb_app, Cn, Cs. cbn [andb]. apply component_ok_app; auto.
Qed.

Lemma path_normalize_trailing_sep h : h <> [] -> path_normalize (h ++ [SEP]) = path_normalize h.
Proof.
  intros Hn. unfold path_normalize. destruct h as [|x h]; [contradiction|]. cbn [app].
  f_equal. change (x :: h ++ [SEP]) with ((x :: h) ++ SEP :: []).
  rewrite split_sep_app_sep. cbn [split_sep]. rewrite filter_app. cbn [filter nonempty]. now rewrite app_nil_r.
Qed.
Lemma path_entries_trailing_sep h : path_entries (h ++ [SEP]) = path_entries h.
Proof.
  unfold path_entries. change (h ++ [SEP]) with (h ++ SEP :: []).
  rewrite split_sep_app_sep. cbn [split_sep]. rewrite filter_app. cbn [filter nonempty]. now rewrite app_nil_r.
Qed.


Lemma component_ok_long s : 3 <= length s -> component_ok s = true.
Proof.
  intros H. unfold component_ok, is_dot_or_dotdot.
  rewrite !str_eqb_len by (cbn [length]; lia). destruct s; [cbn in H; lia|reflexivity].
Qed.

(* containment needs much less than valid file names: it already holds for everything the
   unchecked conversions can produce *)
Theorem path_for_contained_unchecked c n p : unchecked_cfg c -> unchecked_fn n -> nc_path_for c n = Val p ->
  let comp := prefix c ++ n ++ suffix c in
  p = with_sep (path_hint c) ++ comp /\
  (nosep comp = true /\ component_ok comp = true /\ length comp <= 255) /\
  fp_file_name p = comp /\
  filepath_rules p = true /\
  path_entries p = path_entries (path_hint c) ++ [comp] /\
  same_directory (path_hint c) (fp_path p) = true.
Proof.
  intros V Vn E comp. pose proof V as [[NEp [NSp Cp]] [[NEs [NSs Cs]] Vh]]. destruct Vn as [NEn [NSn Cn]].
  rewrite (nc_path_for_eq_unchecked c n V (conj NEn (conj NSn Cn))) in E.
  unfold spec_path_for in E. rewrite spec_join_with_sep in E. fold comp in E.
  destruct (Nat.leb (length (with_sep (path_hint c) ++ comp)) 255) eqn:Fit; [|discriminate].
  injection E as <-. rewrite app_length in Fit.
  assert (NSc : nosep comp = true) by (unfold comp; repeat apply nosep_app; auto).
  assert (PCc : forallb path_allowed comp = true) by (unfold comp; rewrite !forallb_app, Cp, Cn, Cs; reflexivity).
  assert (L3 : 3 <= length comp).
  { unfold comp. rewrite !app_length. destruct (prefix c), n, (suffix c); try contradiction; cbn [length]; lia. }
  assert (COc : component_ok comp = true) by (apply component_ok_long; auto).
  assert (NEc : comp <> []) by (intros E0; rewrite E0 in L3; cbn [length] in L3; inversion L3).
  clearbody comp. clear NEp NSp Cp NEs NSs Cs NEn NSn Cn V.
  assert (Lc : length comp <= 255) by (clear - Fit; lia).
  destruct (path_rules_facts _ Vh) as [Lh Ch].
  split; [reflexivity|]. split; [auto|].
  assert (FR : forall q, forallb path_allowed q = true -> length (q ++ comp) <= 255 ->
                    last_component (q ++ comp) = comp -> filepath_rules (q ++ comp) = true).
  { intros q Cq Lq LC. unfold filepath_rules. rewrite LC, COc, forallb_app, Cq, PCc.
    assert (Nat.leb (length (q ++ comp)) 255 = true) as -> by lia. reflexivity. }
  destruct (with_sep_shape (path_hint c)) as [[Eh Ew]|[h0 Ew]]; rewrite Ew in *.
  - (* empty path hint *)
    cbn [app]. unfold fp_file_name, fp_path, same_directory. rewrite split_last_nosep by auto. cbn [fst snd].
    split; [reflexivity|]. split; [apply (FR []); auto; apply last_component_nosep; auto|].
    split; [|rewrite Eh; reflexivity].
    rewrite Eh. unfold path_entries. rewrite split_sep_nosep by auto. cbn [split_sep filter nonempty app].
    destruct comp; [contradiction|reflexivity].
  - rewrite <- app_assoc. cbn [app].
    unfold fp_file_name, fp_path. rewrite split_last_decomp by auto. cbn [fst snd].
    split; [reflexivity|].
    assert (Ch0 : forallb path_allowed (h0 ++ [SEP]) = true) by (rewrite <- Ew; apply with_sep_chars; auto).
    split.
    { replace (h0 ++ SEP :: comp) with ((h0 ++ [SEP]) ++ comp) by now rewrite <- app_assoc.
      apply FR; auto.
      - rewrite app_length. lia.
      - rewrite <- app_assoc. apply last_component_decomp; auto. }
    assert (PE : path_entries (h0 ++ SEP :: comp) = path_entries h0 ++ [comp]).
    { unfold path_entries. rewrite split_sep_app_sep, filter_app, (split_sep_nosep comp) by auto.
      cbn [filter]. destruct comp; [contradiction|reflexivity]. }
    rewrite PE.
    (* relate h0 to the configured hint *)
    unfold with_sep in Ew.
    destruct (nonempty (path_hint c) && negb (N.eqb (last (path_hint c) 0%N) SEP))%bool eqn:NS.
    + apply app_inj_tail in Ew as [<- _]. split; [reflexivity|].
      unfold same_directory. destruct (path_hint c); [discriminate|]. apply str_eqb_refl.
    + rewrite Ew. rewrite path_entries_trailing_sep. split; [reflexivity|].
      unfold same_directory. destruct h0 as [|y h0]; [apply str_eqb_refl|].
      rewrite path_normalize_trailing_sep by discriminate. apply str_eqb_refl.
Qed.

Theorem path_for_contained c n p : valid_cfg c -> filename_rules n = true -> nc_path_for c n = Val p ->
  let comp := prefix c ++ n ++ suffix c in
  p = with_sep (path_hint c) ++ comp /\
  filename_rules comp = true /\
  fp_file_name p = comp /\
  filepath_rules p = true /\
  path_entries p = path_entries (path_hint c) ++ [comp] /\
  same_directory (path_hint c) (fp_path p) = true.
Proof.
  intros V Vn E comp. pose proof V as [Vp [Vs Vh]].
  destruct (path_for_contained_unchecked c n p (valid_cfg_unchecked c V) (filename_unchecked n Vn) E)
    as [E1 [[_ [_ Lc]] [E3 [E4 [E5 E6]]]]].
  repeat split; auto. apply comp_valid; auto.
Qed.

(* ---- what the unchecked conversions produce ---- *)
Lemma fp_file_name_last s : fp_file_name s = last_component s.
Proof.
  unfold fp_file_name. destruct (sep_decomp s) as [H|[p [f [-> H]]]].
  - now rewrite split_last_nosep, last_component_nosep.
  - now rewrite split_last_decomp, last_component_decomp.
Qed.
Lemma split_sep_props (P : N -> bool) s : forallb P s = true ->
  Forall (fun e => nosep e = true /\ forallb P e = true /\ length e <= length s) (split_sep s).
Proof.
  induction s as [|x t IH]; intros H; cbn [split_sep].
  - constructor; [|constructor]. repeat split; auto.
  - cbn [forallb] in H. apply andb_true_iff in H as [H1 H2]. specialize (IH H2).
    destruct (N.eqb x SEP) eqn:E.
    + constructor; [repeat split; cbn; auto; lia|].
      eapply Forall_impl; [|exact IH]. intros e [A [B C]]. repeat split; auto. cbn [length]. lia.
    + destruct (split_sep t) as [|h r]; [constructor; [|constructor]; unfold nosep; cbn; rewrite E, H1; repeat split; auto; lia|].
      inversion IH as [|? ? [A [B C]] IHr]; subst. constructor.
      * unfold nosep in *. cbn [forallb length]. rewrite E, H1, A, B. repeat split; auto. lia.
      * eapply Forall_impl; [|exact IHr]. intros e [A' [B' C']]. repeat split; auto. cbn [length]. lia.
Qed.
Theorem entries_unchecked p e : path_rules p = true -> In e (path_entries p) ->
  unchecked_fn e /\ length e <= 255.
Proof.
  intros V I. destruct (path_rules_facts p V) as [Lp Cp].
  unfold path_entries in I. apply filter_In in I as [I NE].
  pose proof (split_sep_props path_allowed p Cp) as F. rewrite Forall_forall in F.
  destruct (F e I) as [A [B C]]. repeat split; auto; try lia. intros ->. discriminate.
Qed.
Theorem file_name_unchecked p : filepath_rules p = true ->
  unchecked_fn (fp_file_name p) /\ component_ok (fp_file_name p) = true /\ length (fp_file_name p) <= 255.
Proof.
  unfold filepath_rules. intros H. apply andb_true_iff in H as [H CO]. apply andb_true_iff in H as [Lp Cp].
  rewrite fp_file_name_last. pose proof (split_sep_props path_allowed p Cp) as F. rewrite Forall_forall in F.
  assert (I : In (last_component p) (split_sep p)).
  { unfold last_component. pose proof (split_sep_nonnil p) as NN.
    destruct (split_sep p) as [|h r] eqn:E; [contradiction|].
    rewrite (app_removelast_last [] NN) at 2. apply in_or_app. right. left. reflexivity. }
  destruct (F _ I) as [A [B C]]. repeat split; auto; try lia.
  intros E. rewrite E in CO. discriminate.
Qed.

(* `the unchecked conversions only hand out valid file names' is false ... *)
Definition unchecked_conversions_full : Prop :=
  (forall p, filepath_rules p = true -> filename_rules (fp_file_name p) = true) /\
  (forall p e, path_rules p = true -> In e (path_entries p) -> filename_rules e = true).
Theorem unchecked_conversions_refuted : ~ unchecked_conversions_full.
Proof.
  intros [H _]. specialize (H [120; 92; 121]%N). vm_compute in H. specialize (H eq_refl). discriminate.
Qed.
Example unchecked_entries_witness :
  path_rules [47; 116; 47; 46; 46]%N = true /\ path_entries [47; 116; 47; 46; 46]%N = [[116]; [46; 46]]%N /\
  filename_rules [46; 46]%N = false.
Proof. repeat split; vm_compute; reflexivity. Qed.

Lemma firstn_app_exact' {A} (a b : list A) : firstn (length (a ++ b) - length b) (a ++ b) = a.
Proof.
  rewrite app_length. replace (length a + length b - length b) with (length a) by lia.
  rewrite firstn_app, firstn_all, Nat.sub_diag. cbn [firstn]. apply app_nil_r.
Qed.

(* ---- extract_name_from_file ---- *)
Ltac caseFR := match goal with |- context[if filename_rules ?x then _ else _] => destruct (filename_rules x) eqn:?FR end.

(* extract_name_from_file is exactly the spec: Some n for the files prefix ++ n ++ suffix with n
   a valid name, None for every other file of the directory; never a panic (fix 19ab506) *)
Theorem nc_extract_spec c f : valid_cfg c -> filename_rules f = true ->
  nc_extract_name_from_file c f = spec_extract_name_from_file c f.
Proof.
  intros [Vp [Vs Vh]] Vf.
  unfold nc_extract_name_from_file, spec_extract_name_from_file, is_prefix.
  rewrite (sem_strip_prefix_eq FileNameT filename_rules gen_rules_filename) by auto.
  destruct (starts_with (prefix c) f) eqn:P; [|reflexivity].
  set (rest := skipn (length (prefix c)) f).
  assert (Lr : length rest <= 255).
  { unfold rest. rewrite skipn_length. destruct (filename_facts _ Vf). lia. }
  destruct (filename_rules rest) eqn:Vr.
  - rewrite (sem_strip_suffix_eq FileNameT filename_rules gen_rules_filename) by auto.
    destruct (is_suffix (suffix c) rest); [|reflexivity].
    caseFR; reflexivity.
  - destruct (is_suffix (suffix c) rest) eqn:S; [|reflexivity].
    caseFR; [|reflexivity]. exfalso.
    apply is_suffix_iff in S as [m Em].
    assert (Em' : firstn (length rest - length (suffix c)) rest = m).
    { rewrite Em. apply firstn_app_exact'. }
    rewrite Em' in FR. rewrite Em in Vr, Lr. rewrite tail_valid in Vr; auto. discriminate.
Qed.

Theorem extract_never_panics c f : valid_cfg c -> filename_rules f = true ->
  nc_extract_name_from_file c f <> Panic.
Proof.
  intros V Vf. rewrite nc_extract_spec by auto. unfold spec_extract_name_from_file.
  repeat match goal with |- context[if ?b then _ else _] => destruct b end; discriminate.
Qed.

Lemma skipn_app_exact {A} (a b : list A) : skipn (length a) (a ++ b) = b.
Proof. rewrite skipn_app, skipn_all, Nat.sub_diag. reflexivity. Qed.

(* a name written by path_for is read back unchanged *)
Theorem name_roundtrip_file c n : valid_cfg c -> filename_rules n = true ->
  length (prefix c ++ n ++ suffix c) <= 255 ->
  nc_extract_name_from_file c (prefix c ++ n ++ suffix c) = Val (Some n).
Proof.
  intros V Vn L. pose proof V as [Vp [Vs Vh]].
  rewrite nc_extract_spec by (auto; apply comp_valid; auto).
  unfold spec_extract_name_from_file, is_prefix. rewrite starts_with_app, skipn_app_exact.
  assert (is_suffix (suffix c) (n ++ suffix c) = true) as -> by (apply is_suffix_iff; eauto).
  rewrite firstn_app_exact', Vn. reflexivity.
Qed.

Theorem name_roundtrip c n p : valid_cfg c -> filename_rules n = true -> nc_path_for c n = Val p ->
  nc_extract_name_from_file c (fp_file_name p) = Val (Some n) /\
  nc_extract_name_from_path c p = Val (Some n).
Proof.
  intros V Vn E. destruct (path_for_contained c n p V Vn E) as [_ [Vc [FN [_ [_ SD]]]]].
  destruct (filename_facts _ Vc) as [Lc _ _ _ _ _].
  assert (R1 : nc_extract_name_from_file c (fp_file_name p) = Val (Some n)).
  { rewrite FN. apply name_roundtrip_file; auto. }
  split; [exact R1|].
  unfold nc_extract_name_from_path. unfold same_directory in SD. rewrite SD. cbn [negb]. exact R1.
Qed.

(* ---- isolation ---- *)
Lemma starts_with_app_cases p1 p2 x : starts_with p1 (p2 ++ x) = true ->
  starts_with p1 p2 = true \/ starts_with p2 p1 = true.
Proof.
  revert p2; induction p1 as [|a p1 IH]; intros p2 H; [left; reflexivity|].
  destruct p2 as [|b p2]; [right; reflexivity|].
  cbn [app starts_with] in *. apply andb_true_iff in H as [H1 H2].
  apply N.eqb_eq in H1; subst. rewrite N.eqb_refl. cbn [andb]. apply IH; auto.
Qed.

Definition isolation_full : Prop :=
  forall c1 c2 n p, valid_cfg c1 -> valid_cfg c2 -> filename_rules n = true ->
    (prefix c1 <> prefix c2 \/ same_directory (path_hint c1) (path_hint c2) = false) ->
    nc_path_for c2 n = Val p ->
    nc_extract_name_from_path c1 p = Val None.

Definition cfg_a : ncfg := {| prefix := [97]%N; suffix := [46; 115]%N; path_hint := [47; 116]%N |}.       (* a  .s  /t *)
Definition cfg_ab : ncfg := {| prefix := [97; 98]%N; suffix := [46; 115]%N; path_hint := [47; 116]%N |}.  (* ab .s  /t *)

Theorem isolation_refuted : ~ isolation_full.
Proof.
  intros H. specialize (H cfg_a cfg_ab [120]%N [47; 116; 47; 97; 98; 120; 46; 115]%N).
  assert (E : nc_extract_name_from_path cfg_a [47; 116; 47; 97; 98; 120; 46; 115]%N = Val (Some [98; 120]%N)) by (vm_compute; reflexivity).
  rewrite H in E; try discriminate; try (vm_compute; reflexivity).
  - repeat split; vm_compute; reflexivity.
  - repeat split; vm_compute; reflexivity.
  - left. discriminate.
Qed.

Theorem isolation_partial c1 c2 n p : valid_cfg c1 -> valid_cfg c2 -> filename_rules n = true ->
  ((starts_with (prefix c1) (prefix c2) = false /\ starts_with (prefix c2) (prefix c1) = false) \/
   same_directory (path_hint c1) (path_hint c2) = false) ->
  nc_path_for c2 n = Val p ->
  nc_extract_name_from_path c1 p = Val None.
Proof.
  intros V1 V2 Vn H E.
  destruct (path_for_contained c2 n p V2 Vn E) as [_ [Vc [FN [_ [_ SD]]]]].
  unfold nc_extract_name_from_path.
  destruct (str_eqb (path_normalize (path_hint c1)) (path_normalize (fp_path p))) eqn:D; cbn [negb]; [|reflexivity].
  destruct H as [[H1 H2]|H].
  - rewrite nc_extract_spec by (auto; rewrite FN; auto). rewrite FN. unfold spec_extract_name_from_file, is_prefix.
    destruct (starts_with (prefix c1) (prefix c2 ++ n ++ suffix c2)) eqn:S; [|reflexivity].
    apply starts_with_app_cases in S as [S|S]; congruence.
  - exfalso. unfold same_directory in *. apply str_eqb_eq in D, SD. rewrite <- SD in D.
    apply str_eqb_neq in H. contradiction.
Qed.


(* ---- names from the unchecked conversions do not round-trip ---- *)
Definition unchecked_roundtrip_full : Prop :=
  forall c n p, valid_cfg c -> unchecked_fn n -> nc_path_for c n = Val p ->
    nc_extract_name_from_file c (fp_file_name p) = Val (Some n).
Theorem unchecked_roundtrip_refuted : ~ unchecked_roundtrip_full.
Proof.
  intros H. specialize (H cfg_a [120; 92; 121]%N [47; 116; 47; 97; 120; 92; 121; 46; 115]%N).
  assert (E : nc_extract_name_from_file cfg_a (fp_file_name [47; 116; 47; 97; 120; 92; 121; 46; 115]%N) = Val None) by (vm_compute; reflexivity).
  rewrite H in E; try discriminate.
  - repeat split; vm_compute; reflexivity.
  - repeat split; try (vm_compute; reflexivity). discriminate.
  - vm_compute; reflexivity.
Qed.

(* ---- regression: the witnesses of the repaired defect classes now follow the spec ---- *)
Definition str_a124 : str := repeat 97%N 124.
Example regression_witnesses :
  sem_apply FileNameT [97]%N (OpPush 128%N) = Val ([97]%N, ObErr InvalidContent) /\
  sem_new FileNameT [0]%N = Val (inr InvalidContent) /\
  sem_apply (RestrictedFileNameT 2) [97; 98]%N (OpRemoveRange 0 0) = Val ([97; 98]%N, ObUnit) /\
  sem_apply (RestrictedFileNameT 2) [97; 98]%N (OpStripPrefix []) = Val ([97; 98]%N, ObBool true) /\
  sem_apply (RestrictedFileNameT 2) [97; 98]%N (OpStripSuffix []) = Val ([97; 98]%N, ObBool true) /\
  sem_apply FileNameT str_a124 (OpStripPrefix str_a124) = Val (str_a124, ObErr InvalidContent) /\
  nc_extract_name_from_file cfg_a [97; 46; 115]%N = Val None /\
  nc_extract_name_from_file cfg_a [97]%N = Val None /\
  path_add_path_entry [97]%N (repeat 98%N 254) = Val ([97]%N, inr ExceedsMaximumLength) /\
  fp_from_path_and_file (repeat 97%N 200) (repeat 98%N 54) = Val (inl (repeat 97%N 200 ++ [47]%N ++ repeat 98%N 54)).
Proof. repeat split; vm_compute; reflexivity. Qed.

(* non-vacuity material *)
Lemma cfg_a_valid : valid_cfg cfg_a.
Proof. repeat split; vm_compute; reflexivity. Qed.
Lemma cfg_ab_valid : valid_cfg cfg_ab.
Proof. repeat split; vm_compute; reflexivity. Qed.
Definition cfg_b : ncfg := {| prefix := [98]%N; suffix := [46; 115]%N; path_hint := [47; 116]%N |}.
Lemma cfg_b_valid : valid_cfg cfg_b.
Proof. repeat split; vm_compute; reflexivity. Qed.

Theorem extract_total c f : valid_cfg c -> filename_rules f = true ->
  nc_extract_name_from_file c f = spec_extract_name_from_file c f /\ nc_extract_name_from_file c f <> Panic.
Proof. intros V Vf. split; [apply nc_extract_spec | apply extract_never_panics]; auto. Qed.
