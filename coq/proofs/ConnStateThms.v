(* Consequences of Inv for the connection lifecycle model: the lemmas behind props/C13.v. *)
From V Require Import model.Base model.Conc model.Events model.ConnState proofs.ListLemmas
  proofs.ConnStateProofs proofs.ConnStateInv proofs.ConnStateStep proofs.ConnStateMain.
From Coq Require Import ZifyBool ZifyNat ZifyN.
Open Scope N_scope.

(* ---------------- byte level: total over all 256 values ---------------- *)
Lemma byte_total : forall b r, b < 256 ->
  (match reserve_check b r with
   | RsvAnother => N.land b (rbit r) <> 0
   | RsvCleanup => N.land b (rbit r) = 0 /\ N.land b MARKED <> 0
   | RsvTry n => N.land b (rbit r) = 0 /\ N.land b MARKED = 0 /\ n < 256 /\ N.land n (rbit r) <> 0 /\
                 N.land n (rbit (other r)) = N.land b (rbit (other r)) /\ N.land n MARKED = 0
   end) /\
  remove_new b r < 256 /\
  (b = rbit r -> remove_new b r = MARKED) /\
  (b <> rbit r -> N.land (remove_new b r) (rbit r) = 0 /\
                  N.land (remove_new b r) (rbit (other r)) = N.land b (rbit (other r)) /\
                  N.land (remove_new b r) MARKED = N.land b MARKED).
Proof.
  intros b r Hb. pose proof (byte_ok_all b Hb) as T. unfold byte_ok in T.
  rewrite forallb_forall in T. assert (Hin : In r [RSend; RRecv]) by (destruct r; cbn; auto).
  specialize (T r Hin). apply andb_true_iff in T. destruct T as [T1 T2]. split.
  - destruct (reserve_check b r).
    + apply negb_true_iff in T1. apply N.eqb_neq in T1. exact T1.
    + apply andb_true_iff in T1. destruct T1 as [A B]. apply N.eqb_eq in A. apply negb_true_iff in B. apply N.eqb_neq in B. auto.
    + repeat (apply andb_true_iff in T1; destruct T1 as [T1 ?]).
      repeat match goal with H : (_ =? _) = true |- _ => apply N.eqb_eq in H | H : (_ <? _) = true |- _ => apply N.ltb_lt in H
                        | H : negb _ = true |- _ => apply negb_true_iff in H; apply N.eqb_neq in H end.
      auto 10.
  - cbv zeta in T2. apply andb_true_iff in T2. destruct T2 as [A B]. apply N.ltb_lt in A. split; [exact A|].
    destruct (N.eqb_spec b (rbit r)) as [E|E].
    + apply N.eqb_eq in B. split; [auto|contradiction].
    + split; [contradiction|]. intros _.
      repeat (apply andb_true_iff in B; destruct B as [B ?]).
      repeat match goal with H : (_ =? _) = true |- _ => apply N.eqb_eq in H end. auto.
Qed.

(* ---------------- roles ---------------- *)
Lemma conn_bits_holders progs g ls i :
  reachable step (init progs) (g, ls) -> (i < length (incs g))%nat -> inc_ok (get_inc g i).
Proof. intros H Hi. apply inv_reach in H. destruct H as ((_ & G2 & _) & _). apply G2; auto. Qed.

Lemma conn_ports_attached progs g ls t k h :
  reachable step (init progs) (g, ls) -> nth k (hs (ls t)) None = Some h ->
  h_id h = k /\ (h_inc h < length (incs g))%nat /\ att g t h.
Proof.
  intros H E. apply inv_reach in H. destruct H as (_ & HL & _). cbn [fst snd] in HL.
  destruct (HL t) as (_ & L2 & _). destruct (L2 k h E) as (A & B & C & D). auto.
Qed.

Lemma conn_roles_unique progs g ls t k h t' k' h' :
  reachable step (init progs) (g, ls) ->
  nth k (hs (ls t)) None = Some h -> nth k' (hs (ls t')) None = Some h' ->
  h_inc h = h_inc h' -> h_role h = h_role h' ->
  ~ In (t, k) (stolen g) -> ~ In (t', k') (stolen g) -> (t, k) = (t', k').
Proof.
  intros H E E' Ei Er S S'.
  destruct (conn_ports_attached _ _ _ _ _ _ H E) as (I1 & _ & [A|A]); [|rewrite I1 in A; contradiction].
  destruct (conn_ports_attached _ _ _ _ _ _ H E') as (I2 & _ & [A'|A']); [|rewrite I2 in A'; contradiction].
  rewrite Ei, Er in A. rewrite A in A'. rewrite I1, I2 in A'. congruence.
Qed.

(* ---------------- step-level refusals (hold in every state, reachable or not) ---------------- *)
Lemma attach_refused t g l h p :
  at_pc l = CrLoad h p ->
  let c := st_of g (h_inc h) in
  (N.land c (rbit (h_role h)) <> 0 ->
     exists e, step t g l = Some (g, goto l (CrFail h C_ANOTHER), [e])) /\
  (N.land c (rbit (h_role h)) = 0 -> N.land c MARKED <> 0 ->
     exists e, step t g l = Some (g, goto l (CrFail h C_CLEANUP), [e])).
Proof.
  intros Epc c. unfold step. rewrite Epc. unfold reserve_next, reserve_check. fold c. split.
  - intros H. destruct (N.eqb_spec (N.land c (rbit (h_role h))) 0); [contradiction|]. cbn [negb]. eauto.
  - intros H1 H2. destruct (N.eqb_spec (N.land c (rbit (h_role h))) 0); [|contradiction]. cbn [negb].
    destruct (N.eqb_spec (N.land c MARKED) 0); [contradiction|]. cbn [negb]. eauto.
Qed.

Lemma attach_refused_cas t g l h p c0 :
  at_pc l = CrCas h p c0 ->
  let c := i_st (get_inc g (h_inc h)) in
  c <> c0 ->
  (N.land c (rbit (h_role h)) <> 0 ->
     exists e, step t g l = Some (g, goto l (CrFail h C_ANOTHER), [e])) /\
  (N.land c (rbit (h_role h)) = 0 -> N.land c MARKED <> 0 ->
     exists e, step t g l = Some (g, goto l (CrFail h C_CLEANUP), [e])).
Proof.
  intros Epc c Hne. unfold step. rewrite Epc. fold c. destruct (N.eqb_spec c c0); [contradiction|].
  unfold reserve_next, reserve_check. split.
  - intros H. destruct (N.eqb_spec (N.land c (rbit (h_role h))) 0); [contradiction|]. cbn [negb]. eauto.
  - intros H1 H2. destruct (N.eqb_spec (N.land c (rbit (h_role h))) 0); [|contradiction]. cbn [negb].
    destruct (N.eqb_spec (N.land c MARKED) 0); [contradiction|]. cbn [negb]. eauto.
Qed.

(* a refused attach: ownership released, nothing unlinked, the documented error is returned,
   the global state (in particular the byte) is untouched *)
Lemma refused_returns t g l h code :
  at_pc l = CrFail h code ->
  exists e1 l1, step t g l = Some (g, l1, [e1]) /\
  exists e2, step t g l1 = Some (g, finish l1 None, [e2; ret_ev g code]).
Proof.
  intros Epc. unfold step at 1. rewrite Epc. eexists. eexists. split; [reflexivity|].
  unfold step. cbn [goto at_pc set_own h_own why_code]. eauto.
Qed.

(* opening with mismatching parameters: the specific error is selected, and the opener's own bit
   is what the following remove_state takes out again *)
Lemma mismatch_refused t g l h p code :
  at_pc l = CrOwn h p -> h_own h = false -> mismatch p (i_par (get_inc g (h_inc h))) = Some code ->
  exists e, step t g l = Some (g, goto l (RsLoad h (WFail code)), [e]).
Proof. intros Epc Eo Em. unfold step. rewrite Epc, Eo, Em. eauto. Qed.

Lemma teardown_returns t g l h w :
  at_pc l = DrOwn h w -> h_own h = false ->
  exists e, step t g l = Some (g, finish l None, [e; ret_ev g (why_code w)]).
Proof. intros Epc Eo. unfold step. rewrite Epc, Eo. eauto. Qed.

(* ---------------- unlink ---------------- *)
Lemma conn_unlink_partial progs g ls :
  reachable step (init progs) (g, ls) ->
  NoDup (removed g) /\
  (saw_marked g = false -> forall u, In u (unl g) -> unlink_good u = true).
Proof.
  intros H. apply inv_reach in H. destruct H as ((_ & _ & (G3 & _) & _ & G5) & _). auto.
Qed.

(* a port that is attached (completed create_*, not stolen) sits on the incarnation the name
   refers to, as long as no remove_state found an already marked byte *)
Lemma conn_attached_exists progs g ls t k h :
  reachable step (init progs) (g, ls) -> saw_marked g = false ->
  nth k (hs (ls t)) None = Some h -> ~ In (t, k) (stolen g) -> cur g = Some (h_inc h).
Proof.
  intros H Hs E S. pose proof (conn_ports_attached _ _ _ _ _ _ H E) as (I1 & R & [A|A]); [|rewrite I1 in A; contradiction].
  pose proof (conn_bits_holders _ _ _ _ H R) as (V & HS & HR).
  apply inv_reach in H. destruct H as ((_ & _ & _ & G4 & _) & _). cbn [fst] in G4.
  apply G4; auto. unfold st_of. intros E1. rewrite E1 in HS, HR.
  destruct (h_role h); cbn [holder] in A.
  - assert (X : i_hs (get_inc g (h_inc h)) = None) by (apply HS; vm_compute; reflexivity). congruence.
  - assert (X : i_hr (get_inc g (h_inc h)) = None) by (apply HR; vm_compute; reflexivity). congruence.
Qed.

(* ---------------- without forced removal ---------------- *)
Definition no_force_op (o : op) : Prop := match o with OForce _ => False | _ => True end.
Definition pc_nf (p : pc) : Prop :=
  match p with
  | RsLoad _ w | RsCas _ w _ | Acq _ w | DrOwn _ w | DrRm _ w => w <> WForce
  | _ => True
  end.
Definition NF (l : lst) : Prop := Forall no_force_op (prog l) /\ pc_nf (at_pc l).

Lemma att_bit g t h :
  GInv g -> (h_inc h < length (incs g))%nat -> stolen g = [] -> att g t h ->
  holder (get_inc g (h_inc h)) (h_role h) = Some (t, h_id h) /\
  N.land (i_st (get_inc g (h_inc h))) (rbit (h_role h)) <> 0 /\ i_st (get_inc g (h_inc h)) <> MARKED.
Proof.
  intros (_ & G2 & _) R S [A|A]; [|rewrite S in A; contradiction].
  destruct (G2 _ R) as (V & HS & HR). split; [exact A|].
  assert (B : N.land (i_st (get_inc g (h_inc h))) (rbit (h_role h)) <> 0).
  { destruct (h_role h); cbn [holder rbit] in *; intros X; [apply HS in X|apply HR in X]; congruence. }
  split; [exact B|]. intros E. rewrite E in B. destruct (h_role h); vm_compute in B; congruence.
Qed.

Lemma tl_forall {A} (P : A -> Prop) l : Forall P l -> Forall P (tl l).
Proof. intros H. destruct l; cbn; auto. inversion H; auto. Qed.

Lemma nf_step t g ls g' l' es :
  Inv (g, ls) -> stolen g = [] -> saw_marked g = false -> NF (ls t) ->
  step t g (ls t) = Some (g', l', es) ->
  stolen g' = [] /\ saw_marked g' = false /\ NF l'.
Proof.
  intros (HG & HL & _) S M (NF1 & NF2) Es. cbn [fst snd] in *.
  destruct (HL t) as (L1 & L2 & L3 & L4 & L5). unfold pc_ok in L4.
  assert (NFf : forall x, NF (finish (ls t) x)) by (intros x; split; [cbn; apply tl_forall; auto|exact I]).
  unfold step in Es. destruct (at_pc (ls t)) eqn:Epc.
  - destruct (prog (ls t)) as [|o pr] eqn:Epr; [discriminate|]. inversion NF1 as [|? ? No Npr]; subst.
    destruct o as [r p|k|k|r|k].
    + destruct (cur g); inversion Es; subst; clear Es; (split; [auto|split; [auto|split; [cbn; rewrite Epr; auto|exact I]]]).
    + destruct (nth k (hs (ls t)) None) as [h|] eqn:Eh.
      * destruct (L2 k h Eh) as (R & _ & _ & A). destruct (att_bit g t h HG R S A) as (_ & _ & Nm).
        unfold rs_load in Es. destruct (N.eqb_spec (st_of g (h_inc h)) MARKED) as [E|E]; [contradiction|].
        inversion Es; subst; clear Es. split; [auto|split; [auto|split; [cbn; rewrite Epr; auto|cbn; discriminate]]].
      * inversion Es; subst; clear Es. split; [auto|split; [auto|apply NFf]].
    + inversion Es; subst; clear Es. split; [auto|split; [auto|split; [cbn; rewrite Epr; auto|exact I]]].
    + contradiction.
    + destruct (nth k (hs (ls t)) None); inversion Es; subst; clear Es; (split; [auto|split; [auto|apply NFf]]).
  - inversion Es as [Es']; clear Es. unfold reserve_next in Es'.
    destruct (reserve_check (st_of g (h_inc h)) (h_role h)); inversion Es'; subst; (split; [auto|split; [auto|split; [exact NF1|exact I]]]).
  - destruct (i_st (get_inc g (h_inc h)) =? c).
    + inversion Es; subst; clear Es. split; [auto|split; [auto|split; [exact NF1|exact I]]].
    + inversion Es as [Es']; clear Es. unfold reserve_next in Es'.
      destruct (reserve_check (i_st (get_inc g (h_inc h))) (h_role h)); inversion Es'; subst; (split; [auto|split; [auto|split; [exact NF1|exact I]]]).
  - inversion Es; subst; clear Es. split; [auto|split; [auto|split; [exact NF1|cbn; discriminate]]].
  - destruct (h_own h).
    + inversion Es; subst; clear Es. split; [auto|split; [auto|split; [exact NF1|exact I]]].
    + destruct (mismatch p (i_par (get_inc g (h_inc h)))); inversion Es; subst; clear Es.
      * split; [auto|split; [auto|split; [exact NF1|cbn; discriminate]]].
      * split; [auto|split; [auto|apply NFf]].
  - inversion Es; subst; clear Es. split; [auto|split; [auto|apply NFf]].
  - destruct L4 as (_ & _ & A). cbn [pc_nf] in NF2. specialize (A NF2).
    assert (R : (h_inc h < length (incs g))%nat) by (apply L3; reflexivity).
    destruct (att_bit g t h HG R S A) as (_ & _ & Nm).
    unfold rs_load in Es. destruct (N.eqb_spec (st_of g (h_inc h)) MARKED) as [E|E]; [contradiction|].
    inversion Es; subst; clear Es. split; [auto|split; [auto|split; [exact NF1|exact NF2]]].
  - destruct L4 as (_ & _ & A). cbn [pc_nf] in NF2. specialize (A NF2).
    assert (R : (h_inc h < length (incs g))%nat) by (apply L3; reflexivity).
    destruct (att_bit g t h HG R S A) as (Hh & Hb & Nm).
    destruct (N.eqb_spec (i_st (get_inc g (h_inc h))) c) as [Eq|Ne].
    + subst c. destruct (N.eqb_spec (N.land (i_st (get_inc g (h_inc h))) (rbit (h_role h))) 0) as [X|X]; [contradiction|].
      rewrite Hh in Es. unfold steal in Es.
      assert (Y : hid_eqb (t, h_id h) (t, h_id h) = true) by (apply hid_eqb_eq; reflexivity). rewrite Y in Es.
      destruct (remove_new (i_st (get_inc g (h_inc h))) (h_role h) =? MARKED).
      * destruct (N.eqb_spec (i_st (get_inc g (h_inc h))) MARKED) as [Z|Z]; [contradiction|].
        inversion Es; subst; clear Es. split; [auto|split; [auto|split; [exact NF1|exact NF2]]].
      * inversion Es; subst; clear Es. split; [auto|split; [auto|split; [exact NF1|exact NF2]]].
    + inversion Es; subst; clear Es. split; [auto|split; [auto|split; [exact NF1|exact NF2]]].
  - inversion Es; subst; clear Es. split; [auto|split; [auto|split; [exact NF1|exact NF2]]].
  - destruct (h_own h); inversion Es; subst; clear Es.
    + split; [auto|split; [auto|split; [exact NF1|exact NF2]]].
    + split; [auto|split; [auto|apply NFf]].
  - inversion Es; subst; clear Es. split; [auto|split; [auto|apply NFf]].
Qed.

Definition Inv2 (c : cfg gst lst) : Prop :=
  Inv c /\ stolen (fst c) = [] /\ saw_marked (fst c) = false /\ forall t, NF (snd c t).

Lemma inv2_reach progs c :
  (forall t, Forall no_force_op (progs t)) -> reachable step (init progs) c -> Inv2 c.
Proof.
  intros Hp. apply inv_reachable.
  - split; [apply inv_init|]. cbn. split; [reflexivity|]. split; [reflexivity|]. intros t. split; [apply Hp|exact I].
  - intros t [g ls] c' e (HI & S & M & HN) Hst. split; [eapply step_inv; eauto|].
    unfold step1 in Hst; cbn [fst snd] in *. destruct (step t g (ls t)) as [[[g' l'] es]|] eqn:Es; [|discriminate].
    inversion Hst; subst; clear Hst. cbn [fst snd].
    destruct (nf_step t g ls g' l' _ HI S M (HN t) Es) as (A & B & C).
    split; [exact A|]. split; [exact B|]. intros t'. unfold upd_l. destruct (Nat.eqb t' t); auto.
Qed.

Lemma conn_unlink_no_force progs g ls :
  (forall t, Forall no_force_op (progs t)) -> reachable step (init progs) (g, ls) ->
  NoDup (removed g) /\ (forall u, In u (unl g) -> unlink_good u = true) /\ stolen g = [] /\ saw_marked g = false.
Proof.
  intros Hp H. destruct (inv2_reach progs _ Hp H) as (_ & S & M & _). cbn [fst] in *.
  destruct (conn_unlink_partial _ _ _ H) as (A & B). auto.
Qed.

(* bundle for props/C13.v *)
Lemma conn_roles progs g ls :
  reachable step (init progs) (g, ls) ->
  (forall i, (i < length (incs g))%nat -> inc_ok (get_inc g i)) /\
  (forall t k h, nth k (hs (ls t)) None = Some h -> h_id h = k /\ (h_inc h < length (incs g))%nat /\ att g t h) /\
  (forall t k h t' k' h', nth k (hs (ls t)) None = Some h -> nth k' (hs (ls t')) None = Some h' ->
     h_inc h = h_inc h' -> h_role h = h_role h' ->
     ~ In (t, k) (stolen g) -> ~ In (t', k') (stolen g) -> (t, k) = (t', k')).
Proof.
  intros H. split; [intros; eapply conn_bits_holders; eauto|]. split; [intros; eapply conn_ports_attached; eauto|].
  intros; eapply conn_roles_unique; eauto.
Qed.

Lemma conn_refusals t g l h :
  (forall p, at_pc l = CrLoad h p ->
     let c := st_of g (h_inc h) in
     (N.land c (rbit (h_role h)) <> 0 -> exists e, step t g l = Some (g, goto l (CrFail h C_ANOTHER), [e])) /\
     (N.land c (rbit (h_role h)) = 0 -> N.land c MARKED <> 0 -> exists e, step t g l = Some (g, goto l (CrFail h C_CLEANUP), [e]))) /\
  (forall p c0, at_pc l = CrCas h p c0 ->
     let c := i_st (get_inc g (h_inc h)) in
     c <> c0 ->
     (N.land c (rbit (h_role h)) <> 0 -> exists e, step t g l = Some (g, goto l (CrFail h C_ANOTHER), [e])) /\
     (N.land c (rbit (h_role h)) = 0 -> N.land c MARKED <> 0 -> exists e, step t g l = Some (g, goto l (CrFail h C_CLEANUP), [e]))) /\
  (forall code, at_pc l = CrFail h code ->
     exists e1 l1, step t g l = Some (g, l1, [e1]) /\ exists e2, step t g l1 = Some (g, finish l1 None, [e2; ret_ev g code])) /\
  (forall p code, at_pc l = CrOwn h p -> h_own h = false -> mismatch p (i_par (get_inc g (h_inc h))) = Some code ->
     exists e, step t g l = Some (g, goto l (RsLoad h (WFail code)), [e])) /\
  (forall w, at_pc l = DrOwn h w -> h_own h = false ->
     exists e, step t g l = Some (g, finish l None, [e; ret_ev g (why_code w)])).
Proof.
  split; [intros p E; apply (attach_refused t g l h p E)|].
  split; [intros p c0 E; apply (attach_refused_cas t g l h p c0 E)|].
  split; [intros code E; apply (refused_returns t g l h code E)|].
  split; [intros p code E1 E2 E3; apply (mismatch_refused t g l h p code E1 E2 E3)|].
  intros w E1 E2; apply (teardown_returns t g l h w E1 E2).
Qed.

(* refutation of the unconditional unlink clause from a concrete schedule *)
Lemma conn_unlink_refuted progs sched :
  existsb (fun u => negb (unlink_good u)) (unl (fst (fst (run step sched (init progs))))) = true ->
  ~ (forall progs g ls, reachable step (init progs) (g, ls) ->
       NoDup (removed g) /\ forall u, In u (unl g) -> unlink_good u = true).
Proof.
  intros W F. apply existsb_exists in W. destruct W as (u & Hin & Hb).
  destruct (fst (run step sched (init progs))) as [g ls] eqn:E.
  assert (R : reachable step (init progs) (g, ls)) by (exists sched; exact E).
  destruct (F progs g ls R) as (_ & G). cbn [fst] in Hin. rewrite (G u Hin) in Hb. discriminate.
Qed.

(* ---------------- forced removal of a role that is not attached ---------------- *)
(* remove_state for a role whose bit is clear is a no-op on the byte, for every byte value:
   in particular it never marks a connection the other role is attached to *)
Definition absent_ok (b : N) : bool :=
  forallb (fun r => if N.land b (rbit r) =? 0 then remove_new b r =? b else true) [RSend; RRecv].
Lemma absent_table : forallb absent_ok (upto 256) = true.
Proof. vm_compute. reflexivity. Qed.

Lemma remove_absent_noop b r : b < 256 -> N.land b (rbit r) = 0 -> remove_new b r = b.
Proof.
  intros Hb Hz. pose proof absent_table as T. rewrite forallb_forall in T.
  assert (Hin : In b (upto 256)) by (apply upto_in; lia). specialize (T b Hin). unfold absent_ok in T.
  rewrite forallb_forall in T. assert (Hr : In r [RSend; RRecv]) by (destruct r; cbn; auto).
  specialize (T r Hr). rewrite Hz in T. cbn in T. now apply N.eqb_eq in T.
Qed.

(* at the step level, in every reachable state: the CAS of a remove_state whose role bit is not in
   the byte leaves the byte, both holders, cur and the unlink history as they are, and the handle
   goes on to Storage::drop WITHOUT ownership unless the byte was already marked *)
Lemma forced_absent_step progs g ls t h w c :
  reachable step (init progs) (g, ls) -> at_pc (ls t) = RsCas h w c ->
  i_st (get_inc g (h_inc h)) = c -> N.land c (rbit (h_role h)) = 0 -> c <> MARKED ->
  exists g' e, step t g (ls t) = Some (g', goto (ls t) (DrOwn h w), [e]) /\
    get_inc g' (h_inc h) = get_inc g (h_inc h) /\ cur g' = cur g /\ unl g' = unl g /\ saw_marked g' = saw_marked g.
Proof.
  intros H Epc Ec Hz Hm. pose proof (inv_reach _ _ H) as ((_ & G2 & _) & HL & _). cbn [fst snd] in *.
  destruct (HL t) as (_ & _ & L3 & _). assert (R : (h_inc h < length (incs g))%nat) by (apply L3; rewrite Epc; reflexivity).
  destruct (G2 _ R) as (V & _). rewrite Ec in V.
  assert (Hb : c < 256) by (destruct V as [->|[->|[->|[->| ->]]]]; lia).
  pose proof (remove_absent_noop c (h_role h) Hb Hz) as En.
  unfold step. rewrite Epc. rewrite Ec, N.eqb_refl, Hz, (N.eqb_refl 0). cbv iota. rewrite En.
  destruct (N.eqb_spec c MARKED) as [X|X]; [contradiction|].
  eexists. eexists. split; [reflexivity|]. split; [|auto].
  rewrite get_set_same by auto. destruct (get_inc g (h_inc h)) as [s p a b] eqn:Eg. cbn [i_st] in Ec. subst s.
  destruct (h_role h); reflexivity.
Qed.

(* the seeded variant of remove_state (mark unless both roles are attached) violates it *)
Definition remove_new_seeded (cur : N) (r : role) : N :=
  if cur =? CONNECTED then N.land cur (255 - rbit r) else MARKED.
Lemma seeded_rule_marks_under_attached_peer :
  N.land 2 (rbit RSend) = 0 /\ remove_new 2 RSend = 2 /\ remove_new_seeded 2 RSend = MARKED.
Proof. vm_compute. auto. Qed.
