(* Invariants and lemmas about model/Blackboard.v (induction over arbitrary histories, no bounds). *)
From V Require Import model.Base model.Blackboard.
From Coq Require Import ZifyBool ZifyNat ZifyN.
Ltac Zify.zify_post_hook ::= Z.div_mod_to_equations.

(* ---------- lists ---------- *)
Lemma length_upd {A} (l : list A) i x : length (upd l i x) = length l.
Proof. revert i; induction l as [|a l IH]; intros [|i]; cbn; auto. Qed.

Lemma nth_error_upd_eq {A} (l : list A) i x : i < length l -> nth_error (upd l i x) i = Some x.
Proof. revert i; induction l as [|a l IH]; intros [|i] H; cbn in *; try lia; auto. apply IH; lia. Qed.

Lemma nth_error_upd_neq {A} (l : list A) i j x : i <> j -> nth_error (upd l i x) j = nth_error l j.
Proof. revert i j; induction l as [|a l IH]; intros [|i] [|j] H; cbn; auto; try lia. Qed.

Lemma nth_error_upd {A} (l : list A) i j x :
  nth_error (upd l i x) j = if Nat.eqb i j then (if Nat.ltb i (length l) then Some x else None) else nth_error l j.
Proof.
  destruct (Nat.eqb_spec i j) as [->|Hn].
  - destruct (Nat.ltb_spec j (length l)) as [Hl|Hl].
    + now apply nth_error_upd_eq.
    + apply nth_error_None. rewrite length_upd. lia.
  - now apply nth_error_upd_neq.
Qed.

Lemma upd_same {A} (l : list A) i x : nth_error l i = Some x -> upd l i x = l.
Proof. revert i; induction l as [|a l IH]; intros [|i] H; cbn in *; try congruence. f_equal; auto. Qed.

Lemma upd_upd {A} (l : list A) i x y : upd (upd l i x) i y = upd l i y.
Proof. revert i; induction l as [|a l IH]; intros [|i]; cbn; auto. f_equal; auto. Qed.

Lemma map_upd {A B} (f : A -> B) (l : list A) i x : map f (upd l i x) = upd (map f l) i (f x).
Proof. revert i; induction l as [|a l IH]; intros [|i]; cbn; auto. f_equal; auto. Qed.

Lemma nth_error_some_lt {A} (l : list A) i x : nth_error l i = Some x -> i < length l.
Proof. intros H. apply nth_error_Some. congruence. Qed.

Lemma nth_map_some {A B} (f : A -> B) (l : list A) i x d : nth_error l i = Some x -> nth i (map f l) d = f x.
Proof. revert i; induction l as [|a l IH]; intros [|i] H; cbn in *; try congruence; auto. Qed.

(* ---------- counting ---------- *)
Arguments count_if : simpl never.
Definition b2n (b : bool) : nat := if b then 1 else 0.

Lemma count_if_nil {A} (p : A -> bool) : count_if p [] = 0.
Proof. reflexivity. Qed.

Lemma count_if_cons {A} (p : A -> bool) a l : count_if p (a :: l) = b2n (p a) + count_if p l.
Proof. unfold count_if; cbn. destruct (p a); reflexivity. Qed.

Lemma count_if_app {A} (p : A -> bool) l1 l2 : count_if p (l1 ++ l2) = count_if p l1 + count_if p l2.
Proof. unfold count_if. rewrite filter_app, app_length. reflexivity. Qed.

Lemma count_if_upd {A} (p : A -> bool) l i x y :
  nth_error l i = Some x -> count_if p (upd l i y) + b2n (p x) = count_if p l + b2n (p y).
Proof.
  revert i; induction l as [|a l IH]; intros [|i] H; cbn in *; try congruence.
  - injection H as ->. rewrite !count_if_cons. lia.
  - rewrite !count_if_cons. specialize (IH _ H). lia.
Qed.

Lemma count_if_upd_same {A} (p : A -> bool) l i x y :
  nth_error l i = Some x -> p y = p x -> count_if p (upd l i y) = count_if p l.
Proof. intros H E. pose proof (count_if_upd p l i x y H) as C. rewrite E in C. lia. Qed.

Lemma count_if_pos {A} (p : A -> bool) l i x : nth_error l i = Some x -> p x = true -> 1 <= count_if p l.
Proof.
  revert i; induction l as [|a l IH]; intros [|i] H Hp; cbn in *; try congruence; rewrite count_if_cons.
  - injection H as ->. rewrite Hp. cbn. lia.
  - specialize (IH _ H Hp). lia.
Qed.

Lemma count_if_two {A} (p : A -> bool) l i j x y :
  i <> j -> nth_error l i = Some x -> nth_error l j = Some y -> p x = true -> p y = true -> 2 <= count_if p l.
Proof.
  revert i j; induction l as [|a l IH]; intros [|i] [|j] Hn Hi Hj Hx Hy; cbn in *; try congruence; try lia;
    rewrite count_if_cons.
  - injection Hi as ->. rewrite Hx. pose proof (count_if_pos p l j y Hj Hy). cbn. lia.
  - injection Hj as ->. rewrite Hy. pose proof (count_if_pos p l i x Hi Hx). cbn. lia.
  - assert (i <> j) by lia. specialize (IH i j H Hi Hj Hx Hy). lia.
Qed.

Lemma count_if_zero {A} (p : A -> bool) l : count_if p l = 0 -> forall x, In x l -> p x = false.
Proof.
  induction l as [|a l IH]; intros H x Hin; [destruct Hin|].
  rewrite count_if_cons in H. destruct Hin as [->|Hin].
  - destruct (p x); cbn in H; [lia | reflexivity].
  - apply IH; auto. lia.
Qed.

Lemma count_if_none {A} (p : A -> bool) l : (forall x, In x l -> p x = false) -> count_if p l = 0.
Proof.
  induction l as [|a l IH]; intros H; [reflexivity|]. rewrite count_if_cons, IH.
  - rewrite (H a); cbn; auto.
  - intros x Hx; apply H; cbn; auto.
Qed.

Lemma count_if_exists {A} (p : A -> bool) l : 1 <= count_if p l -> exists i x, nth_error l i = Some x /\ p x = true.
Proof.
  induction l as [|a l IH]; intros H; [rewrite count_if_nil in H; lia|]. rewrite count_if_cons in H.
  destruct (p a) eqn:E.
  - exists 0, a. cbn. auto.
  - cbn in H. destruct (IH H) as (i & x & Hi & Hx). exists (S i), x. cbn. auto.
Qed.

Lemma count_if_le {A} (p q : A -> bool) l : (forall x, In x l -> p x = true -> q x = true) -> count_if p l <= count_if q l.
Proof.
  induction l as [|a l IH]; intros H; [rewrite !count_if_nil; lia|]. rewrite !count_if_cons.
  assert (count_if p l <= count_if q l) by (apply IH; intros; apply H; cbn; auto).
  destruct (p a) eqn:E; cbn; [rewrite (H a); cbn; auto; lia | lia].
Qed.

Lemma existsb_count {A} (p : A -> bool) l : existsb p l = negb (Nat.eqb (count_if p l) 0).
Proof.
  induction l as [|a l IH]; [reflexivity|]. cbn [existsb]. rewrite count_if_cons, IH.
  destruct (p a); cbn; [reflexivity|]. reflexivity.
Qed.

Lemma existsb_map {A B} (f : A -> B) (p : B -> bool) l : existsb p (map f l) = existsb (fun x => p (f x)) l.
Proof. induction l as [|a l IH]; cbn; auto. rewrite IH; reflexivity. Qed.

Lemma count_if_map {A B} (f : A -> B) (p : B -> bool) l : count_if p (map f l) = count_if (fun x => p (f x)) l.
Proof. induction l as [|a l IH]; [reflexivity|]. cbn [map]. rewrite !count_if_cons, IH. reflexivity. Qed.

(* ---------- the cells ---------- *)
Lemma cell_flip c : (1 <= c)%N -> cell_is0 (N.sub c 1) = negb (cell_is0 c).
Proof. intros H. unfold cell_is0. lia. Qed.

Lemma cell_succ c : cell_is0 (N.sub (N.add c 1) 1) = cell_is0 c.
Proof. f_equal. lia. Qed.

Definition wcell (e : entry) : N := if cell_is0 (e_wc e) then e_c0 e else e_c1 e.

Lemma cell_load_store e v : cell_load (cell_bump (cell_write e v)) = v.
Proof.
  unfold cell_load, cell_bump, cell_write. destruct (cell_is0 (e_wc e)) eqn:E; cbn [e_wc e_c0 e_c1];
    rewrite cell_succ, E; reflexivity.
Qed.

Lemma cell_load_bump e : cell_load (cell_bump e) = wcell e.
Proof. unfold cell_load, cell_bump, wcell. cbn [e_wc e_c0 e_c1]. rewrite cell_succ. reflexivity. Qed.

Lemma cell_load_write e v : (1 <= e_wc e)%N -> cell_load (cell_write e v) = cell_load e.
Proof.
  intros H. unfold cell_load, cell_write. destruct (cell_is0 (e_wc e)) eqn:E; cbn [e_wc e_c0 e_c1];
    rewrite (cell_flip _ H), E; reflexivity.
Qed.

Lemma wcell_write e v : wcell (cell_write e v) = v.
Proof. unfold wcell, cell_write. destruct (cell_is0 (e_wc e)) eqn:E; cbn [e_wc e_c0 e_c1]; rewrite E; reflexivity. Qed.

(* ---------- the invariant ---------- *)
Definition rc_pos (w : wrec) : bool := negb (Nat.eqb (w_rc w) 0).
Definition of_w (i : nat) (r : hrec) : bool := h_live r && Nat.eqb (h_w r) i.
Definition on_k (k : nat) (r : hrec) : bool := h_live r && Nat.eqb (h_k r) k.
Definition idb (b : bool) : bool := b.

Record InvW (es : list entry) (nw : nat) (ws : list wrec) (hs : list hrec) : Prop := {
  i_rc : forall i w, nth_error ws i = Some w -> w_rc w = b2n (w_obj w) + count_if (of_w i) hs;
  i_slots : nw = count_if rc_pos ws;
  i_cap : nw <= max_writers;
  i_prod : forall k e, nth_error es k = Some e -> count_if (on_k k) hs = b2n (negb (e_prod e));
  i_hvalid : forall h r, nth_error hs h = Some r -> h_w r < length ws /\ h_k r < length es;
  i_wc : forall k e, nth_error es k = Some e -> (1 <= e_wc e)%N;
  i_pend : forall h r v e, nth_error hs h = Some r -> h_st r = HLoan (Some v) ->
           nth_error es (h_k r) = Some e -> wcell e = v
}.

Record InvR (ne nr : nat) (rs : list bool) (xs : list xrec) : Prop := {
  i_xvalid : forall x r, nth_error xs x = Some r -> x_k r < ne;
  i_readers : nr = count_if idb rs
}.

Definition Inv (s : bb) : Prop :=
  InvW (entries s) (nwriters s) (writers s) (whs s) /\
  InvR (length (entries s)) (nreaders s) (readers s) (rhs s).

Lemma live_handles_of_eq s i : live_handles_of s i = count_if (of_w i) (whs s).
Proof. reflexivity. Qed.
Lemma live_handles_on_eq s k : live_handles_on s k = count_if (on_k k) (whs s).
Proof. reflexivity. Qed.
Lemma live_readers_eq s : live_readers s = count_if idb (readers s).
Proof. reflexivity. Qed.

Lemma no_handle_of_new es nw ws hs : InvW es nw ws hs -> count_if (of_w (length ws)) hs = 0.
Proof.
  intros I. apply count_if_none. intros r Hin. destruct (In_nth_error _ _ Hin) as [h Hh].
  destruct (i_hvalid _ _ _ _ I _ _ Hh) as [Hw _]. unfold of_w.
  destruct (Nat.eqb_spec (h_w r) (length ws)); [lia|]. apply andb_false_r.
Qed.

(* at most one live handle per key (also for keys that do not exist) *)
Lemma on_k_le1 es nw ws hs k : InvW es nw ws hs -> count_if (on_k k) hs <= 1.
Proof.
  intros I. destruct (nth_error es k) as [e|] eqn:E.
  - rewrite (i_prod _ _ _ _ I _ _ E). destruct (e_prod e); cbn; lia.
  - rewrite count_if_none; [lia|]. intros r Hin. destruct (In_nth_error _ _ Hin) as [h Hh].
    destruct (i_hvalid _ _ _ _ I _ _ Hh) as [_ Hk]. apply nth_error_None in E. unfold on_k.
    destruct (Nat.eqb_spec (h_k r) k); [lia|]. apply andb_false_r.
Qed.

(* --- Writer::new --- *)
Lemma invw_create_writer es nw ws hs :
  InvW es nw ws hs -> nw < max_writers -> InvW es (S nw) (ws ++ [{| w_obj := true; w_rc := 1 |}]) hs.
Proof.
  intros I Hlt. pose proof (no_handle_of_new _ _ _ _ I) as Hnew. destruct I as [Irc Isl Icap Ipr Ihv Iwc Ipe].
  constructor; auto.
  - intros i w Hi. destruct (Nat.lt_ge_cases i (length ws)) as [Hl|Hl].
    + rewrite nth_error_app1 in Hi by assumption. auto.
    + rewrite nth_error_app2 in Hi by assumption. destruct (i - length ws) as [|d] eqn:Ed; cbn in Hi.
      * injection Hi as <-. assert (i = length ws) as -> by lia. rewrite Hnew. reflexivity.
      * destruct d; discriminate.
  - rewrite count_if_app, <- Isl. rewrite count_if_cons, count_if_nil. cbn. lia.
  - intros h r Hh. destruct (Ihv _ _ Hh). rewrite app_length. cbn. lia.
Qed.

(* --- one Arc clone of writer i goes away --- *)
Lemma invw_release es nw ws hs hs' i w :
  InvW es nw ws hs ->
  nth_error ws i = Some w -> 1 <= w_rc w ->
  let rc := Nat.pred (w_rc w) in
  forall obj',
  (* what replaces `hs` keeps every count except that writer i loses exactly what obj' does not explain *)
  (forall j, j <> i -> count_if (of_w j) hs' = count_if (of_w j) hs) ->
  rc = b2n obj' + count_if (of_w i) hs' ->
  count_if rc_pos (upd ws i {| w_obj := obj'; w_rc := rc |}) = (if Nat.eqb rc 0 then Nat.pred nw else nw) /\
  (if Nat.eqb rc 0 then Nat.pred nw else nw) <= max_writers /\
  (forall j w', nth_error (upd ws i {| w_obj := obj'; w_rc := rc |}) j = Some w' ->
                w_rc w' = b2n (w_obj w') + count_if (of_w j) hs').
Proof.
  intros I Hi Hrc rc obj' Hoth Hme. destruct I as [Irc Isl Icap Ipr Ihv Iwc Ipe].
  pose proof (count_if_upd rc_pos ws i w {| w_obj := obj'; w_rc := rc |} Hi) as C.
  assert (Hp : rc_pos w = true) by (unfold rc_pos; destruct (Nat.eqb_spec (w_rc w) 0); [lia|reflexivity]).
  rewrite Hp in C. unfold rc_pos at 3 in C. cbn [w_rc] in C.
  pose proof (count_if_pos rc_pos ws i w Hi Hp) as Hge.
  repeat split.
  - destruct (Nat.eqb_spec rc 0); cbn in C; lia.
  - destruct (Nat.eqb rc 0); lia.
  - intros j w' Hj. rewrite nth_error_upd in Hj. destruct (Nat.eqb_spec i j) as [<-|Hn].
    + destruct (Nat.ltb i (length ws)); [|discriminate]. injection Hj as <-. cbn. exact Hme.
    + rewrite Hoth by auto. auto.
Qed.

Lemma nth_error_app_last {A} (l : list A) x h r :
  nth_error (l ++ [x]) h = Some r -> (h < length l /\ nth_error l h = Some r) \/ (h = length l /\ r = x).
Proof.
  intros H. destruct (Nat.lt_ge_cases h (length l)) as [Hl|Hl].
  - rewrite nth_error_app1 in H by assumption. auto.
  - rewrite nth_error_app2 in H by assumption. destruct (h - length l) as [|d] eqn:Ed; cbn in H.
    + injection H as <-. right. split; [lia|reflexivity].
    + destruct d; discriminate.
Qed.

Lemma wcell_set_prod e b : wcell (set_prod e b) = wcell e.
Proof. reflexivity. Qed.

(* --- Writer::entry, the successful path --- *)
Lemma invw_writer_entry es nw ws hs i k w e :
  InvW es nw ws hs -> nth_error ws i = Some w -> w_obj w = true -> nth_error es k = Some e -> e_prod e = true ->
  InvW (upd es k (set_prod e false)) nw (upd ws i {| w_obj := true; w_rc := S (w_rc w) |})
       (hs ++ [{| h_w := i; h_k := k; h_st := HIdle |}]).
Proof.
  intros I Hi Ho Hk Hp. destruct I as [Irc Isl Icap Ipr Ihv Iwc Ipe].
  pose proof (nth_error_some_lt _ _ _ Hi) as Hil. pose proof (nth_error_some_lt _ _ _ Hk) as Hkl.
  constructor; auto.
  - intros j w' Hj. rewrite count_if_app, count_if_cons, count_if_nil. unfold of_w at 2. cbn [h_live h_st h_w].
    rewrite nth_error_upd in Hj. destruct (Nat.eqb_spec i j) as [<-|Hn].
    + destruct (Nat.ltb i (length ws)); [|discriminate]. injection Hj as <-. cbn [w_rc w_obj].
      rewrite (Irc _ _ Hi), Ho. cbn. lia.
    + rewrite (Irc _ _ Hj). cbn. lia.
  - rewrite Isl. symmetry. apply (count_if_upd_same rc_pos ws i w); auto.
    unfold rc_pos. cbn [w_rc]. rewrite (Irc _ _ Hi), Ho. reflexivity.
  - intros k' e' Hk'. rewrite count_if_app, count_if_cons, count_if_nil. unfold on_k at 2. cbn [h_live h_st h_k].
    rewrite nth_error_upd in Hk'. destruct (Nat.eqb_spec k k') as [<-|Hn].
    + destruct (Nat.ltb k (length es)); [|discriminate]. injection Hk' as <-. cbn [e_prod set_prod].
      rewrite (Ipr _ _ Hk), Hp. reflexivity.
    + rewrite (Ipr _ _ Hk'). cbn. lia.
  - intros h r Hh. rewrite !length_upd. destruct (nth_error_app_last _ _ _ _ Hh) as [[_ Hold]|[_ ->]]; [eauto | cbn; split; assumption].
  - intros k' e' Hk'. rewrite nth_error_upd in Hk'. destruct (Nat.eqb_spec k k') as [<-|Hn]; eauto.
    destruct (Nat.ltb k (length es)); [|discriminate]. injection Hk' as <-. cbn. eauto.
  - intros h r v e' Hh Hst He'. destruct (nth_error_app_last _ _ _ _ Hh) as [[_ Hold]|[_ ->]]; [|discriminate].
    rewrite nth_error_upd in He'. destruct (Nat.eqb_spec k (h_k r)) as [Heq|Hn]; eauto.
    destruct (Nat.ltb k (length es)); [|discriminate]. injection He' as <-. rewrite wcell_set_prod. subst k. eauto.
Qed.

Lemma of_w_dead i r : of_w i {| h_w := h_w r; h_k := h_k r; h_st := HDead |} = false.
Proof. reflexivity. Qed.
Lemma on_k_dead k r : on_k k {| h_w := h_w r; h_k := h_k r; h_st := HDead |} = false.
Proof. reflexivity. Qed.

(* two live handles on one key contradict the invariant *)
Lemma unique_holder es nw ws hs h h' r r' :
  InvW es nw ws hs -> nth_error hs h = Some r -> nth_error hs h' = Some r' ->
  h_live r = true -> h_live r' = true -> h_k r' = h_k r -> h' = h.
Proof.
  intros I Hh Hh' Hl Hl' Hk. destruct (Nat.eq_dec h' h) as [|Hn]; [assumption|exfalso].
  pose proof (on_k_le1 _ _ _ _ (h_k r) I) as Hle.
  assert (2 <= count_if (on_k (h_k r)) hs).
  { apply (count_if_two _ hs h' h r' r); auto; unfold on_k.
    - rewrite Hl', Hk, Nat.eqb_refl. reflexivity.
    - rewrite Hl, Nat.eqb_refl. reflexivity. }
  lia.
Qed.

(* --- drop(EntryHandleMut) --- *)
Lemma invw_drop_handle es nw ws hs h r e w :
  InvW es nw ws hs -> nth_error hs h = Some r -> h_live r = true ->
  nth_error es (h_k r) = Some e -> nth_error ws (h_w r) = Some w ->
  InvW (upd es (h_k r) (set_prod e true))
       (if Nat.eqb (Nat.pred (w_rc w)) 0 then Nat.pred nw else nw)
       (upd ws (h_w r) {| w_obj := w_obj w; w_rc := Nat.pred (w_rc w) |})
       (upd hs h {| h_w := h_w r; h_k := h_k r; h_st := HDead |}).
Proof.
  intros I Hh Hl He Hw. pose proof I as [Irc Isl Icap Ipr Ihv Iwc Ipe].
  set (rd := {| h_w := h_w r; h_k := h_k r; h_st := HDead |}).
  assert (Hofr : of_w (h_w r) r = true) by (unfold of_w; rewrite Hl, Nat.eqb_refl; reflexivity).
  assert (Honr : on_k (h_k r) r = true) by (unfold on_k; rewrite Hl, Nat.eqb_refl; reflexivity).
  pose proof (count_if_pos _ _ _ _ Hh Hofr) as Hc1.
  pose proof (count_if_upd (of_w (h_w r)) hs h r rd Hh) as Cw. rewrite Hofr in Cw. unfold rd in Cw at 2. rewrite of_w_dead in Cw. cbn in Cw.
  pose proof (count_if_upd (on_k (h_k r)) hs h r rd Hh) as Ck. rewrite Honr in Ck. unfold rd in Ck at 2. rewrite on_k_dead in Ck. cbn in Ck.
  pose proof (count_if_pos _ _ _ _ Hh Honr) as Hc2.
  pose proof (Irc _ _ Hw) as Hrc.
  destruct (invw_release es nw ws hs (upd hs h rd) (h_w r) w I Hw ltac:(lia) (w_obj w)) as (R1 & R2 & R3).
  { intros j Hj. apply (count_if_upd_same _ hs h r); auto. unfold rd. rewrite of_w_dead. unfold of_w.
    destruct (Nat.eqb_spec (h_w r) j); [congruence|]. symmetry; apply andb_false_r. }
  { lia. }
  constructor.
  - exact R3.
  - symmetry. exact R1.
  - exact R2.
  - intros k' e' Hk'. rewrite nth_error_upd in Hk'. destruct (Nat.eqb_spec (h_k r) k') as [<-|Hn].
    + destruct (Nat.ltb (h_k r) (length es)); [|discriminate]. injection Hk' as <-. cbn [e_prod set_prod].
      pose proof (Ipr _ _ He) as P. destruct (e_prod e); cbn in P |- *; lia.
    + rewrite <- (Ipr _ _ Hk'). apply (count_if_upd_same _ hs h r); auto. unfold rd. rewrite on_k_dead. unfold on_k.
      destruct (Nat.eqb_spec (h_k r) k'); [congruence|]. symmetry; apply andb_false_r.
  - intros h' r' Hh'. rewrite !length_upd. rewrite nth_error_upd in Hh'. destruct (Nat.eqb_spec h h') as [<-|Hn]; eauto.
    destruct (Nat.ltb h (length hs)); [|discriminate]. injection Hh' as <-. cbn. eauto.
  - intros k' e' Hk'. rewrite nth_error_upd in Hk'. destruct (Nat.eqb_spec (h_k r) k') as [<-|Hn]; eauto.
    destruct (Nat.ltb (h_k r) (length es)); [|discriminate]. injection Hk' as <-. cbn. eauto.
  - intros h' r' v e' Hh' Hst He'. rewrite nth_error_upd in Hh'. destruct (Nat.eqb_spec h h') as [<-|Hn].
    + destruct (Nat.ltb h (length hs)); [|discriminate]. injection Hh' as <-. discriminate.
    + rewrite nth_error_upd in He'. destruct (Nat.eqb_spec (h_k r) (h_k r')) as [Heq|Hnk]; eauto.
      exfalso. apply Hn. symmetry. apply (unique_holder es nw ws hs h h' r r' I); auto.
      unfold h_live. rewrite Hst. reflexivity.
Qed.

(* --- update_with_copy / loan_uninit / value_mut().write / assume_init_and_update / discard --- *)
Lemma invw_handle_op es nw ws hs h r e st' e' :
  InvW es nw ws hs -> nth_error hs h = Some r -> h_live r = true -> st' <> HDead ->
  nth_error es (h_k r) = Some e ->
  e_prod e' = e_prod e -> (1 <= e_wc e')%N -> (forall v, st' = HLoan (Some v) -> wcell e' = v) ->
  InvW (upd es (h_k r) e') nw ws (upd hs h {| h_w := h_w r; h_k := h_k r; h_st := st' |}).
Proof.
  intros I Hh Hl Hst' He Hp Hwc Hpend. pose proof I as [Irc Isl Icap Ipr Ihv Iwc Ipe].
  set (r1 := {| h_w := h_w r; h_k := h_k r; h_st := st' |}).
  assert (Hl1 : h_live r1 = true) by (unfold h_live, r1; cbn; destruct st'; congruence).
  assert (Sw : forall j, count_if (of_w j) (upd hs h r1) = count_if (of_w j) hs).
  { intros j. apply (count_if_upd_same _ hs h r); auto. unfold of_w. rewrite Hl1, Hl. reflexivity. }
  assert (Sk : forall j, count_if (on_k j) (upd hs h r1) = count_if (on_k j) hs).
  { intros j. apply (count_if_upd_same _ hs h r); auto. unfold on_k. rewrite Hl1, Hl. reflexivity. }
  constructor; auto.
  - intros j w Hj. rewrite Sw. auto.
  - intros k' e'' Hk'. rewrite Sk. rewrite nth_error_upd in Hk'. destruct (Nat.eqb_spec (h_k r) k') as [<-|Hn]; eauto.
    destruct (Nat.ltb (h_k r) (length es)); [|discriminate]. injection Hk' as <-. rewrite Hp. eauto.
  - intros h' r' Hh'. rewrite !length_upd. rewrite nth_error_upd in Hh'. destruct (Nat.eqb_spec h h') as [<-|Hn]; eauto.
    destruct (Nat.ltb h (length hs)); [|discriminate]. injection Hh' as <-. cbn. eauto.
  - intros k' e'' Hk'. rewrite nth_error_upd in Hk'. destruct (Nat.eqb_spec (h_k r) k') as [<-|Hn]; eauto.
    destruct (Nat.ltb (h_k r) (length es)); [|discriminate]. injection Hk' as <-. assumption.
  - intros h' r' v e'' Hh' Hst He''. rewrite nth_error_upd in Hh'. destruct (Nat.eqb_spec h h') as [<-|Hn].
    + destruct (Nat.ltb h (length hs)); [|discriminate]. injection Hh' as <-. cbn in Hst, He''.
      rewrite nth_error_upd, Nat.eqb_refl in He''. destruct (Nat.ltb (h_k r) (length es)); [|discriminate].
      injection He'' as <-. auto.
    + rewrite nth_error_upd in He''. destruct (Nat.eqb_spec (h_k r) (h_k r')) as [Heq|Hnk]; eauto.
      exfalso. apply Hn. symmetry. apply (unique_holder es nw ws hs h h' r r' I); auto.
      unfold h_live. rewrite Hst. reflexivity.
Qed.

Lemma nth_error_lt_some {A} (l : list A) i : i < length l -> exists x, nth_error l i = Some x.
Proof. intros H. destruct (nth_error l i) eqn:E; eauto. apply nth_error_None in E. lia. Qed.

Ltac inv_split :=
  unfold Inv; cbn [fst entries nwriters nreaders writers whs readers rhs max_readers
                   set_w set_whs set_entries set_r set_rhs]; split.

Lemma inv_init mr init : Inv (bb_new mr init).
Proof.
  unfold bb_new. inv_split; constructor; cbn.
  - intros [|i] w H; discriminate.
  - reflexivity.
  - unfold max_writers; lia.
  - intros k e H. apply nth_error_In, in_map_iff in H. destruct H as (x & <- & _). reflexivity.
  - intros [|h] r H; discriminate.
  - intros k e H. apply nth_error_In, in_map_iff in H. destruct H as (x & <- & _). cbn. lia.
  - intros [|h] r v e H; discriminate.
  - intros [|x] r H; discriminate.
  - reflexivity.
Qed.

Lemma inv_handle_op s h ok f : Inv s ->
  (forall st st', ok st = Some st' -> st <> HDead /\ st' <> HDead) ->
  (forall e, e_prod (f e) = e_prod e /\ ((1 <= e_wc e)%N -> (1 <= e_wc (f e))%N)) ->
  (forall st v e, ok st = Some (HLoan (Some v)) -> wcell (f e) = v) ->
  Inv (fst (handle_op s h ok f)).
Proof.
  intros [IW IR] Hok Hf Hp. unfold handle_op.
  destruct (nth_error (whs s) h) as [r|] eqn:Hh; [|split; assumption].
  destruct (ok (h_st r)) as [st'|] eqn:Eok; [|split; assumption].
  destruct (Hok _ _ Eok) as [Hst Hst'].
  destruct (i_hvalid _ _ _ _ IW _ _ Hh) as [_ Hk]. destruct (nth_error_lt_some _ _ Hk) as [e He].
  cbn [fst]. unfold upd_entry, set_hst. cbn [entries set_whs]. rewrite He. inv_split.
  - destruct (Hf e) as [Hf1 Hf2]. apply invw_handle_op with (e := e); auto.
    + unfold h_live. destruct (h_st r); congruence.
    + apply Hf2. eapply i_wc; eauto.
    + intros v ->. eapply Hp; eauto.
  - rewrite length_upd. assumption.
Qed.

Lemma step_inv s o : Inv s -> Inv (fst (step s o)).
Proof.
  intros I. pose proof I as [IW IR]. destruct o; cbn [step].
  - (* CreateWriter *)
    unfold create_writer. destruct (Nat.ltb_spec (nwriters s) max_writers); [|assumption].
    inv_split; [apply invw_create_writer; assumption | assumption].
  - (* DropWriter *)
    unfold drop_writer. destruct (nth_error (writers s) i) as [w|] eqn:Hi; [|assumption].
    destruct (w_obj w) eqn:Ho; [|assumption].
    cbn [fst]. unfold arc_release. cbn [writers set_w nwriters].
    rewrite nth_error_upd_eq by (eapply nth_error_some_lt; eauto). cbn [w_rc w_obj]. rewrite upd_upd.
    pose proof (i_rc _ _ _ _ IW _ _ Hi) as Hrc. rewrite Ho in Hrc. cbn in Hrc.
    destruct (invw_release _ _ _ _ (whs s) i w IW Hi ltac:(lia) false) as (R1 & R2 & R3); [auto | cbn; lia |].
    inv_split; [|assumption]. destruct IW. constructor; auto.
    intros h r Hh. rewrite length_upd. eauto.
  - (* WriterEntry *)
    unfold writer_entry. destruct (nth_error (writers s) i) as [w|] eqn:Hi; [|assumption].
    destruct (w_obj w) eqn:Ho; [|assumption].
    destruct (nth_error (entries s) k) as [e|] eqn:Hk; [|assumption].
    destruct (negb (N.eqb ty (e_ty e))); [assumption|].
    destruct (e_prod e) eqn:Hp; [|assumption].
    inv_split; [apply invw_writer_entry; assumption | rewrite length_upd; assumption].
  - (* DropHandleMut *)
    unfold drop_handle_mut. destruct (nth_error (whs s) h) as [r|] eqn:Hh; [|assumption].
    destruct (i_hvalid _ _ _ _ IW _ _ Hh) as [Hw Hk].
    destruct (nth_error_lt_some _ _ Hk) as [e He]. destruct (nth_error_lt_some _ _ Hw) as [w Hw'].
    assert (L : h_live r = true ->
                Inv (arc_release (upd_entry (set_hst s h r HDead) (h_k r) (fun e => set_prod e true)) (h_w r))).
    { intros Hl. unfold upd_entry, set_hst. cbn [entries set_whs]. rewrite He.
      unfold arc_release. cbn [writers set_entries set_whs]. rewrite Hw'.
      inv_split; [apply invw_drop_handle; assumption | rewrite length_upd; assumption]. }
    destruct (h_st r) eqn:Hst; [assumption | |]; cbn [fst]; apply L; unfold h_live; rewrite Hst; reflexivity.
  - (* UpdateWithCopy *)
    apply inv_handle_op; auto.
    + intros [| |?] st' H; cbn in H; inversion H; split; congruence.
    + intros e. split; [unfold cell_bump, cell_write; destruct (cell_is0 (e_wc e)); reflexivity|].
      intros _. unfold cell_bump, cell_write; destruct (cell_is0 (e_wc e)); cbn; lia.
    + intros [| |?] v0 e H; discriminate.
  - (* LoanUninit *)
    apply inv_handle_op; auto.
    + intros [| |?] st' H; cbn in H; inversion H; split; congruence.
    + intros [| |?] v0 e H; discriminate.
  - (* WriteLoan *)
    apply inv_handle_op; auto.
    + intros [| |?] st' H; cbn in H; inversion H; split; congruence.
    + intros e. split; unfold cell_write; destruct (cell_is0 (e_wc e)); cbn; auto.
    + intros [| |?] v0 e H; cbn in H; inversion H. apply wcell_write.
  - (* AssumeInit *)
    apply inv_handle_op; auto.
    + intros [| |[?|]] st' H; cbn in H; inversion H; split; congruence.
    + intros e. split; [reflexivity|]. intros _. unfold cell_bump; cbn. lia.
    + intros [| |[?|]] v0 e H; discriminate.
  - (* UpdateLoan *)
    apply inv_handle_op; auto.
    + intros [| |?] st' H; cbn in H; inversion H; split; congruence.
    + intros e. split; [unfold cell_bump, cell_write; destruct (cell_is0 (e_wc e)); reflexivity|].
      intros _. unfold cell_bump, cell_write; destruct (cell_is0 (e_wc e)); cbn; lia.
    + intros [| |?] v0 e H; discriminate.
  - (* DiscardLoan *)
    apply inv_handle_op; auto.
    + intros [| |?] st' H; cbn in H; inversion H; split; congruence.
    + intros [| |?] v0 e H; discriminate.
  - (* CreateReader *)
    unfold create_reader. destruct (Nat.ltb (nreaders s) (max_readers s)); [|assumption].
    inv_split; [assumption|]. destruct IR as [Ix Ir]. constructor; [assumption|].
    rewrite count_if_app, <- Ir, count_if_cons, count_if_nil. cbn. lia.
  - (* DropReader *)
    unfold drop_reader. destruct (nth_error (readers s) r) as [[|]|] eqn:Hr; try assumption.
    inv_split; [assumption|]. destruct IR as [Ix Ir]. constructor; [assumption|].
    pose proof (count_if_upd idb (readers s) r true false Hr) as C. cbn in C.
    pose proof (count_if_pos idb (readers s) r true Hr eq_refl). lia.
  - (* ReaderEntry *)
    unfold reader_entry. destruct (nth_error (readers s) r) as [[|]|] eqn:Hr; try assumption.
    destruct (nth_error (entries s) k) as [e|] eqn:Hk; [|assumption].
    destruct (negb (N.eqb ty (e_ty e))); [assumption|].
    inv_split; [assumption|]. destruct IR as [Ix Ir]. constructor; [|assumption].
    intros x xr Hx. destruct (nth_error_app_last _ _ _ _ Hx) as [[_ Hold]|[_ ->]]; [eauto|].
    cbn. eapply nth_error_some_lt; eauto.
  - (* DropHandle *)
    unfold drop_handle. destruct (nth_error (rhs s) x) as [xr|] eqn:Hx; [|assumption].
    destruct (x_live xr); [|assumption].
    inv_split; [assumption|]. destruct IR as [Ix Ir]. constructor; [|assumption].
    intros x' xr' Hx'. rewrite nth_error_upd in Hx'. destruct (Nat.eqb_spec x x') as [<-|Hn]; [|eauto].
    destruct (Nat.ltb x (length (rhs s))); [|discriminate]. injection Hx' as <-. cbn. eauto.
  - (* Get *)
    unfold get. destruct (nth_error (rhs s) x) as [xr|] eqn:Hx; [|assumption].
    destruct (x_live xr); [|assumption].
    destruct (nth_error (entries s) (x_k xr)) as [e|] eqn:He; [|assumption].
    inv_split; [assumption|]. destruct IR as [Ix Ir]. constructor; [|assumption].
    intros x' xr' Hx'. rewrite nth_error_upd in Hx'. destruct (Nat.eqb_spec x x') as [<-|Hn]; [|eauto].
    destruct (Nat.ltb x (length (rhs s))); [|discriminate]. injection Hx' as <-. cbn. eauto.
  - (* IsUpToDate *)
    unfold is_up_to_date. destruct (nth_error (rhs s) x) as [xr|]; [|assumption].
    destruct (x_live xr); [|assumption].
    destruct (x_gen xr); [|assumption]. destruct (nth_error (entries s) (x_k xr)); assumption.
Qed.

Lemma run_inv s h : Inv s -> Inv (fst (run s h)).
Proof.
  revert s; induction h as [|o h IH]; intros s I; [assumption|].
  cbn [run]. pose proof (step_inv s o I) as I1. destruct (step s o) as [s1 ob]. cbn [fst] in I1.
  specialize (IH s1 I1). destruct (run s1 h) as [s2 obs]. assumption.
Qed.

Lemma inv_reach mr init h : Inv (reach mr init h).
Proof. apply run_inv, inv_init. Qed.

(* ================= the property clause ================= *)

(* (a) never more than max_writers (= 1) registered writer ports, and every Writer object the
   user holds is a registered one: at most one writer port exists at a time *)
Lemma bb_single_writer_port mr init h :
  let s := reach mr init h in
  nwriters s <= max_writers /\ live_writers s <= nwriters s.
Proof.
  intros s. destruct (inv_reach mr init h) as [IW _]. fold s in IW. split; [eapply i_cap; eauto|].
  rewrite (i_slots _ _ _ _ IW). unfold live_writers. apply count_if_le. intros w Hin Ho.
  destruct (In_nth_error _ _ Hin) as [i Hi]. pose proof (i_rc _ _ _ _ IW _ _ Hi) as Hrc.
  rewrite Ho in Hrc. unfold rc_pos. destruct (Nat.eqb_spec (w_rc w) 0); [cbn in Hrc; lia | reflexivity].
Qed.

Lemma bb_at_most_one_writer mr init h : live_writers (reach mr init h) <= 1.
Proof. destruct (bb_single_writer_port mr init h) as [H1 H2]. unfold max_writers in H1. lia. Qed.

(* (b) per key at most one live write handle *)
Lemma bb_single_handle_per_key mr init h k : live_handles_on (reach mr init h) k <= 1.
Proof. destruct (inv_reach mr init h) as [IW _]. exact (on_k_le1 _ _ _ _ k IW). Qed.

(* (c) a refused creation changes nothing (in any state) *)
Lemma bb_failed_create_no_effect s o :
  is_create o = true -> is_failure (snd (step s o)) = true -> fst (step s o) = s.
Proof.
  destruct o; cbn [is_create step]; try discriminate; intros _.
  - unfold create_writer. destruct (Nat.ltb (nwriters s) max_writers); cbn; [discriminate | reflexivity].
  - unfold writer_entry. destruct (nth_error (writers s) i) as [w|]; [|reflexivity].
    destruct (w_obj w); [|reflexivity]. destruct (nth_error (entries s) k) as [e|]; [|reflexivity].
    destruct (negb (N.eqb ty (e_ty e))); [reflexivity|]. destruct (e_prod e); cbn; [discriminate | reflexivity].
  - unfold create_reader. destruct (Nat.ltb (nreaders s) (max_readers s)); cbn; [discriminate | reflexivity].
  - unfold reader_entry. destruct (nth_error (readers s) r) as [[|]|]; try reflexivity.
    destruct (nth_error (entries s) k) as [e|]; [|reflexivity].
    destruct (negb (N.eqb ty (e_ty e))); cbn; [reflexivity | discriminate].
Qed.

(* ... "without disturbing the first": after the refusal the holder's next update succeeds and
   every reader of that key gets exactly that value *)
Lemma bb_first_holder_undisturbed mr init h o hd hr v x xr :
  let s := reach mr init h in
  is_create o = true -> is_failure (snd (step s o)) = true ->
  nth_error (whs s) hd = Some hr -> h_st hr = HIdle ->
  nth_error (rhs s) x = Some xr -> x_live xr = true -> x_k xr = h_k hr ->
  let s1 := fst (step s o) in
  let s2 := fst (step s1 (UpdateWithCopy hd v)) in
  s1 = s /\ snd (step s1 (UpdateWithCopy hd v)) = OOk /\
  exists g, snd (step s2 (Get x)) = OValue v g.
Proof.
  intros s Hc Hf Hh Hst Hx Hxl Hxk s1 s2.
  assert (E1 : s1 = s) by (apply bb_failed_create_no_effect; assumption).
  destruct (inv_reach mr init h) as [IW _]. fold s in IW.
  destruct (i_hvalid _ _ _ _ IW _ _ Hh) as [_ Hk]. destruct (nth_error_lt_some _ _ Hk) as [e He].
  assert (E2 : step s (UpdateWithCopy hd v) =
               (set_entries (set_hst s hd hr HIdle) (upd (entries s) (h_k hr) (cell_bump (cell_write e v))), OOk)).
  { cbn [step]. unfold handle_op. rewrite Hh, Hst. cbn [when_idle]. unfold upd_entry, set_hst.
    cbn [entries set_whs]. rewrite He. reflexivity. }
  subst s2. rewrite E1, E2. cbn [fst snd]. repeat split.
  exists (e_wc (cell_bump (cell_write e v))). cbn [step]. unfold get.
  cbn [rhs entries set_entries set_hst set_whs]. rewrite Hx, Hxl, Hxk.
  rewrite nth_error_upd_eq by assumption. cbn [snd]. rewrite cell_load_store. reflexivity.
Qed.

(* (d) after the holder is gone, creation succeeds again *)
Lemma bb_release_reenables mr init h i w :
  let s := reach mr init h in
  nth_error (writers s) i = Some w -> w_obj w = true -> live_handles_of s i = 0 ->
  snd (step s (DropWriter i)) = OOk /\
  snd (step (fst (step s (DropWriter i))) CreateWriter) = OId (length (writers s)).
Proof.
  intros s Hi Ho Hnone. destruct (inv_reach mr init h) as [IW _]. fold s in IW.
  pose proof (i_rc _ _ _ _ IW _ _ Hi) as Hrc. rewrite live_handles_of_eq in Hnone. rewrite Ho, Hnone in Hrc. cbn in Hrc.
  pose proof (i_cap _ _ _ _ IW) as Hcap. unfold max_writers in Hcap.
  cbn [step]. unfold drop_writer. rewrite Hi, Ho. cbn [fst snd]. split; [reflexivity|].
  unfold arc_release. cbn [writers set_w nwriters].
  rewrite nth_error_upd_eq by (eapply nth_error_some_lt; eauto). cbn [w_rc w_obj]. rewrite Hrc. cbn [Nat.pred Nat.eqb].
  unfold create_writer. cbn [nwriters set_w writers]. unfold max_writers.
  destruct (Nat.ltb_spec (Nat.pred (nwriters s)) 1); [|lia]. cbn [snd]. rewrite !length_upd. reflexivity.
Qed.

(* the general form: whenever the user holds neither a Writer nor a write handle, a Writer can be created *)
Lemma bb_writer_creatable_when_free mr init h :
  let s := reach mr init h in
  live_writers s = 0 -> live_handles s = 0 -> snd (step s CreateWriter) = OId (length (writers s)).
Proof.
  intros s Hw Hh. destruct (inv_reach mr init h) as [IW _]. fold s in IW.
  assert (Z : nwriters s = 0).
  { rewrite (i_slots _ _ _ _ IW). apply count_if_none. intros w Hin.
    destruct (In_nth_error _ _ Hin) as [i Hi]. pose proof (i_rc _ _ _ _ IW _ _ Hi) as Hrc.
    rewrite (count_if_zero _ _ Hw w Hin) in Hrc.
    assert (count_if (of_w i) (whs s) <= count_if h_live (whs s)).
    { apply count_if_le. intros r _ Hr. unfold of_w in Hr. apply andb_prop in Hr. tauto. }
    unfold live_handles in Hh. unfold rc_pos. cbn in Hrc. destruct (Nat.eqb_spec (w_rc w) 0); [reflexivity | lia]. }
  cbn [step]. unfold create_writer. rewrite Z. reflexivity.
Qed.

(* write handle: after the holder of key k is dropped, any Writer the user holds gets the handle *)
Lemma bb_release_reenables_handle mr init h hd hr i w e :
  let s := reach mr init h in
  nth_error (whs s) hd = Some hr -> h_live hr = true ->
  nth_error (writers s) i = Some w -> w_obj w = true ->
  nth_error (entries s) (h_k hr) = Some e ->
  snd (step s (DropHandleMut hd)) = OOk /\
  snd (step (fst (step s (DropHandleMut hd))) (WriterEntry i (h_k hr) (e_ty e))) = OId (length (whs s)).
Proof.
  intros s Hh Hl Hi Ho He. destruct (inv_reach mr init h) as [IW _]. fold s in IW.
  destruct (i_hvalid _ _ _ _ IW _ _ Hh) as [Hw _]. destruct (nth_error_lt_some _ _ Hw) as [w0 Hw0].
  assert (E : step s (DropHandleMut hd) =
              (arc_release (upd_entry (set_hst s hd hr HDead) (h_k hr) (fun e => set_prod e true)) (h_w hr), OOk)).
  { cbn [step]. unfold drop_handle_mut. rewrite Hh. unfold h_live in Hl. destruct (h_st hr); [discriminate | reflexivity | reflexivity]. }
  rewrite E. cbn [fst snd]. split; [reflexivity|].
  unfold upd_entry, set_hst. cbn [entries set_whs]. rewrite He.
  unfold arc_release. cbn [writers set_entries set_whs]. rewrite Hw0.
  cbn [step]. unfold writer_entry. cbn [writers set_w entries set_entries set_whs whs nwriters].
  assert (exists w', nth_error (upd (writers s) (h_w hr) {| w_obj := w_obj w0; w_rc := Nat.pred (w_rc w0) |}) i = Some w' /\ w_obj w' = true) as (w' & Hw' & Ho').
  { rewrite nth_error_upd. destruct (Nat.eqb_spec (h_w hr) i) as [Heq|Hn]; [|eauto].
    destruct (Nat.ltb_spec (h_w hr) (length (writers s))); [|lia]. eexists; split; [reflexivity|]. cbn.
    rewrite Heq in Hw0. congruence. }
  rewrite Hw', Ho'. rewrite nth_error_upd_eq by (eapply nth_error_some_lt; eauto).
  cbn [e_ty set_prod e_prod]. rewrite N.eqb_refl. cbn [negb snd]. rewrite length_upd. reflexivity.
Qed.

(* ================= the model refines the reference specification ================= *)
Lemma abs_init mr init : abs (bb_new mr init) = sp_new mr init.
Proof.
  unfold abs, bb_new, sp_new. cbn. rewrite !map_map. f_equal.
Qed.

Ltac solve_expect :=
  cbn [fst snd]; unfold expect; cbn [bobs_eqb]; rewrite ?Nat.eqb_refl, ?N.eqb_refl, ?Bool.eqb_reflx; cbn [andb]; reflexivity.

Lemma nth_error_map' {A B} (f : A -> B) l i : nth_error (map f l) i = option_map f (nth_error l i).
Proof. revert i; induction l as [|a l IH]; intros [|i]; cbn; auto. Qed.

Lemma map_upd_same {A B} (f : A -> B) l i x y : nth_error l i = Some x -> f y = f x -> map f (upd l i y) = map f l.
Proof. intros H E. rewrite map_upd. apply upd_same. rewrite nth_error_map', H, E. reflexivity. Qed.

Lemma existsb_idb_map_obj ws : existsb (fun b : bool => b) (map w_obj ws) = negb (Nat.eqb (count_if w_obj ws) 0).
Proof. rewrite existsb_map. apply existsb_count. Qed.

Lemma live_le_slots s : Inv s -> count_if w_obj (writers s) <= nwriters s.
Proof.
  intros [IW _]. rewrite (i_slots _ _ _ _ IW). apply count_if_le. intros w Hin Ho.
  destruct (In_nth_error _ _ Hin) as [i Hi]. pose proof (i_rc _ _ _ _ IW _ _ Hi) as Hrc.
  rewrite Ho in Hrc. unfold rc_pos. destruct (Nat.eqb_spec (w_rc w) 0); [cbn in Hrc; lia | reflexivity].
Qed.

(* a registered writer slot is explained by an object the user holds: the Writer or one of its handles *)
Lemma slot_held_explained s : Inv s -> 1 <= nwriters s ->
  existsb (fun b : bool => b) (map w_obj (writers s)) || existsb h_live (whs s) = true.
Proof.
  intros [IW _] H. rewrite (i_slots _ _ _ _ IW) in H. destruct (count_if_exists _ _ H) as (i & w & Hi & Hp).
  pose proof (i_rc _ _ _ _ IW _ _ Hi) as Hrc. unfold rc_pos in Hp.
  destruct (w_obj w) eqn:Ho.
  - apply orb_true_iff. left. rewrite existsb_map. apply existsb_exists. exists w. split; [eapply nth_error_In; eauto | assumption].
  - apply orb_true_iff. right. cbn in Hrc.
    assert (1 <= count_if (of_w i) (whs s)) as Hc by (destruct (Nat.eqb_spec (w_rc w) 0); [discriminate | lia]).
    destruct (count_if_exists _ _ Hc) as (h & r & Hh & Hr). apply existsb_exists. exists r.
    split; [eapply nth_error_In; eauto|]. unfold of_w in Hr. apply andb_prop in Hr. tauto.
Qed.

Lemma refines_handle_op s h (ok : hst -> option hst) (f : entry -> entry) (sok : hst -> option (hst * option N)) :
  Inv s ->
  (forall st e, (1 <= e_wc e)%N -> (forall v, st = HLoan (Some v) -> wcell e = v) ->
     match ok st with
     | None => sok st = None
     | Some st' => exists pub, sok st = Some (st', pub) /\ e_ty (f e) = e_ty e /\
                   match pub with
                   | Some v => cell_load (f e) = v /\ e_wc (f e) = N.add (e_wc e) 1
                   | None => cell_load (f e) = cell_load e /\ e_wc (f e) = e_wc e
                   end
     end) ->
  sp_handle_op (abs s) h sok (snd (handle_op s h ok f)) = Some (abs (fst (handle_op s h ok f))).
Proof.
  intros [IW IR] H. unfold sp_handle_op, handle_op. cbn [abs s_hs].
  destruct (nth_error (whs s) h) as [r|] eqn:Hh; [|solve_expect].
  destruct (i_hvalid _ _ _ _ IW _ _ Hh) as [_ Hk]. destruct (nth_error_lt_some _ _ Hk) as [e He].
  specialize (H (h_st r) e (i_wc _ _ _ _ IW _ _ He)).
  assert (Hp : forall v, h_st r = HLoan (Some v) -> wcell e = v) by (intros v Hv; eapply i_pend; eauto).
  specialize (H Hp). destruct (ok (h_st r)) as [st'|].
  - destruct H as (pub & -> & Hty & Hpub). cbn [fst snd].
    unfold upd_entry, set_hst. cbn [entries set_whs]. rewrite He.
    unfold expect. cbn [bobs_eqb]. f_equal.
    unfold abs, sp_update, sp_set_val, sp_set_hs.
    cbn [entries nwriters nreaders writers whs readers rhs max_readers set_w set_whs set_entries set_r set_rhs
         s_mr s_ty s_val s_gen s_ws s_hs s_rs s_xs].
    rewrite (map_upd_same e_ty _ _ e _ He Hty).
    destruct pub as [v|]; destruct Hpub as [Hv Hg];
      cbn [entries nwriters nreaders writers whs readers rhs max_readers set_w set_whs set_entries set_r set_rhs
           s_mr s_ty s_val s_gen s_ws s_hs s_rs s_xs].
    + rewrite (nth_map_some e_wc _ _ e 0%N He). rewrite !map_upd, Hv, Hg. reflexivity.
    + rewrite (map_upd_same cell_load _ _ e _ He Hv), (map_upd_same e_wc _ _ e _ He Hg). reflexivity.
  - rewrite H. cbn [fst snd]. solve_expect.
Qed.

Ltac abs_cbn :=
  cbn [abs sp_set_ws sp_set_hs sp_set_rs sp_set_xs sp_set_val
       entries nwriters nreaders writers whs readers rhs max_readers set_w set_whs set_entries set_r set_rhs
       s_mr s_ty s_val s_gen s_ws s_hs s_rs s_xs fst snd].

Lemma step_refines s o : Inv s -> sp_step (abs s) o (snd (step s o)) = Some (abs (fst (step s o))).
Proof.
  intros I. pose proof I as [IW IR]. destruct o; cbn [step sp_step].
  - (* CreateWriter *)
    unfold create_writer. destruct (Nat.ltb_spec (nwriters s) max_writers) as [Hlt|Hge]; abs_cbn.
    + pose proof (live_le_slots s I) as Hle. unfold max_writers in Hlt.
      rewrite existsb_idb_map_obj, map_length, Nat.eqb_refl.
      replace (count_if w_obj (writers s)) with 0 by lia. cbn [Nat.eqb negb andb].
      unfold abs; abs_cbn. rewrite map_app. reflexivity.
    + rewrite (slot_held_explained s I) by (unfold max_writers in Hge; lia). reflexivity.
  - (* DropWriter *)
    unfold drop_writer. abs_cbn. rewrite nth_error_map'.
    destruct (nth_error (writers s) i) as [w|] eqn:Hi; cbn [option_map]; [|solve_expect].
    destruct (w_obj w) eqn:Ho; [|solve_expect].
    abs_cbn. unfold arc_release. cbn [writers set_w nwriters].
    rewrite nth_error_upd_eq by (eapply nth_error_some_lt; eauto). cbn [w_rc w_obj]. rewrite upd_upd.
    unfold expect. cbn [bobs_eqb]. f_equal. unfold abs; abs_cbn. rewrite map_upd. reflexivity.
  - (* WriterEntry *)
    unfold writer_entry. abs_cbn. rewrite nth_error_map'.
    destruct (nth_error (writers s) i) as [w|] eqn:Hi; cbn [option_map]; [|solve_expect].
    destruct (w_obj w) eqn:Ho; [|solve_expect].
    unfold sp_has_type. abs_cbn. rewrite nth_error_map'.
    destruct (nth_error (entries s) k) as [e|] eqn:Hk; cbn [option_map negb]; [|solve_expect].
    destruct (negb (N.eqb ty (e_ty e))); [solve_expect|].
    unfold sp_handle_on. abs_cbn.
    change (fun r : hrec => h_live r && Nat.eqb (h_k r) k) with (on_k k).
    rewrite existsb_count, (i_prod _ _ _ _ IW _ _ Hk).
    destruct (e_prod e) eqn:Hp; cbn [negb b2n Nat.eqb]; [|solve_expect].
    cbn [fst snd]. unfold expect. cbn [bobs_eqb]. rewrite Nat.eqb_refl. f_equal. unfold abs; abs_cbn.
    rewrite (map_upd_same e_ty _ _ e (set_prod e false) Hk eq_refl), (map_upd_same cell_load _ _ e (set_prod e false) Hk eq_refl),
            (map_upd_same e_wc _ _ e (set_prod e false) Hk eq_refl),
            (map_upd_same w_obj _ _ w {| w_obj := true; w_rc := S (w_rc w) |} Hi (eq_sym Ho)).
    reflexivity.
  - (* DropHandleMut *)
    unfold drop_handle_mut, sp_handle_op. abs_cbn.
    destruct (nth_error (whs s) h) as [r|] eqn:Hh; [|solve_expect].
    destruct (i_hvalid _ _ _ _ IW _ _ Hh) as [Hw Hk].
    destruct (nth_error_lt_some _ _ Hk) as [e He]. destruct (nth_error_lt_some _ _ Hw) as [w Hw'].
    assert (L : abs (arc_release (upd_entry (set_hst s h r HDead) (h_k r) (fun e => set_prod e true)) (h_w r)) =
                sp_set_hs (abs s) (upd (whs s) h {| h_w := h_w r; h_k := h_k r; h_st := HDead |})).
    { unfold upd_entry, set_hst. cbn [entries set_whs]. rewrite He.
      unfold arc_release. cbn [writers set_entries set_whs]. rewrite Hw'. unfold abs; abs_cbn.
      rewrite (map_upd_same e_ty _ _ e (set_prod e true) He eq_refl), (map_upd_same cell_load _ _ e (set_prod e true) He eq_refl),
              (map_upd_same e_wc _ _ e (set_prod e true) He eq_refl),
              (map_upd_same w_obj _ _ w {| w_obj := w_obj w; w_rc := Nat.pred (w_rc w) |} Hw' eq_refl).
      reflexivity. }
    destruct (h_st r); [solve_expect | |]; abs_cbn; rewrite L; solve_expect.
  - (* UpdateWithCopy *)
    apply refines_handle_op; auto. intros [| |?] e Hwc Hp; cbn [when_idle]; auto.
    exists (Some v). repeat split.
    + unfold cell_bump, cell_write; destruct (cell_is0 (e_wc e)); reflexivity.
    + apply cell_load_store.
    + unfold cell_bump, cell_write; destruct (cell_is0 (e_wc e)); reflexivity.
  - (* LoanUninit *)
    apply refines_handle_op; auto. intros [| |?] e Hwc Hp; cbn [when_idle]; auto.
    exists None. repeat split.
  - (* WriteLoan *)
    apply refines_handle_op; auto. intros [| |?] e Hwc Hp; cbn [when_loan]; auto.
    exists None. repeat split.
    + unfold cell_write; destruct (cell_is0 (e_wc e)); reflexivity.
    + apply cell_load_write; assumption.
    + unfold cell_write; destruct (cell_is0 (e_wc e)); reflexivity.
  - (* AssumeInit *)
    apply refines_handle_op; auto. intros [| |[v0|]] e Hwc Hp; cbn [when_written]; auto.
    exists (Some v0). repeat split. rewrite cell_load_bump. auto.
  - (* UpdateLoan *)
    apply refines_handle_op; auto. intros [| |?] e Hwc Hp; cbn [when_loan]; auto.
    exists (Some v). repeat split.
    + unfold cell_bump, cell_write; destruct (cell_is0 (e_wc e)); reflexivity.
    + apply cell_load_store.
    + unfold cell_bump, cell_write; destruct (cell_is0 (e_wc e)); reflexivity.
  - (* DiscardLoan *)
    apply refines_handle_op; auto. intros [| |?] e Hwc Hp; cbn [when_loan]; auto.
    exists None. repeat split.
  - (* CreateReader *)
    unfold create_reader. abs_cbn. rewrite (i_readers _ _ _ _ IR). unfold idb.
    destruct (Nat.ltb (count_if (fun b : bool => b) (readers s)) (max_readers s)); abs_cbn; solve_expect.
  - (* DropReader *)
    unfold drop_reader. abs_cbn.
    destruct (nth_error (readers s) r) as [[|]|]; abs_cbn; solve_expect.
  - (* ReaderEntry *)
    unfold reader_entry. abs_cbn.
    destruct (nth_error (readers s) r) as [[|]|]; abs_cbn; try solve_expect.
    unfold sp_has_type. abs_cbn. rewrite nth_error_map'.
    destruct (nth_error (entries s) k) as [e|] eqn:Hk; cbn [option_map negb]; [|solve_expect].
    destruct (negb (N.eqb ty (e_ty e))); abs_cbn; solve_expect.
  - (* DropHandle *)
    unfold drop_handle. abs_cbn.
    destruct (nth_error (rhs s) x) as [xr|]; [|solve_expect].
    destruct (x_live xr); abs_cbn; solve_expect.
  - (* Get *)
    unfold get. abs_cbn.
    destruct (nth_error (rhs s) x) as [xr|]; [|solve_expect].
    destruct (x_live xr); [|solve_expect]. rewrite !nth_error_map'.
    destruct (nth_error (entries s) (x_k xr)) as [e|]; cbn [option_map]; abs_cbn; solve_expect.
  - (* IsUpToDate *)
    unfold is_up_to_date. abs_cbn.
    destruct (nth_error (rhs s) x) as [xr|]; [|solve_expect].
    destruct (x_live xr); [|solve_expect]. rewrite !nth_error_map'.
    destruct (x_gen xr) as [g|]; [|solve_expect].
    destruct (nth_error (entries s) (x_k xr)) as [e|]; cbn [option_map]; abs_cbn; solve_expect.
Qed.

Lemma run_refines s h : Inv s -> sp_accepts (abs s) h (snd (run s h)) = true.
Proof.
  revert s; induction h as [|o h IH]; intros s I; [reflexivity|].
  cbn [run]. pose proof (step_refines s o I) as R. pose proof (step_inv s o I) as I1.
  destruct (step s o) as [s1 ob]. cbn [fst snd] in *. specialize (IH s1 I1).
  destruct (run s1 h) as [s2 obs]. cbn [snd] in *. cbn [sp_accepts]. rewrite R. exact IH.
Qed.

(* what the model registers in the dynamic configuration is admissible for the specification state *)
Lemma bb_digest_ok mr init h :
  let s := reach mr init h in sp_digest_ok (abs s) (nwriters s) (nreaders s) = true.
Proof.
  intros s. pose proof (inv_reach mr init h) as I. fold s in I. pose proof I as [IW IR].
  unfold sp_digest_ok. cbn [abs s_ws s_rs]. rewrite count_if_map.
  pose proof (live_le_slots s I) as H1. pose proof (i_cap _ _ _ _ IW) as H2. pose proof (i_readers _ _ _ _ IR) as H3.
  unfold idb in H3. change (count_if (fun x : wrec => w_obj x) (writers s)) with (count_if w_obj (writers s)).
  apply andb_true_iff; split; [apply andb_true_iff; split|].
  - apply Nat.leb_le. assumption.
  - apply Nat.leb_le. assumption.
  - apply Nat.eqb_eq. assumption.
Qed.

(* every run of the model is admissible for the reference specification *)
Lemma bb_refines_spec mr init h : sp_accepts (sp_new mr init) h (snd (run (bb_new mr init) h)) = true.
Proof. rewrite <- abs_init. apply run_refines, inv_init. Qed.

(* ================= non-vacuity: concrete histories (two keys: key 0 of type 0 = 10, key 1 of type 1 = 11) ================= *)
Definition ex_init : list (N * N) := [(0%N, 10%N); (1%N, 11%N)].

(* the bound of (a) is reached, and the second create is refused *)
Example bb_single_writer_port_nonvacuous :
  let s := reach 1 ex_init [CreateWriter] in
  live_writers s = 1 /\ nwriters s = max_writers /\
  snd (step s CreateWriter) = OWriterErr ExceedsMaxSupportedWriters.
Proof. vm_compute. auto. Qed.

(* the bound of (b) is reached, and the second handle is refused; another key is free *)
Example bb_single_handle_per_key_nonvacuous :
  let s := reach 1 ex_init [CreateWriter; WriterEntry 0 0 0] in
  live_handles_on s 0 = 1 /\ snd (step s (WriterEntry 0 0 0)) = OHandleMutErr HM_HandleAlreadyExists /\
  snd (step s (WriterEntry 0 1 1)) = OId 1.
Proof. vm_compute. auto. Qed.

Example bb_failed_create_no_effect_nonvacuous :
  let s := reach 1 ex_init [CreateWriter; WriterEntry 0 0 0; CreateReader] in
  (is_create CreateWriter = true /\ is_failure (snd (step s CreateWriter)) = true) /\
  (is_create (WriterEntry 0 0 0) = true /\ snd (step s (WriterEntry 0 0 0)) = OHandleMutErr HM_HandleAlreadyExists) /\
  (is_create (WriterEntry 0 0 1) = true /\ snd (step s (WriterEntry 0 0 1)) = OHandleMutErr HM_EntryDoesNotExist) /\
  (is_create (WriterEntry 0 2 0) = true /\ snd (step s (WriterEntry 0 2 0)) = OHandleMutErr HM_EntryDoesNotExist) /\
  (is_create CreateReader = true /\ snd (step s CreateReader) = OReaderErr ExceedsMaxSupportedReaders).
Proof. vm_compute. repeat split. Qed.

Example bb_first_holder_undisturbed_nonvacuous :
  let s := reach 1 ex_init [CreateWriter; WriterEntry 0 0 0; CreateReader; ReaderEntry 0 0 0] in
  is_create CreateWriter = true /\ is_failure (snd (step s CreateWriter)) = true /\
  (exists hr, nth_error (whs s) 0 = Some hr /\ h_st hr = HIdle /\
   exists xr, nth_error (rhs s) 0 = Some xr /\ x_live xr = true /\ x_k xr = h_k hr) /\
  snd (run s [CreateWriter; WriterEntry 0 0 0; UpdateWithCopy 0 77; Get 0]) =
    [OWriterErr ExceedsMaxSupportedWriters; OHandleMutErr HM_HandleAlreadyExists; OOk; OValue 77 2].
Proof. vm_compute. repeat split. eexists; repeat split. eexists; repeat split. Qed.

Example bb_release_reenables_nonvacuous :
  let s := reach 1 ex_init [CreateWriter; CreateWriter] in
  (exists w, nth_error (writers s) 0 = Some w /\ w_obj w = true) /\ live_handles_of s 0 = 0 /\
  snd (run (bb_new 1 ex_init) [CreateWriter; CreateWriter; DropWriter 0; CreateWriter]) =
    [OId 0; OWriterErr ExceedsMaxSupportedWriters; OOk; OId 1].
Proof. vm_compute. repeat split. eexists; repeat split. Qed.

(* the hypothesis `no live handle of that writer` is needed: writer.rs keeps the writer slot until
   the last EntryHandleMut made by the dropped Writer is gone (Arc<WriterSharedState>) *)
Example bb_release_reenables_needs_no_handle :
  snd (run (bb_new 1 ex_init) [CreateWriter; WriterEntry 0 0 0; DropWriter 0; CreateWriter; UpdateWithCopy 0 5;
                               DropHandleMut 0; CreateWriter]) =
    [OId 0; OId 0; OOk; OWriterErr ExceedsMaxSupportedWriters; OOk; OOk; OId 1].
Proof. vm_compute. reflexivity. Qed.

Example bb_writer_creatable_when_free_nonvacuous :
  let s := reach 1 ex_init [CreateWriter; WriterEntry 0 1 1; DropWriter 0; DropHandleMut 0] in
  live_writers s = 0 /\ live_handles s = 0 /\ snd (step s CreateWriter) = OId 1.
Proof. vm_compute. auto. Qed.

Example bb_release_reenables_handle_nonvacuous :
  let s := reach 1 ex_init [CreateWriter; WriterEntry 0 1 1; LoanUninit 0] in
  (exists hr, nth_error (whs s) 0 = Some hr /\ h_live hr = true /\ h_k hr = 1 /\
   exists e, nth_error (entries s) 1 = Some e /\ e_ty e = 1%N) /\
  (exists w, nth_error (writers s) 0 = Some w /\ w_obj w = true) /\
  snd (run s [WriterEntry 0 1 1; DropHandleMut 0; WriterEntry 0 1 1]) =
    [OHandleMutErr HM_HandleAlreadyExists; OOk; OId 1].
Proof. vm_compute. repeat split. eexists; repeat split. eexists; repeat split. eexists; repeat split. Qed.

(* the reference specification is not trivial: it rejects the violations the clause excludes *)
Example bb_spec_rejects_violations :
  (* a second writer port *)
  sp_accepts (sp_new 1 ex_init) [CreateWriter; CreateWriter] [OId 0; OId 1] = false /\
  (* a second write handle for a key *)
  sp_accepts (sp_new 1 ex_init) [CreateWriter; WriterEntry 0 0 0; WriterEntry 0 0 0] [OId 0; OId 0; OId 1] = false /\
  (* a refused create although nothing holds the resource *)
  sp_accepts (sp_new 1 ex_init) [CreateWriter; DropWriter 0; CreateWriter] [OId 0; OOk; OWriterErr ExceedsMaxSupportedWriters] = false /\
  sp_accepts (sp_new 1 ex_init) [CreateWriter; WriterEntry 0 0 0; DropHandleMut 0; WriterEntry 0 0 0]
             [OId 0; OId 0; OOk; OHandleMutErr HM_HandleAlreadyExists] = false /\
  (* a reader that does not see the last written value *)
  sp_accepts (sp_new 1 ex_init) [CreateWriter; WriterEntry 0 0 0; CreateReader; ReaderEntry 0 0 0; UpdateWithCopy 0 7; Get 0]
             [OId 0; OId 0; OId 0; OId 0; OOk; OValue 10 1] = false /\
  (* ... while both answers are admissible when only a handle of a dropped Writer is left *)
  sp_accepts (sp_new 1 ex_init) [CreateWriter; WriterEntry 0 0 0; DropWriter 0; CreateWriter]
             [OId 0; OId 0; OOk; OWriterErr ExceedsMaxSupportedWriters] = true /\
  sp_accepts (sp_new 1 ex_init) [CreateWriter; WriterEntry 0 0 0; DropWriter 0; CreateWriter]
             [OId 0; OId 0; OOk; OId 1] = true /\
  sp_digest_ok (sp_new 1 ex_init) 2 0 = false.
Proof. vm_compute. repeat split. Qed.
