(* C07: closure checks, guard killed before its k-th call, k = 14..20 *)
From V Require Import model.Base model.Conc model.Fs model.ProcState proofs.ProcStateClosure proofs.ProcStateDefs.
Open Scope N_scope.
Lemma sweep_nolock_3 : forallb (fun k => check false true P_nolock (inst_mon (Some k))) (seq 14 7) = true. Proof. vm_compute. reflexivity. Qed.
