(* C09: the invariant of the UniqueIndexSet step model carries over to the release/acquire view
   model (stale loads and stale failed compare-exchanges of the head word), and no value of a
   next cell that is USED was read racily. *)
From V Require Import model.Base model.Conc model.Events model.UniqueIndexSet model.UniqueIndexSetRA
  proofs.ListLemmas proofs.UniqueIndexSetCodec proofs.UniqueIndexSetProofs.
From Coq Require Import ZifyBool ZifyNat ZifyN Permutation.
Ltac Zify.zify_post_hook ::= Z.div_mod_to_equations.
Open Scope N_scope.

Definition PcView (u : ugst) (l : vlst) : Prop :=
  match upc_of (vsc l) with
  | AcqDist ov u0 | AcqRead ov u0 => u0 <= vapos l
  | AcqCas ov nx u0 => u0 = updates u -> vfresh l = true
  | _ => True
  end.

Definition HInv (c : cfg vgst vlst) : Prop :=
  let g := fst c in let u := vg g in
  lenN (vhist g) = updates u + 1 /\ nthN (vhist g) (updates u) 0 = uhead u /\
  (forall j, j <= updates u -> hd_aba (nthN (vhist g) j 0) = j mod 65536) /\
  (forall t, vspos (snd c t) <= updates u) /\
  (forall t i, nthN (uown u) i None = Some t ->
     forall j, vspos (snd c t) <= j -> j <= updates u -> rel_ok (nthN (vhist g) j 0)) /\
  vrace_used g = false /\
  (forall i, nthN (vlastrel g) i 0 <= updates u) /\
  (forall t, PcView u (snd c t)).

Definition VInv (c : cfg vgst vlst) : Prop := Inv (proj c) /\ HInv c.

Lemma stale_bounds cur lo k : lo <= cur -> lo <= stale cur lo k /\ stale cur lo k <= cur.
Proof. unfold stale. intros. lia. Qed.

Lemma nthN_app_old {A} (l : list A) x i d : i < lenN l -> nthN (l ++ [x]) i d = nthN l i d.
Proof. unfold nthN, lenN. intros H. apply app_nth1. lia. Qed.
Lemma nthN_app_new {A} (l : list A) x d : nthN (l ++ [x]) (lenN l) d = x.
Proof. unfold nthN, lenN. rewrite Nat2N.id. rewrite app_nth2 by lia. rewrite Nat.sub_diag. reflexivity. Qed.
Lemma nthN_repeat {A} (x : A) n i d : nthN (repeat x n) i d = x \/ nthN (repeat x n) i d = d.
Proof.
  unfold nthN. destruct (nth_in_or_default (N.to_nat i) (repeat x n) d) as [H|H]; [left; eapply repeat_spec; eauto|right; auto].
Qed.

Lemma vinv_init c dist orc progs : c < 16777215 -> VInv (vinit c dist orc progs).
Proof.
  intros Hc. split.
  - exact (inv_init c dist progs Hc).
  - unfold HInv, vinit, vg_init, vl_init, PcView.
    cbn [fst snd vg vhist vlastrel vrelby voracle vrace_used vsc vspos vapos vfresh ug_init updates uhead uown ul_init upc_of].
    assert (E0 : hd_aba 0 = 0) by (vm_compute; auto).
    assert (Ez : forall j, j <= 0 -> nthN [0] j 0 = 0) by (intros j Hj; assert (j = 0) by lia; subst j; reflexivity).
    split; [reflexivity|]. split; [reflexivity|].
    split. { intros j Hj. rewrite (Ez j Hj), E0. assert (j = 0) by lia. subst j. reflexivity. }
    split; [intros; lia|].
    split.
    { intros t i Hi. exfalso. destruct (nthN_repeat (@None Datatypes.nat) (N.to_nat c) i None) as [E|E]; rewrite E in Hi; discriminate. }
    split; [reflexivity|]. split; [|auto].
    intros i. destruct (nthN_repeat 0 (N.to_nat c) i 0) as [E|E]; rewrite E; lia.
Qed.

Lemma proj_upd (ls : nat -> vlst) t L' t' : vsc (upd_l ls t L' t') = upd_l (fun x => vsc (ls x)) t (vsc L') t'.
Proof.
  destruct (Nat.eq_dec t' t) as [->|Hne]; [now rewrite !upd_l_same|now rewrite !upd_l_other by assumption].
Qed.

Lemma inv_proj_upd u' (ls : nat -> vlst) t L' G' :
  vg G' = u' -> Inv (u', upd_l (fun x => vsc (ls x)) t (vsc L')) -> Inv (proj (G', upd_l ls t L')).
Proof.
  intros E [HG HL]. unfold proj; cbn [fst snd] in *. rewrite E. split; [exact HG|].
  intros t'. specialize (HL t'). rewrite <- proj_upd in HL. exact HL.
Qed.

(* the sequentially consistent part of a lifted step *)
Lemma sc_step_inv (g : vgst) (ls : nat -> vlst) t u' s' es :
  Inv (proj (g, ls)) -> tag_window_ok (vg g) (vsc (ls t)) ->
  ustep t (vg g) (vsc (ls t)) = Some (u', s', es) ->
  Inv (u', upd_l (fun x => vsc (ls x)) t s').
Proof.
  intros HI Hbt Hs.
  apply (step_inv t (proj (g, ls)) (u', upd_l (fun x => vsc (ls x)) t s') es HI Hbt).
  unfold step1, proj; cbn [fst snd]. rewrite Hs. reflexivity.
Qed.

Ltac vfld := cbn [vg vhist vlastrel vrelby voracle vrace_used vsc vspos vapos vfresh set_v set_vg fst snd] in *.

Lemma pcview_updates u u' l : updates u' = updates u -> PcView u l -> PcView u' l.
Proof. unfold PcView. intros E. destruct (upc_of (vsc l)); auto. rewrite E. auto. Qed.

(* a step that leaves the head word alone *)
Lemma hinv_nohead g ls t G' L' :
  HInv (g, ls) ->
  updates (vg G') = updates (vg g) -> uhead (vg G') = uhead (vg g) -> uown (vg G') = uown (vg g) ->
  vhist G' = vhist g -> vlastrel G' = vlastrel g -> vrace_used G' = vrace_used g ->
  vspos (ls t) <= vspos L' -> vspos L' <= updates (vg g) ->
  PcView (vg G') L' ->
  HInv (G', upd_l ls t L').
Proof.
  intros (H1 & H2 & H3 & H4 & H5 & H6 & H7 & H8) Eu Eh Eo Ehist Elr Er Hsp1 Hsp2 Hpc.
  unfold HInv in *; cbn [fst snd] in *. rewrite Eu, Eh, Eo, Ehist, Elr, Er.
  split; [exact H1|]. split; [exact H2|]. split; [exact H3|].
  split. { intros t'. destruct (Nat.eq_dec t' t) as [->|Hne]; [rewrite upd_l_same; exact Hsp2|rewrite upd_l_other by assumption; apply H4]. }
  split.
  { intros t' i Hi j Hj1 Hj2. destruct (Nat.eq_dec t' t) as [->|Hne].
    - rewrite upd_l_same in Hj1. apply (H5 t i Hi j); lia.
    - rewrite upd_l_other in Hj1 by assumption. apply (H5 t' i Hi j); assumption. }
  split; [exact H6|]. split; [exact H7|].
  intros t'. destruct (Nat.eq_dec t' t) as [->|Hne]; [rewrite upd_l_same; exact Hpc|].
  rewrite upd_l_other by assumption. eapply pcview_updates; [exact Eu|apply H8].
Qed.

(* a successful compare-exchange of the head word by thread t *)
Lemma hinv_head_update g ls t G' L' :
  Inv (proj (g, ls)) -> HInv (g, ls) -> Inv (proj (G', upd_l ls t L')) ->
  updates (vg G') = updates (vg g) + 1 ->
  vhist G' = vhist g ++ [uhead (vg G')] ->
  (forall i t', t' <> t -> nthN (uown (vg G')) i None = Some t' -> nthN (uown (vg g)) i None = Some t') ->
  vspos L' = updates (vg G') ->
  vrace_used G' = false ->
  (forall i, nthN (vlastrel G') i 0 <= updates (vg G')) ->
  PcView (vg G') L' ->
  HInv (G', upd_l ls t L').
Proof.
  intros [HG HL] (H1 & H2 & H3 & H4 & H5 & H6 & H7 & H8) [HG' HL'] Eu Ehist Hown Esp Er Hlr Hpc.
  unfold HInv, proj in *; cbn [fst snd] in *. rewrite Ehist, Eu.
  assert (Hlen : lenN (vhist g) = updates (vg g) + 1) by exact H1.
  split; [rewrite lenN_app; cbn [lenN length N.of_nat]; change (N.of_nat 1) with 1; lia|].
  split. { replace (updates (vg g) + 1) with (lenN (vhist g)) by lia. apply nthN_app_new. }
  split.
  { intros j Hj. destruct (N.eq_dec j (updates (vg g) + 1)) as [->|Hne].
    - replace (updates (vg g) + 1) with (lenN (vhist g)) at 1 by lia. rewrite nthN_app_new.
      destruct HG' as (_ & _ & _ & _ & _ & _ & _ & Haba & _). rewrite Haba, Eu. reflexivity.
    - rewrite nthN_app_old by lia. apply H3. lia. }
  split. { intros t'. destruct (Nat.eq_dec t' t) as [->|Hne]; [rewrite upd_l_same; lia|rewrite upd_l_other by assumption; specialize (H4 t'); lia]. }
  split.
  { intros t' i Hi j Hj1 Hj2. destruct (N.eq_dec j (updates (vg g) + 1)) as [->|Hne].
    - replace (updates (vg g) + 1) with (lenN (vhist g)) by lia. rewrite nthN_app_new.
      destruct (ginv_owned_facts _ i t' HG' Hi) as (_ & _ & A & B & _). split; assumption.
    - rewrite nthN_app_old by lia.
      destruct (Nat.eq_dec t' t) as [->|Hnt].
      + rewrite upd_l_same in Hj1. lia.
      + rewrite upd_l_other in Hj1 by assumption. apply (H5 t' i); [apply Hown; assumption|assumption|lia]. }
  split; [exact Er|]. split; [intros i; specialize (Hlr i); lia|].
  intros t'. destruct (Nat.eq_dec t' t) as [->|Hne]; [rewrite upd_l_same; exact Hpc|].
  rewrite upd_l_other by assumption. specialize (H8 t'). specialize (HL t'). destruct HL as (_ & _ & HPc).
  unfold PcView in *. destruct (upc_of (vsc (ls t'))) as [|ov u0|ov u0|ov nx u0|idx|idx|i m ov u0|i m ov u0|i m ov u0|]; auto.
  cbn [PcInv] in HPc. destruct HPc as ((_ & Hle & _) & _). intros E. lia.
Qed.

Lemma seen_hist g ls j :
  HInv (g, ls) -> j <= updates (vg g) -> seen_ok (vg g) (nthN (vhist g) j 0) j.
Proof.
  intros (H1 & H2 & H3 & _) Hj. cbn [fst] in *. unfold seen_ok.
  split; [apply H3; assumption|]. split; [assumption|]. intros ->. exact H2.
Qed.

(* acquire's loop head, entered with a (possibly stale) head word of position u0 *)
Lemma dispatch_at_inv (g : vgst) (ls : nat -> vlst) t p ov u0 e0 u' s' es :
  Inv (proj (g, ls)) -> inflight (vsc (ls t)) = [] ->
  seen_ok (vg g) ov u0 ->
  acq_dispatch_at (vg g) (vsc (ls t)) p ov u0 e0 = (u', s', es) ->
  Inv (u', upd_l (fun x => vsc (ls x)) t s') /\ u' = vg g /\
  (upc_of s' = UIdle \/ upc_of s' = AcqDist ov u0).
Proof.
  intros [HG HL] Hif Hseen Hd. unfold proj in *; cbn [fst snd] in *. unfold acq_dispatch_at in Hd.
  pose proof (HL t) as (Hnd & Hown & _). unfold owned_by in Hnd, Hown. rewrite Hif in Hnd, Hown.
  destruct (N.leb_spec (ucap (vg g)) (hd_head ov)) as [Hle|Hlt].
  { inversion Hd; subst. split; [|split; [reflexivity|left; reflexivity]].
    apply inv_build; auto. unfold LInv, owned_by, inflight; cbn. auto. }
  destruct (N.eqb_spec (hd_borrowed ov) LOCK_ACQUIRE) as [Hlk|Hnl].
  { inversion Hd; subst. split; [|split; [reflexivity|left; reflexivity]].
    apply inv_build; auto. unfold LInv, owned_by, inflight; cbn. auto. }
  inversion Hd; subst. split; [|split; [reflexivity|right; reflexivity]].
  apply inv_build; auto. unfold LInv, owned_by, inflight; cbn [set_u upc_of uheld PcInv].
  split; [assumption|]. split; [assumption|]. split; [assumption|]. split; assumption.
Qed.

Lemma nthN_updN_cases {A} (l : list A) i v k d : nthN (updN l i v) k d = v \/ nthN (updN l i v) k d = nthN l k d.
Proof.
  destruct (N.eq_dec i k) as [->|Hne]; [|right; apply nthN_updN_other; assumption].
  destruct (N.ltb_spec k (lenN l)) as [Hlt|Hge]; [left; apply nthN_updN_same; assumption|].
  right. unfold nthN, lenN in *. rewrite !nth_overflow; auto; unfold updN; rewrite ?upd_length; lia.
Qed.

Ltac code_ords := cbn [v_aload v_acas v_acas_fail v_rload v_rcas v_rcas_fail uis_ords_code is_acq is_rel andb acq_view] in *.

Theorem vstep_inv t c c' e :
  VInv c -> tag_window_ok (vg (fst c)) (vsc (snd c t)) ->
  step1 (vstep uis_ords_code) t c = Some (c', e) -> VInv c'.
Proof.
  destruct c as [g ls]. intros [HI HH] Hbt Hs. unfold step1 in Hs. cbn [fst snd] in *.
  destruct (vstep uis_ords_code t g (ls t)) as [[[G' L'] e']|] eqn:Est; [|discriminate].
  inversion Hs; subst c' e; clear Hs.
  pose proof HI as [HG HL]. unfold proj in HG, HL; cbn [fst snd] in HG, HL.
  pose proof (HL t) as (HtND & HtOwn & HtPc).
  pose proof HH as (H1 & H2 & H3 & H4 & H5 & H6 & H7 & H8). cbn [fst snd] in H1, H2, H3, H4, H5, H6, H7, H8.
  pose proof (H8 t) as HtV. unfold PcView in HtV.
  unfold vstep in Est.
  destruct (upc_of (vsc (ls t))) as [|ov u0|ov u0|ov nx u0|idx|idx|i m ov u0|i m ov u0|i m ov u0|] eqn:Epc;
    cbn [PcInv] in HtPc.
  - (* UIdle *)
    destruct (uprog (vsc (ls t))) as [|o p] eqn:Eprog; [discriminate|].
    destruct o as [|m front| |].
    + (* UAcq: stale acquire load *)
      unfold next_choice in Est.
      set (kk := match voracle g with [] => 0 | k :: _ => k end) in *.
      pose proof (stale_bounds (updates (vg g)) (vspos (ls t)) kk (H4 t)) as (S1 & S2).
      set (j := stale (updates (vg g)) (vspos (ls t)) kk) in *.
      set (ov := nthN (vhist g) j 0) in *.
      destruct (acq_dispatch_at (vg g) (vsc (ls t)) p ov j (EAcc 10 B_HEAD 0 KLoad Acquire Acquire ov 0 true)) as [[u' s'] es] eqn:Ed.
      assert (Est' : G' = set_vg g u' (vhist g) (vlastrel g) (vrelby g) (tl (voracle g)) (vrace_used g) /\
                     L' = set_v (ls t) s' j (N.max (vapos (ls t)) j) (vfresh (ls t))).
      { subst kk j ov. destruct (voracle g) as [|k orc]; cbn [tl] in *; code_ords; rewrite Ed in Est;
        inversion Est; subst; split; reflexivity. }
      clear Est. destruct Est' as (-> & ->).
      destruct (dispatch_at_inv g ls t p ov j (EAcc 10 B_HEAD 0 KLoad Acquire Acquire ov 0 true) u' s' es HI) as (HI' & -> & Hpc'); auto.
      { unfold inflight. now rewrite Epc. } { apply (seen_hist g ls); assumption. }
      split; [eapply inv_proj_upd; [reflexivity|exact HI']|].
      apply (hinv_nohead g ls t); vfld; auto.
      unfold PcView; vfld. destruct Hpc' as [->| ->]; [exact I|lia].
    + (* URel: stale release load *)
      destruct (if front then uheld (vsc (ls t)) else rev (uheld (vsc (ls t)))) as [|i r] eqn:Eh.
      * inversion Est; subst G' L' e'; clear Est.
        split.
        { eapply inv_proj_upd; [reflexivity|]. cbn [vsc set_v]. apply inv_build; auto.
          unfold LInv, owned_by, inflight in *; cbn [set_u upc_of uheld PcInv]. rewrite Epc in HtND, HtOwn. auto. }
        apply (hinv_nohead g ls t); vfld; auto; try lia; try (unfold PcView; vfld; cbn [set_u upc_of]; exact I).
      * unfold next_choice in Est.
        set (kk := match voracle g with [] => 0 | k :: _ => k end) in *.
        pose proof (stale_bounds (updates (vg g)) (vspos (ls t)) kk (H4 t)) as (S1 & S2).
        set (j := stale (updates (vg g)) (vspos (ls t)) kk) in *.
        set (ov := nthN (vhist g) j 0) in *.
        set (h' := if front then tl (uheld (vsc (ls t))) else removelast (uheld (vsc (ls t)))) in *.
        assert (Est' : G' = set_vg g (vg g) (vhist g) (vlastrel g) (vrelby g) (tl (voracle g)) (vrace_used g) /\
                       L' = set_v (ls t) (set_u (vsc (ls t)) p (RelDist i m ov j) h') j (N.max (vapos (ls t)) j) (vfresh (ls t))).
        { subst kk j ov h'. destruct (voracle g) as [|k orc]; cbn [tl] in *; code_ords;
          inversion Est; subst; split; reflexivity. }
        clear Est. destruct Est' as (-> & ->).
        unfold owned_by, inflight in HtND, HtOwn. rewrite Epc, app_nil_r in HtND, HtOwn.
        assert (Hperm : Permutation (uheld (vsc (ls t))) (h' ++ [i])).
        { subst h'. destruct front.
          - rewrite Eh. cbn [tl]. apply Permutation_cons_append.
          - assert (E : uheld (vsc (ls t)) = rev r ++ [i]) by (rewrite <- (rev_involutive (uheld (vsc (ls t)))), Eh; reflexivity).
            rewrite E, removelast_last. apply Permutation_refl. }
        assert (Hi : nthN (uown (vg g)) i None = Some t).
        { apply HtOwn. eapply Permutation_in; [apply Permutation_sym; exact Hperm|]. apply in_or_app. right. left. reflexivity. }
        split.
        { eapply inv_proj_upd; [reflexivity|]. cbn [vsc set_v vg set_vg]. apply inv_build; auto.
          unfold LInv, owned_by, inflight; cbn [set_u upc_of uheld PcInv].
          split; [eapply Permutation_NoDup; eauto|].
          split; [intros x Hx; apply HtOwn; eapply Permutation_in; [apply Permutation_sym; exact Hperm|exact Hx]|].
          split; [apply (seen_hist g ls); assumption|]. apply (H5 t i Hi j); assumption. }
        apply (hinv_nohead g ls t); vfld; auto; try lia; try (unfold PcView; vfld; cbn [set_u upc_of]; exact I).
    + (* UBorrowed *)
      unfold next_choice in Est.
      set (kk := match voracle g with [] => 0 | k :: _ => k end) in *.
      pose proof (stale_bounds (updates (vg g)) (vspos (ls t)) kk (H4 t)) as (S1 & S2).
      set (j := stale (updates (vg g)) (vspos (ls t)) kk) in *.
      assert (Est' : G' = set_vg g (vg g) (vhist g) (vlastrel g) (vrelby g) (tl (voracle g)) (vrace_used g) /\
                     L' = set_v (ls t) (set_u (vsc (ls t)) p UIdle (uheld (vsc (ls t)))) j (vapos (ls t)) (vfresh (ls t))).
      { subst kk j. destruct (voracle g) as [|k orc]; cbn [tl] in *; inversion Est; subst; split; reflexivity. }
      clear Est. destruct Est' as (-> & ->).
      split.
      { eapply inv_proj_upd; [reflexivity|]. cbn [vsc set_v vg set_vg]. apply inv_build; auto.
        unfold LInv, owned_by, inflight in *; cbn [set_u upc_of uheld PcInv]. rewrite Epc in HtND, HtOwn. auto. }
      apply (hinv_nohead g ls t); vfld; auto; try lia; try (unfold PcView; vfld; cbn [set_u upc_of]; exact I).
    + (* UIsLocked *)
      unfold next_choice in Est.
      set (kk := match voracle g with [] => 0 | k :: _ => k end) in *.
      pose proof (stale_bounds (updates (vg g)) (vspos (ls t)) kk (H4 t)) as (S1 & S2).
      set (j := stale (updates (vg g)) (vspos (ls t)) kk) in *.
      assert (Est' : G' = set_vg g (vg g) (vhist g) (vlastrel g) (vrelby g) (tl (voracle g)) (vrace_used g) /\
                     L' = set_v (ls t) (set_u (vsc (ls t)) p UIdle (uheld (vsc (ls t)))) j (vapos (ls t)) (vfresh (ls t))).
      { subst kk j. destruct (voracle g) as [|k orc]; cbn [tl] in *; inversion Est; subst; split; reflexivity. }
      clear Est. destruct Est' as (-> & ->).
      split.
      { eapply inv_proj_upd; [reflexivity|]. cbn [vsc set_v vg set_vg]. apply inv_build; auto.
        unfold LInv, owned_by, inflight in *; cbn [set_u upc_of uheld PcInv]. rewrite Epc in HtND, HtOwn. auto. }
      apply (hinv_nohead g ls t); vfld; auto; try lia; try (unfold PcView; vfld; cbn [set_u upc_of]; exact I).
  - (* AcqDist *)
    unfold lift in Est. destruct (ustep t (vg g) (vsc (ls t))) as [[[u' s'] es]|] eqn:Eu; [|discriminate].
    inversion Est; subst G' L' e'; clear Est.
    pose proof (sc_step_inv g ls t u' s' es HI Hbt Eu) as HI'.
    unfold ustep in Eu. rewrite Epc in Eu. inversion Eu; subst u' s' es; clear Eu.
    split; [eapply inv_proj_upd; [reflexivity|exact HI']|].
    apply (hinv_nohead g ls t); vfld; auto; try lia; try (unfold PcView; vfld; cbn [set_u upc_of]; exact HtV).
  - (* AcqRead: the plain read of next[head(ov)] *)
    destruct (ustep t (vg g) (vsc (ls t))) as [[[u' s'] es]|] eqn:Eu; [|discriminate].
    inversion Est; subst G' L' e'; clear Est.
    pose proof (sc_step_inv g ls t u' s' es HI Hbt Eu) as HI'.
    unfold ustep in Eu. rewrite Epc in Eu. inversion Eu; subst u' s' es; clear Eu.
    split; [eapply inv_proj_upd; [reflexivity|exact HI']|].
    apply (hinv_nohead g ls t); vfld; auto; try lia. unfold PcView; vfld. cbn [set_u upc_of].
    intros Eu0. destruct HtPc as ((Hs1 & Hs2 & Hs3) & Ha1 & Ha2). specialize (Hs3 Eu0). subst ov.
    destruct (ginv_head_free (vg g) HG Ha1) as (r & _ & _ & Hnone).
    unfold read_fresh. rewrite Hnone.
    assert (Hle : nthN (vlastrel g) (hd_head (uhead (vg g))) 0 <= vapos (ls t)) by (specialize (H7 (hd_head (uhead (vg g)))); lia).
    destruct (N.leb_spec (nthN (vlastrel g) (hd_head (uhead (vg g))) 0) (vapos (ls t))); [reflexivity|lia].
  - (* AcqCas *)
    destruct HtPc as (Hs & Ha & Hn).
    destruct (N.eqb_spec (uhead (vg g)) ov) as [Eeq|Ene].
    + (* success: the value used was read fresh *)
      destruct (ustep t (vg g) (vsc (ls t))) as [[[u' s'] es]|] eqn:Eu; [|discriminate].
      inversion Est; subst G' L' e'; clear Est.
      pose proof (sc_step_inv g ls t u' s' es HI Hbt Eu) as HI'.
      unfold ustep in Eu. rewrite Epc in Eu. destruct (N.eqb_spec (uhead (vg g)) ov) as [_|Hc]; [|contradiction].
      inversion Eu; subst u' s' es; clear Eu.
      assert (Eu0 : u0 = updates (vg g)).
      { destruct Hs as (Hs1 & Hs2 & Hs3). destruct HG as (_ & _ & _ & _ & _ & _ & _ & Haba & _).
        unfold tag_window_ok in Hbt. rewrite Epc in Hbt.
        apply tag_window_eq; auto. rewrite <- Hs1, <- Haba. now rewrite Eeq. }
      specialize (HtV Eu0).
      assert (HI'' : Inv (proj (set_vg g (upd_head (vg g) (hd_value nx (aba_succ (hd_aba ov)) (hd_borrowed ov + 1))
                                   (updN (uown (vg g)) (hd_head ov) (Some t)) (tl (gfree (vg g))))
                                   (vhist g ++ [uhead (upd_head (vg g) (hd_value nx (aba_succ (hd_aba ov)) (hd_borrowed ov + 1))
                                   (updN (uown (vg g)) (hd_head ov) (Some t)) (tl (gfree (vg g))))]) (vlastrel g) (vrelby g) (voracle g)
                                   (vrace_used g || negb (vfresh (ls t))),
                         upd_l ls t (set_v (ls t) (set_u (vsc (ls t)) (uprog (vsc (ls t))) (AcqWDist (hd_head ov)) (uheld (vsc (ls t))))
                                           (updates (upd_head (vg g) (hd_value nx (aba_succ (hd_aba ov)) (hd_borrowed ov + 1))
                                   (updN (uown (vg g)) (hd_head ov) (Some t)) (tl (gfree (vg g)))))
                                           (acq_view uis_ords_code (v_acas uis_ords_code) (ls t) (updates (vg g)))
                                           (vfresh (ls t)))))).
      { eapply inv_proj_upd; [reflexivity|exact HI']. }
      split; [exact HI''|].
      apply (hinv_head_update g ls t); auto; vfld; cbn [upd_head updates uhead uown].
      * intros i t' Hne Hi. destruct (nthN_updN_cases (uown (vg g)) (hd_head ov) (Some t) i None) as [E|E]; rewrite E in Hi; [congruence|assumption].
      * rewrite H6, HtV. reflexivity.
      * intros i. specialize (H7 i). lia.
      * unfold PcView; vfld. cbn [set_u upc_of]. exact I.
    + (* failure: stale re-read *)
      unfold next_choice in Est.
      set (kk := match voracle g with [] => 0 | k :: _ => k end) in *.
      assert (Hu0 : u0 + 1 <= updates (vg g)).
      { destruct Hs as (Hs1 & Hs2 & Hs3). destruct (N.eq_dec u0 (updates (vg g))) as [E|E]; [|lia].
        exfalso. apply Ene. symmetry. apply Hs3. exact E. }
      assert (Hlo : N.max (vspos (ls t)) (u0 + 1) <= updates (vg g)) by (specialize (H4 t); lia).
      pose proof (stale_bounds (updates (vg g)) _ kk Hlo) as (S1 & S2).
      set (j := stale (updates (vg g)) (N.max (vspos (ls t)) (u0 + 1)) kk) in *.
      set (ov' := nthN (vhist g) j 0) in *.
      set (ee := EAcc 12 B_HEAD 0 KCas AcqRel Acquire ov' (hd_value nx (aba_succ (hd_aba ov)) (hd_borrowed ov + 1)) false) in *.
      destruct (acq_dispatch_at (vg g) (vsc (ls t)) (uprog (vsc (ls t))) ov' j ee) as [[u' s'] es] eqn:Ed.
      assert (Est' : G' = set_vg g u' (vhist g) (vlastrel g) (vrelby g) (tl (voracle g)) (vrace_used g) /\
                     L' = set_v (ls t) s' j (N.max (vapos (ls t)) j) (vfresh (ls t))).
      { subst kk j ov' ee. destruct (voracle g) as [|k orc]; cbn [tl] in *; code_ords; rewrite Ed in Est;
        inversion Est; subst; split; reflexivity. }
      clear Est. destruct Est' as (-> & ->).
      destruct (dispatch_at_inv g ls t (uprog (vsc (ls t))) ov' j ee u' s' es HI) as (HI' & -> & Hpc'); auto.
      { unfold inflight. now rewrite Epc. } { apply (seen_hist g ls); assumption. }
      split; [eapply inv_proj_upd; [reflexivity|exact HI']|].
      apply (hinv_nohead g ls t); vfld; auto; try lia.
      unfold PcView; vfld. destruct Hpc' as [->| ->]; [exact I|lia].
  - (* AcqWDist *)
    unfold lift in Est. destruct (ustep t (vg g) (vsc (ls t))) as [[[u' s'] es]|] eqn:Eu; [|discriminate].
    inversion Est; subst G' L' e'; clear Est.
    pose proof (sc_step_inv g ls t u' s' es HI Hbt Eu) as HI'.
    unfold ustep in Eu. rewrite Epc in Eu. inversion Eu; subst u' s' es; clear Eu.
    split; [eapply inv_proj_upd; [reflexivity|exact HI']|].
    apply (hinv_nohead g ls t); vfld; auto; try lia; try (unfold PcView; vfld; cbn [set_u upc_of]; exact I).
  - (* AcqWrite *)
    unfold lift in Est. destruct (ustep t (vg g) (vsc (ls t))) as [[[u' s'] es]|] eqn:Eu; [|discriminate].
    inversion Est; subst G' L' e'; clear Est.
    pose proof (sc_step_inv g ls t u' s' es HI Hbt Eu) as HI'.
    unfold ustep in Eu. rewrite Epc in Eu. inversion Eu; subst u' s' es; clear Eu.
    split; [eapply inv_proj_upd; [reflexivity|exact HI']|].
    apply (hinv_nohead g ls t); vfld; cbn [upd_next updates uhead uown]; auto; try lia;
      try (unfold PcView; vfld; cbn [set_u upc_of]; exact I).
  - (* RelDist *)
    unfold lift in Est. destruct (ustep t (vg g) (vsc (ls t))) as [[[u' s'] es]|] eqn:Eu; [|discriminate].
    inversion Est; subst G' L' e'; clear Est.
    pose proof (sc_step_inv g ls t u' s' es HI Hbt Eu) as HI'.
    unfold ustep in Eu. rewrite Epc in Eu. inversion Eu; subst u' s' es; clear Eu.
    split; [eapply inv_proj_upd; [reflexivity|exact HI']|].
    apply (hinv_nohead g ls t); vfld; auto; try lia; try (unfold PcView; vfld; cbn [set_u upc_of]; exact I).
  - (* RelWrite *)
    unfold lift in Est. destruct (ustep t (vg g) (vsc (ls t))) as [[[u' s'] es]|] eqn:Eu; [|discriminate].
    inversion Est; subst G' L' e'; clear Est.
    pose proof (sc_step_inv g ls t u' s' es HI Hbt Eu) as HI'.
    unfold ustep in Eu. rewrite Epc in Eu.
    destruct (rel_borrowed m (hd_borrowed ov)) as [b'|] eqn:Eb; inversion Eu; subst u' s' es; clear Eu.
    all: split; [eapply inv_proj_upd; [reflexivity|exact HI']|].
    all: apply (hinv_nohead g ls t); vfld; cbn [upd_next updates uhead uown]; auto; try lia;
      try (unfold PcView; vfld; cbn [set_u upc_of]; exact I).
  - (* RelCas *)
    destruct HtPc as (Hs & Hr & Hn).
    assert (Hi : nthN (uown (vg g)) i None = Some t).
    { apply HtOwn. unfold owned_by, inflight. rewrite Epc. apply in_or_app. right. left. reflexivity. }
    destruct (N.eqb_spec (uhead (vg g)) ov) as [Eeq|Ene].
    + (* success *)
      destruct (ustep t (vg g) (vsc (ls t))) as [[[u' s'] es]|] eqn:Eu; [|discriminate].
      inversion Est; subst G' L' e'; clear Est.
      pose proof (sc_step_inv g ls t u' s' es HI Hbt Eu) as HI'.
      unfold ustep in Eu. rewrite Epc in Eu.
      destruct (rel_borrowed m (hd_borrowed ov)) as [b'|] eqn:Eb; [|discriminate].
      destruct (N.eqb_spec (uhead (vg g)) ov) as [_|Hc]; [|contradiction].
      inversion Eu; subst u' s' es; clear Eu.
      split; [eapply inv_proj_upd; [reflexivity|exact HI']|].
      eapply (hinv_head_update g ls t); auto; vfld; cbn [upd_head updates uhead uown].
      * eapply inv_proj_upd; [reflexivity|exact HI'].
      * intros x t' Hne Hx. destruct (nthN_updN_cases (uown (vg g)) i (@None Datatypes.nat) x None) as [E|E]; rewrite E in Hx; [discriminate|assumption].
      * intros x. destruct (nthN_updN_cases (vlastrel g) i (updates (vg g) + 1) x 0) as [E|E]; rewrite E; [lia|]. specialize (H7 x). lia.
    + (* failure: stale re-read *)
      destruct (rel_borrowed m (hd_borrowed ov)) as [b'|] eqn:Eb; [|discriminate].
      unfold next_choice in Est.
      set (kk := match voracle g with [] => 0 | k :: _ => k end) in *.
      assert (Hu0 : u0 + 1 <= updates (vg g)).
      { destruct Hs as (Hs1 & Hs2 & Hs3). destruct (N.eq_dec u0 (updates (vg g))) as [E|E]; [|lia].
        exfalso. apply Ene. symmetry. apply Hs3. exact E. }
      assert (Hlo : N.max (vspos (ls t)) (u0 + 1) <= updates (vg g)) by (specialize (H4 t); lia).
      pose proof (stale_bounds (updates (vg g)) _ kk Hlo) as (S1 & S2).
      set (j := stale (updates (vg g)) (N.max (vspos (ls t)) (u0 + 1)) kk) in *.
      set (ov' := nthN (vhist g) j 0) in *.
      assert (Est' : G' = set_vg g (vg g) (vhist g) (vlastrel g) (vrelby g) (tl (voracle g)) (vrace_used g) /\
                     L' = set_v (ls t) (set_u (vsc (ls t)) (uprog (vsc (ls t))) (RelDist i m ov' j) (uheld (vsc (ls t)))) j
                                (N.max (vapos (ls t)) j) (vfresh (ls t))).
      { subst kk j ov'. destruct (voracle g) as [|k orc]; cbn [tl] in *; code_ords;
        inversion Est; subst; split; reflexivity. }
      clear Est. destruct Est' as (-> & ->).
      split.
      { eapply inv_proj_upd; [reflexivity|]. cbn [vsc set_v vg set_vg]. apply inv_build; auto.
        unfold LInv, owned_by, inflight in *; cbn [set_u upc_of uheld PcInv]. rewrite Epc in HtND, HtOwn.
        split; [assumption|]. split; [assumption|].
        split; [apply (seen_hist g ls); assumption|]. apply (H5 t i Hi j); lia. }
      apply (hinv_nohead g ls t); vfld; auto; try lia; try (unfold PcView; vfld; cbn [set_u upc_of]; exact I).
  - (* UDead *)
    unfold lift in Est. unfold ustep in Est. rewrite Epc in Est. discriminate.
Qed.

(* ---------------- every configuration reached through tag-bounded states ---------------- *)
Definition vbounded (c : cfg vgst vlst) : Prop := bounded_tag (proj c).

Theorem uisra_inv_reach c dist orc progs cfg0 :
  c < 16777215 -> reach_via (vstep uis_ords_code) vbounded (vinit c dist orc progs) cfg0 -> VInv cfg0.
Proof.
  intros Hc Hr. induction Hr as [H0|t c0 c' e Hr IH Hs HP].
  - apply vinv_init. assumption.
  - eapply vstep_inv; eauto. pose proof (reach_via_P _ _ _ _ Hr) as Hb. exact (Hb t).
Qed.

Lemma acq_dispatch_at_g g l p ov u0 e0 u' s' es : acq_dispatch_at g l p ov u0 e0 = (u', s', es) -> u' = g.
Proof. unfold acq_dispatch_at. intros H. destruct (N.leb _ _); [|destruct (N.eqb _ _)]; inversion H; reflexivity. Qed.

Lemma vstep_cap Q t g l g' l' e : vstep Q t g l = Some (g', l', e) -> ucap (vg g') = ucap (vg g).
Proof.
  unfold vstep, lift, next_choice. intros H.
  repeat match type of H with
  | context [ustep ?a ?b ?c] => let E := fresh "E" in destruct (ustep a b c) as [[[? ?] ?]|] eqn:E; [apply ustep_cap in E|]
  | context [acq_dispatch_at ?a ?b ?c ?d ?f ?h] => let E := fresh "E" in destruct (acq_dispatch_at a b c d f h) as [[? ?] ?] eqn:E; apply acq_dispatch_at_g in E
  | context [match ?x with _ => _ end] => destruct x
  | context [let '(_, _) := ?x in _] => destruct x
  end; inversion H; subst; cbn [vg set_vg]; auto.
Qed.

Lemma vreach_cap c dist orc progs cfg0 :
  reach_via (vstep uis_ords_code) vbounded (vinit c dist orc progs) cfg0 -> ucap (vg (fst cfg0)) = c.
Proof.
  intros Hr. induction Hr as [H0|t c0 c' e Hr IH Hs HP]; [reflexivity|].
  destruct c0 as [g ls]. unfold step1 in Hs. cbn [fst snd] in *.
  destruct (vstep uis_ords_code t g (ls t)) as [[[g' l'] e']|] eqn:Est; [|discriminate].
  inversion Hs; subst c' e. cbn [fst]. rewrite (vstep_cap _ _ _ _ _ _ _ Est). exact IH.
Qed.

(* Under release/acquire semantics with arbitrarily stale loads and failed compare-exchanges of
   the head word: the free list is still a duplicate-free path, it and the owned indices
   partition [0, capacity), no index is owned twice, and no value of a next cell that a
   successful compare-exchange used was read racily. *)
Theorem uisra_exclusive_and_used_race_free c dist orc progs g ls :
  c < 16777215 -> reach_via (vstep uis_ords_code) vbounded (vinit c dist orc progs) (g, ls) ->
  vrace_used g = false /\
  fpath (unext (vg g)) c (hd_head (uhead (vg g))) (gfree (vg g)) /\ NoDup (gfree (vg g)) /\
  (forall i, i < c -> (In i (gfree (vg g)) <-> nthN (uown (vg g)) i None = None)) /\
  (forall t t' i, In i (owned_by (vsc (ls t))) ->
     i < c /\ ~ In i (gfree (vg g)) /\ NoDup (owned_by (vsc (ls t))) /\ (In i (owned_by (vsc (ls t'))) -> t = t')).
Proof.
  intros Hc Hr. pose proof (uisra_inv_reach _ _ _ _ _ Hc Hr) as [[HG HL] HH].
  pose proof (vreach_cap _ _ _ _ _ Hr) as Ec. unfold proj in *; cbn [fst snd] in *.
  destruct HH as (_ & _ & _ & _ & _ & Hrace & _).
  pose proof HG as (_ & _ & _ & _ & Hfp & Hnd & Hpart & _). rewrite Ec in *.
  split; [exact Hrace|]. split; [exact Hfp|]. split; [exact Hnd|]. split; [exact Hpart|].
  intros t t' i Hi. destruct (HL t) as (Hnd' & Hown & _). pose proof (Hown i Hi) as Ho.
  destruct (ginv_owned_facts (vg g) i t HG Ho) as (Hlt & Hni & _). rewrite Ec in Hlt.
  repeat split; auto. intros Hi'. destruct (HL t') as (_ & Hown' & _). specialize (Hown' i Hi'). congruence.
Qed.

(* the acquire load must be an acquire: with a Relaxed load the read of next[head] that a
   successful compare-exchange uses is unordered with the previous owner's write of that cell *)
Definition uis_weak_load : vords :=
  {| v_aload := Relaxed; v_acas := AcqRel; v_acas_fail := Acquire; v_rload := Acquire; v_rcas := AcqRel; v_rcas_fail := Acquire |}.
Definition uis_weak_cas : vords :=
  {| v_aload := Acquire; v_acas := AcqRel; v_acas_fail := Acquire; v_rload := Acquire; v_rcas := Acquire; v_rcas_fail := Acquire |}.
Definition uis_weak_fail : vords :=
  {| v_aload := Acquire; v_acas := AcqRel; v_acas_fail := Relaxed; v_rload := Acquire; v_rcas := AcqRel; v_rcas_fail := Acquire |}.
Definition ra_progs (t : nat) : list uop :=
  match t with O => [UAcq; URel MDefault true] | S O => [UAcq] | _ => [] end.
(* thread 0 acquires and releases index 0, then thread 1 acquires it *)
Definition ra_sched : list nat := [0;0;0;0;0;0; 0;0;0;0; 1;1;1;1;1;1]%nat.
(* thread 1 loads the head first, loses its compare-exchange against thread 0's acquire+release
   and retries with the value the failed compare-exchange returned *)
Definition ra_sched_fail : list nat := [1;1;1; 0;0;0;0;0;0; 0;0;0;0; 1; 1;1;1;1;1]%nat.
Definition used_race_after (Q : vords) (s : list nat) : bool :=
  vrace_used (fst (fst (run (vstep Q) s (vinit 2 32 [] ra_progs)))).
Example uisra_orderings_necessary :
  used_race_after uis_weak_load ra_sched = true /\
  used_race_after uis_weak_cas ra_sched = true /\
  used_race_after uis_weak_fail ra_sched_fail = true /\
  used_race_after uis_ords_code ra_sched = false /\
  used_race_after uis_ords_code ra_sched_fail = false.
Proof. vm_compute. repeat split. Qed.

(* non-vacuity: a reachable, tag-bounded state in which a stale load happened (thread 1 read the
   initial head word although thread 0 had already acquired index 0; its compare-exchange
   failed and it acquired index 1) *)
Example uisra_nonvacuous_stale :
  let c := fst (run (vstep uis_ords_code) [0;0;0;0;0;0; 1;1;1;1;1;1;1;1;1]%nat (vinit 2 32 [0; 5] ra_progs)) in
  uheld (vsc (snd c 0%nat)) = [0] /\ uheld (vsc (snd c 1%nat)) = [1] /\ vrace_used (fst c) = false /\
  updates (vg (fst c)) = 2.
Proof. vm_compute. repeat split. Qed.

(* ---------------- what the OutOfIndices verdict refers to under stale reads ---------------- *)
Lemma dispatch_at_ooi g l p ov u0 e0 u' s' es :
  acq_dispatch_at g l p ov u0 e0 = (u', s', es) -> In (ERet RC_OUT_OF_INDICES) es -> (forall c, e0 <> ERet c) -> ucap g <= hd_head ov.
Proof.
  unfold acq_dispatch_at. intros H Hin He.
  destruct (N.leb_spec (ucap g) (hd_head ov)) as [Hle|Hlt]; [exact Hle|].
  destruct (N.eqb (hd_borrowed ov) LOCK_ACQUIRE); inversion H; subst; cbn [In] in Hin.
  - destruct Hin as [Hin|[Hin|[]]]; [exfalso; eapply He; eauto|]. injection Hin as Hin. unfold RC_IS_LOCKED, RC_OUT_OF_INDICES, rc in Hin. lia.
  - destruct Hin as [Hin|[]]. exfalso; eapply He; eauto.
Qed.

(* under stale reads the verdict OutOfIndices refers to the head word at the position the thread
   observed last, which is not older than its previous observation *)
Lemma vret_out_of_indices_source Q t g l g' l' es :
  vstep Q t g l = Some (g', l', es) -> In (ERet RC_OUT_OF_INDICES) es ->
  ucap (vg g) <= hd_head (nthN (vhist g) (vspos l') 0).
Proof.
  unfold vstep, lift, next_choice. intros H Hin.
  repeat match type of H with
  | context [ustep ?a ?b ?c] => let E := fresh "E" in destruct (ustep a b c) as [[[? ?] ?]|] eqn:E
  | context [acq_dispatch_at ?a ?b ?c ?d ?f ?h] => let E := fresh "E" in destruct (acq_dispatch_at a b c d f h) as [[? ?] ?] eqn:E
  | context [match ?x with _ => _ end] => let E := fresh "E" in destruct x eqn:E
  | context [let '(_, _) := ?x in _] => destruct x
  end; inversion H; subst; clear H; cbn [vspos set_v] in *.
  all: try (eapply dispatch_at_ooi; [eassumption|assumption|intros c Hc; discriminate]).
  all: try (cbn [In] in Hin; repeat match goal with Hin : _ \/ _ |- _ => destruct Hin as [Hin|Hin] | Hin : False |- _ => destruct Hin end; try discriminate;
            injection Hin as Hin; unfold rc_is_locked, RC_OUT_OF_INDICES, rc_borrowed, rc, bool_code in Hin;
            repeat match type of Hin with context [match ?b with _ => _ end] => destruct b end; lia).
  all: try (match goal with E : ustep _ _ _ = Some _ |- _ => destruct (ret_out_of_indices_source _ _ _ _ _ _ E Hin) as (_ & [Hp|(? & ? & ? & Hp)]); congruence end).
  unfold ustep in E. rewrite E0, E1 in E. inversion E; subst. cbn [In] in Hin. destruct Hin as [Hin|[]]. discriminate.
Qed.
